From Coq Require Import List NArith Lia Bool.
From Coq Require Import Strings.Byte.
Import ListNotations.
Local Open Scope N_scope.
Definition code (b : byte) : N := Byte.to_N b.
Definition all_bytes : list byte :=
  map (fun n => match Byte.of_N n with Some b => b | None => x00 end) (map N.of_nat (seq 0 256)).
Lemma all_bytes_spec (P : byte -> bool) : forallb P all_bytes = true -> forall b, P b = true.
Proof.
  intros H b. rewrite forallb_forall in H. apply H. unfold all_bytes.
  apply in_map_iff. exists (Byte.to_N b). rewrite Byte.of_to_N. split; [reflexivity|].
  apply in_map_iff. exists (N.to_nat (Byte.to_N b)). rewrite N2Nat.id. split; [reflexivity|].
  apply in_seq. pose proof (Byte.to_N_bounded b). lia.
Qed.
Lemma all_bytes2_spec (P : byte -> byte -> bool) :
  forallb (fun a => forallb (P a) all_bytes) all_bytes = true -> forall a b, P a b = true.
Proof. intros H a b. apply all_bytes_spec. apply (all_bytes_spec (fun a => forallb (P a) all_bytes)). exact H. Qed.
Lemma all_bytes3_spec (P : byte -> byte -> byte -> bool) :
  forallb (fun a => forallb (fun b => forallb (P a b) all_bytes) all_bytes) all_bytes = true -> forall a b c, P a b c = true.
Proof. intros H a b c. apply all_bytes_spec. apply (all_bytes2_spec (fun a b => forallb (P a b) all_bytes)). exact H. Qed.

(* C-like two- and three-byte decode *)
Definition cont (b : byte) : option N :=
  if N.land (code b) 192 =? 128 then Some (N.land (code b) 63) else None.
Definition dec2 (c c1 : byte) : option N :=
  if N.land (code c) 224 =? 192 then
    match cont c1 with
    | Some v => let r := N.lor (N.shiftl (N.land (code c) 31) 6) v in if 128 <=? r then Some r else None
    | None => None end
  else None.
Definition dec3 (c c1 c2 : byte) : option N :=
  if N.land (code c) 240 =? 224 then
    match cont c1, cont c2 with
    | Some v1, Some v2 =>
      let r := N.lor (N.lor (N.shiftl (N.land (code c) 15) 12) (N.shiftl v1 6)) v2 in
      if (2048 <=? r) && ((r <? 55296) || (57343 <? r)) then Some r else None
    | _, _ => None end
  else None.
Definition in_range (lo hi : N) (b : byte) := (lo <=? code b) && (code b <=? hi).
Definition spec2 (c c1 : byte) : option N :=
  if in_range 194 223 c && in_range 128 191 c1 then Some ((code c - 192) * 64 + (code c1 - 128)) else None.
Definition spec3 (c c1 c2 : byte) : option N :=
  if ((in_range 224 224 c && in_range 160 191 c1) || (in_range 225 236 c && in_range 128 191 c1)
      || (in_range 237 237 c && in_range 128 159 c1) || (in_range 238 239 c && in_range 128 191 c1))
     && in_range 128 191 c2
  then Some ((code c - 224) * 4096 + (code c1 - 128) * 64 + (code c2 - 128)) else None.
Definition opt_eqb (a b : option N) := match a, b with Some x, Some y => x =? y | None, None => true | _, _ => false end.
Lemma dec2_ok : forall c c1, opt_eqb (dec2 c c1) (spec2 c c1) = true.
Proof. apply all_bytes2_spec. vm_compute. reflexivity. Qed.
Lemma dec3_ok : forall c c1 c2, opt_eqb (dec3 c c1 c2) (spec3 c c1 c2) = true.
Proof. apply all_bytes3_spec. vm_compute. reflexivity. Qed.
Print Assumptions dec3_ok.
