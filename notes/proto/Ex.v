Require Import L5321.
Require Import ExtrOcamlBasic.
Extraction "m5321.ml" local5321 Byte.of_N.
