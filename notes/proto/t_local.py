import sys, itertools
from spec import *
drv=sys.argv[1]; maxlen=int(sys.argv[2])
alpha=[0x61,DOT,DQ,BS,SP,HT,CR,LF,0x28,0x01,0x7f,0x23]
for mode in ('822','5321','5322'):
    cases=[]
    for n in range(0,maxlen+1):
        for t in itertools.product(alpha,repeat=n): cases.append(t)
    out=run(drv,["l%s %s"%(mode,bytes(t).hex()) for t in cases])
    bad=0
    for t,o in zip(cases,out):
        imp = (o=='0'); sp=local_spec(mode,list(t))
        if imp!=sp:
            bad+=1
            if bad<=8: print(mode,repr(bytes(t)),'impl',o,'spec',sp)
    print(mode,'cases',len(cases),'disagree',bad)
