#include <stdio.h>
#include <stdlib.h>
#include <string.h>
#include <eav.h>
static const char *pool[]={"a@ok.com","a@b","bad@@","x@[1.2.3.4]","u@\xd0\xbf\xd0\xbe\xd1\x87\xd1\x82\xd0\xb0.\xd1\x80\xd1\x84","i@xn--zz.com","s@mail.test","\"q\"@ok.ru","",".a@ok.com","n@abarth.abarth","l@[IPv6:::1]","e@-a.com"};
#define NP (sizeof pool/sizeof pool[0])
static unsigned long s=1; static unsigned rnd(void){ s=s*6364136223846793005UL+1442695040888963407UL; return (unsigned)(s>>33);} 
static void snap(eav_t*e,int r,char*out){ const char*m=eav_errstr(e); snprintf(out,256,"%d e%d %s rc%d idn%d %d%d%d",r,e->errcode,m?m:"(null)",e->result->rc,e->result->idn_rc,e->result->is_ipv4,e->result->is_ipv6,e->result->is_domain);} 
int main(int argc,char**argv){ s=argc>1?strtoul(argv[1],0,10):1; int bad=0;
  eav_t *e=malloc(sizeof *e); memset(e,0xA5,sizeof *e); eav_init(e); eav_setup(e); int mode=3;
  for(int i=0;i<200000;i++){ unsigned k=rnd()%10;
    if(k==0){ e->rfc=rnd()%6; int r=eav_setup(e); if(r==0) mode=e->rfc; else if(r!=EEAV_INVALID_RFC){printf("setup rc %d\n",r);bad++;} else { if(strcmp(eav_errstr(e),"invalid RFC specified")){ if(bad<5)printf("errstr after bad setup: %s\n",eav_errstr(e)); bad++; } e->rfc=mode; } }
    else if(k==1) e->tld_check=rnd()&1;
    else if(k==2) e->allow_tld=rnd()&0x7ff;
    else if(k==3){ eav_free(e); memset(e,0xA5,sizeof *e); eav_init(e); e->rfc=mode=rnd()%4; eav_setup(e);} 
    else { const char*a=pool[rnd()%NP]; int r=eav_is_email(e,a,strlen(a)); char x[256],y[256]; snap(e,r,x);
      eav_t f; memset(&f,0x5A,sizeof f); eav_init(&f); f.rfc=mode; f.tld_check=e->tld_check; f.allow_tld=e->allow_tld; eav_setup(&f); int r2=eav_is_email(&f,a,strlen(a)); snap(&f,r2,y); eav_free(&f);
      if(strcmp(x,y)){ if(bad<5) printf("DIFF %s | %s | %s\n",a,x,y); bad++; } }
  }
  eav_free(e); free(e); printf("bad=%d\n",bad); return bad!=0; }
