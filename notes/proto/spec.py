import itertools, subprocess, sys
DQ,BS,DOT,SP,HT,CR,LF=0x22,0x5c,0x2e,0x20,0x09,0x0d,0x0a
SPECIALS=set(b'()<>@,;:\\".[]')
WS={SP,HT,CR,LF}
def atext(c, nonascii_ok=False, rfc20=False):
    if c>127: return nonascii_ok
    if rfc20 and c in b'#^`{|}~': return False
    return 33<=c<=126 and c not in SPECIALS
def qbody_end(mode, s, i):
    """s[i-1] is opening DQ; return index after closing DQ or None"""
    n=len(s)
    while i<n:
        c=s[i]
        if mode!='6531' and c>127: return None
        if c==DQ: return i+1
        if c==BS:
            if i+1>=n: return None
            e=s[i+1]
            if mode!='6531' and e>127: return None
            if mode in('5321','6531'):
                if not (32<=e<=126): return None
            i+=2; continue
        if mode=='822':
            if c==CR:
                if i+2<n and s[i+1]==LF and s[i+2] in (SP,HT): i+=3; continue
                return None
            i+=1; continue
        if mode in('5321','6531'):
            if c<=127 and not (32<=c<=126): return None
            i+=1; continue
        if mode=='5322':
            if c in WS:
                p=s[i-1]
                ok = p==DQ or p in WS
                if not ok:
                    if i+1>=n: return None
                    nx=s[i+1]
                    ok = nx==DQ or nx in WS
                if not ok: return None
            i+=1; continue
    return None
def local_spec(mode, s, rfc20=False):
    # s: list of ints (bytes for ascii modes; code points for 6531)
    n=len(s)
    if n==0: return False
    i=0
    while True:
        if i>=n: return False
        if s[i]==DQ:
            j=qbody_end(mode,s,i+1)
            if j is None: return False
            i=j
        else:
            j=i
            while j<n and atext(s[j], mode=='6531', rfc20 and mode=='6531'): j+=1
            if j==i: return False
            i=j
        if i==n: return True
        if s[i]!=DOT: return False
        i+=1
def utf8_decode(b):
    try: return [ord(ch) for ch in bytes(b).decode('utf-8',errors='strict')]
    except UnicodeDecodeError: return None
def local6531_spec(b, rfc20=False):
    cps=utf8_decode(b)
    if cps is None: return False
    return local_spec('6531',cps,rfc20)
def host_spec(d, us=False):
    if len(d)==0: return False
    if d[-1]==DOT and len(d)>=2: core=d[:-1]
    else: core=d
    if len(core)>253: return False
    labels=bytes(core).split(b'.')
    for l in labels:
        if not (1<=len(l)<=63): return False
        for c in l:
            if not (chr(c).isalnum() and c<128 or c==0x2d or (us and c==0x5f)): return False
        if l[0]==0x2d or l[-1]==0x2d: return False
    if all((0x30<=c<=0x39) or c==DOT for c in d): return False
    return True
def run(drv, lines):
    p=subprocess.run([drv],input="\n".join(lines)+"\n",capture_output=True,text=True)
    return p.stdout.split("\n")[:-1]
