import sys, itertools
from spec import *
drvd, drvo = sys.argv[1], sys.argv[2]; maxlen=int(sys.argv[3])
alpha=[0x61,DOT,DQ,BS,SP,HT,CR,LF,0x28,0x01,0x7f,0x23]
cases=[]
for n in range(0,maxlen+1):
    for t in itertools.product(alpha,repeat=n): cases.append(bytes(t))
o6=run(drvo,["l6531 "+t.hex() for t in cases]); o5=run(drvo,["l5322 "+t.hex() for t in cases]); d6=run(drvd,["l6531 "+t.hex() for t in cases])
def has_rfc20_outside(t):
    # outside quotes per 5322-ish scanning: approximate using spec parse: any rfc20 char in an atom
    q=False; esc=False
    for c in t:
        if q:
            if esc: esc=False
            elif c==BS: esc=True
            elif c==DQ: q=False
        else:
            if c==DQ: q=True
            elif c in b'#^`{|}~': return True
    return False
bad=0
for t,a,b in zip(cases,o6,o5):
    # with both options on: 6531 accept <=> 5322 accept and no rfc20 char outside quotes
    want = (b=='0') and not has_rfc20_outside(t)
    if (a=='0')!=want:
        bad+=1
        if bad<=10: print('f5322+rfc20',t,'6531opt',a,'5322',b)
print('cases',len(cases),'disagree',bad)
# other functions unchanged between builds
for fn in ('l822','l5321','l5322'):
    x=run(drvd,[fn+" "+t.hex() for t in cases]); y=run(drvo,[fn+" "+t.hex() for t in cases])
    print(fn,'changed by options:',sum(1 for p,q in zip(x,y) if p!=q))
dal=[0x61,0x31,0x2d,DOT,0x5f,0x21]
dc=[bytes(t) for n in range(0,7) for t in itertools.product(dal,repeat=n)]
x=run(drvo,["dom "+t.hex() for t in dc]); y=run(drvd,["dom "+t.replace(b'_',b'a').hex() for t in dc])
print('underscore rule violations', sum(1 for p,q in zip(x,y) if (p=='0')!=(q=='0')), 'of', len(dc))
