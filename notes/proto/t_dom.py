import sys, itertools
from spec import *
drv=sys.argv[1]; maxlen=int(sys.argv[2])
alpha=[0x61,0x31,0x2d,DOT,0x5f,0x21,0xc3]
cases=[]
for n in range(0,maxlen+1):
    for t in itertools.product(alpha,repeat=n): cases.append(bytes(t))
# boundary
for ll in range(0,71):
    for pos in range(3):
        labs=[b'ab',b'cd',b'ef']; labs[pos]=b'x'*ll
        d=b'.'.join(labs); cases.append(d); cases.append(d+b'.')
for tot in range(240,261):
    # labels of 50 + filler
    s=b''; 
    while len(s)+51<=tot: s+=b'a'*50+b'.'
    rem=tot-len(s)
    if rem>0: s+=b'b'*rem
    else: s=s[:-1]+b'c' if len(s)>0 else s
    if len(s)==tot:
        cases.append(s); cases.append(s+b'.')
out=run(drv,["dom %s"%(t.hex()) for t in cases])
bad=0
for t,o in zip(cases,out):
    imp=(o=='0'); sp=host_spec(t)
    if imp!=sp:
        bad+=1
        if bad<=12: print(repr(t[:80]),len(t),'impl',o,'spec',sp)
print('dom cases',len(cases),'disagree',bad)
