open M5321
(* build N from int *)
let rec pos_of_int n = if n = 1 then XH else if n land 1 = 0 then XO (pos_of_int (n lsr 1)) else XI (pos_of_int (n lsr 1))
let n_of_int n = if n = 0 then N0 else Npos (pos_of_int n)
let tbl = Array.init 256 (fun i -> match of_N (n_of_int i) with Some b -> b | None -> assert false)
let rec int_of_pos = function XH -> 1 | XO p -> 2 * int_of_pos p | XI p -> 2 * int_of_pos p + 1
let int_of_z = function Z0 -> 0 | Zpos p -> int_of_pos p | Zneg p -> - (int_of_pos p)
let hexv c = if c <= '9' then Char.code c - 48 else (Char.code c lor 32) - 87
let () =
  try while true do
    let line = input_line stdin in
    let i = String.index line ' ' in
    let h = String.sub line (i+1) (String.length line - i - 1) in
    let n = String.length h / 2 in
    let l = List.init n (fun k -> tbl.(hexv h.[2*k] * 16 + hexv h.[2*k+1])) in
    print_string (string_of_int (int_of_z (local5321 l))); print_char '\n'
  done with End_of_file -> ()
