import sys, itertools
from spec import *
drv=sys.argv[1]; maxlen=int(sys.argv[2])
syms=[[0x61],[DOT],[DQ],[BS],[SP],[0x01],[0x28],[0xd0,0xb0],[0xe4,0xb8,0xad],[0xf0,0x9f,0x98,0x80],[0xc0],[0x80],[0xed,0xa0,0x80]]
cases=[]
for n in range(0,maxlen+1):
    for t in itertools.product(syms,repeat=n): cases.append(sum(t,[]))
out=run(drv,["l6531 %s"%(bytes(t).hex()) for t in cases])
bad=0
for t,o in zip(cases,out):
    imp=(o=='0'); sp=local6531_spec(t)
    if imp!=sp:
        bad+=1
        if bad<=12: print(repr(bytes(t)),'impl',o,'spec',sp)
print('6531 cases',len(cases),'disagree',bad)
# ascii agreement with 5321 incl error code
alpha=[0x61,DOT,DQ,BS,SP,HT,CR,LF,0x28,0x01,0x7f,0x23]
cases=[]
for n in range(0,min(maxlen,5)+1):
    for t in itertools.product(alpha,repeat=n): cases.append(t)
o1=run(drv,["l6531 %s"%(bytes(t).hex()) for t in cases]); o2=run(drv,["l5321 %s"%(bytes(t).hex()) for t in cases])
o3=run(drv,["l822 %s"%(bytes(t).hex()) for t in cases]); o4=run(drv,["l5322 %s"%(bytes(t).hex()) for t in cases])
d=[(bytes(t),a,b) for t,a,b in zip(cases,o1,o2) if (a=='0')!=(b=='0')]
print('6531 vs 5321 decision diffs',len(d),d[:5])
d=[(bytes(t),a,b) for t,a,b in zip(cases,o1,o2) if a!=b]
print('6531 vs 5321 code diffs',len(d),d[:8])
d=[(bytes(t),a,b,c,e) for t,a,b,c,e in zip(cases,o1,o2,o3,o4) if DQ not in t and BS not in t and len({a,b,c,e})>1]
print('C12 plain (no DQ/BS) code diffs among 4 modes',len(d),d[:8])
d=[(bytes(t),b,c) for t,b,c in zip(cases,o2,o3) if b=='0' and c!='0']
print('5321 accepted but 822 rejected',len(d),d[:8])
