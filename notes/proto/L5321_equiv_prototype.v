From Coq Require Import List NArith ZArith Lia Bool.
From Coq Require Import Strings.Byte.
Import ListNotations.
Local Open Scope N_scope.

Definition code (b : byte) : N := Byte.to_N b.
Definition DQ := x22. Definition BS := x5c. Definition DOT := x2e.

Definition specials : list N := [40;41;60;62;64;44;59;58;92;91;93;32].
Definition is_special (c : N) : bool := existsb (N.eqb c) specials.
Definition is_cntrl (c : N) : bool := (c <? 32) || (c =? 127).

Inductive st := Out | InQ | InQP.

(* error codes as small Z constants (stand-ins for GenEnums) *)
Local Open Scope Z_scope.
Definition E_NOT_ASCII := -6. Definition E_SPECIAL := -7. Definition E_CTRL := -8.
Definition E_MQUOTE := -9. Definition E_UNQUOTED := -10. Definition E_TMD := -11.
Definition E_MDOT := -12. Definition E_EMPTY := -4.
Local Close Scope Z_scope.

Definition final (s : st) : Z := match s with Out => 0%Z | _ => E_UNQUOTED end.

Fixpoint scan (s : st) (prev : option byte) (l : list byte) : Z :=
  match l with
  | [] => final s
  | b :: r =>
    let c := code b in
    if c =? 0 then final s else
    if 127 <? c then E_NOT_ASCII else
    if is_cntrl c then E_CTRL else
    match s with
    | Out =>
      if c =? 34 then
        match prev with
        | None => scan InQ (Some b) r
        | Some p => if code p =? 46 then scan InQ (Some b) r else E_MQUOTE
        end
      else if c =? 46 then
        match prev with
        | None => E_MDOT
        | Some _ =>
          match r with
          | [] => E_MDOT
          | n :: _ => if code n =? 46 then E_TMD else scan Out (Some b) r
          end
        end
      else if is_special c then E_SPECIAL
      else scan Out (Some b) r
    | InQP => scan InQ (Some b) r
    | InQ =>
      if c =? 34 then
        match r with
        | [] => scan Out (Some b) r
        | n :: _ => if code n =? 46 then scan Out (Some b) r else E_MQUOTE
        end
      else if c =? 92 then scan InQP (Some b) r
      else scan InQ (Some b) r
    end
  end.

Definition local5321 (l : list byte) : Z :=
  match l with [] => E_EMPTY | _ => scan Out None l end.

(* ---------- specification ---------- *)
Definition printable (b : byte) : Prop := 32 <= code b <= 126.
Definition atext (b : byte) : Prop :=
  33 <= code b <= 126 /\ is_special (code b) = false /\ code b <> 34 /\ code b <> 46.
Definition qtext (b : byte) : Prop := printable b /\ code b <> 34 /\ code b <> 92.

Inductive qb : list byte -> Prop :=
| qb_nil : qb []
| qb_text b r : qtext b -> qb r -> qb (b :: r)
| qb_pair b r : printable b -> qb r -> qb (BS :: b :: r).

Inductive word : list byte -> Prop :=
| w_atom a : a <> [] -> Forall atext a -> word a
| w_quoted q : qb q -> word (DQ :: q ++ [DQ]).

Inductive words : list byte -> Prop :=
| ws_one w : word w -> words w
| ws_more w r : word w -> words r -> words (w ++ DOT :: r).

Definition nulfree (l : list byte) := Forall (fun b => code b <> 0) l.

(* ---------- helper facts ---------- *)
Lemma code_inj a b : code a = code b -> a = b.
Proof. unfold code. intro H. apply (f_equal Byte.of_N) in H. rewrite !Byte.of_to_N in H. congruence. Qed.

Lemma code_DQ : code DQ = 34. Proof. reflexivity. Qed.
Lemma code_BS : code BS = 92. Proof. reflexivity. Qed.
Lemma code_DOT : code DOT = 46. Proof. reflexivity. Qed.

Lemma cntrl_false c : 32 <= c <= 126 -> is_cntrl c = false.
Proof. intros H. unfold is_cntrl. apply orb_false_iff. split.
  - apply N.ltb_ge; lia. - apply N.eqb_neq; lia. Qed.

Ltac cases_eqb :=
  repeat match goal with
  | |- context [ ?a =? ?b ] => destruct (N.eqb_spec a b)
  | |- context [ ?a <? ?b ] => destruct (N.ltb_spec a b)
  end.

(* one step on an ordinary printable char, generic *)
Lemma scan_step_printable s prev b r :
  32 <= code b <= 126 ->
  scan s prev (b :: r) =
    match s with
    | Out =>
      if code b =? 34 then
        match prev with
        | None => scan InQ (Some b) r
        | Some p => if code p =? 46 then scan InQ (Some b) r else E_MQUOTE
        end
      else if code b =? 46 then
        match prev with
        | None => E_MDOT
        | Some _ =>
          match r with
          | [] => E_MDOT
          | n :: _ => if code n =? 46 then E_TMD else scan Out (Some b) r
          end
        end
      else if is_special (code b) then E_SPECIAL
      else scan Out (Some b) r
    | InQP => scan InQ (Some b) r
    | InQ =>
      if code b =? 34 then
        match r with
        | [] => scan Out (Some b) r
        | n :: _ => if code n =? 46 then scan Out (Some b) r else E_MQUOTE
        end
      else if code b =? 92 then scan InQP (Some b) r
      else scan InQ (Some b) r
    end.
Proof.
  intros H. cbn [scan]. 
  destruct (N.eqb_spec (code b) 0); [lia|].
  destruct (N.ltb_spec 127 (code b)); [lia|].
  rewrite cntrl_false by lia. reflexivity.
Qed.

(* ---------- completeness: spec -> accepted ---------- *)
Lemma atext_printable b : atext b -> 32 <= code b <= 126.
Proof. unfold atext; lia. Qed.

Lemma scan_atext prev b r : atext b -> scan Out prev (b :: r) = scan Out (Some b) r.
Proof.
  intros Ha. rewrite scan_step_printable by (apply atext_printable; exact Ha).
  destruct Ha as (_ & Hs & H34 & H46).
  destruct (N.eqb_spec (code b) 34); [contradiction|].
  destruct (N.eqb_spec (code b) 46); [contradiction|].
  rewrite Hs. reflexivity.
Qed.

Definition last_or (prev : option byte) (a : list byte) : option byte :=
  match rev a with [] => prev | x :: _ => Some x end.

Lemma scan_atom a : Forall atext a -> forall prev rest,
  a <> [] -> exists p, atext p /\ scan Out prev (a ++ rest) = scan Out (Some p) rest.
Proof.
  induction 1 as [|b a Hb Ha IH]; intros prev rest Hne; [congruence|].
  cbn [app]. rewrite scan_atext by exact Hb.
  destruct a as [|c a'].
  - exists b. split; [exact Hb|reflexivity].
  - apply IH. discriminate.
Qed.

Lemma scan_q_prev s p p' l : s <> Out -> scan s p l = scan s p' l.
Proof.
  revert s p p'. induction l as [|b r IH]; intros s p p' Hs; [reflexivity|].
  cbn [scan]. destruct s; try congruence; reflexivity.
Qed.

Lemma scan_qb q : qb q -> forall p rest, scan InQ p (q ++ rest) = scan InQ p rest.
Proof.
  induction 1 as [|b r (Hp & H34 & H92) Hq IH | b r Hp Hq IH]; intros p rest.
  - reflexivity.
  - cbn [app]. rewrite scan_step_printable by exact Hp.
    destruct (N.eqb_spec (code b) 34); [contradiction|].
    destruct (N.eqb_spec (code b) 92); [contradiction|].
    rewrite (scan_q_prev InQ (Some b) p) by discriminate. apply IH.
  - cbn [app]. rewrite scan_step_printable by (rewrite code_BS; lia).
    rewrite code_BS. cbn [N.eqb Pos.eqb].
    rewrite scan_step_printable by exact Hp.
    rewrite (scan_q_prev InQ (Some b) p) by discriminate. apply IH.
Qed.

Lemma words_head l : words l -> exists n r, l = n :: r /\ code n <> 46.
Proof.
  assert (Hw : forall w, word w -> forall t, exists n r, w ++ t = n :: r /\ code n <> 46).
  { intros w Hw t. destruct Hw as [a Hne Ha | q Hq].
    - destruct a as [|n a']; [congruence|]. exists n, (a' ++ t). split; [reflexivity|].
      inversion Ha as [|? ? Hn _]; subst. unfold atext in Hn. lia.
    - exists DQ, ((q ++ [DQ]) ++ t). split; [reflexivity|]. rewrite code_DQ. lia. }
  intros H. destruct H as [w Hword | w r Hword _].
  - destruct (Hw w Hword []) as (n & r & E & Hn). rewrite app_nil_r in E. eauto.
  - apply Hw. exact Hword.
Qed.

Definition boundary (prev : option byte) := prev = None \/ exists p, prev = Some p /\ code p = 46.

Lemma scan_dot p r : words r -> scan Out (Some p) (DOT :: r) = scan Out (Some DOT) r.
Proof.
  intros Hr. destruct (words_head r Hr) as (n & r' & -> & Hn).
  rewrite scan_step_printable by (rewrite code_DOT; lia).
  rewrite code_DOT. cbn [N.eqb Pos.eqb].
  destruct (N.eqb_spec (code n) 46); [contradiction|reflexivity].
Qed.

Lemma scan_open prev r : boundary prev -> scan Out prev (DQ :: r) = scan InQ (Some DQ) r.
Proof.
  intros Hb. rewrite scan_step_printable by (rewrite code_DQ; lia).
  rewrite code_DQ. cbn [N.eqb Pos.eqb].
  destruct Hb as [-> | (p & -> & Hp)]; [reflexivity|].
  rewrite Hp. reflexivity.
Qed.

Theorem complete l : words l -> forall prev, boundary prev -> scan Out prev l = 0%Z.
Proof.
  induction 1 as [w Hw | w r Hw Hr IH]; intros prev Hb.
  - destruct Hw as [a Hne Ha | q Hq].
    + destruct (scan_atom a Ha prev [] Hne) as (p & _ & E). rewrite app_nil_r in E. rewrite E. reflexivity.
    + rewrite scan_open by exact Hb. rewrite scan_qb by exact Hq.
      rewrite scan_step_printable by (rewrite code_DQ; lia). reflexivity.
  - assert (Hdot : boundary (Some DOT)) by (right; exists DOT; split; reflexivity).
    destruct Hw as [a Hne Ha | q Hq].
    + destruct (scan_atom a Ha prev (DOT :: r) Hne) as (p & _ & E). rewrite E.
      rewrite scan_dot by exact Hr. apply IH. exact Hdot.
    + cbn [app]. rewrite scan_open by exact Hb.
      rewrite <- app_assoc. rewrite scan_qb by exact Hq. cbn [app].
      rewrite scan_step_printable by (rewrite code_DQ; lia).
      rewrite code_DQ, code_DOT. cbn [N.eqb Pos.eqb].
      rewrite scan_dot by exact Hr. apply IH. exact Hdot.
Qed.

(* ---------- soundness: accepted -> spec ---------- *)
Lemma scan_ok_printable s prev b r :
  code b <> 0 -> scan s prev (b :: r) = 0%Z -> 32 <= code b <= 126.
Proof.
  intros H0. cbn [scan].
  destruct (N.eqb_spec (code b) 0); [contradiction|].
  destruct (N.ltb_spec 127 (code b)); [discriminate|].
  unfold is_cntrl.
  destruct (N.ltb_spec (code b) 32); [discriminate|].
  destruct (N.eqb_spec (code b) 127); [discriminate|].
  cbn [orb]. lia.
Qed.

Lemma special_32 c : is_special c = false -> c <> 32.
Proof. intros H ->. discriminate H. Qed.

Definition tail_ok (t : list byte) := t = [] \/ exists r, t = DOT :: r /\ words r.

Definition head_not_dot (l : list byte) := match l with [] => True | n :: _ => code n <> 46 end.
Definition boundary' (prev : option byte) (l : list byte) :=
  prev = None \/ (exists p, prev = Some p /\ code p = 46) /\ head_not_dot l.

Definition PA (l : list byte) := forall prev, boundary' prev l -> l <> [] -> nulfree l ->
  scan Out prev l = 0%Z -> words l.
Definition PB (l : list byte) := forall p, code p <> 46 -> nulfree l ->
  scan Out (Some p) l = 0%Z -> exists a t, l = a ++ t /\ Forall atext a /\ tail_ok t.
Definition PD (l : list byte) := forall prev, nulfree l ->
  scan InQ prev l = 0%Z -> exists q t, l = q ++ DQ :: t /\ qb q /\ tail_ok t.
Definition PE (l : list byte) := forall prev, nulfree l ->
  scan InQP prev l = 0%Z -> exists b q t, l = b :: q ++ DQ :: t /\ printable b /\ qb q /\ tail_ok t.

Lemma sound_all l : PA l /\ PB l /\ PD l /\ PE l.
Proof.
  induction l as [|b r (IHA & IHB & IHD & IHE)].
  { repeat split.
    - intros prev _ Hne; congruence.
    - intros p _ _ _. exists [], []. repeat split; [constructor|left; reflexivity].
    - intros prev _ H. discriminate H.
    - intros prev _ H. discriminate H. }
  assert (Hnf : nulfree (b :: r) -> code b <> 0 /\ nulfree r).
  { intros H. inversion H; subst. split; assumption. }
  repeat split.
  - (* PA *)
    intros prev Hb _ Hn H. destruct (Hnf Hn) as (H0 & Hnr).
    pose proof (scan_ok_printable _ _ _ _ H0 H) as Hp.
    rewrite scan_step_printable in H by exact Hp.
    destruct (N.eqb_spec (code b) 34) as [E34|N34].
    + assert (Hq : scan InQ (Some b) r = 0%Z).
      { destruct Hb as [-> | ((p & -> & Hp46) & _)]; [exact H|]. rewrite Hp46 in H. exact H. }
      destruct (IHD _ Hnr Hq) as (q & t & -> & Hqb & Ht).
      assert (b = DQ) as -> by (apply code_inj; rewrite code_DQ; exact E34).
      destruct Ht as [-> | (r' & -> & Hw)].
      * apply ws_one. apply w_quoted. exact Hqb.
      * replace (DQ :: q ++ DQ :: DOT :: r') with ((DQ :: q ++ [DQ]) ++ DOT :: r')
          by (cbn [app]; rewrite <- app_assoc; reflexivity).
        apply ws_more; [apply w_quoted; exact Hqb | exact Hw].
    + destruct (N.eqb_spec (code b) 46) as [E46|N46].
      * exfalso. destruct Hb as [-> | (_ & Hh)]; [discriminate H|]. apply Hh. exact E46.
      * destruct (is_special (code b)) eqn:Hs; [discriminate H|].
        pose proof (special_32 _ Hs) as H32.
        assert (Hab : atext b) by (unfold atext; repeat split; try assumption; lia).
        destruct (IHB b N46 Hnr H) as (a & t & -> & Ha & Ht).
        destruct Ht as [-> | (r' & -> & Hw)].
        -- rewrite app_nil_r. apply ws_one. apply w_atom; [discriminate|]. constructor; assumption.
        -- replace (b :: a ++ DOT :: r') with ((b :: a) ++ DOT :: r') by reflexivity.
           apply ws_more; [|exact Hw]. apply w_atom; [discriminate|]. constructor; assumption.
  - (* PB *)
    intros p Hp46 Hn H. destruct (Hnf Hn) as (H0 & Hnr).
    pose proof (scan_ok_printable _ _ _ _ H0 H) as Hp.
    rewrite scan_step_printable in H by exact Hp.
    destruct (N.eqb_spec (code b) 34) as [E34|N34].
    + destruct (N.eqb_spec (code p) 46); [contradiction|discriminate H].
    + destruct (N.eqb_spec (code b) 46) as [E46|N46].
      * destruct r as [|n r']; [discriminate H|].
        destruct (N.eqb_spec (code n) 46) as [En|Nn]; [discriminate H|].
        assert (b = DOT) as -> by (apply code_inj; rewrite code_DOT; exact E46).
        assert (Hw : words (n :: r')).
        { apply (IHA (Some DOT)); [right; split; [exists DOT; split; reflexivity|exact Nn] | discriminate | exact Hnr | exact H]. }
        exists [], (DOT :: n :: r'). repeat split; [constructor|]. right. eauto.
      * destruct (is_special (code b)) eqn:Hs; [discriminate H|].
        pose proof (special_32 _ Hs) as H32.
        assert (Hab : atext b) by (unfold atext; repeat split; try assumption; lia).
        destruct (IHB b N46 Hnr H) as (a & t & -> & Ha & Ht).
        exists (b :: a), t. repeat split; [constructor; assumption|exact Ht].
  - (* PD *)
    intros prev Hn H. destruct (Hnf Hn) as (H0 & Hnr).
    pose proof (scan_ok_printable _ _ _ _ H0 H) as Hp.
    rewrite scan_step_printable in H by exact Hp.
    destruct (N.eqb_spec (code b) 34) as [E34|N34].
    + assert (b = DQ) as -> by (apply code_inj; rewrite code_DQ; exact E34).
      exists [], r. repeat split; [constructor|].
      destruct r as [|n r']; [left; reflexivity|].
      destruct (N.eqb_spec (code n) 46) as [En|Nn]; [|discriminate H].
      assert (Hq : code DQ <> 46) by (rewrite code_DQ; lia).
      destruct (IHB DQ Hq Hnr H) as (a & t & E & Ha & Ht).
      destruct a as [|x a'].
      * cbn [app] in E. subst t. exact Ht.
      * exfalso. cbn [app] in E. inversion E; subst x. inversion Ha as [|? ? Hx _]; subst.
        unfold atext in Hx. lia.
    + destruct (N.eqb_spec (code b) 92) as [E92|N92].
      * assert (b = BS) as -> by (apply code_inj; rewrite code_BS; exact E92).
        destruct (IHE _ Hnr H) as (c & q & t & -> & Hc & Hq & Ht).
        exists (BS :: c :: q), t. repeat split; [|exact Ht]. apply qb_pair; assumption.
      * destruct (IHD _ Hnr H) as (q & t & -> & Hq & Ht).
        exists (b :: q), t. repeat split; [|exact Ht]. apply qb_text; [|exact Hq].
        unfold qtext, printable. repeat split; lia || assumption.
  - (* PE *)
    intros prev Hn H. destruct (Hnf Hn) as (H0 & Hnr).
    pose proof (scan_ok_printable _ _ _ _ H0 H) as Hp.
    rewrite scan_step_printable in H by exact Hp.
    destruct (IHD _ Hnr H) as (q & t & -> & Hq & Ht).
    exists b, q, t. repeat split; try assumption; unfold printable; lia.
Qed.

Theorem local5321_correct l : nulfree l -> (local5321 l = 0%Z <-> words l).
Proof.
  intros Hn. split.
  - destruct l as [|b r]; [discriminate|]. cbn [local5321]. intros H.
    apply (proj1 (sound_all (b :: r)) None); [left; reflexivity | discriminate | exact Hn | exact H].
  - intros Hw. destruct (words_head l Hw) as (n & r & -> & _). cbn [local5321].
    apply complete; [exact Hw | left; reflexivity].
Qed.
Print Assumptions local5321_correct.
