import sys, itertools
from spec import *
drv=sys.argv[1]
alpha=[b'a',b'B',b'1',b'-',b'.',b'_',b'!',b'xn--',b'com',b'test',b'example']
cases=[b''.join(t) for n in range(1,6) for t in itertools.product(alpha,repeat=n)]
cases=list(dict.fromkeys(cases))
for t in ('0','1'):
    a=run(drv,["e0%s "%t+(b'u@'+c).hex() for c in cases]); u=run(drv,["e3%s "%t+(b'u@'+c).hex() for c in cases])
    bad=0; idnrej=0
    for c,x,y in zip(cases,a,u):
        ra=int(x.split()[0]); ru=int(y.split()[0])
        ok = (ra==ru) or (ru==-2)
        if ru==-2: idnrej+=1
        # flags: compare only when both accepted-ish (rc>=0)
        if not ok:
            bad+=1
            if bad<=10: print('tld',t,c,'ascii',x,'6531',y)
    print('tld',t,'cases',len(cases),'violations',bad,'idn-errors',idnrej)
