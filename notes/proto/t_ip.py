import sys, itertools, re
from spec import *
drv=sys.argv[1]; maxlen=int(sys.argv[2])
HEX=re.compile(rb'^[0-9a-fA-F]{1,4}$')
def v4_upper(c):
    p=c.split(b'.')
    return len(p)==4 and all(len(x)>0 and x.isdigit() and int(x)<=255 for x in p)
def v4_lower(c):
    p=c.split(b'.')
    return len(p)==4 and all(1<=len(x)<=3 and x.isdigit() and int(x)<=255 for x in p) and int(p[0])!=0
def groups_ok(gs): return all(HEX.match(g) for g in gs)
def v6_parse(a, v4ok):
    """returns (ngroups(with v4=2), has_dc) or None"""
    if a.count(b'::')>1: return None
    def side(s, allow_v4):
        if s==b'': return 0
        gs=s.split(b':')
        n=0
        for i,g in enumerate(gs):
            if i==len(gs)-1 and allow_v4 and b'.' in g:
                if not v4ok(g): return None
                n+=2
            else:
                if not HEX.match(g): return None
                n+=1
        return n
    if b'::' in a:
        l,r=a.split(b'::',1)
        if b':::' in a: return None
        nl=side(l,False); nr=side(r,True)
        if nl is None or nr is None: return None
        return (nl+nr,True,nl,nr)
    n=side(a,True)
    if n is None or a==b'': return None
    return (n,False,n,0)
def v6_upper(a):
    r=v6_parse(a,v4_upper)
    if r is None: return False
    n,dc=r[0],r[1]
    return (n<=7) if dc else (n==8)
def v6_lower(a):
    r=v6_parse(a,v4_lower)
    if r is None: return False
    n,dc=r[0],r[1]
    hasv4=b'.' in a
    if not dc: return n==8
    return n<=6  # comp: <=6 groups; v4-comp: <=4 groups + v4(2) = 6
def upper(c, tail):
    if tail!=b'': return False
    if v4_upper(c): return 'v4'
    if c.startswith(b'IPv6:') and v6_upper(c[5:]): return 'v6'
    if v6_upper(c): return 'v6'
    return False
def lower(c):
    if v4_lower(c): return 'v4'
    if c.startswith(b'IPv6:') and v6_lower(c[5:]): return 'v6'
    return False
cases=[]
alpha=[b'1',b'0',b'a',b'g',b':',b'.',b'::',b'255',b'256',b'12345']
for n in range(0,maxlen+1):
    for t in itertools.product(alpha,repeat=n):
        c=b''.join(t)
        for tag in (b'',b'IPv6:'):
            cases.append((tag+c,b''))
shapes=[b'1.2.3.4',b'1:2:3:4:5:6:7:8',b'::1',b'1::',b'1:2:3:4:5:6:1.2.3.4',b'::ffff:1.2.3.4',b'1:2:3:4:5:6:7',b'1:2:3:4:5:6:7:',b':1:2:3:4:5:6:7',b'1:2:3:4:5:6:7:8:9',b'1::2:3:4:5:6:7',b'1:2:3:4:5:6::7',b'1:2:3:4:5::1.2.3.4',b'1:2:3:4::1.2.3.4',b'0.1.2.3',b'00.1.2.3',b'1.2.3.4.',b'1.2.3',b'1..2.3',b'01.02.03.004',b'1:2:1.2.3.4',b'::0.1.2.3',b'1:2:3:4:5:6:7:8.1']
for s in shapes:
    for tag in (b'',b'IPv6:',b'ipv6:',b'IPv5:',b'x:',b'IPv6',b'IPv6::'):
        for tail in (b'',b'x',b']',b' '):
            cases.append((tag+s,tail))
lines=["e01 "+(b'x@['+c+b']'+t).hex() for c,t in cases]
out=run(drv,lines)
badU=badL=badF=0
for (c,t),o in zip(cases,out):
    rc,fl=o.split(); acc=(rc=='0')
    u=upper(c,t); l=lower(c) if t==b'' else False
    if acc and not u:
        badU+=1
        if badU<=10: print('UPPER viol',c,t,o)
    if l and not acc:
        badL+=1
        if badL<=10: print('LOWER viol',c,t,o)
    if acc and u:
        want='100' if u=='v4' else '010'
        if fl!=want:
            badF+=1
            if badF<=5: print('FLAG viol',c,t,o,u)
print('ip cases',len(cases),'upper viol',badU,'lower viol',badL,'flag viol',badF)
