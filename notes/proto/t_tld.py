import sys, csv, random, itertools
from spec import *
drv=sys.argv[1]
rows=list(csv.reader(open('/repo/data/punycode.csv',encoding='utf-8')))[1:]
TYPES={'generic':3,'country-code':2,'generic-restricted':4,'infrastructure':5,'test':7,'sponsored':6}
tbl={}
for d,t,m in rows:
    c=TYPES[t]
    if m.lower().startswith('not assigned'): c=1
    elif m.lower().startswith('retired'): c=9
    assert d not in tbl and d==d.lower()
    tbl[d]=c
print('rows',len(rows),'classes',sorted(set(tbl.values())))
RES={'test','example','invalid','localhost','onion'}; EX={'example.com','example.net','example.org'}
def expect(d):
    s=d.decode().lower(); labs=s.split('.')
    if labs[-1] in RES or '.'.join(labs[-2:]) in EX: return 8
    if len(labs)==1: return -23
    return tbl.get(labs[-1],-26)
random.seed(1)
cases=[]
names=list(tbl)
def variants(n): return {n, n.upper(), ''.join(ch.upper() if i%2 else ch for i,ch in enumerate(n))}
pre=[b'',b'a.',b'abcdefg.',b'a.b.',b'example.',b'abcdefg.x.',b'x.abcdefg.']
for n in names:
    for v in variants(n):
        for p in random.sample(pre,3): cases.append(p+v.encode())
    # near misses
    cases.append(b'a.'+n[:-1].encode()) if len(n)>1 else None
    cases.append(b'a.'+(n+'a').encode()); cases.append(b'a.'+('a'+n).encode())
    cases.append((n+'.zzzzzz').encode())
for suf in ['test','example','invalid','localhost','onion','example.com','example.net','example.org','tests','exampl','examplea','xexample.com','example.comm','example.co','example.edu','localhos','onions','invalid.com','test.com','example.com.au']:
    for v in variants(suf):
        for k in range(0,4):
            for L in (1,3,6,7,8,63):
                p=b''.join((b'x'*L)+b'.' for _ in range(k))
                cases.append(p+v.encode())
cases=[c for c in cases if c and host_spec(c) and not c.endswith(b'.')]
cases=list(dict.fromkeys(cases))
for mode in ('e01','e31'):
    out=run(drv,[mode+" "+(b'u@'+c).hex() for c in cases])
    bad=0
    for c,o in zip(cases,out):
        rc=int(o.split()[0]); ex=expect(c)
        if rc!=ex:
            bad+=1
            if bad<=10: print(mode,c,'impl',rc,'expect',ex)
    print(mode,'cases',len(cases),'disagree',bad)
