#include <stdio.h>
#include <string.h>
#include <stdlib.h>
#include <eav.h>
/* line: fn hex  -> prints rc (and flags for email) */
static int hexv(int c){ return c<='9'?c-'0':(c|32)-'a'+10; }
int main(void){
  char line[1<<17]; static char buf[1<<16];
  while (fgets(line,sizeof line,stdin)){
    char fn[32]; char hex[1<<16]; hex[0]=0;
    int n=sscanf(line,"%31s %65535s",fn,hex);
    if(n<1) continue; size_t L=strlen(hex)/2;
    for(size_t i=0;i<L;i++) buf[i]=(char)(hexv(hex[2*i])*16+hexv(hex[2*i+1]));
    buf[L]=0;
    int rc=999;
    if(!strcmp(fn,"l822")) rc=is_822_local(buf,buf+L);
    else if(!strcmp(fn,"l5321")) rc=is_5321_local(buf,buf+L);
    else if(!strcmp(fn,"l5322")) rc=is_5322_local(buf,buf+L);
    else if(!strcmp(fn,"l6531")) rc=is_6531_local(buf,buf+L);
    else if(!strcmp(fn,"dom")) rc=is_ascii_domain(buf,buf+L);
    else if(!strcmp(fn,"spec")) rc=is_special_domain(buf,buf+L);
    else if(!strcmp(fn,"tld")) rc=is_tld(buf,buf+L);
    else if(fn[0]=='e'){ /* e<mode><tld> */
      eav_result_t*r; int t=fn[2]=='1';
      switch(fn[1]){case '0': r=is_822_email(buf,L,t);break;case '1': r=is_5321_email(buf,L,t);break;
        case '2': r=is_5322_email(buf,L,t);break; default: r=is_6531_email(buf,L,t);}
      printf("%d %d%d%d\n",r->rc,r->is_ipv4,r->is_ipv6,r->is_domain); eav_result_free(r); continue; }
    printf("%d\n",rc);
  }
  return 0;
}
