(* SafetyProofs.v — the part of C06 a model can carry: no abort(), no NULL callback, allocation balance,
   every eav_t field written by eav_init, and the look-ahead discipline of the scanners (what lies beyond
   the end pointer influences the result through at most the single byte at [end]). *)
From Coq Require Import List NArith ZArith Bool Lia Arith.
From Coq Require Import Strings.Byte.
Require Import Bytes Codes Local Local6531 Domain Ip Special Email EmailProofs Api ApiProofs TldProofs.
Import ListNotations.
Local Open Scope Z_scope.

(* ---- no abort(): with the shipped table every result code is <= 9 ---- *)
Theorem no_abort idn g tbl s a : table_ok tbl -> snd (is_email idn g tbl s a) <> OAbort.
Proof.
  intros Ht. unfold is_email. destruct (callback s) as [m|]; [|discriminate].
  pose proof (email_rc_range idn g tbl Ht m (e_tldc s) a) as Hr. unfold judge.
  destruct (rc _ =? 0) eqn:E0; [discriminate|]. destruct (rc _ <? 0) eqn:En; [discriminate|].
  apply Z.eqb_neq in E0. apply Z.ltb_ge in En.
  assert ((1 <=? rc (email idn g tbl m (e_tldc s) a)) && (rc (email idn g tbl m (e_tldc s) a) <=? 9) = true) as ->
    by (apply andb_true_iff; rewrite !Z.leb_le; lia).
  destruct (negb _); discriminate.
Qed.

(* ---- no NULL callback after a successful eav_setup ---- *)
Theorem no_null_callback idn g tbl s0 ops m a :
  st_mode (settings_of settings_init ops) = Some m ->
  snd (is_email idn g tbl (fst (run idn g tbl s0 (Init :: ops))) a) <> OFault.
Proof.
  intros Hm.
  assert (Ht : tracks (settings_of settings_init ops) (fst (run idn g tbl s0 (Init :: ops)))).
  { cbn [run step]. pose proof (tracks_run idn g tbl settings_init (init_state (e_live s0)) ops (tracks_init _)) as H.
    destruct (run idn g tbl (init_state (e_live s0)) ops) as [s2 xs]. exact H. }
  destruct Ht as (_ & Hc & _). unfold is_email. rewrite Hc, Hm. unfold judge.
  repeat match goal with |- context [if ?c then _ else _] => destruct c end; discriminate.
Qed.

(* ---- look-ahead discipline ---- *)
(* the ASCII scanners: of everything after the end pointer only the first byte can matter *)
Lemma scan_rest_irrelevant m r1 r2 : hd_code r1 = hd_code r2 -> forall n l, (length l <= n)%nat -> forall s p,
  scan m r1 s p l = scan m r2 s p l.
Proof.
  intros Hh. induction n as [|n IH]; intros l Hl s p; [destruct l; [reflexivity|cbn in Hl; lia]|].
  destruct l as [|b r]; [reflexivity|]. cbn [length] in Hl. cbn [scan]. rewrite Hh.
  repeat match goal with
         | |- context [if ?c then _ else _] => destruct c
         | |- context [match ?v with _ => _ end] => destruct v
         end; try reflexivity; apply IH; cbn [length] in *; lia.
Qed.

Theorem local_lookahead_one_byte m l r1 r2 : hd_code r1 = hd_code r2 -> local m l r1 = local m l r2.
Proof. intros H. unfold local. destruct l; [reflexivity|]. apply (scan_rest_irrelevant m r1 r2 H (length (b :: l))). lia. Qed.

(* the host-name scanner: likewise *)
Lemma dscan_after_irrelevant us a1 a2 : nul_or_dot a1 = nul_or_dot a2 -> forall l ll nn,
  dscan us ll nn l a1 = dscan us ll nn l a2.
Proof.
  intros Hh. induction l as [|b r IH]; intros ll nn; [reflexivity|]. cbn [dscan].
  assert (Hn : nul_or_dot (r ++ a1) = nul_or_dot (r ++ a2)) by (destruct r; [exact Hh|reflexivity]).
  rewrite Hn, !IH. reflexivity.
Qed.

Theorem ascii_domain_lookahead_one_byte us d r1 r2 : nul_or_dot r1 = nul_or_dot r2 -> ascii_domain us d r1 = ascii_domain us d r2.
Proof.
  intros H. unfold ascii_domain. destruct d; [reflexivity|].
  destruct (Nat.leb 255 (length (b :: d)) || (Nat.eqb (length (b :: d)) 254 && negb (last_is_dot (b :: d)))); [reflexivity|].
  destruct (Nat.leb 2 (length (b :: d)) && last_is_dot (b :: d)); [apply dscan_after_irrelevant; reflexivity|]. apply dscan_after_irrelevant. exact H.
Qed.

(* the 6531 scanner and the decoder take no [rest] at all: they never look at or past the end pointer *)

(* ---- the label buffer of is_special_domain: only labels of at most 9 bytes are copied (64-byte array) ---- *)
Theorem special_copies_are_short (l : list byte) : bad_len (length l) = false -> (length l <= 9)%nat.
Proof. unfold bad_len. rewrite !orb_false_iff. intros (((_ & H) & _) & _). apply Nat.ltb_ge in H. exact H. Qed.

(* ---- integer ranges: counters stay far below INT_MAX ---- *)
Lemma octet_accumulator_bounded v c : (v <= 255)%N -> (48 <= c <= 57)%N -> (v * 10 + (c - 48) <= 2559)%N.
Proof. lia. Qed.
