(* Properties_C19.v — C19: IDN-library failures are contained. *)
From Coq Require Import List NArith ZArith Lia Bool.
From Coq Require Import Strings.Byte.
Require Import Bytes Codes Hex Local Local6531 LocalSpec LocalProofs Utf8Spec Local6531Spec Local6531Proofs Domain DomainSpec DomainProofs Ip Special SpecialProofs Email EmailProofs Api ApiProofs TldProofs EnumTie DiagProofs.
Require Gen.GenEnums.
Import ListNotations.
From Coq Require Strings.String.
Import Strings.String.StringSyntax.
Local Open Scope string_scope.

(* whatever error code the conversion returns, with or without an output buffer: the address is rejected with the
   IDN error code, the library's own code is recorded, nothing is flagged as a domain *)
Theorem C19_failure_is_a_clean_rejection :
  forall idn g tbl t l d e buf, ~ In AT d -> d <> [] -> hd NUL d <> LBR ->
    (length l <= 64)%nat -> local6531 g l = 0%Z -> idn d = IdnErr e buf ->
    let r := email idn g tbl M6531 t (l ++ AT :: d) in
    rc r = E_IDN /\ idn_rc r = e /\ is_ipv4 r = false /\ is_ipv6 r = false /\ is_domain r = false /\
    lpart r = None /\ domain r = None.
Proof. exact idn_failure_contained. Qed.
Print Assumptions C19_failure_is_a_clean_rejection.

(* eav_is_email then returns 0, records EEAV_IDN_ERROR, and eav_errstr is the IDN library's message for that code *)
Theorem C19_reported_with_the_library_message :
  forall s r e, rc r = E_IDN -> idn_rc r = e ->
    snd (judge s r) = ORet 0 /\ e_errcode (fst (judge s r)) = EEAV_IDN_ERROR /\ errstr (fst (judge s r)) = MsgIdn e.
Proof.
  intros s r e Hr He. destruct (judge_negative s r) as (A & B & C); [rewrite Hr; reflexivity|].
  rewrite Hr in *. subst e. repeat split; assumption.
Qed.
Print Assumptions C19_reported_with_the_library_message.

(* no leak, no double free: the allocation count moves exactly as for any other outcome *)
Theorem C19_allocation_balance_kept :
  forall idn g tbl s a, balanced s -> callback s <> None -> balanced (fst (is_email idn g tbl s a)).
Proof. intros idn g tbl s a Hb Hc. exact (balanced_step idn g tbl s (IsEmail a) Hb Hc). Qed.
Print Assumptions C19_allocation_balance_kept.

(* the next validation on the same object behaves as if the failure had not happened:
   its outcome is a function of the settings only (C13), which a validation does not change *)
Theorem C19_next_call_unaffected :
  forall idn g tbl, table_ok tbl -> forall s a b, callback s <> None ->
    observable (is_email idn g tbl (fst (is_email idn g tbl s a)) b) = observable (is_email idn g tbl s b).
Proof.
  intros idn g tbl Ht s a b Hc.
  assert (Hf : callback (fst (is_email idn g tbl s a)) = callback s /\ e_tldc (fst (is_email idn g tbl s a)) = e_tldc s /\
               e_allow (fst (is_email idn g tbl s a)) = e_allow s).
  { unfold is_email. destruct (callback s) as [m|] eqn:E; [|congruence].
    destruct (judge_frame s (email idn g tbl m (e_tldc s) a)) as (F1 & F2 & F3 & F4 & F5 & F6).
    unfold callback in *. rewrite F2, F3, F4, F5, F6. auto. }
  destruct Hf as (H1 & H2 & H3).
  destruct (history_independence idn g tbl Ht _ _ b H1 H2 H3) as [H|H]; [exact H|]. rewrite H1 in H. contradiction.
Qed.
Print Assumptions C19_next_call_unaffected.

Example C19_example :
  let idn := fun d => IdnErr (-100) true in
  let s := fst (setup (init_state 0)) in
  snd (is_email idn cfg0 tld_list s (bs "a@b.org")) = ORet 0 /\
  errstr (fst (is_email idn cfg0 tld_list s (bs "a@b.org"))) = MsgIdn (-100) /\
  e_live (fst (is_email idn cfg0 tld_list s (bs "a@b.org"))) = 1%Z.
Proof. cbv zeta. repeat split; vm_compute; reflexivity. Qed.
