(* CrossMode.v — C12: the four local-part scanners agree (same return code) on plain ASCII,
   mode 5321 is included in mode 822, the ASCII composers share one domain verdict. *)
From Coq Require Import List NArith ZArith Bool Lia.
From Coq Require Import Strings.Byte.
Require Import Bytes Codes Local Local6531 LocalSpec LocalProofs Utf8Spec Local6531Spec Local6531Proofs Domain Ip Special Email.
Import ListNotations.
Local Open Scope N_scope.

(* pure ASCII, no DQUOTE, no backslash, no NUL *)
Definition plain_byte (b : byte) : Prop := 1 <= code b <= 127 /\ code b <> 34 /\ code b <> 92.
Definition plain (l : list byte) : Prop := Forall plain_byte l.

(* the previous byte and the next byte are not both dots *)
Definition no_dd (prev : option byte) (l : list byte) : Prop :=
  match prev, l with
  | Some p, n :: _ => ~ (code p = 46 /\ code n = 46)
  | _, _ => True
  end.

Lemma scan_modes_agree m1 m2 r1 r2 l : plain l -> forall prev,
  scan m1 r1 Out prev l = scan m2 r2 Out prev l.
Proof.
  induction 1 as [|b r (Hr & H34 & H92) Hp IH]; intros prev; [reflexivity|].
  cbn [scan].
  destruct (N.eqb_spec (code b) 0); [lia|].
  destruct (N.ltb_spec 127 (code b)); [lia|].
  assert (ctrl_rejected m1 Out = true) as -> by (destruct m1; reflexivity).
  assert (ctrl_rejected m2 Out = true) as -> by (destruct m2; reflexivity).
  destruct (true && is_cntrl (code b)); [reflexivity|].
  destruct (N.eqb_spec (code b) 34); [contradiction|].
  destruct (N.eqb_spec (code b) 46).
  - destruct prev; [|reflexivity]. destruct r as [|y r']; [reflexivity|].
    destruct (code y =? 46); [reflexivity|apply IH].
  - destruct (is_special (code b)); [reflexivity|apply IH].
Qed.

Lemma scan6_dot_dot g r : f5322 g = false -> scan6 g Out (Some DOT) (DOT :: r) = E_TMD.
Proof.
  intros Hf. rewrite scan6_ascii by (exact Hf || (rewrite code_DOT; lia)). rewrite code_DOT. reflexivity.
Qed.

Lemma scan_6531_agree m rest l : plain l -> forall prev, no_dd prev l ->
  scan m rest Out prev l = scan6 cfg0 Out prev l.
Proof.
  induction 1 as [|b r (Hr & H34 & H92) Hp IH]; intros prev Hdd; [reflexivity|].
  rewrite scan6_ascii by (reflexivity || lia). cbn [scan rfc20 cfg0 andb].
  destruct (N.eqb_spec (code b) 0); [lia|].
  destruct (N.ltb_spec 127 (code b)); [lia|].
  assert (ctrl_rejected m Out = true) as -> by (destruct m; reflexivity). cbn [andb].
  destruct (is_cntrl (code b)); [reflexivity|].
  destruct (N.eqb_spec (code b) 34); [contradiction|].
  rewrite orb_false_r.
  destruct (N.eqb_spec (code b) 46) as [E46|N46].
  - destruct prev as [p|]; [|reflexivity].
    destruct (N.eqb_spec (code p) 46) as [Ep|Np]; [exfalso; apply Hdd; auto|].
    destruct r as [|y r']; [reflexivity|].
    assert (b = DOT) as -> by (apply (byte_of_code _ 46); [exact E46|reflexivity]).
    destruct (N.eqb_spec (code y) 46) as [Ey|Ny].
    + assert (y = DOT) as -> by (apply (byte_of_code _ 46); [exact Ey|reflexivity]).
      rewrite scan6_dot_dot by reflexivity. reflexivity.
    + apply IH. cbn. intros (_ & Hy). contradiction.
  - destruct (is_special (code b)); [reflexivity|]. apply IH.
    destruct r as [|y r']; cbn; [exact I|]. intros (Hb & _). contradiction.
Qed.

Theorem plain_all_modes_agree m rest l : plain l ->
  local m l rest = local M5321 l [] /\ local M5321 l [] = local6531 cfg0 l.
Proof.
  intros Hp. destruct l as [|b r]; [split; reflexivity|]. cbn [local local6531]. split.
  - apply scan_modes_agree. exact Hp.
  - apply scan_6531_agree; [exact Hp|exact I].
Qed.

(* inclusion 5321 in 822 *)
Lemma qb_5321_822 p q : qb M5321 p q -> qb M822 p q.
Proof.
  induction 1 as [p | p b r (H34 & H92 & Hb) Hq IH | p b r Hb Hq IH | p w r Hm Hw Hq IH | p b r Hm Hw Hc Hq IH];
    try discriminate.
  - constructor.
  - apply qb_text; [|exact IH]. unfold qtext. repeat split; try assumption; lia.
  - apply qb_pair; [|exact IH]. cbn [qpairable] in *. lia.
Qed.

Lemma words_5321_822 s : words M5321 s -> words M822 s.
Proof.
  assert (Hw : forall w, word M5321 w -> word M822 w).
  { intros w [a Hne Ha | q Hq]; [apply w_atom; assumption|apply w_quoted; apply qb_5321_822; exact Hq]. }
  induction 1 as [w H | w r H Hr IH]; [apply ws_one; auto|apply ws_more; auto].
Qed.

Theorem incl_5321_822 l r1 r2 : nulfree l -> local M5321 l r1 = 0%Z -> local M822 l r2 = 0%Z.
Proof.
  intros Hn H. apply (local_correct M822 r2 l Hn). apply words_5321_822.
  apply (local_correct M5321 r1 l Hn). exact H.
Qed.

(* e-mail level: the three ASCII composers differ only in the local-part scanner they call *)
Section Addr.
Variable idn : list byte -> idn_res.
Variable g : cfg.
Variable tbl : list tld_row.

Lemma email_ascii_same_local m1 m2 t a :
  (forall l d, split_last AT a = Some (l, d) -> local m1 l (AT :: d) = local m2 l (AT :: d)) ->
  email idn g tbl (MA m1) t a = email idn g tbl (MA m2) t a.
Proof.
  intros H. unfold email. destruct a as [|a0 a']; [reflexivity|].
  destruct (split_last AT (a0 :: a')) as [[l d]|] eqn:E; [|reflexivity].
  destruct d as [|d0 d']; [reflexivity|].
  destruct (Nat.ltb 64 (length l)); [reflexivity|].
  cbn [local_of]. rewrite (H l (d0 :: d') eq_refl). reflexivity.
Qed.

(* for a fixed domain part, the verdict on the domain does not depend on the ASCII mode *)
Lemma email_ascii_domain_verdict m1 m2 t l1 l2 d :
  ~ In AT d -> d <> [] -> (length l1 <= 64)%nat -> (length l2 <= 64)%nat ->
  local m1 l1 (AT :: d) = 0%Z -> local m2 l2 (AT :: d) = 0%Z ->
  let r1 := email idn g tbl (MA m1) t (l1 ++ AT :: d) in
  let r2 := email idn g tbl (MA m2) t (l2 ++ AT :: d) in
  rc r1 = rc r2 /\ is_ipv4 r1 = is_ipv4 r2 /\ is_ipv6 r1 = is_ipv6 r2 /\ is_domain r1 = is_domain r2 /\ domain r1 = domain r2.
Proof.
  intros Hat Hne Hl1 Hl2 H1 H2. cbv zeta. unfold email.
  destruct (l1 ++ AT :: d) eqn:E1; [destruct l1; discriminate|]. rewrite <- E1. clear E1.
  destruct (l2 ++ AT :: d) eqn:E2; [destruct l2; discriminate|]. rewrite <- E2. clear E2.
  rewrite !split_last_app by exact Hat.
  destruct d as [|d0 d']; [congruence|].
  assert (Nat.ltb 64 (length l1) = false) as -> by (apply PeanoNat.Nat.ltb_ge; exact Hl1).
  assert (Nat.ltb 64 (length l2) = false) as -> by (apply PeanoNat.Nat.ltb_ge; exact Hl2).
  cbn [local_of]. rewrite H1, H2. cbn [Z.eqb negb].
  destruct (beqb d0 LBR).
  - unfold ip_result. destruct (check_ip (d0 :: d')) as [r [| |]]; cbn; auto.
  - destruct (negb (ascii_domain (uscore g) (d0 :: d') [] =? 0)%Z); cbn; auto.
Qed.

(* address level: whatever mode 5321 lets past its local-part scanner, mode 822 treats identically *)
Lemma email_5321_in_822 t a l d :
  split_last AT a = Some (l, d) -> nulfree l -> local M5321 l (AT :: d) = 0%Z ->
  email idn g tbl (MA M822) t a = email idn g tbl (MA M5321) t a.
Proof.
  intros E Hn H. unfold email. destruct a as [|a0 a']; [reflexivity|].
  rewrite E. destruct d as [|d0 d']; [reflexivity|].
  destruct (Nat.ltb 64 (length l)); [reflexivity|].
  cbn [local_of]. rewrite H, (incl_5321_822 l (AT :: d0 :: d') (AT :: d0 :: d') Hn H). reflexivity.
Qed.

(* a result carrying a form flag comes from a local part the scanner passed *)
Lemma email_local_passed m t a :
  is_domain (email idn g tbl (MA m) t a) = true \/ is_ipv4 (email idn g tbl (MA m) t a) = true
   \/ is_ipv6 (email idn g tbl (MA m) t a) = true ->
  exists l d, split_last AT a = Some (l, d) /\ local m l (AT :: d) = 0%Z.
Proof.
  unfold email. destruct a as [|a0 a']; [cbn; intuition discriminate|].
  destruct (split_last AT (a0 :: a')) as [[l d]|]; [|cbn; intuition discriminate].
  destruct d as [|d0 d']; [cbn; intuition discriminate|].
  destruct (Nat.ltb 64 (length l)); [cbn; intuition discriminate|].
  cbn [local_of]. destruct (local m l (AT :: d0 :: d') =? 0)%Z eqn:Z0; cbn [negb].
  - intros _. exists l, (d0 :: d'). split; [reflexivity|]. apply Z.eqb_eq; exact Z0.
  - cbn; intuition discriminate.
Qed.

Theorem addr_5321_in_822 t a :
  nulfree a ->
  (is_domain (email idn g tbl (MA M5321) t a) = true \/ is_ipv4 (email idn g tbl (MA M5321) t a) = true
   \/ is_ipv6 (email idn g tbl (MA M5321) t a) = true) ->
  email idn g tbl (MA M822) t a = email idn g tbl (MA M5321) t a.
Proof.
  intros Hn Hf. destruct (email_local_passed M5321 t a Hf) as (l & d & E & H).
  apply (email_5321_in_822 t a l d E); [|exact H].
  destruct (split_last_spec _ _ _ _ E) as (Ea & _). subst a.
  unfold nulfree in *. apply Forall_app in Hn. exact (proj1 Hn).
Qed.

(* the rejections of basic_email_check are the same in all four modes (mode 6531 included) *)
Lemma email_basic_rejections (m1 m2 : mode) t a :
  a = [] \/ split_last AT a = None \/ (exists l, split_last AT a = Some (l, [])) \/
  (exists l d, split_last AT a = Some (l, d) /\ (64 < length l)%nat) ->
  email idn g tbl m1 t a = email idn g tbl m2 t a.
Proof.
  intros [E|[E|[(l & E)|(l & d & E & Hl)]]]; unfold email.
  - subst a. reflexivity.
  - destruct a; [reflexivity|]. rewrite E. reflexivity.
  - destruct a; [reflexivity|]. rewrite E. reflexivity.
  - destruct a; [reflexivity|]. rewrite E. destruct d; [reflexivity|].
    apply PeanoNat.Nat.ltb_lt in Hl. rewrite Hl. reflexivity.
Qed.
End Addr.
