(* ApiProofs.v — the façade state machine: history independence (C13), policy (C08),
   setup/diagnostic codes (C15), containment of IDN failures (C19), allocation balance. *)
From Coq Require Import List NArith ZArith Bool Lia.
From Coq Require Import Strings.Byte.
Require Import Bytes Codes Local Local6531 Domain Ip Special Email Api EmailProofs.
Import ListNotations.
Local Open Scope Z_scope.

(* every class stored in a TLD table is one of the nine TLD_TYPE_* values *)
Definition table_ok (tbl : list tld_row) : Prop :=
  Forall (fun r => match r with (_, _, t) => 1 <= t <= 9 end) tbl.

Lemma find_some_in {A} (f : A -> bool) l x : find f l = Some x -> In x l.
Proof. induction l as [|y l IH]; [discriminate|]. cbn. destruct (f y); [intros H; inversion H; auto|auto]. Qed.

Lemma tld_lookup_range tbl l : table_ok tbl -> tld_lookup tbl l = E_TLD_INVALID \/ 1 <= tld_lookup tbl l <= 9.
Proof.
  intros Ht. unfold tld_lookup. destruct l; [left; reflexivity|].
  match goal with |- context [find ?f tbl] => destruct (find f tbl) as [[[n len] t]|] eqn:E end; [|left; reflexivity].
  right. apply find_some_in in E. unfold table_ok in Ht. rewrite Forall_forall in Ht. exact (Ht _ E).
Qed.

Lemma tld_verdict_range tbl d : table_ok tbl -> tld_verdict tbl d < 0 \/ 1 <= tld_verdict tbl d <= 9.
Proof.
  intros Ht. unfold tld_verdict. destruct (special_domain d); [right; cbv; split; discriminate|].
  destruct (split_last DOT d) as [[p t]|]; [|left; reflexivity].
  destruct (tld_lookup_range tbl t Ht) as [-> | H]; [left; reflexivity|right; exact H].
Qed.







Section Api.
Variable idn : list byte -> idn_res.
Variable g : cfg.
Variable tbl : list tld_row.
Hypothesis Htbl : table_ok tbl.

Notation email' := (email idn g tbl).
Notation step' := (step idn g tbl).
Notation is_email' := (is_email idn g tbl).

(* ---------------- result codes of the composers ---------------- *)
Lemma utf8_domain_range t d : fst (utf8_domain idn g tbl t d) <= 0 \/ 1 <= fst (utf8_domain idn g tbl t d) <= 9.
Proof.
  unfold utf8_domain. destruct d; [left; cbv; discriminate|]. destruct (idn (b :: d)); [|left; cbv; discriminate].
  destruct (negb (ascii_domain (uscore g) a [] =? 0)); [left; apply ascii_domain_nonpos|].
  destruct (negb t); [left; cbn; lia|]. cbn [fst].
  destruct (tld_verdict_range tbl a Htbl); [left; lia|right; assumption].
Qed.

Lemma email_rc_range m t a : rc (email' m t a) <= 0 \/ 1 <= rc (email' m t a) <= 9.
Proof.
  unfold email. destruct a; [left; cbv; discriminate|].
  destruct (split_last AT (b :: a)) as [[l d]|]; [|left; cbv; discriminate].
  destruct d as [|d0 d']; [left; cbv; discriminate|].
  destruct (Nat.ltb 64 (length l)); [left; cbv; discriminate|].
  destruct (local_of g m l (AT :: d0 :: d') =? 0) eqn:El; cbn [negb].
  2:{ left. cbn [rc res_rc].
      apply local_of_nonpos. }
  destruct (beqb d0 LBR).
  - left. rewrite ip_result_rc. destruct (check_ip_rc (d0 :: d')) as [-> | H]; lia.
  - destruct m as [am|].
    + destruct (negb (ascii_domain (uscore g) (d0 :: d') [] =? 0)); [left; cbn [rc res_rc]; apply ascii_domain_nonpos|].
      cbn [rc]. destruct t; [|left; lia]. destruct (tld_verdict_range tbl (d0 :: d') Htbl); [left; lia|right; assumption].
    + pose proof (utf8_domain_range t (d0 :: d')) as Hr.
      destruct (utf8_domain idn g tbl t (d0 :: d')) as [r ir]. cbn [fst] in Hr.
      destruct (0 <=? r); cbn [rc]; exact Hr.
Qed.

(* ---------------- what is observable after a step ---------------- *)
Definition observable (x : eav * out) : out * Z * msg * option result :=
  (snd x, e_errcode (fst x), errstr (fst x), e_result (fst x)).

(* C13: two objects with whatever histories that agree on the confirmed mode, tld_check and allow_tld
   give the same observable outcome for the same address *)
Theorem history_independence s1 s2 a :
  callback s1 = callback s2 -> e_tldc s1 = e_tldc s2 -> e_allow s1 = e_allow s2 ->
  observable (is_email' s1 a) = observable (is_email' s2 a) \/ callback s1 = None.
Proof.
  intros Hc Ht Ha. unfold is_email. rewrite <- Hc. destruct (callback s1) as [m|]; [left|right; reflexivity].
  rewrite <- Ht. set (r := email' m (e_tldc s1) a).
  pose proof (email_rc_range m (e_tldc s1) a) as Hr. fold r in Hr.
  unfold judge, observable, errstr. rewrite <- Ha.
  destruct (rc r =? 0) eqn:E0; [reflexivity|].
  destruct (rc r <? 0) eqn:En; [reflexivity|].
  apply Z.eqb_neq in E0. apply Z.ltb_ge in En.
  assert ((1 <=? rc r) && (rc r <=? 9) = true) as -> by (apply andb_true_iff; rewrite !Z.leb_le; lia).
  destruct (negb (Z.land (e_allow s1) (class_bit (rc r)) =? 0)); reflexivity.
Qed.

(* the settings as a function of the operations performed since the last eav_init *)
Definition mode_of_rfc (z : Z) : option mode :=
  if z =? EAV_RFC_822 then Some (MA M822) else if z =? EAV_RFC_5321 then Some (MA M5321)
  else if z =? EAV_RFC_5322 then Some (MA M5322) else if z =? EAV_RFC_6531 then Some M6531 else None.

Record settings := { st_rfc : Z; st_mode : option mode; st_tld : bool; st_mask : Z }.
Definition settings_init := {| st_rfc := EAV_RFC_6531; st_mode := None; st_tld := true; st_mask := default_mask |}.
Definition settings_step (c : settings) (o : op) : settings :=
  match o with
  | Init => settings_init
  | SetRfc z => {| st_rfc := z; st_mode := st_mode c; st_tld := st_tld c; st_mask := st_mask c |}
  | SetTld b => {| st_rfc := st_rfc c; st_mode := st_mode c; st_tld := b; st_mask := st_mask c |}
  | SetMask z => {| st_rfc := st_rfc c; st_mode := st_mode c; st_tld := st_tld c; st_mask := z |}
  | Setup => match mode_of_rfc (st_rfc c) with
             | Some m => {| st_rfc := st_rfc c; st_mode := Some m; st_tld := st_tld c; st_mask := st_mask c |}
             | None => c
             end
  | _ => c
  end.

Definition tracks (c : settings) (s : eav) : Prop :=
  e_rfc s = st_rfc c /\ callback s = st_mode c /\ e_tldc s = st_tld c /\ e_allow s = st_mask c /\
  (* representation invariant: a confirmed ASCII mode never leaves the utf8 flag set *)
  (e_utf8 s = true -> e_utf8_cb s = true).

Lemma tracks_init live : tracks settings_init (init_state live).
Proof. unfold tracks, init_state, settings_init, callback. cbn. repeat split; try reflexivity. discriminate. Qed.

Lemma judge_frame s r :
  e_rfc (fst (judge s r)) = e_rfc s /\ e_allow (fst (judge s r)) = e_allow s /\ e_tldc (fst (judge s r)) = e_tldc s /\
  e_utf8 (fst (judge s r)) = e_utf8 s /\ e_utf8_cb (fst (judge s r)) = e_utf8_cb s /\ e_ascii_cb (fst (judge s r)) = e_ascii_cb s.
Proof.
  unfold judge. repeat match goal with |- context [if ?c then _ else _] => destruct c end; cbn; repeat split.
Qed.

Lemma tracks_step c s o : tracks c s -> tracks (settings_step c o) (fst (step' s o)).
Proof.
  intros (Hr & Hc & Ht & Ha & Hu). destruct o; cbn [step settings_step fst].
  - apply tracks_init.
  - unfold tracks, set_rfc, callback in *. cbn. repeat split; auto.
  - unfold tracks, set_tldc, callback in *. cbn. repeat split; auto.
  - unfold tracks, set_mask, callback in *. cbn. repeat split; auto.
  - unfold setup, mode_of_rfc. rewrite <- Hr.
    destruct (e_rfc s =? EAV_RFC_822); [unfold tracks, callback; cbn; repeat split; auto; discriminate|].
    destruct (e_rfc s =? EAV_RFC_5321); [unfold tracks, callback; cbn; repeat split; auto; discriminate|].
    destruct (e_rfc s =? EAV_RFC_5322); [unfold tracks, callback; cbn; repeat split; auto; discriminate|].
    destruct (e_rfc s =? EAV_RFC_6531); [unfold tracks, callback; cbn; repeat split; auto|].
    unfold tracks, callback in *. cbn. repeat split; auto.
  - unfold is_email. destruct (callback s) as [m|] eqn:Ecb.
    2:{ cbn [fst]. unfold tracks. rewrite Ecb. repeat split; auto. }
    destruct (judge_frame s (email' m (e_tldc s) a)) as (F1 & F2 & F3 & F4 & F5 & F6).
    unfold tracks, callback in *. rewrite F1, F2, F3, F4, F5, F6. repeat split; auto. rewrite Ecb. exact Hc.
  - unfold tracks; auto.
  - unfold tracks, callback in *. cbn. repeat split; auto.
Qed.

Fixpoint settings_of (c : settings) (ops : list op) : settings :=
  match ops with [] => c | o :: r => settings_of (settings_step c o) r end.

Lemma tracks_run c s ops : tracks c s -> tracks (settings_of c ops) (fst (run idn g tbl s ops)).
Proof.
  revert c s. induction ops as [|o r IH]; intros c s H; [exact H|].
  cbn [run settings_of]. pose proof (tracks_step c s o H) as H1.
  destruct (step' s o) as [s1 x]. cbn [fst] in H1. specialize (IH _ _ H1).
  destruct (run idn g tbl s1 r) as [s2 xs]. exact IH.
Qed.

(* C13 / C01 wiring: after eav_init and any operations, eav_is_email applies the rules of the mode
   confirmed by the last successful eav_setup, with the current tld_check and allow_tld — whatever
   the object held before eav_init and whatever happened in between *)
Theorem outcome_function_of_settings s0 ops a m :
  let c := settings_of settings_init ops in
  let s := fst (run idn g tbl s0 (Init :: ops)) in
  st_mode c = Some m ->
  observable (is_email' s a) =
  observable (judge (mkeav 0 (st_mask c) (st_tld c) false 0 None false false None None 0) (email' m (st_tld c) a)).
Proof.
  cbv zeta. intros Hm.
  assert (Ht : tracks (settings_of settings_init ops) (fst (run idn g tbl s0 (Init :: ops)))).
  { cbn [run step]. pose proof (tracks_run settings_init (init_state (e_live s0)) ops (tracks_init _)) as H.
    destruct (run idn g tbl (init_state (e_live s0)) ops) as [s2 xs]. exact H. }
  destruct Ht as (_ & Hc & Htl & Hma & _).
  set (s := fst (run idn g tbl s0 (Init :: ops))) in *.
  unfold is_email. rewrite Hc, Hm. rewrite Htl.
  set (r := email' m (st_tld (settings_of settings_init ops)) a).
  pose proof (email_rc_range m (st_tld (settings_of settings_init ops)) a) as Hr. fold r in Hr.
  unfold judge, observable, errstr. cbn [e_allow e_result e_live e_errcode fst snd]. rewrite Hma.
  destruct (rc r =? 0) eqn:E0; [reflexivity|].
  destruct (rc r <? 0) eqn:En; [reflexivity|].
  apply Z.eqb_neq in E0. apply Z.ltb_ge in En.
  assert ((1 <=? rc r) && (rc r <=? 9) = true) as -> by (apply andb_true_iff; rewrite !Z.leb_le; lia).
  destruct (negb (Z.land (st_mask (settings_of settings_init ops)) (class_bit (rc r)) =? 0)); reflexivity.
Qed.

(* ---------------- allocation balance ---------------- *)
Definition balanced (s : eav) : Prop := e_live s = match e_result s with Some _ => 1 | None => 0 end.
Definition op_ok (s : eav) (o : op) : Prop :=
  match o with
  | Init => e_result s = None           (* eav_init on an object that still owns a result would leak it *)
  | IsEmail _ => callback s <> None
  | _ => True
  end.

Lemma balanced_step s o : balanced s -> op_ok s o -> balanced (fst (step' s o)).
Proof.
  unfold balanced. intros Hb Hok. destruct o; cbn [step fst op_ok] in *.
  - unfold init_state. cbn. rewrite Hok in Hb. exact Hb.
  - exact Hb.
  - exact Hb.
  - exact Hb.
  - unfold setup. destruct (e_rfc s =? EAV_RFC_822); [exact Hb|]. destruct (e_rfc s =? EAV_RFC_5321); [exact Hb|].
    destruct (e_rfc s =? EAV_RFC_5322); [exact Hb|]. destruct (e_rfc s =? EAV_RFC_6531); exact Hb.
  - unfold is_email. destruct (callback s); [|congruence]. unfold judge.
    destruct (rc _ =? 0); [cbn; destruct (e_result s); lia|].
    destruct (rc _ <? 0); [cbn; destruct (e_result s); lia|].
    destruct ((1 <=? rc _) && (rc _ <=? 9)); [|cbn; destruct (e_result s); lia].
    destruct (negb _); cbn; destruct (e_result s); lia.
  - exact Hb.
  - cbn. destruct (e_result s); lia.
Qed.

Theorem free_releases_everything s : balanced s -> e_live (fst (step' s Free)) = 0 /\ e_result (fst (step' s Free)) = None.
Proof. unfold balanced. intros H. cbn. destruct (e_result s); split; try reflexivity; lia. Qed.

(* ---------------- C15: setup ---------------- *)
Theorem setup_codes s :
  (mode_of_rfc (e_rfc s) <> None -> snd (setup s) = ORet 0 /\ e_errcode (fst (setup s)) = e_errcode s) /\
  (mode_of_rfc (e_rfc s) = None ->
     snd (setup s) = ORet EEAV_INVALID_RFC /\ errstr (fst (setup s)) = MsgTable EEAV_INVALID_RFC /\
     callback (fst (setup s)) = callback s).
Proof.
  unfold setup, mode_of_rfc.
  destruct (e_rfc s =? EAV_RFC_822); [split; [intros _; split; reflexivity|congruence]|].
  destruct (e_rfc s =? EAV_RFC_5321); [split; [intros _; split; reflexivity|congruence]|].
  destruct (e_rfc s =? EAV_RFC_5322); [split; [intros _; split; reflexivity|congruence]|].
  destruct (e_rfc s =? EAV_RFC_6531); [split; [intros _; split; reflexivity|congruence]|].
  split; [congruence|]. intros _. repeat split.
Qed.

(* ---------------- C15 / C08: what judge does ---------------- *)
Lemma land_bit a n : 0 <= n -> (Z.land a (Z.shiftl 1 n) =? 0) = negb (Z.testbit a n).
Proof.
  intros Hn. rewrite Z.shiftl_1_l.
  destruct (Z.testbit a n) eqn:Eb; cbn [negb].
  - apply Z.eqb_neq. intros H. apply (f_equal (fun x => Z.testbit x n)) in H.
    rewrite Z.land_spec, Z.pow2_bits_true, Eb in H by exact Hn. cbn in H. rewrite Z.bits_0 in H. discriminate.
  - apply Z.eqb_eq. apply Z.bits_inj'. intros m Hm. rewrite Z.land_spec, Z.bits_0.
    destruct (Z.eq_dec n m) as [<- | Hne]; [rewrite Eb; reflexivity|].
    rewrite Z.pow2_bits_false by exact Hne. apply andb_false_r.
Qed.

Theorem judge_policy s r k : 1 <= k <= 9 -> rc r = k ->
  snd (judge s r) = ORet (if Z.testbit (e_allow s) (k + 1) then 1 else 0) /\
  e_errcode (fst (judge s r)) = (if Z.testbit (e_allow s) (k + 1) then EEAV_NO_ERROR else EEAV_TLD_INVALID + k).
Proof.
  intros Hk Hr. unfold judge. rewrite Hr.
  assert (k =? 0 = false) as -> by (apply Z.eqb_neq; lia).
  assert (k <? 0 = false) as -> by (apply Z.ltb_ge; lia).
  assert ((1 <=? k) && (k <=? 9) = true) as -> by (apply andb_true_iff; rewrite !Z.leb_le; lia).
  unfold class_bit. rewrite land_bit by lia. rewrite negb_involutive.
  destruct (Z.testbit (e_allow s) (k + 1)); split; reflexivity.
Qed.

Theorem judge_negative s r : rc r < 0 ->
  snd (judge s r) = ORet 0 /\ e_errcode (fst (judge s r)) = - rc r /\
  errstr (fst (judge s r)) = (if - rc r =? EEAV_IDN_ERROR then MsgIdn (idn_rc r) else MsgTable (- rc r)).
Proof.
  intros Hr. unfold judge.
  assert (rc r =? 0 = false) as -> by (apply Z.eqb_neq; lia).
  assert (rc r <? 0 = true) as -> by (apply Z.ltb_lt; lia).
  cbn [fst snd e_errcode]. unfold errstr. cbn [e_errcode e_idnmsg].
  destruct (- rc r =? EEAV_IDN_ERROR); repeat split.
Qed.

Theorem judge_zero s r : rc r = 0 ->
  snd (judge s r) = ORet 1 /\ e_errcode (fst (judge s r)) = EEAV_NO_ERROR /\ errstr (fst (judge s r)) = MsgTable EEAV_NO_ERROR.
Proof. intros Hr. unfold judge. rewrite Hr. cbn. repeat split. Qed.

(* eav_is_email returns 1 iff the recorded error is "no error" *)
Theorem ret_iff_no_error s r : rc r <= 9 ->
  (snd (judge s r) = ORet 1 <-> e_errcode (fst (judge s r)) = EEAV_NO_ERROR).
Proof.
  intros Hr. unfold judge.
  destruct (rc r =? 0) eqn:E0; [cbn; split; reflexivity|].
  destruct (rc r <? 0) eqn:En.
  { cbn [fst snd e_errcode]. apply Z.ltb_lt in En. split; [discriminate|]. unfold EEAV_NO_ERROR. lia. }
  apply Z.eqb_neq in E0. apply Z.ltb_ge in En.
  assert ((1 <=? rc r) && (rc r <=? 9) = true) as -> by (apply andb_true_iff; rewrite !Z.leb_le; lia).
  destruct (negb (Z.land (e_allow s) (class_bit (rc r)) =? 0)); cbn [fst snd e_errcode].
  - split; reflexivity.
  - split; [discriminate|]. unfold class_err, EEAV_TLD_INVALID, EEAV_NO_ERROR. lia.
Qed.

(* ---------------- C19: an IDN failure is contained ---------------- *)
Theorem idn_failure_contained t l d e buf : ~ In AT d -> d <> [] -> hd NUL d <> LBR ->
  (length l <= 64)%nat -> local6531 g l = 0 -> idn d = IdnErr e buf ->
  let r := email' M6531 t (l ++ AT :: d) in
  rc r = E_IDN /\ idn_rc r = e /\ is_ipv4 r = false /\ is_ipv6 r = false /\ is_domain r = false /\
  lpart r = None /\ domain r = None.
Proof.
  intros Hat Hne Hbr Hlen Hl Hi. cbv zeta. rewrite email_split by exact Hat.
  destruct d as [|d0 d']; [congruence|].
  assert (Nat.ltb 64 (length l) = false) as -> by (apply PeanoNat.Nat.ltb_ge; exact Hlen).
  cbn [local_of]. rewrite Hl. cbn [Z.eqb negb].
  assert (beqb d0 LBR = false) as ->.
  { destruct (beqb d0 LBR) eqn:E; [|reflexivity]. apply beqb_eq in E. cbn in Hbr. congruence. }
  unfold utf8_domain. rewrite Hi. cbn. repeat split.
Qed.
End Api.

(* ------------------------------------------------------------------ C07 / C08: TLD verdict and policy at e-mail level *)
Require Import SpecialProofs.

Section Tld.
Variable idn : list byte -> idn_res.
Variable g : cfg.
Variable tbl : list tld_row.

Lemma host_rc_ascii am t l d : ~ In AT d -> d <> [] -> hd NUL d <> LBR -> (length l <= 64)%nat ->
  local am l (AT :: d) = 0 -> ascii_domain (uscore g) d [] = 0 ->
  rc (email idn g tbl (MA am) t (l ++ AT :: d)) = if t then tld_verdict tbl d else 0.
Proof.
  intros Hat Hne Hbr Hlen Hl Hd. rewrite email_split by exact Hat. destruct d as [|d0 d']; [congruence|].
  assert (Nat.ltb 64 (length l) = false) as -> by (apply PeanoNat.Nat.ltb_ge; exact Hlen).
  cbn [local_of]. rewrite Hl. cbn [Z.eqb negb].
  assert (beqb d0 LBR = false) as ->.
  { destruct (beqb d0 LBR) eqn:E; [|reflexivity]. apply beqb_eq in E. cbn in Hbr. congruence. }
  rewrite Hd. reflexivity.
Qed.

(* with TLD checking on: reserved -> special; single label -> not FQDN; otherwise the class of the last label *)
Theorem tld_verdict_spec d : last d NUL <> DOT ->
  tld_verdict tbl d =
  if special_domain d then TLD_TYPE_SPECIAL
  else match split_last DOT d with
       | None => E_NOT_FQDN
       | Some (_, t) => tld_lookup tbl t
       end.
Proof. reflexivity. Qed.

Theorem tld_verdict_reserved d : last d NUL <> DOT -> Reserved d -> tld_verdict tbl d = TLD_TYPE_SPECIAL.
Proof.
  intros Hr H. unfold tld_verdict. apply (special_domain_correct d Hr) in H. rewrite H. reflexivity.
Qed.

Theorem tld_verdict_not_reserved d : last d NUL <> DOT -> ~ Reserved d ->
  (~ In DOT d -> tld_verdict tbl d = E_NOT_FQDN) /\
  (forall p t, d = p ++ DOT :: t -> ~ In DOT t -> tld_verdict tbl d = tld_lookup tbl t).
Proof.
  intros Hr H. unfold tld_verdict.
  assert (special_domain d = false) as ->.
  { destruct (special_domain d) eqn:E; [|reflexivity]. exfalso. apply H. apply (special_domain_correct d Hr). exact E. }
  split.
  - intros Hd. destruct (split_last DOT d) as [[p t]|] eqn:E; [|reflexivity].
    apply split_last_spec in E as (E & _). exfalso. apply Hd. rewrite E. apply in_or_app. right. left. reflexivity.
  - intros p t -> Ht. rewrite split_last_app by exact Ht. reflexivity.
Qed.

(* the U-label and the A-label spelling go through the same A-label *)
Theorem utf8_domain_UA t u a : u <> [] -> a <> [] -> idn u = IdnOk a -> idn a = IdnOk a ->
  utf8_domain idn g tbl t u = utf8_domain idn g tbl t a.
Proof. intros Hu Ha H1 H2. unfold utf8_domain. destruct u; [congruence|]. destruct a; [congruence|]. rewrite H1, H2. reflexivity. Qed.

(* ... and the ASCII modes give that A-label the same verdict *)
Theorem utf8_domain_vs_ascii t a : a <> [] -> idn a = IdnOk a ->
  fst (utf8_domain idn g tbl t a) =
  let r := ascii_domain (uscore g) a [] in if negb (r =? 0) then r else if t then tld_verdict tbl a else 0.
Proof.
  intros Ha H. unfold utf8_domain. destruct a; [congruence|]. rewrite H. cbv zeta.
  destruct (negb (ascii_domain (uscore g) (b :: a) [] =? 0)); [reflexivity|]. destruct t; reflexivity.
Qed.

Theorem utf8_domain_reject t d e buf : d <> [] -> idn d = IdnErr e buf -> utf8_domain idn g tbl t d = (E_IDN, e).
Proof. intros Hd H. unfold utf8_domain. destruct d; [congruence|]. rewrite H. reflexivity. Qed.
End Tld.

Section Indep.
Variable idn : list byte -> idn_res.
Variable g : cfg.

(* with TLD checking off the table plays no role; for a literal neither the table nor tld_check does *)
Theorem tld_off_table_independent tbl1 tbl2 m a : email idn g tbl1 m false a = email idn g tbl2 m false a.
Proof.
  unfold email. destruct a; [reflexivity|]. destruct (split_last AT (b :: a)) as [[l d]|]; [|reflexivity].
  destruct d as [|d0 d']; [reflexivity|]. destruct (Nat.ltb 64 (length l)); [reflexivity|].
  destruct (negb (local_of g m l (AT :: d0 :: d') =? 0)); [reflexivity|].
  destruct (beqb d0 LBR); [reflexivity|]. destruct m; [reflexivity|].
  unfold utf8_domain. destruct (idn (d0 :: d')); [|reflexivity].
  destruct (negb (ascii_domain (uscore g) a0 [] =? 0)); reflexivity.
Qed.

Theorem literal_independent tbl1 tbl2 t1 t2 m l d : ~ In AT d -> hd NUL d = LBR ->
  email idn g tbl1 m t1 (l ++ AT :: d) = email idn g tbl2 m t2 (l ++ AT :: d).
Proof.
  intros Hat Hh. rewrite !email_split by exact Hat. destruct d as [|d0 d']; [reflexivity|]. cbn in Hh. subst d0.
  assert (beqb LBR LBR = true) as -> by (apply beqb_eq; reflexivity).
  destruct (Nat.ltb 64 (length l)); [reflexivity|]. cbv zeta.
  destruct (negb (local_of g m l (AT :: LBR :: d') =? 0)); reflexivity.
Qed.

(* a result code <= 0 is judged without looking at allow_tld *)
Theorem judge_mask_irrelevant s1 s2 r : rc r <= 0 ->
  snd (judge s1 r) = snd (judge s2 r) /\ e_errcode (fst (judge s1 r)) = e_errcode (fst (judge s2 r)).
Proof.
  intros Hr. unfold judge. destruct (rc r =? 0) eqn:E0; [split; reflexivity|].
  apply Z.eqb_neq in E0. assert (rc r <? 0 = true) as -> by (apply Z.ltb_lt; lia). split; reflexivity.
Qed.
End Indep.
