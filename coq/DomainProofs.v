(* DomainProofs.v — B <-> S for is_ascii_domain (C04). *)
From Coq Require Import List NArith ZArith Bool Lia Arith.
From Coq Require Import Strings.Byte.
Require Import Bytes Codes Domain DomainSpec LocalProofs.
Import ListNotations.
Local Open Scope N_scope.

Lemma code_HYP : code HYP = 45. Proof. reflexivity. Qed.

Section D.
Variable us : bool.

Definition nodot (l : list byte) := Forall (fun b => code b <> 46) l.

Lemma ldh_not_dot b : ldh us b -> code b <> 46.
Proof.
  intros [H|H]; [|lia]. intros E. rewrite E in H. unfold ldh_alnum in H.
  destruct us; vm_compute in H; discriminate.
Qed.
Lemma ldh_nodot l : Forall (ldh us) l -> nodot l.
Proof. intros H. eapply Forall_impl; [|exact H]. intros b. apply ldh_not_dot. Qed.

(* position of the first dot is unique *)
Lemma first_dot_unique a b c d : nodot a -> nodot c -> a ++ DOT :: b = c ++ DOT :: d -> a = c /\ b = d.
Proof.
  revert c. induction a as [|x a IH]; intros c Ha Hc E.
  - destruct c as [|y c]; [inversion E; auto|]. cbn in E. inversion E; subst.
    inversion Hc as [|? ? Hy _]; subst. exfalso. apply Hy. reflexivity.
  - destruct c as [|y c]; cbn in E.
    + inversion E; subst. inversion Ha as [|? ? Hx _]; subst. exfalso. apply Hx. reflexivity.
    + inversion E; subst. inversion Ha; subst. inversion Hc; subst.
      destruct (IH c) as (-> & ->); auto.
Qed.
Lemma nodot_no_split a c d : nodot a -> a <> c ++ DOT :: d.
Proof.
  intros Ha E. subst. unfold nodot in Ha. rewrite Forall_app in Ha. destruct Ha as (_ & Ha).
  inversion Ha as [|? ? Hx _]; subst. apply Hx. reflexivity.
Qed.
(* a dot-free prefix of  c ++ "." ++ d  is a prefix of c *)
Lemma nodot_prefix a r c d : nodot a -> nodot c -> a ++ r = c ++ DOT :: d -> exists c', c = a ++ c' /\ r = c' ++ DOT :: d.
Proof.
  revert c. induction a as [|x a IH]; intros c Ha Hc E.
  - exists c. auto.
  - destruct c as [|y c]; cbn in E.
    + inversion E; subst. inversion Ha as [|? ? Hx _]; subst. exfalso. apply Hx. reflexivity.
    + inversion E; subst. inversion Ha; subst. inversion Hc; subst.
      destruct (IH c) as (c' & -> & ->); auto. exists c'. auto.
Qed.

Definition nonnum (l : list byte) : Prop := Exists (fun b => ~ numeric_char b) l.

(* the partial label read so far *)
Definition Pre (cur l : list byte) : Prop :=
  Forall (ldh us) cur /\ (hd DOT cur <> HYP) /\
  (last cur DOT = HYP -> exists b r, l = b :: r /\ code b <> 46) /\
  (last cur DOT <> HYP -> (length cur <= 63)%nat).

Definition Good (cur l : list byte) (nn : bool) : Prop :=
  labels us (cur ++ l) /\ (nn = true \/ nonnum l).

Lemma last_snoc {A} (l : list A) x d : last (l ++ [x]) d = x.
Proof. apply last_last. Qed.
Lemma hd_snoc (l : list byte) x : hd DOT l <> HYP -> l <> [] -> hd DOT (l ++ [x]) <> HYP.
Proof. destruct l; [congruence|]. cbn. auto. Qed.

Lemma label_of_pre cur : Pre cur [] -> cur <> [] -> label us cur.
Proof.
  intros (Hf & Hh & Hl & Hlen) Hne.
  assert (Hlast : last cur DOT <> HYP).
  { intros E. destruct (Hl E) as (b & r & E' & _). discriminate. }
  unfold label. repeat split; auto.
  destruct cur; [congruence|cbn; lia].
Qed.

Lemma labels_nonempty h : labels us h -> h <> [].
Proof.
  intros [l (Hl & _) | l r (Hl & _) _]; destruct l; cbn in *; try lia; discriminate.
Qed.
Lemma labels_head h : labels us h -> exists b r, h = b :: r /\ ldh us b /\ b <> HYP.
Proof.
  assert (Hlab : forall l, label us l -> forall t, exists b r, l ++ t = b :: r /\ ldh us b /\ b <> HYP).
  { intros l (Hlen & Hf & Hh & _) t. destruct l as [|b l]; [cbn in Hlen; lia|].
    exists b, (l ++ t). inversion Hf; subst. cbn in Hh. auto. }
  intros [l Hl | l r Hl _].
  - destruct (Hlab l Hl []) as (b & r & E & H). rewrite app_nil_r in E. eauto.
  - apply Hlab. exact Hl.
Qed.

Lemma labels_dot_inv cur r : nodot cur -> labels us (cur ++ DOT :: r) -> label us cur /\ labels us r.
Proof.
  intros Hc H. inversion H as [l Hl E | l r' Hl Hr E].
  - exfalso. destruct Hl as (_ & Hf & _). apply ldh_nodot in Hf. subst l. unfold nodot in Hf.
    rewrite Forall_app in Hf. destruct Hf as (_ & Hf). inversion Hf as [|? ? Hx _]; subst. apply Hx. reflexivity.
  - destruct Hl as (Hlen & Hf & Hh). pose proof (ldh_nodot _ Hf) as Hnd.
    destruct (first_dot_unique _ _ _ _ Hnd Hc E) as (-> & ->). split; [unfold label; auto|exact Hr].
Qed.

(* the label that contains a dot-free prefix x of a labels-string *)
Lemma labels_prefix_label x t : nodot x -> labels us (x ++ t) ->
  exists y, nodot y /\ label us (x ++ y) /\ (t = y \/ exists t', t = y ++ DOT :: t').
Proof.
  intros Hx H. inversion H as [l Hl E | l r Hl Hr E].
  - exists t. destruct Hl as (Hlen & Hf & Hh). pose proof (ldh_nodot _ Hf) as Hnd. subst l.
    unfold nodot in Hnd. rewrite Forall_app in Hnd. destruct Hnd as (_ & Hnd).
    split; [exact Hnd|]. split; [unfold label; auto|left; reflexivity].
  - pose proof Hl as (Hlen & Hf & Hh). pose proof (ldh_nodot _ Hf) as Hnd.
    destruct (nodot_prefix _ _ _ _ Hx Hnd (eq_sym E)) as (c' & -> & ->).
    exists c'. unfold nodot in Hnd. rewrite Forall_app in Hnd. destruct Hnd as (_ & Hnd).
    split; [exact Hnd|]. split; [exact Hl|]. right. eauto.
Qed.

Lemma label_len_app x y : label us (x ++ y) -> (length x + length y <= 63)%nat.
Proof. intros ((_ & H) & _). rewrite app_length in H. lia. Qed.

Lemma nonnum_cons b r : nonnum (b :: r) <-> ~ numeric_char b \/ nonnum r.
Proof. unfold nonnum. rewrite Exists_cons. tauto. Qed.

Lemma alnum_numeric b : ldh_alnum us (code b) = true -> (numeric_char b <-> is_digit (code b) = true).
Proof.
  intros H. unfold numeric_char. split; [|auto]. intros [E|E]; [exact E|].
  exfalso. rewrite E in H. unfold ldh_alnum in H. destruct us; vm_compute in H; discriminate.
Qed.

Lemma dscan_correct after : (after = [] \/ after = [DOT]) -> forall l cur nn, nulfree l -> Pre cur l ->
  (dscan us (length cur) nn l after = 0%Z <-> Good cur l nn).
Proof.
  intros Hafter. induction l as [|b r IH]; intros cur nn Hn Hpre.
  - cbn [dscan]. unfold dfinal, Good. rewrite app_nil_r.
    destruct cur as [|c cur'].
    + cbn. split; [discriminate|]. intros (H & _). apply labels_nonempty in H. congruence.
    + cbn [length Nat.eqb]. destruct nn.
      * split; [|reflexivity]. intros _. split; [|left; reflexivity].
        apply lb_one. apply label_of_pre; [exact Hpre|discriminate].
      * split; [discriminate|]. intros (_ & [H|H]); [discriminate|]. inversion H.
  - destruct (nulfree_cons _ _ Hn) as (H0 & Hnr).
    destruct Hpre as (Hf & Hh & Hl & Hlen).
    cbn [dscan]. destruct (N.eqb_spec (code b) 0) as [|_]; [contradiction|].
    destruct (ldh_alnum us (code b)) eqn:Eal.
    { (* letter or digit *)
      assert (Hb : ldh us b) by (left; exact Eal).
      assert (Hbh : b <> HYP).
      { intros ->. unfold ldh_alnum in Eal. destruct us; vm_compute in Eal; discriminate. }
      destruct (Nat.ltb_spec 63 (S (length cur))) as [Hlong|Hshort].
      - split; [discriminate|]. intros (H & _). exfalso.
        replace (cur ++ b :: r) with ((cur ++ [b]) ++ r) in H by (rewrite <- app_assoc; reflexivity).
        assert (Hnd : nodot (cur ++ [b])).
        { apply ldh_nodot. apply Forall_app. split; [exact Hf|constructor; [exact Hb|constructor]]. }
        destruct (labels_prefix_label _ _ Hnd H) as (y & _ & Hlab & _).
        apply label_len_app in Hlab. rewrite app_length in Hlab. cbn in Hlab. lia.
      - assert (Hpre' : Pre (cur ++ [b]) r).
        { unfold Pre. rewrite last_snoc. repeat split.
          - apply Forall_app. split; [exact Hf|constructor; [exact Hb|constructor]].
          - destruct cur; cbn; [exact Hbh|exact Hh].
          - intros E. contradiction.
          - intros _. rewrite app_length. cbn. lia. }
        specialize (IH (cur ++ [b]) (nn || negb (is_digit (code b))) Hnr Hpre').
        replace (length (cur ++ [b])) with (S (length cur)) in IH by (rewrite app_length; cbn; lia).
        rewrite IH. unfold Good. rewrite <- app_assoc. cbn [app].
        rewrite nonnum_cons. rewrite (alnum_numeric b Eal).
        destruct nn; cbn [orb]; [tauto|].
        destruct (is_digit (code b)); cbn [negb]; intuition congruence. }
    destruct (N.eqb_spec (code b) 46) as [E46|N46].
    { (* dot *)
      assert (b = DOT) as -> by (apply (byte_of_code _ 46); [exact E46|reflexivity]).
      pose proof (ldh_nodot _ Hf) as Hnd.
      destruct cur as [|c cur'].
      - cbn. split; [discriminate|]. intros (H & _). exfalso.
        apply labels_head in H as (x & y & E & Hx & _). inversion E; subst.
        apply ldh_not_dot in Hx. apply Hx. reflexivity.
      - cbn [length Nat.eqb].
        assert (Hpre' : Pre [] r).
        { unfold Pre. cbn. repeat split; try constructor; try discriminate; intros; lia. }
        specialize (IH [] nn Hnr Hpre'). cbn [length app] in IH. rewrite IH.
        unfold Good. cbn [app]. rewrite nonnum_cons.
        assert (Hlab : label us (c :: cur')).
        { assert (Hlast : last (c :: cur') DOT <> HYP).
          { intros E. destruct (Hl E) as (x & y & E' & Hx). inversion E'; subst. apply Hx. reflexivity. }
          unfold label. repeat split; auto; cbn [length]; specialize (Hlen Hlast); cbn [length] in Hlen; lia. }
        split.
        + intros (H & Hnn). split; [apply (lb_more us (c :: cur') r); assumption|]. tauto.
        + intros (H & Hnn). apply (labels_dot_inv (c :: cur')) in H as (_ & H); [|exact Hnd].
          split; [exact H|]. destruct Hnn as [Hnn|[Hnn|Hnn]]; auto.
          exfalso. apply Hnn. right. reflexivity. }
    destruct (N.eqb_spec (code b) 45) as [E45|N45].
    { (* hyphen *)
      assert (b = HYP) as -> by (apply (byte_of_code _ 45); [exact E45|reflexivity]).
      assert (Hb : ldh us HYP) by (right; reflexivity).
      destruct cur as [|c cur'].
      - cbn. split; [discriminate|]. intros (H & _). exfalso.
        apply labels_head in H as (x & y & E & _ & Hx). inversion E; subst. apply Hx. reflexivity.
      - cbn [length Nat.eqb orb].
        destruct (nul_or_dot (r ++ after)) eqn:End.
        + split; [discriminate|]. intros (H & _). exfalso.
          (* the label containing this hyphen would end with it *)
          replace ((c :: cur') ++ HYP :: r) with (((c :: cur') ++ [HYP]) ++ r) in H by (rewrite <- app_assoc; reflexivity).
          assert (Hnd : nodot ((c :: cur') ++ [HYP])).
          { apply ldh_nodot. apply Forall_app. split; [exact Hf|constructor; [exact Hb|constructor]]. }
          destruct (labels_prefix_label _ _ Hnd H) as (y & Hy & Hlab & Hr).
          destruct r as [|x r'].
          * destruct Hr as [<-|(t' & E)]; [|destruct y; discriminate].
            destruct Hlab as (_ & _ & _ & Hlast). rewrite app_nil_r in Hlast. rewrite last_snoc in Hlast. congruence.
          * cbn in End. destruct (nulfree_cons _ _ Hnr) as (Hx0 & _).
            destruct (N.eqb_spec (code x) 0); [contradiction|]. cbn in End. apply N.eqb_eq in End.
            destruct y as [|y0 y'].
            -- destruct Hlab as (_ & _ & _ & Hlast). rewrite app_nil_r in Hlast. rewrite last_snoc in Hlast. congruence.
            -- destruct Hr as [E|(t' & E)]; inversion E; subst; inversion Hy as [|? ? Hyy _]; subst; contradiction.
        + assert (Hpre' : Pre ((c :: cur') ++ [HYP]) r).
          { unfold Pre. rewrite last_snoc. repeat split.
            - apply Forall_app. split; [exact Hf|constructor; [exact Hb|constructor]].
            - cbn. exact Hh.
            - intros _. destruct r as [|x r']; [destruct Hafter as [-> | ->]; cbn in End; discriminate|].
              exists x, r'. split; [reflexivity|]. cbn in End. apply orb_false_iff in End as (_ & End).
              apply N.eqb_neq in End. exact End.
            - intros E. exfalso. apply E. reflexivity. }
          specialize (IH ((c :: cur') ++ [HYP]) true Hnr Hpre').
          replace (length ((c :: cur') ++ [HYP])) with (S (length (c :: cur'))) in IH by (rewrite app_length; cbn; lia).
          cbn [length] in IH. rewrite IH. unfold Good. rewrite <- app_assoc. cbn [app].
          split; [intros (H & _)|intros (H & _)]; (split; [exact H|]).
          * right. apply nonnum_cons. left. intros [Hd|Hd]; [vm_compute in Hd; discriminate|rewrite code_HYP in Hd; lia].
          * left. reflexivity. }
    (* any other byte *)
    split; [discriminate|]. intros (H & _). exfalso.
    assert (Hin : In b (cur ++ b :: r)) by (apply in_or_app; right; left; reflexivity).
    assert (Hall : forall h, labels us h -> Forall (fun x => ldh us x \/ code x = 46) h).
    { induction 1 as [l (_ & Hfl & _) | l r0 (_ & Hfl & _) _ IHr].
      - eapply Forall_impl; [|exact Hfl]. auto.
      - apply Forall_app. split; [eapply Forall_impl; [|exact Hfl]; auto|].
        constructor; [right; reflexivity|exact IHr]. }
    specialize (Hall _ H). rewrite Forall_forall in Hall. destruct (Hall b Hin) as [[Hx|Hx]|Hx]; congruence.
Qed.
End D.

(* ------------------------------------------------------------------ the whole function *)
Section Top.
Variable us : bool.

Lemma in_last {A} (l : list A) d : l <> [] -> In (last l d) l.
Proof.
  induction l as [|x l IH]; [congruence|]. intros _. destruct l as [|y l]; [left; reflexivity|].
  right. apply IH. discriminate.
Qed.

Lemma label_last_not_dot l : label us l -> last l DOT <> DOT.
Proof.
  intros (Hlen & Hf & _). assert (Hne : l <> []) by (destruct l; [cbn in Hlen; lia|discriminate]).
  pose proof (in_last l DOT Hne) as Hin. rewrite Forall_forall in Hf.
  pose proof (ldh_not_dot us _ (Hf _ Hin)) as Hd. intros E. apply Hd. rewrite E. reflexivity.
Qed.

Lemma labels_last_not_dot h : labels us h -> last h DOT <> DOT.
Proof.
  induction 1 as [l Hl | l r Hl Hr IH]; [apply label_last_not_dot; exact Hl|].
  rewrite last_app_cons. pose proof (labels_nonempty us r Hr) as Hne.
  destruct r as [|y r]; [congruence|exact IH].
Qed.

Definition numeric_charb (b : byte) : bool := is_digit (code b) || (code b =? 46).
Lemma numeric_charb_spec b : numeric_charb b = true <-> numeric_char b.
Proof. unfold numeric_charb, numeric_char. rewrite orb_true_iff, N.eqb_eq. tauto. Qed.

Lemma not_forall_numeric l : ~ Forall numeric_char l <-> nonnum l.
Proof.
  unfold nonnum. induction l as [|b r IH].
  - split; [intros H; exfalso; apply H; constructor|intros H; inversion H].
  - rewrite Exists_cons. split.
    + intros H. destruct (numeric_charb b) eqn:E.
      * right. apply IH. intros Hr. apply H. constructor; [apply numeric_charb_spec; exact E|exact Hr].
      * left. intros Hb. apply numeric_charb_spec in Hb. congruence.
    + intros [Hb|Hr] Hall; inversion Hall; subst; [contradiction|]. apply IH in Hr. contradiction.
Qed.

Lemma removelast_last (l : list byte) d : l <> [] -> l = removelast l ++ [last l d].
Proof. intros H. apply app_removelast_last. exact H. Qed.

Lemma pre_nil l : Pre us [] l.
Proof. unfold Pre. cbn. repeat split; try constructor; try discriminate; intros; lia. Qed.

Lemma last_is_dot_spec d : last_is_dot d = true <-> last d NUL = DOT.
Proof.
  unfold last_is_dot. rewrite N.eqb_eq. split; [intros H; apply (byte_of_code _ 46); [exact H|reflexivity]|intros ->; reflexivity].
Qed.

Theorem ascii_domain_correct d : nulfree d -> (ascii_domain us d [] = 0%Z <-> HostnameSpec us d).
Proof.
  intros Hn. destruct d as [|b0 d0].
  { cbn. split; [discriminate|]. intros (h & [E|E] & Hl & _).
    - subst h. apply labels_nonempty in Hl. congruence.
    - destruct h; discriminate. }
  set (d := b0 :: d0) in *. assert (Hne : d <> []) by discriminate.
  unfold ascii_domain. fold d. change (match d with [] => E_DOMAIN_EMPTY | _ :: _ => ?x end) with x.
  cbv zeta.
  assert (Hlastd : forall x, last d x = last d NUL).
  { intros x. subst d. clear. revert b0. induction d0 as [|y r IH]; intros b0; [reflexivity|]. apply (IH y). }
  destruct (Nat.leb_spec 255 (length d)) as [Hbig|Hsmall].
  { cbn [orb]. split; [discriminate|]. intros (h & [E|E] & _ & Hlen & _); rewrite E in Hbig; [lia|].
    rewrite app_length in Hbig. cbn in Hbig. lia. }
  cbn [orb].
  destruct (Nat.eqb_spec (length d) 254) as [H254|H254]; cbn [andb].
  - destruct (last_is_dot d) eqn:Eld; cbn [negb].
    + (* 254 bytes ending in the root dot *)
      assert (Hge : Nat.leb 2 (length d) = true) by (apply Nat.leb_le; lia). rewrite Hge. cbn [andb].
      apply last_is_dot_spec in Eld. pose proof (removelast_last d NUL Hne) as Ed. rewrite Eld in Ed.
      assert (Hnh : nulfree (removelast d)).
      { rewrite Ed in Hn. apply nulfree_app in Hn. tauto. }
      pose proof (dscan_correct us [DOT] (or_intror eq_refl) (removelast d) [] false Hnh (pre_nil _)) as Hc.
      cbn [length app] in Hc. rewrite Hc. unfold Good. cbn [app]. split.
      * intros (Hl & [Hx|Hx]); [discriminate|]. exists (removelast d). repeat split; auto.
        -- assert (length d = length (removelast d) + 1)%nat by (rewrite Ed at 1; rewrite app_length; cbn; lia). lia.
        -- apply not_forall_numeric. exact Hx.
      * intros (h & [E|E] & Hl & Hlen & Hnum).
        -- exfalso. subst h. apply labels_last_not_dot in Hl. rewrite Hlastd in Hl. contradiction.
        -- assert (h = removelast d) as <-.
           { rewrite E. rewrite removelast_app by discriminate. cbn. rewrite app_nil_r. reflexivity. }
           split; [exact Hl|right; apply not_forall_numeric; exact Hnum].
    + split; [discriminate|]. intros (h & [E|E] & Hl & Hlen & _).
      * subst h. lia.
      * exfalso. assert (last d NUL = DOT) by (rewrite E; apply last_last). apply last_is_dot_spec in H. congruence.
  - destruct (Nat.leb 2 (length d) && last_is_dot d) eqn:Estrip.
    + apply andb_true_iff in Estrip as (Hge & Eld). apply Nat.leb_le in Hge.
      apply last_is_dot_spec in Eld. pose proof (removelast_last d NUL Hne) as Ed. rewrite Eld in Ed.
      assert (Hnh : nulfree (removelast d)).
      { rewrite Ed in Hn. apply nulfree_app in Hn. tauto. }
      pose proof (dscan_correct us [DOT] (or_intror eq_refl) (removelast d) [] false Hnh (pre_nil _)) as Hc.
      cbn [length app] in Hc. rewrite Hc. unfold Good. cbn [app]. split.
      * intros (Hl & [Hx|Hx]); [discriminate|]. exists (removelast d). repeat split; auto.
        -- assert (length d = length (removelast d) + 1)%nat by (rewrite Ed at 1; rewrite app_length; cbn; lia). lia.
        -- apply not_forall_numeric. exact Hx.
      * intros (h & [E|E] & Hl & Hlen & Hnum).
        -- exfalso. subst h. apply labels_last_not_dot in Hl. rewrite Hlastd in Hl. contradiction.
        -- assert (h = removelast d) as <-.
           { rewrite E. rewrite removelast_app by discriminate. cbn. rewrite app_nil_r. reflexivity. }
           split; [exact Hl|right; apply not_forall_numeric; exact Hnum].
    + pose proof (dscan_correct us [] (or_introl eq_refl) d [] false Hn (pre_nil _)) as Hc.
      cbn [length app] in Hc. rewrite Hc. unfold Good. cbn [app]. split.
      * intros (Hl & [Hx|Hx]); [discriminate|]. exists d. repeat split; auto; [lia|].
        apply not_forall_numeric. exact Hx.
      * intros (h & [E|E] & Hl & Hlen & Hnum).
        -- subst h. split; [exact Hl|right; apply not_forall_numeric; exact Hnum].
        -- exfalso. assert (Hld : last d NUL = DOT) by (rewrite E; apply last_last). apply last_is_dot_spec in Hld.
           rewrite Hld in Estrip. rewrite andb_true_r in Estrip. apply Nat.leb_gt in Estrip.
           rewrite E in Estrip. rewrite app_length in Estrip. cbn in Estrip.
           apply labels_nonempty in Hl. destruct h; [congruence|cbn in Estrip; lia].
Qed.
End Top.
