(* EnumTie.v — the numeric constants of Codes.v are the values the built library uses (Gen/GenEnums.v),
   the message table behind eav_errstr is the documented one, eav_init leaves the documented defaults. *)
From Coq Require Import List NArith ZArith Bool.
From Coq Require Import Strings.Byte.
From Coq Require Strings.String.
Import Strings.String.StringSyntax.
Require Import Bytes Codes Hex Special Api.
Require Gen.GenEnums.
Import ListNotations.
Local Open Scope Z_scope.

Lemma enum_values_match :
  [ GenEnums.g_EEAV_NO_ERROR; GenEnums.g_EEAV_INVALID_RFC; GenEnums.g_EEAV_IDN_ERROR; GenEnums.g_EEAV_EMAIL_EMPTY;
    GenEnums.g_EEAV_LPART_EMPTY; GenEnums.g_EEAV_LPART_TOO_LONG; GenEnums.g_EEAV_LPART_NOT_ASCII; GenEnums.g_EEAV_LPART_SPECIAL;
    GenEnums.g_EEAV_LPART_CTRL_CHAR; GenEnums.g_EEAV_LPART_MISPLACED_QUOTE; GenEnums.g_EEAV_LPART_UNQUOTED;
    GenEnums.g_EEAV_LPART_TOO_MANY_DOTS; GenEnums.g_EEAV_LPART_MISPLACED_DOT; GenEnums.g_EEAV_LPART_UNQUOTED_FWS;
    GenEnums.g_EEAV_LPART_INVALID_FOLDING; GenEnums.g_EEAV_LPART_INVALID_UTF8; GenEnums.g_EEAV_DOMAIN_EMPTY;
    GenEnums.g_EEAV_DOMAIN_LABEL_TOO_LONG; GenEnums.g_EEAV_DOMAIN_MISPLACED_HYPHEN; GenEnums.g_EEAV_DOMAIN_MISPLACED_DELIMITER;
    GenEnums.g_EEAV_DOMAIN_INVALID_CHAR; GenEnums.g_EEAV_DOMAIN_TOO_LONG; GenEnums.g_EEAV_DOMAIN_NUMERIC;
    GenEnums.g_EEAV_DOMAIN_NOT_FQDN; GenEnums.g_EEAV_IPADDR_INVALID; GenEnums.g_EEAV_IPADDR_BRACKET_UNPAIR;
    GenEnums.g_EEAV_TLD_INVALID; GenEnums.g_EEAV_TLD_NOT_ASSIGNED; GenEnums.g_EEAV_TLD_COUNTRY_CODE; GenEnums.g_EEAV_TLD_GENERIC;
    GenEnums.g_EEAV_TLD_GENERIC_RESTRICTED; GenEnums.g_EEAV_TLD_INFRASTRUCTURE; GenEnums.g_EEAV_TLD_SPONSORED;
    GenEnums.g_EEAV_TLD_TEST; GenEnums.g_EEAV_TLD_SPECIAL; GenEnums.g_EEAV_TLD_RETIRED; GenEnums.g_EEAV_MAX ]
  = [ EEAV_NO_ERROR; EEAV_INVALID_RFC; EEAV_IDN_ERROR; EEAV_EMAIL_EMPTY; EEAV_LPART_EMPTY; EEAV_LPART_TOO_LONG;
      EEAV_LPART_NOT_ASCII; EEAV_LPART_SPECIAL; EEAV_LPART_CTRL_CHAR; EEAV_LPART_MISPLACED_QUOTE; EEAV_LPART_UNQUOTED;
      EEAV_LPART_TOO_MANY_DOTS; EEAV_LPART_MISPLACED_DOT; EEAV_LPART_UNQUOTED_FWS; EEAV_LPART_INVALID_FOLDING;
      EEAV_LPART_INVALID_UTF8; EEAV_DOMAIN_EMPTY; EEAV_DOMAIN_LABEL_TOO_LONG; EEAV_DOMAIN_MISPLACED_HYPHEN;
      EEAV_DOMAIN_MISPLACED_DELIMITER; EEAV_DOMAIN_INVALID_CHAR; EEAV_DOMAIN_TOO_LONG; EEAV_DOMAIN_NUMERIC;
      EEAV_DOMAIN_NOT_FQDN; EEAV_IPADDR_INVALID; EEAV_IPADDR_BRACKET_UNPAIR; EEAV_TLD_INVALID; EEAV_TLD_NOT_ASSIGNED;
      EEAV_TLD_COUNTRY_CODE; EEAV_TLD_GENERIC; EEAV_TLD_GENERIC_RESTRICTED; EEAV_TLD_INFRASTRUCTURE; EEAV_TLD_SPONSORED;
      EEAV_TLD_TEST; EEAV_TLD_SPECIAL; EEAV_TLD_RETIRED; EEAV_MAX ].
Proof. reflexivity. Qed.

Lemma tld_type_values_match :
  [ GenEnums.g_TLD_TYPE_NOT_ASSIGNED; GenEnums.g_TLD_TYPE_COUNTRY_CODE; GenEnums.g_TLD_TYPE_GENERIC;
    GenEnums.g_TLD_TYPE_GENERIC_RESTRICTED; GenEnums.g_TLD_TYPE_INFRASTRUCTURE; GenEnums.g_TLD_TYPE_SPONSORED;
    GenEnums.g_TLD_TYPE_TEST; GenEnums.g_TLD_TYPE_SPECIAL; GenEnums.g_TLD_TYPE_RETIRED ]
  = [ TLD_TYPE_NOT_ASSIGNED; TLD_TYPE_COUNTRY_CODE; TLD_TYPE_GENERIC; TLD_TYPE_GENERIC_RESTRICTED;
      TLD_TYPE_INFRASTRUCTURE; TLD_TYPE_SPONSORED; TLD_TYPE_TEST; TLD_TYPE_SPECIAL; TLD_TYPE_RETIRED ].
Proof. reflexivity. Qed.

(* EAV_TLD_x = 1 << (TLD_TYPE_x + 1): the bit the policy tests for class k is bit k+1 *)
Lemma allow_bits_match :
  [ GenEnums.g_EAV_TLD_NOT_ASSIGNED; GenEnums.g_EAV_TLD_COUNTRY_CODE; GenEnums.g_EAV_TLD_GENERIC;
    GenEnums.g_EAV_TLD_GENERIC_RESTRICTED; GenEnums.g_EAV_TLD_INFRASTRUCTURE; GenEnums.g_EAV_TLD_SPONSORED;
    GenEnums.g_EAV_TLD_TEST; GenEnums.g_EAV_TLD_SPECIAL; GenEnums.g_EAV_TLD_RETIRED ]
  = map class_bit [1; 2; 3; 4; 5; 6; 7; 8; 9].
Proof. reflexivity. Qed.

(* EEAV_TLD_x = EEAV_TLD_INVALID + TLD_TYPE_x, as class_err assumes *)
Lemma class_err_match :
  map class_err [1; 2; 3; 4; 5; 6; 7; 8; 9] =
  [ GenEnums.g_EEAV_TLD_NOT_ASSIGNED; GenEnums.g_EEAV_TLD_COUNTRY_CODE; GenEnums.g_EEAV_TLD_GENERIC;
    GenEnums.g_EEAV_TLD_GENERIC_RESTRICTED; GenEnums.g_EEAV_TLD_INFRASTRUCTURE; GenEnums.g_EEAV_TLD_SPONSORED;
    GenEnums.g_EEAV_TLD_TEST; GenEnums.g_EEAV_TLD_SPECIAL; GenEnums.g_EEAV_TLD_RETIRED ].
Proof. reflexivity. Qed.

Lemma rfc_and_limits_match :
  [ GenEnums.g_EAV_RFC_822; GenEnums.g_EAV_RFC_5321; GenEnums.g_EAV_RFC_5322; GenEnums.g_EAV_RFC_6531;
    GenEnums.g_VALID_HOSTNAME_LEN; GenEnums.g_VALID_LABEL_LEN; GenEnums.g_VALID_LPART_LEN ]
  = [ EAV_RFC_822; EAV_RFC_5321; EAV_RFC_5322; EAV_RFC_6531; VALID_HOSTNAME_LEN; VALID_LABEL_LEN; VALID_LPART_LEN ].
Proof. reflexivity. Qed.

(* the message table, in enum order (EEAV_IDN_ERROR has no table message: the IDN library's is used) *)
Local Open Scope string_scope.
Definition expected_messages : list (Z * String.string) :=
  [ (0, "no error"); (1, "invalid RFC specified");
    (3, "empty email address"); (4, "local-part is empty"); (5, "local-part is too long");
    (6, "local-part has non-ascii characters"); (7, "local-part has special characters");
    (8, "local-part has control characters"); (9, "local-part has misplaced double quote");
    (10, "local-part has open double quote"); (11, "local-part has too many dots");
    (12, "local-part has misplaced dot"); (13, "local-part has unquoted characters");
    (14, "local-part has invalid folding"); (15, "local-part has invalid UTF-8 data");
    (16, "domain is empty"); (17, "domain label is too long"); (18, "domain has misplaced hyphen");
    (19, "domain has misplaced delimiter"); (20, "domain has invalid characters"); (21, "domain is too long");
    (22, "domain is all-numeric"); (23, "domain is not FQDN"); (24, "ip-addr is incorrect");
    (25, "ip-addr has unpaired bracket"); (26, "invalid TLD"); (27, "not assigned TLD"); (28, "country-code TLD");
    (29, "generic TLD"); (30, "generic-restricted TLD"); (31, "infrastructure TLD"); (32, "sponsored TLD");
    (33, "test TLD"); (34, "special TLD"); (35, "retired TLD") ].
Local Close Scope string_scope.

Lemma messages_match :
  map (fun p => (fst p, unhex (snd p))) GenEnums.g_messages_hex = map (fun p => (fst p, bs (snd p))) expected_messages.
Proof. vm_compute. reflexivity. Qed.

Lemma messages_nonempty : forallb (fun p => negb (Nat.eqb (length (unhex (snd p))) 0)) GenEnums.g_messages_hex = true.
Proof. vm_compute. reflexivity. Qed.

(* eav_init: every field is written (the two poisoned runs agree) and holds the documented default *)
Local Open Scope string_scope.
Lemma init_defaults_match :
  GenEnums.g_init =
  [ ("rfc", (e_rfc (init_state 0), e_rfc (init_state 0)));
    ("allow_tld", (e_allow (init_state 0), e_allow (init_state 0)));
    ("tld_check", (1, 1)); ("utf8", (0, 0)); ("errcode", (e_errcode (init_state 0), e_errcode (init_state 0)));
    ("idnmsg", (0, 0)); ("initialized", (0, 0)); ("utf8_cb", (0, 0)); ("ascii_cb", (0, 0)); ("result", (0, 0)) ].
Proof. reflexivity. Qed.
Local Close Scope string_scope.

Lemma default_mask_is_documented :
  default_mask = GenEnums.g_EAV_TLD_COUNTRY_CODE + GenEnums.g_EAV_TLD_GENERIC + GenEnums.g_EAV_TLD_GENERIC_RESTRICTED +
                 GenEnums.g_EAV_TLD_INFRASTRUCTURE + GenEnums.g_EAV_TLD_SPONSORED + GenEnums.g_EAV_TLD_SPECIAL
  /\ Z.land default_mask (GenEnums.g_EAV_TLD_NOT_ASSIGNED + GenEnums.g_EAV_TLD_TEST + GenEnums.g_EAV_TLD_RETIRED) = 0.
Proof. split; reflexivity. Qed.
