(* Properties_C13.v — C13: eav_t reuse: the outcome depends on the current settings and the address only. *)
From Coq Require Import List NArith ZArith Lia Bool.
From Coq Require Import Strings.Byte.
Require Import Bytes Codes Hex Local Local6531 LocalSpec LocalProofs Utf8Spec Local6531Spec Local6531Proofs Domain DomainSpec DomainProofs Ip Special SpecialProofs Email EmailProofs Api ApiProofs TldProofs EnumTie.
Require Gen.GenEnums.
Import ListNotations.
From Coq Require Strings.String.
Import Strings.String.StringSyntax.
Local Open Scope string_scope.

(* two objects with arbitrary histories that agree on (confirmed mode, tld_check, allow_tld) give the same
   return value, error code, message and result record for the same address *)
Theorem C13_history_independence :
  forall idn g tbl, table_ok tbl -> forall s1 s2 a,
    callback s1 = callback s2 -> e_tldc s1 = e_tldc s2 -> e_allow s1 = e_allow s2 ->
    observable (is_email idn g tbl s1 a) = observable (is_email idn g tbl s2 a) \/ callback s1 = None.
Proof. exact history_independence. Qed.
Print Assumptions C13_history_independence.

(* ... and these three settings are the ones tracked by the operations since eav_init: the mode is the one
   confirmed by the last successful eav_setup; a failed eav_setup changes nothing; the contents of the object
   before eav_init do not matter *)
Theorem C13_outcome_is_a_function_of_settings :
  forall idn g tbl, table_ok tbl -> forall s0 ops a m,
  let c := settings_of settings_init ops in
  let s := fst (run idn g tbl s0 (Init :: ops)) in
  st_mode c = Some m ->
  observable (is_email idn g tbl s a) =
  observable (judge (mkeav 0 (st_mask c) (st_tld c) false 0 None false false None None 0) (email idn g tbl m (st_tld c) a)).
Proof. exact outcome_function_of_settings. Qed.
Print Assumptions C13_outcome_is_a_function_of_settings.

(* eav_errstr after the call describes that call; later successful eav_setup and setting changes leave it alone *)
Theorem C13_errstr_stable :
  forall idn g tbl s o,
    (match o with SetRfc _ | SetTld _ | SetMask _ | ErrStr => True
     | Setup => mode_of_rfc (e_rfc s) <> None | _ => False end) ->
    errstr (fst (step idn g tbl s o)) = errstr s.
Proof.
  intros idn g tbl s o H. destruct o; try contradiction; try reflexivity.
  cbn [step]. unfold setup, mode_of_rfc in *.
  destruct (e_rfc s =? EAV_RFC_822)%Z; [reflexivity|]. destruct (e_rfc s =? EAV_RFC_5321)%Z; [reflexivity|].
  destruct (e_rfc s =? EAV_RFC_5322)%Z; [reflexivity|]. destruct (e_rfc s =? EAV_RFC_6531)%Z; [reflexivity|congruence].
Qed.
Print Assumptions C13_errstr_stable.

(* the previous result record is released by the next call; eav_free releases everything exactly once;
   the object may then be initialised again *)
Theorem C13_allocation_balance :
  forall idn g tbl s o, balanced s -> op_ok s o -> balanced (fst (step idn g tbl s o)).
Proof. exact balanced_step. Qed.
Print Assumptions C13_allocation_balance.
Theorem C13_free_releases_everything :
  forall idn g tbl s, balanced s ->
    e_live (fst (step idn g tbl s Free)) = 0%Z /\ e_result (fst (step idn g tbl s Free)) = None /\
    op_ok (fst (step idn g tbl s Free)) Init.
Proof. intros idn g tbl s H. destruct (free_releases_everything idn g tbl s H) as (A & B). repeat split; assumption. Qed.
Print Assumptions C13_free_releases_everything.

Example C13_example :
  let idn := fun d => IdnOk d in
  let ops1 := [Init; SetRfc 0; Setup; IsEmail (bs "a@b.com"); SetRfc 9; Setup; SetRfc 1; SetTld false; Setup] in
  let ops2 := [Init; SetTld false; SetRfc 1; Setup] in
  observable (is_email idn cfg0 tld_list (fst (run idn cfg0 tld_list (init_state 5) ops1)) (bs """x""y@z")) =
  observable (is_email idn cfg0 tld_list (fst (run idn cfg0 tld_list (init_state 0) ops2)) (bs """x""y@z")).
Proof. vm_compute. reflexivity. Qed.
