(* Properties_C15.v — C15: diagnostics are truthful. *)
From Coq Require Import List NArith ZArith Lia Bool.
From Coq Require Import Strings.Byte.
Require Import Bytes Codes Hex Local Local6531 LocalSpec LocalProofs Utf8Spec Local6531Spec Local6531Proofs Domain DomainSpec DomainProofs Ip Special SpecialProofs Email EmailProofs Api ApiProofs TldProofs EnumTie DiagProofs.
Require Gen.GenEnums.
Import ListNotations.
From Coq Require Strings.String.
Import Strings.String.StringSyntax.
Local Open Scope string_scope.

(* eav_is_email returns 1 iff the recorded error is "no error" (result codes the composers can produce are <= 9) *)
Theorem C15_return_iff_no_error :
  forall s r, (rc r <= 9)%Z -> (snd (judge s r) = ORet 1 <-> e_errcode (fst (judge s r)) = EEAV_NO_ERROR).
Proof. exact ret_iff_no_error. Qed.
Print Assumptions C15_return_iff_no_error.

(* after a rejection the error code is the code returned by the failing per-part validator, and the message is
   the table entry of that code, or the IDN library's message for the returned IDN code *)
Theorem C15_code_and_message_of_a_rejection :
  forall s r, (rc r < 0)%Z ->
    snd (judge s r) = ORet 0 /\ e_errcode (fst (judge s r)) = (- rc r)%Z /\
    errstr (fst (judge s r)) = (if (- rc r =? EEAV_IDN_ERROR)%Z then MsgIdn (idn_rc r) else MsgTable (- rc r)).
Proof. exact judge_negative. Qed.
Print Assumptions C15_code_and_message_of_a_rejection.

(* the message table of the built library: in enum order, the documented texts, none empty *)
Theorem C15_message_table :
  map (fun p => (fst p, unhex (snd p))) GenEnums.g_messages_hex = map (fun p => (fst p, bs (snd p))) expected_messages /\
  forallb (fun p => negb (Nat.eqb (length (unhex (snd p))) 0)) GenEnums.g_messages_hex = true.
Proof. split; [exact messages_match|exact messages_nonempty]. Qed.
Print Assumptions C15_message_table.

(* where a result code comes from: exactly one of the per-part validators (or the basic checks) *)
Theorem C15_code_source :
  forall idn g tbl m t a, rc_source idn g tbl m t a (rc (email idn g tbl m t a)).
Proof. exact email_rc_source. Qed.
Print Assumptions C15_code_source.

(* a local-part error is reported only if the local part is over 64 octets ("too long") or the scanner of the
   mode returned that code on it — hence, by C02/C03, only if the local part really is invalid for the mode *)
Theorem C15_local_error_is_true :
  forall idn g tbl m t a, table_ok tbl ->
  let r := rc (email idn g tbl m t a) in In r local_part_codes ->
  exists l d, a = l ++ AT :: d /\ ~ In AT d /\
    ((r = E_LPART_TOO_LONG /\ (64 < length l)%nat) \/ ((length l <= 64)%nat /\ r = local_of g m l (AT :: d) /\ r <> 0%Z)).
Proof. exact local_code_origin. Qed.
Print Assumptions C15_local_error_is_true.

Theorem C15_too_long_iff_over_64 :
  forall idn g tbl m t l d, table_ok tbl -> ~ In AT d -> d <> [] ->
    (rc (email idn g tbl m t (l ++ AT :: d)) = E_LPART_TOO_LONG <-> (64 < length l)%nat).
Proof. exact too_long_iff. Qed.
Print Assumptions C15_too_long_iff_over_64.

(* "too many dots" only if the local part contains ".."; "non-ascii" only if a byte >= 0x80 is there *)
Theorem C15_too_many_dots_is_true :
  forall am rest l, local am l rest = E_TMD -> exists x y, l = x ++ DOT :: DOT :: y.
Proof. intros am rest l H. unfold local in H. destruct l; [discriminate H|]. eapply scan_tmd; exact H. Qed.
Print Assumptions C15_too_many_dots_is_true.
Theorem C15_non_ascii_is_true :
  forall am rest l, local am l rest = E_NOT_ASCII -> Exists (fun b => (127 < code b)%N) l.
Proof. intros am rest l H. unfold local in H. destruct l; [discriminate H|]. eapply scan_not_ascii; exact H. Qed.
Print Assumptions C15_non_ascii_is_true.

(* "invalid TLD" only if no table row equals the label *)
Theorem C15_invalid_tld_is_true :
  forall l, l <> [] -> tld_lookup tld_list l = E_TLD_INVALID -> forall r, In r tld_list -> ci_eqb (row_name r) l = false.
Proof. exact tld_invalid_means_unlisted. Qed.
Print Assumptions C15_invalid_tld_is_true.

(* eav_setup: 0 for the four defined modes, EEAV_INVALID_RFC otherwise, and then eav_errstr reports that condition *)
Theorem C15_setup_codes :
  forall s,
  (mode_of_rfc (e_rfc s) <> None -> snd (setup s) = ORet 0 /\ e_errcode (fst (setup s)) = e_errcode s) /\
  (mode_of_rfc (e_rfc s) = None ->
     snd (setup s) = ORet EEAV_INVALID_RFC /\ errstr (fst (setup s)) = MsgTable EEAV_INVALID_RFC /\
     callback (fst (setup s)) = callback s).
Proof. exact setup_codes. Qed.
Print Assumptions C15_setup_codes.

Example C15_example :
  let idn := fun d => IdnErr (-304) false in
  errstr (fst (is_email idn cfg0 tld_list (fst (setup (init_state 0))) (bs "a@b.c"))) = MsgIdn (-304) /\
  local M822 (bs "a..b") [] = E_TMD /\
  mode_of_rfc 7 = None /\ mode_of_rfc 2 = Some (MA M5322).
Proof. cbv zeta. repeat split; vm_compute; reflexivity. Qed.
