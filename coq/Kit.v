(* Kit.v — C18: the idnkit back end's resource handling (partial/idnkit/eav.c): the conversion context
   created by eav_setup (mode 6531) and destroyed by a later eav_setup to an ASCII mode or by eav_free. *)
From Coq Require Import List ZArith Bool Lia.
Require Import Codes Api.
Import ListNotations.
Local Open Scope Z_scope.

Record kit := mkkit {
  k_rfc : Z;
  k_init : bool;        (* eav->initialized *)
  k_freed : bool;       (* eav_free has run and eav_init has not yet *)
  k_created : Z; k_destroyed : Z;
  k_bad : Z             (* destroys of a context that is not live *)
}.

Definition kit0 : kit := mkkit EAV_RFC_6531 false false 0 0 0.

Definition is_ascii_rfc (z : Z) : bool := (z =? EAV_RFC_822) || (z =? EAV_RFC_5321) || (z =? EAV_RFC_5322).

Definition kit_step (k : kit) (o : op) : kit :=
  match o with
  | Init => mkkit EAV_RFC_6531 false false (k_created k) (k_destroyed k) (k_bad k)
  | SetRfc z => mkkit z (k_init k) (k_freed k) (k_created k) (k_destroyed k) (k_bad k)
  | Setup =>
    if k_rfc k =? EAV_RFC_6531 then
      if k_init k then k else mkkit (k_rfc k) true (k_freed k) (k_created k + 1) (k_destroyed k) (k_bad k)
    else if is_ascii_rfc (k_rfc k) then
      if k_init k then
        (* destroys eav->idn: live unless eav_free already destroyed it *)
        if k_freed k then mkkit (k_rfc k) false (k_freed k) (k_created k) (k_destroyed k) (k_bad k + 1)
        else mkkit (k_rfc k) false (k_freed k) (k_created k) (k_destroyed k + 1) (k_bad k)
      else k
    else k
  | Free =>
    if k_init k then
      if k_freed k then mkkit (k_rfc k) (k_init k) true (k_created k) (k_destroyed k) (k_bad k + 1)
      else mkkit (k_rfc k) (k_init k) true (k_created k) (k_destroyed k + 1) (k_bad k)
    else mkkit (k_rfc k) (k_init k) true (k_created k) (k_destroyed k) (k_bad k)
  | _ => k
  end.

Fixpoint kit_run (k : kit) (ops : list op) : kit :=
  match ops with [] => k | o :: r => kit_run (kit_step k o) r end.

(* a context is live iff the object is initialised and eav_free has not destroyed it yet *)
Definition kit_live (k : kit) : bool := k_init k && negb (k_freed k).

Definition kit_inv (k : kit) : Prop :=
  k_bad k = 0 /\ k_created k - k_destroyed k = (if kit_live k then 1 else 0).

(* legal call histories: eav_init only on an object that owns no context (fresh or after eav_free);
   after eav_free nothing but eav_init *)
Definition kit_legal (k : kit) (o : op) : Prop :=
  match o with
  | Init => kit_live k = false
  | _ => k_freed k = false
  end.

Lemma kit_inv_step k o : kit_inv k -> kit_legal k o -> kit_inv (kit_step k o).
Proof.
  destruct k as [rfc init freed cr de bad]. unfold kit_inv, kit_legal, kit_live. cbn [k_bad k_created k_destroyed k_init k_freed k_rfc].
  intros (Hb & Hc) Hl. destruct init, freed; destruct o; cbn [kit_step k_bad k_created k_destroyed k_init k_freed k_rfc andb negb] in *; try discriminate;
    repeat match goal with |- context [if ?c then _ else _] => destruct c eqn:? end;
    cbn [k_bad k_created k_destroyed k_init k_freed k_rfc andb negb] in *; subst; try discriminate; split; lia.
Qed.

Fixpoint all_legal (k : kit) (ops : list op) : Prop :=
  match ops with [] => True | o :: r => kit_legal k o /\ all_legal (kit_step k o) r end.

Theorem kit_inv_run ops : forall k, kit_inv k -> all_legal k ops -> kit_inv (kit_run k ops).
Proof.
  induction ops as [|o r IH]; intros k Hk Hl; [exact Hk|]. destruct Hl as (H1 & H2). cbn [kit_run].
  apply IH; [apply kit_inv_step; assumption|exact H2].
Qed.

(* after eav_free everything acquired has been released exactly once *)
Theorem kit_released_after_free ops k : kit_inv k -> all_legal k (ops ++ [Free]) ->
  let k' := kit_run k (ops ++ [Free]) in k_created k' = k_destroyed k' /\ k_bad k' = 0.
Proof.
  intros Hk Hl. cbv zeta. pose proof (kit_inv_run _ _ Hk Hl) as (Hb & Hc).
  assert (Hf : k_freed (kit_run k (ops ++ [Free])) = true).
  { clear. revert k. induction ops as [|o r IH]; intros k; [cbn; destruct (k_init k); [destruct (k_freed k)|]; reflexivity|apply IH]. }
  unfold kit_live in Hc. rewrite Hf, andb_false_r in Hc. split; [lia|exact Hb].
Qed.

(* ------------------------------------------------------------------ the back end enters only through the conversion *)
Require Import Bytes Local Local6531 Domain Ip Special Email.
From Coq Require Import Strings.Byte.

Section Ext.
Variable idn1 idn2 : list byte -> idn_res.
Hypothesis Hext : forall d, idn1 d = idn2 d.
Variable g : cfg.
Variable tbl : list tld_row.

Lemma utf8_domain_ext t d : utf8_domain idn1 g tbl t d = utf8_domain idn2 g tbl t d.
Proof. unfold utf8_domain. destruct d; [reflexivity|]. rewrite Hext. reflexivity. Qed.

Lemma email_ext m t a : email idn1 g tbl m t a = email idn2 g tbl m t a.
Proof.
  unfold email. destruct a; [reflexivity|]. destruct (split_last AT (b :: a)) as [[l d]|]; [|reflexivity].
  destruct d; [reflexivity|]. destruct (Nat.ltb 64 (length l)); [reflexivity|].
  destruct (negb (local_of g m l (AT :: b0 :: d) =? 0)); [reflexivity|]. destruct (beqb b0 LBR); [reflexivity|].
  destruct m; [reflexivity|]. rewrite utf8_domain_ext. reflexivity.
Qed.

Lemma step_ext s o : step idn1 g tbl s o = step idn2 g tbl s o.
Proof. destruct o; try reflexivity. cbn [step]. unfold is_email. destruct (callback s); [|reflexivity]. rewrite email_ext. reflexivity. Qed.

Theorem run_ext ops : forall s, run idn1 g tbl s ops = run idn2 g tbl s ops.
Proof.
  induction ops as [|o r IH]; intros s; [reflexivity|]. cbn [run]. rewrite step_ext.
  destruct (step idn2 g tbl s o) as [s1 x]. rewrite IH. reflexivity.
Qed.
End Ext.
