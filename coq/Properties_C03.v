(* Properties_C03.v — C03: RFC 6531 local part = strict UTF-8 + the RFC 5321 grammar, nothing else. *)
From Coq Require Import List NArith ZArith Lia Bool.
From Coq Require Import Strings.Byte.
Require Import Bytes Codes Local Local6531 LocalSpec Utf8Spec Utf8Proofs Local6531Spec Local6531Proofs Special.
Import ListNotations.
From Coq Require Strings.String.
Import Strings.String.StringSyntax.
Local Open Scope string_scope.

(* default build: accepted iff the bytes parse as  word *("." word)  where atoms and quoted text may
   also contain well-formed non-ASCII characters (RFC 3629 table) and a backslash escapes printable ASCII only *)
Theorem C03_local_part_grammar :
  forall s : list byte, local6531 cfg0 s = 0%Z <-> LocalSpec6531 false s.
Proof. exact (local6531_correct cfg0 eq_refl). Qed.
Print Assumptions C03_local_part_grammar.

(* the decoder accepts exactly the RFC 3629 table: no overlong form, surrogate, value above U+10FFFF,
   stray or missing continuation byte *)
Theorem C03_decoder_strict :
  forall l, utf8_next l <> None <->
    exists e r, l = e ++ r /\ ((exists b, e = [b] /\ (code b < 128)%N) \/ wf_nonascii e).
Proof. exact utf8_next_strict. Qed.
Print Assumptions C03_decoder_strict.

(* ... and what it delivers for a well-formed character is that character's Unicode scalar value (RFC 3629 section 3),
   consuming exactly the character's bytes; the values lie in 128..0x10FFFF outside the surrogate range *)
Theorem C03_decoder_value :
  forall e r, wf_nonascii e ->
    utf8_next (e ++ r) = Some (scalar_of e, r) /\
    (128 <= scalar_of e <= 1114111)%N /\ ~ (55296 <= scalar_of e <= 57343)%N.
Proof. intros e r H. split; [exact (utf8_next_value e r H) | exact (scalar_of_range e H)]. Qed.
Print Assumptions C03_decoder_value.

Theorem C03_accepted_is_wellformed_utf8 :
  forall s, local6531 cfg0 s = 0%Z -> wf_utf8 s.
Proof. intros s H. apply (spec6_wf false). apply C03_local_part_grammar. exact H. Qed.
Print Assumptions C03_accepted_is_wellformed_utf8.

(* on pure-ASCII local parts modes 6531 and 5321 decide identically *)
Theorem C03_ascii_agrees_with_5321 :
  forall s rest, all_ascii s -> nulfree s -> (local6531 cfg0 s = 0%Z <-> local M5321 s rest = 0%Z).
Proof. intros s rest. exact (ascii_agrees s rest). Qed.
Print Assumptions C03_ascii_agrees_with_5321.

(* a.X.b is accepted for every non-ASCII character X *)
Theorem C03_dot_X_dot :
  forall e, wf_nonascii e -> local6531 cfg0 (x61 :: DOT :: e ++ [DOT; x62]) = 0%Z.
Proof. exact (dot_X_dot cfg0 eq_refl). Qed.
Print Assumptions C03_dot_X_dot.

(* a quote is legal only at a word start: after any atom (ASCII or not) it is a misplaced quote *)
Theorem C03_quote_only_at_word_start :
  forall a v, atom6 false a -> local6531 cfg0 (a ++ DQ :: v) = E_MQUOTE.
Proof. exact (quote_after_atom cfg0 eq_refl). Qed.
Print Assumptions C03_quote_only_at_word_start.

(* non-vacuity *)
Example C03_example_accept :
  local6531 cfg0 (bs "a." ++ [xd0; xb0] ++ bs ".""q" ++ [xe4; xb8; xad; xf0; x9f; x98; x80] ++ bs "\@""") = 0%Z.
Proof. vm_compute. reflexivity. Qed.
Example C03_example_reject :
  local6531 cfg0 [xc0; x80] <> 0%Z /\ local6531 cfg0 [xed; xa0; x80] <> 0%Z /\ local6531 cfg0 [xf4; x90; x80; x80] <> 0%Z /\
  local6531 cfg0 (bs """\" ++ [xd0; xb0] ++ bs """") <> 0%Z /\ local6531 cfg0 ([xd0; xb0] ++ bs """q""") <> 0%Z.
Proof. repeat split; vm_compute; discriminate. Qed.
Example C03_example_wf : wf_nonascii [xd0; xb0] /\ wf_nonascii [xe4; xb8; xad] /\ wf_nonascii [xf0; x9f; x98; x80].
Proof. repeat split; constructor; reflexivity. Qed.
