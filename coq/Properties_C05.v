(* Properties_C05.v — C05: address literals: only [IPv4] or [IPv6:addr], nothing trailing, family reported. *)
From Coq Require Import List NArith ZArith Lia Bool.
From Coq Require Import Strings.Byte.
Require Import Bytes Codes Local Local6531 Domain Ip IpSpec IpProofs Special Email EmailProofs.
Import ListNotations.
From Coq Require Strings.String.
Import Strings.String.StringSyntax.
Local Open Scope string_scope.

(* upper bound: an accepted bracketed domain is exactly "[" c "]" where c is four decimal octets 0-255
   separated by single dots (family IPv4), or an RFC 4291 textual IPv6 address, tagged "IPv6:" or untagged
   (family IPv6).  No other tag, nothing after the bracket, nothing else inside. *)
Theorem C05_accepted_literals :
  forall d f, hd NUL d = LBR -> nulfree d -> check_ip d = (0%Z, f) ->
    exists c, d = LBR :: c ++ [RBR] /\
      ((f = Fam4 /\ Ipv4Text c) \/
       (f = Fam6 /\ ((exists a, c = tag_ipv6 ++ a /\ Ipv6Text a) \/ Ipv6Text c))).
Proof. exact check_ip_upper. Qed.
Print Assumptions C05_accepted_literals.

(* the two parsers against the text forms, for every byte string and whatever follows the end pointer *)
Theorem C05_ipv4_parser_upper :
  forall s rest, ipv4 s rest = true -> nulfree s -> Ipv4Text s.
Proof. exact ipv4_sound. Qed.
Print Assumptions C05_ipv4_parser_upper.
Theorem C05_ipv6_parser_upper :
  forall s, nulfree s -> ipv6 s [RBR] = true -> Ipv6Text s.
Proof. exact (ipv6_sound [RBR] rbr_rest_ok). Qed.
Print Assumptions C05_ipv6_parser_upper.

(* lower bound: every dotted quad of 1-3 digit octets <= 255 with non-zero first octet, and every
   "IPv6:"-tagged literal of the RFC 5321 section 4.1.3 grammar (full, comp <= 6 groups, v4-full,
   v4-comp <= 4 groups; dotted-quad tail with non-zero first octet) is accepted with the right family *)
Theorem C05_ipv4_literals_accepted :
  forall c, Ipv4Lower c -> check_ip (LBR :: c ++ [RBR]) = (0%Z, Fam4).
Proof. exact check_ip_lower_v4. Qed.
Print Assumptions C05_ipv4_literals_accepted.
Theorem C05_ipv6_literals_accepted :
  forall a, Ipv6Lower a -> check_ip (LBR :: (tag_ipv6 ++ a) ++ [RBR]) = (0%Z, Fam6).
Proof. exact check_ip_lower_v6. Qed.
Print Assumptions C05_ipv6_literals_accepted.

(* ... in every mode: the address is accepted whenever its local part is, whatever tld_check and the table *)
Theorem C05_literal_addresses_accepted :
  forall idn g tbl m t l c f, ~ In AT (LBR :: c ++ [RBR]) -> (length l <= 64)%nat -> local_of g m l (AT :: LBR :: c ++ [RBR]) = 0%Z ->
    check_ip (LBR :: c ++ [RBR]) = (0%Z, f) -> (f = Fam4 \/ f = Fam6) ->
    let r := email idn g tbl m t (l ++ AT :: LBR :: c ++ [RBR]) in
    rc r = 0%Z /\ is_domain r = false /\ is_ipv4 r = (match f with Fam4 => true | _ => false end) /\
    is_ipv6 r = (match f with Fam6 => true | _ => false end).
Proof.
  intros idn g tbl m t l c f Hat Hlen Hl Hc Hf. cbv zeta. rewrite email_split by exact Hat.
  assert (Nat.ltb 64 (length l) = false) as -> by (apply PeanoNat.Nat.ltb_ge; exact Hlen). cbv zeta.
  rewrite Hl. cbn [Z.eqb negb]. assert (beqb LBR LBR = true) as -> by (apply beqb_eq; reflexivity).
  unfold ip_result. rewrite Hc. destruct Hf as [-> | ->]; repeat split.
Qed.
Print Assumptions C05_literal_addresses_accepted.

Example C05_examples :
  check_ip (bs "[8.8.8.8]") = (0%Z, Fam4) /\ check_ip (bs "[IPv6:::ffff:192.0.2.128]") = (0%Z, Fam6) /\
  check_ip (bs "[2001:db8:1:1:1:1:1:1]") = (0%Z, Fam6) /\
  fst (check_ip (bs "[1.2.3.4]x")) <> 0%Z /\ fst (check_ip (bs "[1.2.3.4.]")) <> 0%Z /\ fst (check_ip (bs "[foo:1.2.3.4]")) <> 0%Z /\
  fst (check_ip (bs "[IPv6:1.2.3.4]")) <> 0%Z /\ fst (check_ip (bs "[IPv6:1:2]")) <> 0%Z /\ fst (check_ip (bs "[IPv6:1:2:3:4:5:6:7:]")) <> 0%Z /\
  fst (check_ip (bs "[1.1.1.256]")) <> 0%Z.
Proof. repeat split; vm_compute; try reflexivity; discriminate. Qed.
Example C05_spec_examples : Ipv4Lower (bs "10.0.250.7") /\ Ipv6Lower (bs "::1").
Proof.
  split.
  - exists (bs "10"), (bs "0"), (bs "250"), (bs "7"). split; [reflexivity|].
    repeat split; try discriminate; try (repeat constructor; fail); try (vm_compute; discriminate); try (cbn; lia); repeat constructor.
  - right. left. exists 0%nat, 1%nat, [], (bs "1"). split; [reflexivity|]. split; [left; auto|]. split; [|lia].
    right. apply gr_one. split; [cbn; lia|repeat constructor].
Qed.
