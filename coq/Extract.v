(* Extract.v — extraction of the executable model for the correspondence check.
   Only the directives of ExtrOcamlBasic are used; N, Z, positive, nat and byte stay the
   extracted inductive types.  Writes model.ml / model.mli into the directory coqc runs in. *)
Require Import Bytes Codes Local Local6531 Domain Ip Special Email Api GenModel Cli Kit LocalA DomainA Local6531A IpA StrA SpecialA EmailA.
From Coq Require Import Strings.Byte.
Require Import ExtrOcamlBasic.
Extraction Language OCaml.
Extraction "model.ml"
  Byte.of_N Byte.to_N
  local local6531 ascii_domain ipv4 ipv6 ipaddr special_domain tld_lookup
  utf8_domain email judge step run init_state check_ip utf8_next gen_row gen_domain_line trim_line sanitize file_lines kit_step kit0 localA ascii_domainA local6531A ipv4A ipv6A ipaddrA specialA emailA.
