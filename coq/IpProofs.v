(* IpProofs.v — C05: the address-literal parsers against the textual specifications. *)
From Coq Require Import List NArith ZArith Bool Lia Arith.
From Coq Require Import Strings.Byte.
Require Import Bytes Codes Ip IpSpec LocalProofs.
Import ListNotations.
Local Open Scope N_scope.

Lemma is_digit_spec c : is_digit c = true <-> 48 <= c <= 57.
Proof. unfold is_digit. rewrite andb_true_iff, !N.leb_le. tauto. Qed.

Lemma valacc_cons v b ds : valacc v (b :: ds) = valacc (v * 10 + (code b - 48)) ds.
Proof. reflexivity. Qed.
Lemma valacc_app v a b : valacc v (a ++ b) = valacc (valacc v a) b.
Proof. unfold valacc. apply fold_left_app. Qed.
Lemma valacc_mono v ds : v <= valacc v ds.
Proof.
  revert v. induction ds as [|d ds IH]; intros v; [cbn; lia|]. rewrite valacc_cons.
  specialize (IH (v * 10 + (code d - 48))). lia.
Qed.

Section V4.
Variable zok : bool.

(* ---------------- accepted  ->  four octets ---------------- *)
Lemma ip4_in_octet l : forall v cnt, v <= 255 -> ip4 zok true v cnt l = true -> nulfree l ->
  exists ds tail, l = ds ++ tail /\ Forall digit ds /\ valacc v ds <= 255 /\
    ((tail = [] /\ cnt = 4) \/
     (exists l', tail = DOT :: l' /\ l' <> [] /\ ip4 zok false (valacc v ds) cnt l' = true)).
Proof.
  induction l as [|b r IH]; intros v cnt Hv H Hn.
  - cbn in H. apply N.eqb_eq in H. exists [], []. repeat split; auto.
  - destruct (nulfree_cons _ _ Hn) as (H0 & Hnr). cbn [ip4] in H.
    destruct (N.eqb_spec (code b) 0); [contradiction|].
    destruct (is_digit (code b)) eqn:Ed.
    + destruct (N.ltb_spec 255 (v * 10 + (code b - 48))) as [|Hle]; [discriminate|].
      destruct (IH _ cnt Hle H Hnr) as (ds & tail & -> & Hds & Hval & Ht).
      exists (b :: ds), tail. split; [reflexivity|]. split; [constructor; assumption|]. split; [exact Hval|exact Ht].
    + destruct (N.eqb_spec (code b) 46) as [E46|]; [|discriminate].
      assert (b = DOT) as -> by (apply (byte_of_code _ 46); [exact E46|reflexivity]).
      cbn [negb orb] in H. destruct r as [|y r']; [discriminate|].
      destruct (code y =? 0); [discriminate|].
      destruct ((cnt =? 1) && (v =? 0) && negb zok); [discriminate|].
      exists [], (DOT :: y :: r'). repeat split; auto. right. exists (y :: r'). repeat split; [discriminate|exact H].
Qed.

Lemma ip4_start l : forall v cnt, ip4 zok false v cnt l = true -> nulfree l -> l <> [] ->
  exists b r, l = b :: r /\ digit b /\ ip4 zok true (code b - 48) (cnt + 1) r = true.
Proof.
  intros v cnt H Hn Hne. destruct l as [|b r]; [congruence|].
  destruct (nulfree_cons _ _ Hn) as (H0 & _). cbn [ip4] in H.
  destruct (N.eqb_spec (code b) 0); [contradiction|].
  destruct (is_digit (code b)) eqn:Ed.
  - destruct (255 <? 0 * 10 + (code b - 48)); [discriminate|]. exists b, r. repeat split; auto.
  - destruct (code b =? 46); discriminate.
Qed.

Lemma ip4_octets : forall n l, (length l <= n)%nat -> forall v cnt, ip4 zok false v cnt l = true -> nulfree l -> l <> [] ->
  exists k, cnt + N.of_nat k = 4 /\ (1 <= k)%nat /\ octets k l.
Proof.
  induction n as [|n IH]; intros l Hl v cnt H Hn Hne; [destruct l; [congruence|cbn in Hl; lia]|].
  destruct (ip4_start l v cnt H Hn Hne) as (b & r & -> & Hb & H1).
  destruct (nulfree_cons _ _ Hn) as (_ & Hnr).
  assert (Hb' : code b - 48 <= 255) by (apply is_digit_spec in Hb; lia).
  destruct (ip4_in_octet r _ _ Hb' H1 Hnr) as (ds & tail & -> & Hds & Hval & Ht).
  assert (Hoct : octet (b :: ds)).
  { split; [discriminate|]. split; [constructor; assumption|]. unfold value. rewrite valacc_cons. exact Hval. }
  destruct Ht as [(-> & Hc) | (l' & -> & Hne' & H2)].
  - exists 1%nat. split; [lia|]. split; [lia|]. rewrite app_nil_r. apply oc_one. exact Hoct.
  - assert (Hl' : (length l' <= n)%nat).
    { cbn [length] in Hl. rewrite app_length in Hl. cbn [length] in Hl. lia. }
    assert (Hnl' : nulfree l').
    { apply nulfree_app in Hnr as (_ & Hx). apply nulfree_cons in Hx as (_ & Hx). exact Hx. }
    destruct (IH l' Hl' _ _ H2 Hnl' Hne') as (k & Hk & Hk1 & Hoc).
    exists (S k). split; [lia|]. split; [lia|].
    change (b :: ds ++ DOT :: l') with ((b :: ds) ++ DOT :: l'). apply oc_more; assumption.
Qed.

Theorem ipv4_sound_gen l : ip4 zok false 0 0 l = true -> nulfree l -> Ipv4Text l.
Proof.
  intros H Hn. destruct l as [|b r]; [discriminate H|].
  destruct (ip4_octets (length (b :: r)) (b :: r) (le_n _) 0 0 H Hn ltac:(discriminate)) as (k & Hk & _ & Hoc).
  assert (k = 4%nat) as -> by lia. exact Hoc.
Qed.

(* ---------------- four octets, first one non-zero  ->  accepted ---------------- *)
Lemma ip4_digits ds : Forall digit ds -> forall v cnt tail, valacc v ds <= 255 ->
  ip4 zok true v cnt (ds ++ tail) = ip4 zok true (valacc v ds) cnt tail.
Proof.
  induction 1 as [|d ds Hd Hds IH]; intros v cnt tail Hv; [reflexivity|].
  cbn [app ip4]. apply is_digit_spec in Hd as Hd'.
  destruct (N.eqb_spec (code d) 0); [lia|]. rewrite Hd.
  rewrite valacc_cons in Hv. pose proof (valacc_mono (v * 10 + (code d - 48)) ds) as Hm.
  destruct (N.ltb_spec 255 (v * 10 + (code d - 48))); [lia|]. rewrite valacc_cons. apply IH. exact Hv.
Qed.

Lemma octet_start o tail v cnt : octet o ->
  ip4 zok false v cnt (o ++ tail) = ip4 zok true (value o) (cnt + 1) tail.
Proof.
  intros (Hne & Hd & Hv). destruct o as [|b ds]; [congruence|]. inversion Hd as [|? ? Hb Hds]; subst.
  cbn [app ip4]. apply is_digit_spec in Hb as Hb'. destruct (N.eqb_spec (code b) 0); [lia|]. rewrite Hb.
  unfold value in *. rewrite valacc_cons in *. pose proof (valacc_mono (0 * 10 + (code b - 48)) ds).
  destruct (N.ltb_spec 255 (0 * 10 + (code b - 48))); [lia|]. apply ip4_digits; assumption.
Qed.

Lemma octets_head k l : octets k l -> exists b r, l = b :: r /\ code b <> 0.
Proof.
  intros H. assert (Ho : forall o, octet o -> forall t, exists b r, o ++ t = b :: r /\ code b <> 0).
  { intros o (Hne & Hd & _) t. destruct o as [|b ds]; [congruence|]. inversion Hd as [|? ? Hb _]; subst.
    apply is_digit_spec in Hb. exists b, (ds ++ t). split; [reflexivity|lia]. }
  destruct H as [o Hoc | k' o r Hoc _]; [destruct (Ho o Hoc []) as (b & r & E & Hb); rewrite app_nil_r in E; eauto|apply Ho; exact Hoc].
Qed.

(* after the first octet the zero rule cannot fire: cnt <> 1 at every later dot *)
Lemma octets_complete k l : octets k l -> forall v cnt, 2 <= cnt + 1 -> cnt + N.of_nat k = 4 ->
  ip4 zok false v cnt l = true.
Proof.
  induction 1 as [o Ho | k o r Ho Hr IH]; intros v cnt Hc Hk.
  - rewrite <- (app_nil_r o). rewrite octet_start by exact Ho. cbn. apply N.eqb_eq. lia.
  - rewrite octet_start by exact Ho. cbn [ip4]. rewrite code_DOT. cbn [N.eqb Pos.eqb is_digit N.leb N.compare Pos.compare Pos.compare_cont andb negb orb].
    replace (is_digit 46) with false by reflexivity.
    destruct (octets_head _ _ Hr) as (b & r' & -> & Hb).
    destruct (N.eqb_spec (code b) 0); [contradiction|].
    assert ((cnt + 1 =? 1) = false) as -> by (apply N.eqb_neq; lia). cbn [andb].
    apply IH; lia.
Qed.

Theorem ipv4_complete_gen a b c d : octet a -> octet b -> octet c -> octet d -> (value a <> 0 \/ zok = true) ->
  ip4 zok false 0 0 (a ++ DOT :: b ++ DOT :: c ++ DOT :: d) = true.
Proof.
  intros Ha Hb Hc Hd Hz. rewrite octet_start by exact Ha. cbn [ip4]. rewrite code_DOT.
  replace (is_digit 46) with false by reflexivity. cbn [N.eqb Pos.eqb negb orb].
  assert (Hoc : octets 3 (b ++ DOT :: c ++ DOT :: d)) by (apply oc_more; [exact Hb|apply oc_more; [exact Hc|apply oc_one; exact Hd]]).
  destruct (octets_head _ _ Hoc) as (x & r' & E & Hx). rewrite E.
  destruct (N.eqb_spec (code x) 0); [contradiction|].
  assert ((0 + 1 =? 1) && (value a =? 0) && negb zok = false) as ->.
  { destruct Hz as [Hz| ->]; [|rewrite andb_false_r; reflexivity].
    assert ((value a =? 0) = false) as -> by (apply N.eqb_neq; exact Hz). rewrite andb_false_r. reflexivity. }
  rewrite <- E. apply (octets_complete 3); [exact Hoc|lia|lia].
Qed.
End V4.

Theorem ipv4_sound s rest : ipv4 s rest = true -> nulfree s -> Ipv4Text s.
Proof. unfold ipv4. apply ipv4_sound_gen. Qed.

Theorem ipv4_complete a b c d rest : octet a -> octet b -> octet c -> octet d -> value a <> 0 ->
  ipv4 (a ++ DOT :: b ++ DOT :: c ++ DOT :: d) rest = true.
Proof. intros Ha Hb Hc Hd Hz. unfold ipv4. apply ipv4_complete_gen; auto. Qed.

(* ---------------- check_ip(): brackets, tag, family ---------------- *)
Require Import Email EmailProofs.

(* what check_ip accepts: exactly "[" c "]" with nothing after the bracket, and
   - c = "IPv6:" a with a accepted by the IPv6 parser, or
   - c contains a colon and is accepted by the IPv6 parser (untagged spelling), or
   - c has no colon and is accepted by the IPv4 parser;
   the family reported is the family of the parser that accepted *)
Theorem check_ip_accepts d f : check_ip d = (0%Z, f) ->
  exists c, d = tl [LBR] ++ hd LBR d :: c ++ [RBR] /\ split_last RBR d = Some (hd LBR d :: c, []) /\
    ((f = Fam6 /\ starts_with tag_ipv6 c = true /\ ipv6 (skipn 5 c) [RBR] = true) \/
     (f = Fam6 /\ starts_with tag_ipv6 c = false /\ memb COLON c = true /\ ipv6 c [RBR] = true) \/
     (f = Fam4 /\ starts_with tag_ipv6 c = false /\ memb COLON c = false /\ ipv4 c [RBR] = true)).
Proof.
  unfold check_ip. destruct (Nat.leb (length d) 8); [discriminate|].
  destruct (split_last RBR d) as [[p after]|] eqn:E; [|discriminate].
  destruct after as [|x y]; [|discriminate].
  apply split_last_spec in E as E'. destruct E' as (Ed & _).
  destruct p as [|p0 c].
  { cbn [tl]. cbn [starts_with tag_ipv6 memb existsb]. intros H. exfalso.
    revert H. cbn. unfold ipv4. cbn. discriminate. }
  cbn [tl]. intros H. exists c. subst d. cbn [hd tl app]. split; [reflexivity|]. split; [reflexivity|].
  destruct (starts_with tag_ipv6 c).
  - destruct (ipv6 (skipn 5 c) [RBR]) eqn:E6; inversion H; subst. left. auto.
  - destruct (memb COLON c).
    + destruct (ipv6 c [RBR]) eqn:E6; inversion H; subst. right. left. auto.
    + destruct (ipv4 c [RBR]) eqn:E4; inversion H; subst. right. right. auto.
Qed.

(* ================= IPv6: accepted  ->  RFC 4291 text form ================= *)
Local Open Scope Z_scope.

Section V6.
Variable rest : list byte.
(* the byte at [end] is neither a colon nor alphanumeric (it is ']' or the terminator) *)
Hypothesis Hrest : match rest with [] => True | n :: _ => code n <> 58%N /\ is_alnum (code n) = false end.

Definition next_is_colon (r : list byte) : bool := match r ++ rest with n :: _ => (code n =? 58)%N | [] => false end.

Lemma next_is_colon_true r : next_is_colon r = true -> exists r', r = COLON :: r'.
Proof.
  unfold next_is_colon. destruct r as [|y r']; cbn [app].
  - destruct rest as [|n t]; [discriminate|]. destruct Hrest as (Hn & _). intros H. apply N.eqb_eq in H. contradiction.
  - intros H. apply N.eqb_eq in H. exists r'. f_equal. apply (byte_of_code _ 58%N); [exact H|reflexivity].
Qed.
Lemma next_is_colon_false r : next_is_colon r = false -> match r with y :: _ => code y <> 58%N | [] => True end.
Proof. unfold next_is_colon. destruct r as [|y r']; cbn [app]; [auto|]. intros H. apply N.eqb_neq in H. exact H. Qed.

Lemma is_hex_not_sep c : is_hex c = true -> c <> 46%N /\ c <> 58%N /\ c <> 0%N.
Proof.
  unfold is_hex, is_digit. rewrite !orb_true_iff, !andb_true_iff, !N.leb_le. lia.
Qed.
Lemma is_hex_alnum c : is_hex c = true -> is_alnum c = true.
Proof.
  unfold is_hex, is_alnum, is_alpha, is_upper, is_lower, is_digit. rewrite !orb_true_iff, !andb_true_iff, !N.leb_le. lia.
Qed.

Lemma code_inj_colon_alnum : is_alnum (code COLON) = false.
Proof. reflexivity. Qed.

(* the ':' arm of the loop *)
Lemma ip6_colon f nf run r :
  ip6 f nf run (COLON :: r) rest =
  if (f =? 0) && match run with [] => true | _ => false end && is_alnum (match r ++ rest with [] => 0%N | n :: _ => code n end) then false
  else if 7 <? f + 1 then false
  else if next_is_colon r then (if 0 <? nf then false else ip6 (f + 1) (f + 1) [] r rest)
  else ip6 (f + 1) nf [] r rest.
Proof. reflexivity. Qed.

(* consuming the hexadecimal digits of the current group *)
Lemma ip6_hexrun l : forall f nf run, (length run <= 4)%nat -> ip6 f nf run l rest = true -> nulfree l ->
  exists hs l', l = hs ++ l' /\ Forall hexdigit hs /\ (length run + length hs <= 4)%nat /\
    (l' = [] \/ (exists r, l' = DOT :: r) \/ (exists r, l' = COLON :: r)) /\
    ip6 f nf (rev hs ++ run) l' rest = true.
Proof.
  induction l as [|b r IH]; intros f nf run Hrun H Hn.
  - exists [], []. repeat split; auto. cbn [length]. lia.
  - destruct (nulfree_cons _ _ Hn) as (H0 & Hnr).
    destruct (N.eqb_spec (code b) 46) as [E46|N46].
    { exists [], (b :: r). repeat split; auto; [cbn [length]; lia|]. right. left. exists r. f_equal. apply (byte_of_code _ 46%N); [exact E46|reflexivity]. }
    destruct (N.eqb_spec (code b) 58) as [E58|N58].
    { exists [], (b :: r). repeat split; auto; [cbn [length]; lia|]. right. right. exists r. f_equal. apply (byte_of_code _ 58%N); [exact E58|reflexivity]. }
    cbn [ip6] in H. destruct (N.eqb_spec (code b) 0); [contradiction|].
    destruct (N.eqb_spec (code b) 46); [contradiction|]. destruct (N.eqb_spec (code b) 58); [contradiction|].
    destruct (is_hex (code b)) eqn:Eh; [|discriminate].
    destruct (Nat.ltb_spec 4 (S (length run))) as [|Hlen]; [discriminate|].
    destruct (IH f nf (b :: run) ltac:(cbn [length]; lia) H Hnr) as (hs & l' & -> & Hhs & Hl & Hsep & H').
    exists (b :: hs), l'. split; [reflexivity|]. split; [constructor; assumption|].
    split; [cbn [length] in *; lia|]. split; [exact Hsep|].
    cbn [rev]. rewrite <- app_assoc. exact H'.
Qed.

Lemma hex_group hs : hs <> [] -> Forall hexdigit hs -> (length hs <= 4)%nat -> group hs.
Proof. intros Hne Hf Hl. split; [|exact Hf]. destruct hs; [congruence|cbn [length] in *; lia]. Qed.

Lemma group_nulfree g : group g -> nulfree g.
Proof.
  intros (_ & Hf). eapply Forall_impl; [|exact Hf]. intros b Hb. unfold hexdigit in Hb. apply is_hex_not_sep in Hb. lia.
Qed.

(* what may follow a colon (or the start) when no "::" has been seen; f = colons consumed so far *)
Definition Fresh0 (f : Z) (l : list byte) : Prop :=
  (exists k, f + Z.of_nat k = 8 /\ groups k l) \/
  (exists k h q, f + Z.of_nat k = 6 /\ l = h ++ q /\ groups_colon k h /\ Ipv4Text q) \/
  (exists n m h t, l = h ++ COLON :: COLON :: t /\ groups0 n h /\ groups0 m t /\ f + Z.of_nat n + Z.of_nat m <= 7 /\ (n = 0%nat -> f = 0)) \/
  (exists n m h t q, l = h ++ COLON :: COLON :: t ++ q /\ groups0 n h /\ groups_colon m t /\ Ipv4Text q /\
                     f + Z.of_nat n + Z.of_nat m <= 5 /\ (n = 0%nat -> f = 0)).

(* ... and after the "::" (nf = index of its first colon) *)
Definition FreshD (f nf : Z) (l : list byte) : Prop :=
  (l = [] /\ nf = f - 1) \/
  (exists k, (1 <= k)%nat /\ f + Z.of_nat k <= 8 /\ groups k l) \/
  (exists k h q, f + Z.of_nat k <= 6 /\ l = h ++ q /\ groups_colon k h /\ Ipv4Text q).

Definition no_lead_colon (l : list byte) : Prop := match l with y :: _ => code y <> 58%N | [] => True end.

Lemma groups_cons_colon g k r : group g -> groups k r -> groups (S k) (g ++ COLON :: r).
Proof. intros. apply gr_more; assumption. Qed.

Lemma ip6_sound_D : forall n l, (length l <= n)%nat -> forall f nf, 0 < nf < f -> f <= 7 -> no_lead_colon l -> nulfree l ->
  ip6 f nf [] l rest = true -> FreshD f nf l.
Proof.
  induction n as [|n IH]; intros l Hl f nf Hnf Hf Hlead Hn H.
  { destruct l; [|cbn in Hl; lia]. cbn in H. unfold ip6_end in H.
    destruct ((nf =? 0) && negb (f =? 7)); [discriminate|]. cbn [andb] in H.
    destruct (nf =? f - 1) eqn:E; [|discriminate]. left. split; [reflexivity|apply Z.eqb_eq; exact E]. }
  destruct (ip6_hexrun l f nf [] ltac:(cbn; lia) H Hn) as (hs & l' & -> & Hhs & Hlen & Hsep & H').
  rewrite app_nil_r in H'. cbn [length] in Hlen.
  assert (Hnl' : nulfree l') by (apply nulfree_app in Hn; tauto).
  destruct Hsep as [-> | [(r & ->) | (r & ->)]].
  - (* end of the range *)
    cbn [ip6] in H'. unfold ip6_end in H'.
    destruct ((nf =? 0) && negb (f =? 7)); [discriminate|].
    destruct hs as [|h0 hs'].
    + cbn in H'. destruct (nf =? f - 1) eqn:E; [|discriminate]. left. split; [reflexivity|apply Z.eqb_eq; exact E].
    + right. left. exists 1%nat. split; [lia|]. split; [lia|]. rewrite app_nil_r. apply gr_one.
      apply hex_group; [discriminate|exact Hhs|lia].
  - (* dotted quad *)
    cbn [ip6] in H'. rewrite code_DOT in H'. cbn [N.eqb Pos.eqb] in H'.
    destruct ((f <? 2) || (6 <? f) || ((nf =? 0) && negb (f =? 6))) eqn:Ec; [discriminate|].
    rewrite !orb_false_iff in Ec. destruct Ec as ((_ & Ec) & _). apply Z.ltb_ge in Ec.
    rewrite rev_involutive in H'.
    right. right. exists 0%nat, [], (hs ++ DOT :: r). split; [lia|]. split; [reflexivity|]. split; [constructor|].
    apply (ipv4_sound _ rest); [exact H'|exact Hn].
  - (* colon *)
    rewrite ip6_colon in H'.
    destruct hs as [|h0 hs'].
    { exfalso. cbn [app no_lead_colon] in Hlead. apply Hlead. reflexivity. }
    assert (Hg : group (h0 :: hs')) by (apply hex_group; [discriminate|exact Hhs|lia]).
    assert ((f =? 0) = false) as E0 by (apply Z.eqb_neq; lia). rewrite E0 in H'. cbn [andb] in H'.
    destruct (Z.ltb_spec 7 (f + 1)) as [|Hf1]; [discriminate|].
    destruct (next_is_colon r) eqn:Enc.
    { assert (0 <? nf = true) as E1 by (apply Z.ltb_lt; lia). rewrite E1 in H'. discriminate. }
    apply next_is_colon_false in Enc.
    assert (Hlr : (length r <= n)%nat).
    { cbn [length] in Hl. rewrite app_length in Hl. cbn [length] in Hl. lia. }
    assert (Hnr : nulfree r) by (apply nulfree_cons in Hnl'; tauto).
    destruct (IH r Hlr (f + 1) nf ltac:(lia) ltac:(lia) Enc Hnr H') as [(-> & E) | [(k & Hk & Hb & Hg') | (k & h & q & Hb & -> & Hh & Hq)]].
    + lia.
    + right. left. exists (S k). split; [lia|]. split; [lia|]. apply groups_cons_colon; assumption.
    + right. right. exists (S k), ((h0 :: hs') ++ COLON :: h), q. split; [lia|].
      split; [rewrite <- app_assoc; reflexivity|]. split; [apply gc_cons; assumption|exact Hq].
Qed.

Lemma groups0_prepend g n h : group g -> groups0 n h -> (1 <= n)%nat -> groups0 (S n) (g ++ COLON :: h).
Proof.
  intros Hg [(-> & _) | Hh] Hn; [lia|]. right. apply groups_cons_colon; assumption.
Qed.

Lemma ip6_sound_0 : forall n l, (length l <= n)%nat -> forall f, 0 <= f <= 7 -> (0 < f -> no_lead_colon l) -> nulfree l ->
  ip6 f 0 [] l rest = true -> Fresh0 f l.
Proof.
  induction n as [|n IH]; intros l Hl f Hf Hlead Hn H.
  { destruct l; [|cbn in Hl; lia]. cbn in H. unfold ip6_end in H.
    destruct (Z.eqb_spec f 7) as [->|]; cbn in H; discriminate H. }
  destruct (ip6_hexrun l f 0 [] ltac:(cbn; lia) H Hn) as (hs & l' & -> & Hhs & Hlen & Hsep & H').
  rewrite app_nil_r in H'. cbn [length] in Hlen.
  assert (Hnl' : nulfree l') by (apply nulfree_app in Hn; tauto).
  destruct Hsep as [-> | [(r & ->) | (r & ->)]].
  - (* end: eight groups *)
    cbn [ip6] in H'. unfold ip6_end in H'. cbn [Z.eqb andb] in H'.
    destruct (Z.eqb_spec f 7) as [->|]; [|discriminate]. cbn [negb andb] in H'.
    destruct hs as [|h0 hs']; [cbn in H'; discriminate|].
    left. exists 1%nat. split; [lia|]. rewrite app_nil_r. apply gr_one. apply hex_group; [discriminate|exact Hhs|lia].
  - (* dotted quad after six groups *)
    cbn [ip6] in H'. rewrite code_DOT in H'. cbn [N.eqb Pos.eqb Z.eqb] in H'.
    destruct ((f <? 2) || (6 <? f) || (true && negb (f =? 6))) eqn:Ec; [discriminate|].
    rewrite !orb_false_iff in Ec. destruct Ec as (_ & Ec). cbn [andb] in Ec. apply negb_false_iff in Ec. apply Z.eqb_eq in Ec.
    rewrite rev_involutive in H'.
    right. left. exists 0%nat, [], (hs ++ DOT :: r). split; [lia|]. split; [reflexivity|]. split; [constructor|].
    apply (ipv4_sound _ rest); [exact H'|exact Hn].
  - (* colon *)
    rewrite ip6_colon in H'.
    assert (Hlr : (length r <= n)%nat).
    { cbn [length] in Hl. rewrite app_length in Hl. cbn [length] in Hl. lia. }
    assert (Hnr : nulfree r) by (apply nulfree_cons in Hnl'; tauto).
    destruct hs as [|h0 hs'].
    + (* the string starts with a colon: only at the very beginning, and then it must be "::" *)
      assert (f = 0) as ->.
      { destruct (Z.eq_dec f 0); [assumption|]. exfalso. assert (0 < f) as Hp by lia. specialize (Hlead Hp). cbn in Hlead. apply Hlead. reflexivity. }
      cbn [rev app Z.eqb andb] in H'.
      destruct (is_alnum (match r ++ rest with [] => 0%N | n0 :: _ => code n0 end)) eqn:Eal; [discriminate|].
      cbn [Z.add Z.ltb Z.compare Pos.compare Pos.compare_cont] in H'.
      destruct (next_is_colon r) eqn:Enc.
      * destruct (next_is_colon_true r Enc) as (r1 & ->). cbn [Z.ltb Z.compare] in H'.
        (* the second colon *)
        rewrite ip6_colon in H'. cbn [Z.eqb andb Z.add] in H'. cbn [Z.ltb Z.compare Pos.compare Pos.compare_cont] in H'.
        destruct (next_is_colon r1) eqn:Enc1; [discriminate|].
        apply next_is_colon_false in Enc1.
        assert (Hlr1 : (length r1 <= n)%nat) by (cbn [length] in Hlr; lia).
        assert (Hnr1 : nulfree r1) by (apply nulfree_cons in Hnr; tauto).
        destruct (ip6_sound_D n r1 Hlr1 2 1 ltac:(lia) ltac:(lia) Enc1 Hnr1 H') as [(-> & _) | [(k & Hk & Hb & Hg') | (k & h & q & Hb & -> & Hh & Hq)]].
        -- right. right. left. exists 0%nat, 0%nat, [], []. repeat split; try lia; left; auto.
        -- right. right. left. exists 0%nat, k, [], r1. repeat split; try lia; [left; auto|right; exact Hg'].
        -- right. right. right. exists 0%nat, k, [], h, q. repeat split; try lia; auto. left; auto.
      * (* ":" followed by something that is neither ':' nor alphanumeric: rejected *)
        exfalso. apply next_is_colon_false in Enc.
        destruct r as [|y r'].
        -- cbn in H'. discriminate.
        -- cbn [app] in Eal. cbn [ip6] in H'. destruct (nulfree_cons _ _ Hnr) as (Hy0 & _).
           destruct (N.eqb_spec (code y) 0); [contradiction|].
           destruct (N.eqb_spec (code y) 46); [cbn in H'; discriminate|].
           destruct (N.eqb_spec (code y) 58); [contradiction|].
           destruct (is_hex (code y)) eqn:Eh; [apply is_hex_alnum in Eh; congruence|discriminate].
    + assert (Hg : group (h0 :: hs')) by (apply hex_group; [discriminate|exact Hhs|lia]).
      assert (Hrun : match rev (h0 :: hs') with [] => true | _ :: _ => false end = false).
      { destruct (rev (h0 :: hs')) eqn:E; [|reflexivity]. apply (f_equal (@length byte)) in E. rewrite rev_length in E. discriminate. }
      rewrite Hrun in H'. rewrite andb_false_r in H'. cbn [andb] in H'.
      destruct (Z.ltb_spec 7 (f + 1)) as [|Hf1]; [discriminate|].
      destruct (next_is_colon r) eqn:Enc.
      * (* "g::" *)
        destruct (next_is_colon_true r Enc) as (r1 & ->). cbn [Z.ltb Z.compare] in H'.
        rewrite ip6_colon in H'.
        assert ((f + 1 =? 0) = false) as E0 by (apply Z.eqb_neq; lia). rewrite E0 in H'. cbn [andb] in H'.
        destruct (Z.ltb_spec 7 (f + 1 + 1)) as [|Hf2]; [discriminate|].
        destruct (next_is_colon r1) eqn:Enc1.
        { assert (0 <? f + 1 = true) as E1 by (apply Z.ltb_lt; lia). rewrite E1 in H'. discriminate. }
        apply next_is_colon_false in Enc1.
        assert (Hlr1 : (length r1 <= n)%nat) by (cbn [length] in Hlr; lia).
        assert (Hnr1 : nulfree r1) by (apply nulfree_cons in Hnr; tauto).
        destruct (ip6_sound_D n r1 Hlr1 (f + 1 + 1) (f + 1) ltac:(lia) ltac:(lia) Enc1 Hnr1 H') as [(-> & _) | [(k & Hk & Hb & Hg') | (k & h & q & Hb & -> & Hh & Hq)]].
        -- right. right. left. exists 1%nat, 0%nat, (h0 :: hs'), []. repeat split; try lia; [right; apply gr_one; exact Hg|left; auto].
        -- right. right. left. exists 1%nat, k, (h0 :: hs'), r1. repeat split; try lia; [right; apply gr_one; exact Hg|right; exact Hg'].
        -- right. right. right. exists 1%nat, k, (h0 :: hs'), h, q. repeat split; try lia; auto. right; apply gr_one; exact Hg.
      * (* "g:" and more *)
        apply next_is_colon_false in Enc.
        destruct (IH r Hlr (f + 1) ltac:(lia) (fun _ => Enc) Hnr H') as
          [(k & Hk & Hg') | [(k & h & q & Hk & -> & Hh & Hq) | [(n1 & m1 & h & t & -> & Hh & Ht & Hb & Hz) | (n1 & m1 & h & t & q & -> & Hh & Ht & Hq & Hb & Hz)]]].
        -- left. exists (S k). split; [lia|]. apply groups_cons_colon; assumption.
        -- right. left. exists (S k), ((h0 :: hs') ++ COLON :: h), q. split; [lia|]. split; [rewrite <- app_assoc; reflexivity|].
           split; [apply gc_cons; assumption|exact Hq].
        -- assert (Hn1 : (1 <= n1)%nat) by (destruct n1; [specialize (Hz eq_refl); lia|lia]).
           right. right. left. exists (S n1), m1, ((h0 :: hs') ++ COLON :: h), t.
           split; [rewrite <- app_assoc; reflexivity|]. split; [apply groups0_prepend; assumption|]. split; [exact Ht|]. split; [lia|lia].
        -- assert (Hn1 : (1 <= n1)%nat) by (destruct n1; [specialize (Hz eq_refl); lia|lia]).
           right. right. right. exists (S n1), m1, ((h0 :: hs') ++ COLON :: h), t, q.
           split; [rewrite <- app_assoc; reflexivity|]. split; [apply groups0_prepend; assumption|]. split; [exact Ht|]. split; [exact Hq|]. split; [lia|lia].
Qed.

Theorem ipv6_sound s : nulfree s -> ipv6 s rest = true -> Ipv6Text s.
Proof.
  intros Hn H. unfold ipv6 in H.
  destruct (ip6_sound_0 (length s) s (le_n _) 0 ltac:(lia) ltac:(lia) Hn H) as
    [(k & Hk & Hg) | [(k & h & q & Hk & -> & Hh & Hq) | [(n1 & m1 & h & t & -> & Hh & Ht & Hb & _) | (n1 & m1 & h & t & q & -> & Hh & Ht & Hq & Hb & _)]]].
  - left. assert (k = 8%nat) as -> by lia. exact Hg.
  - right. left. exists h, q. split; [reflexivity|]. assert (k = 6%nat) as -> by lia. auto.
  - right. right. left. exists n1, m1, h, t. repeat split; auto. lia.
  - right. right. right. exists n1, m1, h, t, q. repeat split; auto. lia.
Qed.

(* ================= IPv6: RFC 5321 section 4.1.3 forms  ->  accepted ================= *)
Definition head_not_colon (l : list byte) : Prop := next_is_colon l = false.

Lemma hexdigit_code b : hexdigit b -> code b <> 0%N /\ code b <> 46%N /\ code b <> 58%N /\ is_hex (code b) = true.
Proof. intros H. pose proof (is_hex_not_sep _ H). unfold hexdigit in H. tauto. Qed.

Lemma fwd_hex g : Forall hexdigit g -> forall f nf run l', (length run + length g <= 4)%nat ->
  ip6 f nf run (g ++ l') rest = ip6 f nf (rev g ++ run) l' rest.
Proof.
  induction 1 as [|b g Hb Hg IH]; intros f nf run l' Hlen; [reflexivity|].
  cbn [app ip6]. destruct (hexdigit_code b Hb) as (H0 & H46 & H58 & Hh).
  destruct (N.eqb_spec (code b) 0); [contradiction|]. destruct (N.eqb_spec (code b) 46); [contradiction|].
  destruct (N.eqb_spec (code b) 58); [contradiction|]. rewrite Hh.
  cbn [length] in Hlen. destruct (Nat.ltb_spec 4 (S (length run))); [lia|].
  rewrite IH by (cbn [length]; lia). cbn [rev]. rewrite <- app_assoc. reflexivity.
Qed.

Lemma group_rev_nonempty g : group g -> match rev g with [] => true | _ :: _ => false end = false.
Proof.
  intros ((Hl & _) & _). destruct (rev g) eqn:E; [|reflexivity]. apply (f_equal (@length byte)) in E. rewrite rev_length in E. cbn in E. lia.
Qed.

Lemma head_group_not_colon g t : group g -> next_is_colon (g ++ t) = false.
Proof.
  intros ((Hl & _) & Hf). destruct g as [|b g']; [cbn in Hl; lia|]. inversion Hf as [|? ? Hb _]; subst.
  unfold next_is_colon. cbn [app]. destruct (hexdigit_code b Hb) as (_ & _ & H58 & _). apply N.eqb_neq. exact H58.
Qed.

(* F1: a group, a colon, and no second colon *)
Lemma fwd_group_colon g r f nf : group g -> 0 <= f -> f + 1 <= 7 -> next_is_colon r = false ->
  ip6 f nf [] (g ++ COLON :: r) rest = ip6 (f + 1) nf [] r rest.
Proof.
  intros Hg Hf0 Hf Hn. destruct Hg as ((Hl1 & Hl4) & Hh).
  rewrite fwd_hex by (exact Hh || (cbn [length]; lia)). rewrite app_nil_r. rewrite ip6_colon.
  rewrite (group_rev_nonempty g (conj (conj Hl1 Hl4) Hh)). rewrite andb_false_r. cbn [andb].
  destruct (Z.ltb_spec 7 (f + 1)); [lia|]. rewrite Hn. reflexivity.
Qed.

(* F2: a group followed by "::" *)
Lemma fwd_group_dcolon g r f : group g -> 0 <= f -> f + 2 <= 7 -> next_is_colon r = false ->
  ip6 f 0 [] (g ++ COLON :: COLON :: r) rest = ip6 (f + 2) (f + 1) [] r rest.
Proof.
  intros Hg Hf0 Hf Hn. destruct Hg as ((Hl1 & Hl4) & Hh).
  rewrite fwd_hex by (exact Hh || (cbn [length]; lia)). rewrite app_nil_r. rewrite ip6_colon.
  rewrite (group_rev_nonempty g (conj (conj Hl1 Hl4) Hh)). rewrite andb_false_r. cbn [andb].
  destruct (Z.ltb_spec 7 (f + 1)); [lia|].
  assert (next_is_colon (COLON :: r) = true) as -> by reflexivity. cbn [Z.ltb Z.compare].
  rewrite ip6_colon. assert ((f + 1 =? 0) = false) as -> by (apply Z.eqb_neq; lia). cbn [andb].
  destruct (Z.ltb_spec 7 (f + 1 + 1)); [lia|]. rewrite Hn. replace (f + 1 + 1) with (f + 2) by lia. reflexivity.
Qed.

(* F2': "::" at the very beginning *)
Lemma fwd_leading_dcolon r : next_is_colon r = false ->
  ip6 0 0 [] (COLON :: COLON :: r) rest = ip6 2 1 [] r rest.
Proof.
  intros Hn. rewrite ip6_colon. cbn [app]. rewrite code_inj_colon_alnum. cbn [Z.eqb andb Z.add Z.ltb Z.compare Pos.compare Pos.compare_cont].
  assert (next_is_colon (COLON :: r) = true) as -> by reflexivity.
  rewrite ip6_colon. cbn [Z.eqb andb Z.add Z.ltb Z.compare Pos.compare Pos.compare_cont]. rewrite Hn. reflexivity.
Qed.

(* F3: the last group *)
Lemma fwd_last_group g f nf : group g -> ip6 f nf [] g rest = ip6_end f nf (rev g).
Proof.
  intros ((Hl1 & Hl4) & Hh). rewrite <- (app_nil_r g) at 1. rewrite fwd_hex by (exact Hh || (cbn [length]; lia)).
  rewrite app_nil_r. reflexivity.
Qed.

(* F4: a dotted-quad tail *)
Lemma fwd_v4_tail q f nf : Ipv4Lower q -> 2 <= f <= 6 -> (nf = 0 -> f = 6) -> ip6 f nf [] q rest = true.
Proof.
  intros (a & b & c & d & -> & (Ha & Hla) & (Hb & _) & (Hc & _) & (Hd & _) & Hz) Hf Hnf.
  assert (Hh : Forall hexdigit a).
  { destruct Ha as (_ & Hda & _). eapply Forall_impl; [|exact Hda]. intros x Hx. unfold digit in Hx. unfold hexdigit, is_hex. rewrite Hx. reflexivity. }
  rewrite fwd_hex by (exact Hh || (cbn [length]; lia)). rewrite app_nil_r.
  cbn [ip6]. rewrite code_DOT. cbn [N.eqb Pos.eqb].
  assert ((f <? 2) || (6 <? f) || ((nf =? 0) && negb (f =? 6)) = false) as ->.
  { rewrite !orb_false_iff. repeat split; [apply Z.ltb_ge; lia|apply Z.ltb_ge; lia|].
    destruct (Z.eqb_spec nf 0) as [E|]; [|reflexivity]. rewrite (Hnf E). reflexivity. }
  rewrite rev_involutive. apply ipv4_complete; assumption.
Qed.

(* G1: k groups each followed by a colon *)
Lemma fwd_groups_colon k h : groups_colon k h -> forall f nf tail, 0 <= f -> f + Z.of_nat k <= 7 -> next_is_colon tail = false ->
  ip6 f nf [] (h ++ tail) rest = ip6 (f + Z.of_nat k) nf [] tail rest.
Proof.
  induction 1 as [|k g r Hg Hr IH]; intros f nf tail Hf0 Hf Ht.
  - cbn [app]. replace (f + Z.of_nat 0) with f by lia. reflexivity.
  - rewrite <- app_assoc. cbn [app]. rewrite fwd_group_colon; [|exact Hg|lia|lia|].
    + rewrite IH by (lia || exact Ht). f_equal. lia.
    + destruct Hr as [|k' g' r' Hg' _]; [exact Ht|]. rewrite <- app_assoc. apply head_group_not_colon. exact Hg'.
Qed.

(* G2: k >= 1 groups = k-1 groups with colons, then the last group *)
Lemma groups_split k l : groups k l -> exists h g, l = h ++ g /\ groups_colon (pred k) h /\ group g /\ (1 <= k)%nat.
Proof.
  induction 1 as [g Hg | k g r Hg Hr (h & g' & -> & Hh & Hg' & Hk)].
  - exists [], g. split; [reflexivity|]. split; [constructor|]. split; [exact Hg|lia].
  - exists (g ++ COLON :: h), g'. split; [rewrite <- app_assoc; reflexivity|]. split; [|auto].
    destruct k; [lia|]. cbn [pred] in *. apply gc_cons; assumption.
Qed.

Lemma head_groups0_not_colon m t : groups0 m t -> next_is_colon t = false.
Proof.
  intros [(-> & ->) | Hg].
  - unfold next_is_colon. cbn [app]. destruct rest as [|n r]; [reflexivity|]. destruct Hrest as (H & _). apply N.eqb_neq. exact H.
  - destruct Hg as [g Hg | k g r Hg _]; [rewrite <- (app_nil_r g)|]; apply head_group_not_colon; exact Hg.
Qed.

(* after "::" : m more groups, then the end *)
Lemma fwd_after_dcolon m t f : groups0 m t -> 0 < f -> f + Z.of_nat m <= 7 -> ip6 (f + 1) f [] t rest = true.
Proof.
  intros [(-> & ->) | Hg] Hf Hb.
  - cbn [ip6]. unfold ip6_end. assert ((f =? 0) = false) as -> by (apply Z.eqb_neq; lia). cbn [andb].
    assert ((f =? f + 1 - 1) = true) as -> by (apply Z.eqb_eq; lia). reflexivity.
  - destruct (groups_split _ _ Hg) as (h & g & -> & Hh & Hgg & Hm).
    rewrite fwd_groups_colon with (k := pred m); [|exact Hh|lia|lia|].
    + rewrite fwd_last_group by exact Hgg. unfold ip6_end.
      assert ((f =? 0) = false) as -> by (apply Z.eqb_neq; lia). cbn [andb].
      rewrite (group_rev_nonempty g Hgg). reflexivity.
    + rewrite <- (app_nil_r g). apply head_group_not_colon. exact Hgg.
Qed.

Lemma head_v4_not_colon q : Ipv4Lower q -> next_is_colon q = false.
Proof.
  intros (a & b & c & d & -> & ((Hne & Hd & _) & _) & _). destruct a as [|x a']; [congruence|]. inversion Hd as [|? ? Hx _]; subst.
  unfold next_is_colon. cbn [app]. apply N.eqb_neq. unfold digit in Hx. apply is_digit_spec in Hx. lia.
Qed.

(* after "::" : m groups each followed by a colon, then a dotted quad *)
Lemma fwd_after_dcolon_v4 m t q f : groups_colon m t -> Ipv4Lower q -> 0 < f -> f + 1 + Z.of_nat m <= 6 ->
  ip6 (f + 1) f [] (t ++ q) rest = true.
Proof.
  intros Ht Hq Hf Hb. rewrite fwd_groups_colon with (k := m); [|exact Ht|lia|lia|apply head_v4_not_colon; exact Hq].
  apply fwd_v4_tail; [exact Hq|lia|lia].
Qed.

(* the four forms of RFC 5321 section 4.1.3 *)
Definition Ipv6Lower (a : list byte) : Prop :=
  groups 8 a \/
  (exists n m h t, a = h ++ COLON :: COLON :: t /\ groups0 n h /\ groups0 m t /\ (n + m <= 6)%nat) \/
  (exists h q, a = h ++ q /\ groups_colon 6 h /\ Ipv4Lower q) \/
  (exists n m h t q, a = h ++ COLON :: COLON :: t ++ q /\ groups0 n h /\ groups_colon m t /\ Ipv4Lower q /\ (n + m <= 4)%nat).

Theorem ipv6_complete a : Ipv6Lower a -> ipv6 a rest = true.
Proof.
  unfold ipv6. intros [Hg | [(n & m & h & t & -> & Hh & Ht & Hb) | [(h & q & -> & Hh & Hq) | (n & m & h & t & q & -> & Hh & Ht & Hq & Hb)]]].
  - destruct (groups_split _ _ Hg) as (h & g & -> & Hh & Hgg & _). cbn [pred] in Hh.
    rewrite fwd_groups_colon with (k := 7%nat); [|exact Hh|lia|lia|rewrite <- (app_nil_r g); apply head_group_not_colon; exact Hgg].
    rewrite fwd_last_group by exact Hgg. unfold ip6_end. cbn [Z.add Z.eqb Z.of_nat Pos.of_succ_nat Pos.succ Pos.eqb andb negb].
    rewrite (group_rev_nonempty g Hgg). reflexivity.
  - pose proof (head_groups0_not_colon m t Ht) as Hnt.
    destruct Hh as [(-> & ->) | Hg].
    + cbn [app]. rewrite fwd_leading_dcolon by exact Hnt. apply (fwd_after_dcolon m t 1 Ht); lia.
    + destruct (groups_split _ _ Hg) as (h1 & g & -> & Hh1 & Hgg & Hn).
      rewrite <- app_assoc. rewrite fwd_groups_colon with (k := pred n); [|exact Hh1|lia|lia|apply head_group_not_colon; exact Hgg].
      rewrite fwd_group_dcolon; [|exact Hgg|lia|lia|exact Hnt].
      replace (0 + Z.of_nat (pred n) + 2) with ((0 + Z.of_nat (pred n) + 1) + 1) by lia.
      apply (fwd_after_dcolon m t _ Ht); lia.
  - rewrite fwd_groups_colon with (k := 6%nat); [|exact Hh|lia|lia|apply head_v4_not_colon; exact Hq].
    apply fwd_v4_tail; [exact Hq|lia|lia].
  - assert (Hntq : next_is_colon (t ++ q) = false).
    { destruct Ht as [|k g r Hg _]; [apply head_v4_not_colon; exact Hq|]. rewrite <- app_assoc. apply head_group_not_colon. exact Hg. }
    destruct Hh as [(-> & ->) | Hg].
    + cbn [app]. rewrite fwd_leading_dcolon by exact Hntq. apply (fwd_after_dcolon_v4 m t q 1 Ht Hq); lia.
    + destruct (groups_split _ _ Hg) as (h1 & g & -> & Hh1 & Hgg & Hn).
      rewrite <- app_assoc. rewrite fwd_groups_colon with (k := pred n); [|exact Hh1|lia|lia|apply head_group_not_colon; exact Hgg].
      rewrite fwd_group_dcolon; [|exact Hgg|lia|lia|exact Hntq].
      replace (0 + Z.of_nat (pred n) + 2) with ((0 + Z.of_nat (pred n) + 1) + 1) by lia.
      apply (fwd_after_dcolon_v4 m t q _ Ht Hq); lia.
Qed.
End V6.

(* ================= check_ip against the specifications ================= *)
Lemma rbr_rest_ok : match [RBR] with [] => True | n :: _ => code n <> 58%N /\ is_alnum (code n) = false end.
Proof. split; [discriminate|reflexivity]. Qed.

Lemma starts_with_app p c : starts_with p c = true -> c = p ++ skipn (length p) c.
Proof.
  revert c. induction p as [|x p IH]; intros c H; [reflexivity|]. destruct c as [|y c]; [discriminate|].
  cbn in H. apply andb_true_iff in H as (H1 & H2). apply beqb_eq in H1. subst y. cbn. f_equal. apply IH. exact H2.
Qed.

(* C05 upper bound *)
Theorem check_ip_upper d f : hd NUL d = LBR -> nulfree d -> check_ip d = (0, f) ->
  exists c, d = LBR :: c ++ [RBR] /\
    ((f = Fam4 /\ Ipv4Text c) \/
     (f = Fam6 /\ ((exists a, c = tag_ipv6 ++ a /\ Ipv6Text a) \/ Ipv6Text c))).
Proof.
  intros Hh Hn H. destruct (check_ip_accepts d f H) as (c & Ed & _ & Hc).
  assert (Ed' : d = LBR :: c ++ [RBR]).
  { destruct d as [|d0 d']; [cbn in Hh; discriminate Hh|]. cbn in Hh. subst d0. exact Ed. }
  exists c. split; [exact Ed'|].
  assert (Hnc : nulfree c).
  { rewrite Ed' in Hn. apply nulfree_cons in Hn as (_ & Hn). apply nulfree_app in Hn. tauto. }
  destruct Hc as [(-> & Ht & H6) | [(-> & _ & _ & H6) | (-> & _ & _ & H4)]].
  - right. split; [reflexivity|]. left. exists (skipn 5 c). split; [apply (starts_with_app tag_ipv6 c Ht)|].
    apply (ipv6_sound [RBR] rbr_rest_ok); [|exact H6].
    rewrite (starts_with_app tag_ipv6 c Ht) in Hnc. apply nulfree_app in Hnc. tauto.
  - right. split; [reflexivity|]. right. apply (ipv6_sound [RBR] rbr_rest_ok); assumption.
  - left. split; [reflexivity|]. apply (ipv4_sound c [RBR]); assumption.
Qed.

(* characters of the specified forms: no bracket, and (for IPv4) no colon and no leading 'I' *)
Lemma octet_chars o : octet o -> Forall (fun b => (48 <= code b <= 57)%N) o.
Proof. intros (_ & Hd & _). eapply Forall_impl; [|exact Hd]. intros b Hb. apply is_digit_spec. exact Hb. Qed.

Definition v4char (b : byte) : Prop := (48 <= code b <= 57)%N \/ code b = 46%N.
Lemma v4char_excl b : v4char b -> b <> RBR /\ b <> COLON /\ b <> x49.
Proof.
  intros H. repeat split; intros ->; unfold v4char in H; cbn in H; lia.
Qed.

Lemma ipv4lower_chars c : Ipv4Lower c -> Forall v4char c /\ (7 <= length c)%nat /\ exists x r, c = x :: r /\ (48 <= code x <= 57)%N.
Proof.
  intros (a & b & c' & d & -> & (Ha & _) & (Hb & _) & (Hc & _) & (Hd & _) & _).
  assert (Ho : forall o, octet o -> Forall v4char o /\ (1 <= length o)%nat).
  { intros o Hoc. split; [eapply Forall_impl; [|apply octet_chars; exact Hoc]; intros x Hx; left; exact Hx|].
    destruct Hoc as (Hne & _). destruct o; [congruence|cbn; lia]. }
  destruct (Ho a Ha) as (Fa & La). destruct (Ho b Hb) as (Fb & Lb). destruct (Ho c' Hc) as (Fc & Lc). destruct (Ho d Hd) as (Fd & Ld).
  split; [|split].
  - repeat (apply Forall_app; split; [assumption|]; constructor; [right; reflexivity|]). exact Fd.
  - rewrite !app_length. cbn [length]. rewrite !app_length. cbn [length]. rewrite !app_length. cbn [length]. lia.
  - destruct a as [|x a']; [cbn in La; lia|]. exists x, (a' ++ DOT :: b ++ DOT :: c' ++ DOT :: d). split; [reflexivity|].
    apply octet_chars in Ha. inversion Ha; assumption.
Qed.

Lemma split_last_unique c : ~ In RBR c -> split_last RBR (LBR :: c ++ [RBR]) = Some (LBR :: c, []).
Proof.
  intros H. change (LBR :: c ++ [RBR]) with ((LBR :: c) ++ RBR :: []). apply split_last_app. intros [].
Qed.

Lemma memb_false c x : ~ In x c -> memb x c = false.
Proof.
  intros H. unfold memb. destruct (existsb (beqb x) c) eqn:E; [|reflexivity]. exfalso.
  apply existsb_exists in E as (y & Hy & Ey). apply beqb_eq in Ey. subst. contradiction.
Qed.

(* C05 lower bound, IPv4 *)
Theorem check_ip_lower_v4 c : Ipv4Lower c -> check_ip (LBR :: c ++ [RBR]) = (0, Fam4).
Proof.
  intros Hc. destruct (ipv4lower_chars c Hc) as (Hch & Hlen & x & r & Ex & Hx).
  assert (Hnb : ~ In RBR c).
  { intros Hin. rewrite Forall_forall in Hch. destruct (v4char_excl _ (Hch _ Hin)) as (H & _). congruence. }
  assert (Hncol : ~ In COLON c).
  { intros Hin. rewrite Forall_forall in Hch. destruct (v4char_excl _ (Hch _ Hin)) as (_ & H & _). congruence. }
  unfold check_ip. cbn [length]. rewrite app_length. cbn [length].
  destruct (Nat.leb_spec (S (length c + 1)) 8); [lia|].
  rewrite split_last_unique by exact Hnb. cbn [tl].
  assert (starts_with tag_ipv6 c = false) as ->.
  { rewrite Ex. unfold tag_ipv6. cbn [starts_with]. destruct (beqb x49 x) eqn:E; [|reflexivity]. apply beqb_eq in E. subst x. cbn in Hx. lia. }
  rewrite memb_false by exact Hncol.
  destruct Hc as (a & b & c' & d & -> & (Ha & _) & (Hb & _) & (Hc' & _) & (Hd & _) & Hz).
  rewrite ipv4_complete by assumption. reflexivity.
Qed.

Lemma group_facts g : group g -> ~ In RBR g /\ (1 <= length g)%nat.
Proof.
  intros ((Hl & _) & Hf). split; [|exact Hl]. intros Hin. rewrite Forall_forall in Hf. specialize (Hf _ Hin). cbv in Hf. discriminate.
Qed.
Lemma groups_facts k l : groups k l -> ~ In RBR l /\ (k <= length l)%nat.
Proof.
  induction 1 as [g H | k g r H _ (IH1 & IH2)]; [apply group_facts; exact H|]. destruct (group_facts g H) as (H1 & H2). split.
  - intros Hin. apply in_app_or in Hin as [Hin|[Hin|Hin]]; [contradiction|discriminate Hin|contradiction].
  - rewrite app_length. cbn [length]. lia.
Qed.
Lemma groups0_facts k l : groups0 k l -> ~ In RBR l.
Proof. intros [(-> & ->) | H]; [intros []|apply (groups_facts k l H)]. Qed.
Lemma groups_colon_facts k l : groups_colon k l -> ~ In RBR l.
Proof.
  induction 1 as [|k g r H _ IH]; [intros []|]. destruct (group_facts g H) as (H1 & _).
  intros Hin. apply in_app_or in Hin as [Hin|[Hin|Hin]]; [contradiction|discriminate Hin|contradiction].
Qed.
Lemma v4lower_facts q : Ipv4Lower q -> ~ In RBR q /\ (7 <= length q)%nat.
Proof.
  intros Hq. destruct (ipv4lower_chars q Hq) as (Hch & Hl & _). split; [|exact Hl].
  intros Hin. rewrite Forall_forall in Hch. destruct (v4char_excl _ (Hch _ Hin)) as (H & _). congruence.
Qed.

Lemma ipv6lower_facts a : Ipv6Lower a -> ~ In RBR a /\ (2 <= length a)%nat.
Proof.
  intros [H | [(n & m & h & t & -> & Hh & Ht & _) | [(h & q & -> & Hh & Hq) | (n & m & h & t & q & -> & Hh & Ht & Hq & _)]]].
  - destruct (groups_facts _ _ H) as (H1 & H2). split; [exact H1|lia].
  - split; [|rewrite app_length; cbn [length]; lia].
    intros Hin. apply in_app_or in Hin as [Hin|[Hin|[Hin|Hin]]]; [apply (groups0_facts _ _ Hh); exact Hin|discriminate Hin|discriminate Hin|apply (groups0_facts _ _ Ht); exact Hin].
  - destruct (v4lower_facts q Hq) as (H1 & H2). split; [|rewrite app_length; lia].
    intros Hin. apply in_app_or in Hin as [Hin|Hin]; [apply (groups_colon_facts _ _ Hh); exact Hin|contradiction].
  - destruct (v4lower_facts q Hq) as (H1 & H2). split; [|rewrite app_length; cbn [length]; lia].
    intros Hin. apply in_app_or in Hin as [Hin|[Hin|[Hin|Hin]]]; [apply (groups0_facts _ _ Hh); exact Hin|discriminate Hin|discriminate Hin|].
    apply in_app_or in Hin as [Hin|Hin]; [apply (groups_colon_facts _ _ Ht); exact Hin|contradiction].
Qed.

(* C05 lower bound, IPv6: every "IPv6:"-tagged literal of the RFC 5321 section 4.1.3 grammar *)
Theorem check_ip_lower_v6 a : Ipv6Lower a -> check_ip (LBR :: (tag_ipv6 ++ a) ++ [RBR]) = (0, Fam6).
Proof.
  intros Ha. destruct (ipv6lower_facts a Ha) as (Hnb & Hlen).
  assert (Hnb' : ~ In RBR (tag_ipv6 ++ a)).
  { intros Hin. apply in_app_or in Hin as [Hin|Hin]; [|contradiction]. cbv in Hin. intuition discriminate. }
  unfold check_ip. cbn [length]. rewrite !app_length. cbn [length].
  destruct (Nat.leb_spec (S (length tag_ipv6 + length a + 1)) 8) as [Hle|_]; [cbn [length tag_ipv6] in Hle; lia|].
  rewrite split_last_unique by exact Hnb'. cbn [tl].
  assert (starts_with tag_ipv6 (tag_ipv6 ++ a) = true) as ->.
  { unfold tag_ipv6. cbn [app starts_with]. assert (forall x, beqb x x = true) as Hr by (intros x; apply beqb_eq; reflexivity). rewrite !Hr. reflexivity. }
  change (skipn 5 (tag_ipv6 ++ a)) with a.
  rewrite (ipv6_complete [RBR] rbr_rest_ok a Ha). reflexivity.
Qed.
