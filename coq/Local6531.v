(* Local6531.v — B models of utf8_decode_next (src/utf8_decode.c) and is_6531_local.
   The decoder's bit operations are written as in C; the scanner decodes and judges one
   character per step, as the C loop does. *)
From Coq Require Import List NArith ZArith Bool.
From Coq Require Import Strings.Byte.
Require Import Bytes Codes Local.
Import ListNotations.
Local Open Scope N_scope.

Record cfg := { rfc20 : bool; f5322 : bool; uscore : bool }.
Definition cfg0 := {| rfc20 := false; f5322 := false; uscore := false |}.

(* cont(): payload of a continuation byte *)
Definition cont (b : byte) : option N :=
  if N.land (code b) 192 =? 128 then Some (N.land (code b) 63) else None.
Definition dec2 (c c1 : byte) : option N :=
  match cont c1 with
  | Some v => let r := N.lor (N.shiftl (N.land (code c) 31) 6) v in
              if 128 <=? r then Some r else None
  | None => None
  end.
Definition dec3 (c c1 c2 : byte) : option N :=
  match cont c1, cont c2 with
  | Some v1, Some v2 =>
    let r := N.lor (N.lor (N.shiftl (N.land (code c) 15) 12) (N.shiftl v1 6)) v2 in
    if (2048 <=? r) && ((r <? 55296) || (57343 <? r)) then Some r else None
  | _, _ => None
  end.
Definition dec4 (c c1 c2 c3 : byte) : option N :=
  match cont c1, cont c2, cont c3 with
  | Some v1, Some v2, Some v3 =>
    let r := N.lor (N.lor (N.lor (N.shiftl (N.land (code c) 7) 18) (N.shiftl v1 12)) (N.shiftl v2 6)) v3 in
    if (65536 <=? r) && (r <=? 1114111) then Some r else None
  | _, _, _ => None
  end.

Definition is_lead2 (c : N) := N.land c 224 =? 192.
Definition is_lead3 (c : N) := N.land c 240 =? 224.
Definition is_lead4 (c : N) := N.land c 248 =? 240.

(* one step of utf8_decode_next on a non-empty input: the scalar value and what is left *)
Definition utf8_next (l : list byte) : option (N * list byte) :=
  match l with
  | [] => None
  | b :: r =>
    let c := code b in
    if c <? 128 then Some (c, r)
    else if is_lead2 c then
      match r with c1 :: r1 => match dec2 b c1 with Some v => Some (v, r1) | None => None end | _ => None end
    else if is_lead3 c then
      match r with c1 :: c2 :: r2 => match dec3 b c1 c2 with Some v => Some (v, r2) | None => None end | _ => None end
    else if is_lead4 c then
      match r with c1 :: c2 :: c3 :: r3 => match dec4 b c1 c2 c3 with Some v => Some (v, r3) | None => None end | _ => None end
    else None
  end.

Definition rfc20_chars : list N := [35;94;96;126;123;125;124].
Definition is_rfc20 (c : N) : bool := existsb (N.eqb c) rfc20_chars.

Section Scan6.
Variable g : cfg.

(* what happens after a well-formed non-ASCII character *)
Definition nonascii_blocked (s : st) : bool := match s with InQP => true | _ => false end.

Fixpoint scan6 (s : st) (prev : option byte) (l : list byte) : Z :=
  match l with
  | [] => final s
  | b :: r =>
    let c := code b in
    if c <? 128 then
      if negb (f5322 g) && is_cntrl c then E_CTRL else
      match s with
      | Out =>
        if f5322 g && is_cntrl c then E_CTRL else
        if c =? 34 then
          match prev with
          | None => scan6 InQ (Some b) r
          | Some p => if code p =? 46 then scan6 InQ (Some b) r else E_MQUOTE
          end
        else if c =? 46 then
          match prev with
          | None => E_MDOT
          | Some p => if code p =? 46 then E_TMD
                      else match r with [] => E_MDOT | _ :: _ => scan6 Out (Some b) r end
          end
        else if is_special c || (rfc20 g && is_rfc20 c) then E_SPECIAL
        else scan6 Out (Some b) r
      | InQP => scan6 InQ (Some b) r
      | InQ =>
        if c =? 34 then
          match r with
          | [] => scan6 Out (Some b) r
          | n :: _ => if code n =? 46 then scan6 Out (Some b) r else E_MQUOTE
          end
        else if c =? 92 then scan6 InQP (Some b) r
        else if f5322 g && is_ws c then
          if match prev with Some p => is_dq_or_ws (code p) | None => false end
          then scan6 InQ (Some b) r
          else match r with
               | [] => scan6 InQ (Some b) r
               | n :: _ => if (127 <? code n) || is_dq_or_ws (code n) then scan6 InQ (Some b) r else E_UFWS
               end
        else scan6 InQ (Some b) r
      end
    else if is_lead2 c then
      match r with
      | c1 :: r1 =>
        match dec2 b c1 with
        | Some _ => if nonascii_blocked s then E_NOT_ASCII else scan6 s (Some b) r1
        | None => E_UTF8
        end
      | _ => E_UTF8
      end
    else if is_lead3 c then
      match r with
      | c1 :: c2 :: r2 =>
        match dec3 b c1 c2 with
        | Some _ => if nonascii_blocked s then E_NOT_ASCII else scan6 s (Some b) r2
        | None => E_UTF8
        end
      | _ => E_UTF8
      end
    else if is_lead4 c then
      match r with
      | c1 :: c2 :: c3 :: r3 =>
        match dec4 b c1 c2 c3 with
        | Some _ => if nonascii_blocked s then E_NOT_ASCII else scan6 s (Some b) r3
        | None => E_UTF8
        end
      | _ => E_UTF8
      end
    else E_UTF8
  end.

Definition local6531 (s : list byte) : Z :=
  match s with [] => E_LPART_EMPTY | _ => scan6 Out None s end.
End Scan6.
