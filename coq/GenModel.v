(* GenModel.v — model of the repository's generators util/gentld.pl and util/gen_utf8_pass_test.pl
   (one CSV row -> one table row / one line).  No data here: see GenProofs.v. *)
From Coq Require Import List NArith ZArith Bool Lia Arith.
From Coq Require Import Strings.Byte.
From Coq Require Strings.String.
Import Strings.String.StringSyntax.
Require Import Bytes Codes Special.
Import ListNotations.
Local Open Scope Z_scope.

Definition row_name' (r : tld_row) : list byte := match r with (n, _, _) => n end.
Definition row_len' (r : tld_row) : nat := match r with (_, l, _) => l end.
Definition row_type' (r : tld_row) : Z := match r with (_, _, t) => t end.

Definition csv_row := (list byte * list byte * list byte)%type.   (* domain, type, first 12 bytes of the manager *)
Local Open Scope string_scope.
Definition s_not_assigned : list byte := bs "not assigned".
Definition s_retired : list byte := bs "retired".
Definition type_names : list (list byte * Z) :=
  [(bs "generic", TLD_TYPE_GENERIC); (bs "country-code", TLD_TYPE_COUNTRY_CODE);
   (bs "generic-restricted", TLD_TYPE_GENERIC_RESTRICTED); (bs "infrastructure", TLD_TYPE_INFRASTRUCTURE);
   (bs "test", TLD_TYPE_TEST); (bs "sponsored", TLD_TYPE_SPONSORED)].
Local Close Scope string_scope.

(* m =~ /^prefix/i *)
Fixpoint ci_prefix (p m : list byte) : bool :=
  match p, m with
  | [], _ => true
  | x :: p', y :: m' => (tolower (code x) =? tolower (code y))%N && ci_prefix p' m'
  | _ :: _, [] => false
  end.

Fixpoint list_eqb (a b : list byte) : bool :=
  match a, b with
  | [], [] => true
  | x :: a', y :: b' => beqb x y && list_eqb a' b'
  | _, _ => false
  end.

Definition type_of_name (t : list byte) : option Z :=
  match find (fun p => list_eqb (fst p) t) type_names with Some (_, z) => Some z | None => None end.

(* one row of auto_tld.c as gentld.pl prints it; None = the script dies on an unknown type *)
Definition gen_row (r : csv_row) : option tld_row :=
  match r with
  | (d, t, m) =>
    match type_of_name t with
    | None => None
    | Some ty =>
      let ty' := if ci_prefix s_not_assigned m then TLD_TYPE_NOT_ASSIGNED
                 else if ci_prefix s_retired m then TLD_TYPE_RETIRED else ty in
      Some (d, S (length d), ty')
    end
  end.

Definition opt_row_eqb (a : option tld_row) (b : tld_row) : bool :=
  match a with
  | Some (n, l, t) => list_eqb n (row_name' b) && Nat.eqb l (row_len' b) && (t =? row_type' b)
  | None => false
  end.

Fixpoint all2 {A B} (f : A -> B -> bool) (a : list A) (b : list B) : bool :=
  match a, b with
  | [], [] => true
  | x :: a', y :: b' => f x y && all2 f a' b'
  | _, _ => false
  end.

Definition gen_domain_line (r : list byte * list byte) : option (list byte) :=
  match type_of_name (snd r) with Some _ => Some (fst r ++ DOT :: fst r) | None => None end.
Definition opt_line_eqb (a : option (list byte)) (b : list byte) : bool :=
  match a with Some x => list_eqb x b | None => false end.
