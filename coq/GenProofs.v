(* GenProofs.v — C11: the generator model (util/gentld.pl, util/gen_utf8_pass_test.pl) applied to the rows of
   data/punycode.csv / data/raw.csv (Gen/GenCsv.v) reproduces the table of the built library (Gen/GenTld.v),
   data/tld-domains.txt and the header's enum order.  Decided by vm_compute over the concrete data. *)
From Coq Require Import List NArith ZArith Bool Lia Arith.
From Coq Require Import Strings.Byte.
From Coq Require Strings.String.
Import Strings.String.StringSyntax.
Require Import Bytes Codes Hex Special TldProofs GenModel.
Require Gen.GenCsv.
Import ListNotations.
Local Open Scope Z_scope.

(* ---- the generator model (util/gentld.pl) and C11 ---- *)
Definition punycode_rows : list csv_row :=
  map (fun r => match r with (d, t, m) => (unhex d, unhex t, unhex m) end) GenCsv.punycode_rows_hex.

Definition raw_rows : list (list byte * list byte) :=
  map (fun r => match r with (d, t) => (unhex d, unhex t) end) GenCsv.raw_rows_hex.
Definition tld_domains_txt : list (list byte) := map unhex GenCsv.tld_domains_txt_hex.
(* the table compiled into the library is, row for row, what the generator makes of punycode.csv *)
Lemma table_is_generated : all2 opt_row_eqb (map gen_row punycode_rows) tld_list = true.
Proof. vm_compute. reflexivity. Qed.

(* data/tld-domains.txt is what gen_utf8_pass_test.pl makes of raw.csv *)
Lemma domains_txt_is_generated : all2 opt_line_eqb (map gen_domain_line raw_rows) tld_domains_txt = true.
Proof. vm_compute. reflexivity. Qed.

(* raw.csv and punycode.csv have the same number of rows and, type by type, the same number of rows of that type
   (whatever the order of the rows: the two files are related by the IDN conversion of the domain column, which the
   check evaluates with the oracle, row by row, on the implementation) *)
Definition count_type (t : list byte) (l : list (list byte)) : nat := length (filter (list_eqb t) l).
Lemma raw_and_punycode_same_types :
  Nat.eqb (length raw_rows) (length punycode_rows) = true /\
  forallb (fun p => Nat.eqb (count_type (fst p) (map snd raw_rows))
                            (count_type (fst p) (map (fun r => snd (fst r)) punycode_rows))) type_names = true.
Proof. split; vm_compute; reflexivity. Qed.

(* the enum order of the shipped header is the one gentld.pl prints: UNUSED, NOT_ASSIGNED, the sorted
   type names, SPECIAL, RETIRED, MAX — and it agrees with the numeric values the model uses *)
Local Open Scope string_scope.
Definition expected_enum_order : list String.string :=
  ["TLD_TYPE_UNUSED"; "TLD_TYPE_NOT_ASSIGNED"; "TLD_TYPE_COUNTRY_CODE"; "TLD_TYPE_GENERIC";
   "TLD_TYPE_GENERIC_RESTRICTED"; "TLD_TYPE_INFRASTRUCTURE"; "TLD_TYPE_SPONSORED"; "TLD_TYPE_TEST";
   "TLD_TYPE_SPECIAL"; "TLD_TYPE_RETIRED"; "TLD_TYPE_MAX"].
Lemma header_enum_is_generated : GenCsv.header_enum_order = expected_enum_order.
Proof. reflexivity. Qed.
