(* EmailProofs.v — facts about the composers (Email.v). *)
From Coq Require Import List NArith ZArith Lia Bool.
From Coq Require Import Strings.Byte.
Require Import Bytes Codes Local Local6531 Domain DomainSpec DomainProofs Ip Special Email.
Import ListNotations.
Local Open Scope Z_scope.

Lemma scan_nonpos am rest z : forall s p, scan am rest s p z <= 0.
Proof.
  assert (Hfuel : forall n z, (length z <= n)%nat -> forall s p, scan am rest s p z <= 0).
  { induction n as [|n IH]; intros x Hx s p.
    - destruct x; [|cbn in Hx; lia]. destruct s; cbv; discriminate.
    - destruct x as [|y x]; [destruct s; cbv; discriminate|]. cbn [length] in Hx. cbn [scan].
      repeat match goal with
             | |- context [if ?c then _ else _] => destruct c
             | |- context [match ?v with _ => _ end] => destruct v
             end; try (apply IH; cbn [length] in *; lia); try (cbv; discriminate); destruct s; cbv; discriminate. }
  intros s p. apply (Hfuel (length z)). lia.
Qed.

Lemma scan6_nonpos g z : forall s p, scan6 g s p z <= 0.
Proof.
  assert (Hfuel : forall n z, (length z <= n)%nat -> forall s p, scan6 g s p z <= 0).
  { induction n as [|n IH]; intros x Hx s p.
    - destruct x; [|cbn in Hx; lia]. destruct s; cbv; discriminate.
    - destruct x as [|y x]; [destruct s; cbv; discriminate|]. cbn [length] in Hx. cbn [scan6].
      repeat match goal with
             | |- context [if ?c then _ else _] => destruct c
             | |- context [match ?v with _ => _ end] => destruct v
             end; try (apply IH; cbn [length] in *; lia); try (cbv; discriminate); destruct s; cbv; discriminate. }
  intros s p. apply (Hfuel (length z)). lia.
Qed.

Lemma local_of_nonpos g m l rest : local_of g m l rest <= 0.
Proof.
  destruct m as [am|]; cbn [local_of]; [unfold local|unfold local6531]; destruct l;
    first [apply scan_nonpos | apply scan6_nonpos | (cbv; discriminate)].
Qed.

Lemma ascii_domain_nonpos us x : ascii_domain us x [] <= 0.
Proof.
  unfold ascii_domain. destruct x; [cbv; discriminate|].
  assert (Hd : forall l ll nn aft, dscan us ll nn l aft <= 0).
  { induction l as [|y l IH]; intros ll nn aft; cbn [dscan]; unfold dfinal.
    - destruct (Nat.eqb ll 0); [cbv; discriminate|]. destruct nn; cbv; discriminate.
    - repeat match goal with |- context [if ?c then _ else _] => destruct c end;
        try apply IH; try (cbv; discriminate). }
  repeat match goal with |- context [if ?c then _ else _] => destruct c end; try apply Hd; cbv; discriminate.
Qed.

Lemma utf8_domain_sound idn g tbl tld d :
  (forall a, idn d = IdnOk a -> nulfree a) ->
  0 <= fst (utf8_domain idn g tbl tld d) ->
  exists a, idn d = IdnOk a /\ HostnameSpec (uscore g) a.
Proof.
  intros Hnf H. unfold utf8_domain in H. destruct d as [|b d']; [cbn [fst] in H; unfold E_DOMAIN_EMPTY in H; lia|].
  destruct (idn (b :: d')) as [a|e buf] eqn:Ei; [|cbn [fst] in H; unfold E_IDN in H; lia].
  exists a. split; [reflexivity|].
  destruct (ascii_domain (uscore g) a []) eqn:Ea.
  - apply ascii_domain_correct; [apply Hnf; reflexivity|exact Ea].
  - exfalso. cbn in H.
    assert (Hneg : forall us x, ascii_domain us x [] <= 0).
    { intros us x. unfold ascii_domain. destruct x; [cbv; discriminate|].
      assert (Hd : forall l ll nn aft, dscan us ll nn l aft <= 0).
      { induction l as [|y l IH]; intros ll nn aft; cbn [dscan]; unfold dfinal.
        - destruct (Nat.eqb ll 0); [cbv; discriminate|]. destruct nn; cbv; discriminate.
        - repeat match goal with |- context [if ?c then _ else _] => destruct c end;
            try apply IH; try (cbv; discriminate). }
      repeat match goal with |- context [if ?c then _ else _] => destruct c end; try apply Hd; cbv; discriminate. }
    specialize (Hneg (uscore g) a). rewrite Ea in Hneg. lia.
  - cbn in H. lia.
Qed.

(* ------------------------------------------------------------------ C01: the decision of the composers *)
Section Decision.
Variable idn : list byte -> idn_res.
Variable g : cfg.
Variable tbl : list tld_row.

(* the library's own per-part verdicts *)
Definition local_ok (m : mode) (l rest : list byte) : Prop := local_of g m l rest = 0.
Definition host_ok (m : mode) (d : list byte) : Prop :=
  match m with
  | MA _ => ascii_domain (uscore g) d [] = 0
  | M6531 => fst (utf8_domain idn g tbl false d) = 0
  end.
Definition literal_ok (d : list byte) : Prop := fst (check_ip d) = 0.
Definition domain_ok (m : mode) (d : list byte) : Prop :=
  match d with
  | [] => False
  | d0 :: _ => if beqb d0 LBR then literal_ok d else host_ok m d
  end.

Lemma check_ip_rc d : fst (check_ip d) = 0 \/ fst (check_ip d) < 0.
Proof.
  unfold check_ip. repeat match goal with |- context [if ?c then _ else _] => destruct c
                          | |- context [match ?x with _ => _ end] => destruct x end; cbn; auto; right; reflexivity.
Qed.

Lemma email_split m t l d : ~ In AT d ->
  email idn g tbl m t (l ++ AT :: d) =
  match d with
  | [] => res_rc E_DOMAIN_EMPTY
  | d0 :: _ =>
    if Nat.ltb 64 (length l) then res_rc E_LPART_TOO_LONG else
    let r := local_of g m l (AT :: d) in
    if negb (r =? 0) then res_rc r else
    if beqb d0 LBR then ip_result l d else
    match m with
    | MA _ =>
      let r := ascii_domain (uscore g) d [] in
      if negb (r =? 0) then res_rc r
      else mkres (if t then tld_verdict tbl d else 0) 0 false false true (Some l) (Some d)
    | M6531 =>
      let '(r, ir) := utf8_domain idn g tbl t d in
      if 0 <=? r then mkres r ir false false true (Some l) (Some d)
      else mkres r ir false false false None None
    end
  end.
Proof.
  intros Hat. unfold email. destruct (l ++ AT :: d) eqn:E; [destruct l; discriminate|]. rewrite <- E.
  rewrite split_last_app by exact Hat. reflexivity.
Qed.

Lemma ip_result_rc l d : rc (ip_result l d) = fst (check_ip d).
Proof. unfold ip_result. destruct (check_ip d) as [r [| |]]; reflexivity. Qed.

Lemma utf8_domain_off_rc d : fst (utf8_domain idn g tbl false d) <= 0.
Proof.
  unfold utf8_domain. destruct d; [cbv; discriminate|]. destruct (idn (b :: d)); [|cbv; discriminate].
  destruct (negb (ascii_domain (uscore g) a [] =? 0)) eqn:E; [|cbn; lia].
  cbn [fst].
  assert (Hneg : forall us x, ascii_domain us x [] <= 0).
  { intros us x. unfold ascii_domain. destruct x; [cbv; discriminate|].
    assert (Hd : forall l ll nn aft, dscan us ll nn l aft <= 0).
    { induction l as [|y l IH]; intros ll nn aft; cbn [dscan]; unfold dfinal.
      - destruct (Nat.eqb ll 0); [cbv; discriminate|]. destruct nn; cbv; discriminate.
      - repeat match goal with |- context [if ?c then _ else _] => destruct c end;
          try apply IH; try (cbv; discriminate). }
    repeat match goal with |- context [if ?c then _ else _] => destruct c end; try apply Hd; cbv; discriminate. }
  apply Hneg.
Qed.

Theorem email_decision m a :
  rc (email idn g tbl m false a) = 0 <->
  exists l d, a = l ++ AT :: d /\ ~ In AT d /\ (1 <= length l <= 64)%nat /\
              local_ok m l (AT :: d) /\ domain_ok m d.
Proof.
  split.
  - unfold email. destruct a as [|a0 a']; [cbn; discriminate|].
    destruct (split_last AT (a0 :: a')) as [[l d]|] eqn:E; [|cbn; discriminate].
    destruct (split_last_spec _ _ _ _ E) as (Ea & Hat).
    destruct d as [|d0 d']; [cbn; discriminate|].
    destruct (Nat.ltb_spec 64 (length l)) as [Hlong|Hlen]; [cbn; discriminate|].
    destruct (local_of g m l (AT :: d0 :: d') =? 0) eqn:El; cbn [negb];
      [|intros H; cbn [rc res_rc] in H; rewrite H in El; discriminate].
    apply Z.eqb_eq in El. intros H.
    exists l, (d0 :: d'). split; [exact Ea|]. split; [exact Hat|].
    assert (Hl1 : (1 <= length l)%nat).
    { destruct l; [|cbn; lia]. exfalso. destruct m as [am|]; cbn in El; [destruct am|]; discriminate. }
    split; [lia|]. split; [exact El|].
    unfold domain_ok. destruct (beqb d0 LBR).
    + rewrite ip_result_rc in H. exact H.
    + destruct m as [am|]; cbn [host_ok].
      * destruct (ascii_domain (uscore g) (d0 :: d') [] =? 0) eqn:Ed; cbn [negb] in H.
        -- apply Z.eqb_eq. exact Ed.
        -- cbn [rc res_rc] in H. rewrite H in Ed. discriminate.
      * destruct (utf8_domain idn g tbl false (d0 :: d')) as [r ir]. cbn [fst].
        destruct (0 <=? r); cbn [rc] in H; exact H.
  - intros (l & d & -> & Hat & Hlen & Hl & Hd).
    rewrite email_split by exact Hat. unfold domain_ok in Hd. destruct d as [|d0 d']; [contradiction|].
    assert (Nat.ltb 64 (length l) = false) as -> by (apply PeanoNat.Nat.ltb_ge; lia).
    unfold local_ok in Hl. cbv zeta. rewrite Hl. cbn [Z.eqb negb].
    destruct (beqb d0 LBR).
    + rewrite ip_result_rc. exact Hd.
    + destruct m as [am|]; cbn [host_ok] in Hd.
      * rewrite Hd. reflexivity.
      * destruct (utf8_domain idn g tbl false (d0 :: d')) as [r ir]. cbn [fst] in Hd. subst r. reflexivity.
Qed.

(* the forms that are always rejected, with their codes *)
Theorem email_always_rejected m t :
  rc (email idn g tbl m t []) = E_EMAIL_EMPTY /\
  (forall a, a <> [] -> ~ In AT a -> rc (email idn g tbl m t a) = E_DOMAIN_EMPTY) /\
  (forall l, rc (email idn g tbl m t (l ++ [AT])) = E_DOMAIN_EMPTY) /\
  (forall d, d <> [] -> ~ In AT d -> rc (email idn g tbl m t (AT :: d)) = E_LPART_EMPTY).
Proof.
  split; [reflexivity|]. split; [|split].
  - intros a Hne Hat. unfold email. destruct a; [congruence|].
    destruct (split_last AT (b :: a)) as [[l d]|] eqn:E; [|reflexivity].
    exfalso. apply split_last_spec in E as (E & _). apply Hat. rewrite E. apply in_or_app. right. left. reflexivity.
  - intros l. rewrite email_split by (intros []). reflexivity.
  - intros d Hne Hat. change (AT :: d) with ([] ++ AT :: d). rewrite email_split by exact Hat.
    destruct d as [|d0 d']; [congruence|]. cbn [length Nat.ltb Nat.leb].
    destruct m as [am|]; [destruct am|]; reflexivity.
Qed.
End Decision.


(* ------------------------------------------------------------------ C16: the result record *)
Section Record.
Variable idn : list byte -> idn_res.
Variable g : cfg.
Variable tbl : list tld_row.

Definition no_flags (r : result) : Prop :=
  is_ipv4 r = false /\ is_ipv6 r = false /\ is_domain r = false /\ lpart r = None /\ domain r = None.

Lemma res_rc_no_flags z : no_flags (res_rc z).
Proof. repeat split. Qed.

(* every result has one of three shapes *)
Inductive shape (a : list byte) (r : result) : Prop :=
| sh_invalid : no_flags r -> rc r < 0 -> shape a r
| sh_host l d : a = l ++ AT :: d -> ~ In AT d -> hd NUL d <> LBR -> d <> [] ->
    is_ipv4 r = false -> is_ipv6 r = false -> is_domain r = true -> lpart r = Some l -> domain r = Some d -> shape a r
| sh_literal l c f : a = l ++ AT :: LBR :: c ++ [RBR] -> ~ In AT (LBR :: c ++ [RBR]) ->
    check_ip (LBR :: c ++ [RBR]) = (0, f) -> (f = Fam4 \/ f = Fam6) -> rc r = 0 ->
    is_ipv4 r = (match f with Fam4 => true | _ => false end) ->
    is_ipv6 r = (match f with Fam6 => true | _ => false end) ->
    is_domain r = false -> lpart r = Some l -> domain r = Some c -> shape a r.

Lemma check_ip_cases d : hd NUL d = LBR ->
  (exists r, check_ip d = (r, FamNone) /\ r < 0) \/
  (exists c f, (f = Fam4 \/ f = Fam6) /\ check_ip d = (0, f) /\ d = LBR :: c ++ [RBR] /\
               split_last RBR d = Some (LBR :: c, [])).
Proof.
  intros Hh. unfold check_ip. destruct (Nat.leb (length d) 8); [left; eexists; split; reflexivity|].
  destruct (split_last RBR d) as [[p after]|] eqn:E; [|left; eexists; split; reflexivity].
  destruct after as [|x y]; [|left; eexists; split; reflexivity].
  apply split_last_spec in E as E'. destruct E' as (Ed & _).
  assert (Hp : exists c, p = LBR :: c).
  { destruct p as [|p0 p']; [subst d; cbn in Hh; discriminate Hh|]. subst d. cbn in Hh. subst p0. eauto. }
  destruct Hp as (c & ->). cbn [tl].
  assert (Hd : d = LBR :: c ++ [RBR]) by (rewrite Ed; reflexivity).
  repeat match goal with |- context [if ?x then _ else _] => destruct x end;
    first [ left; eexists; split; reflexivity
          | right; exists c; eexists; split; [|split; [reflexivity|split; [exact Hd|reflexivity]]]; auto ].
Qed.

Theorem email_shape m t a : shape a (email idn g tbl m t a).
Proof.
  unfold email. destruct a as [|a0 a']; [apply sh_invalid; [apply res_rc_no_flags|reflexivity]|].
  destruct (split_last AT (a0 :: a')) as [[l d]|] eqn:E; [|apply sh_invalid; [apply res_rc_no_flags|reflexivity]].
  destruct (split_last_spec _ _ _ _ E) as (Ea & Hat).
  destruct d as [|d0 d']; [apply sh_invalid; [apply res_rc_no_flags|reflexivity]|].
  destruct (Nat.ltb 64 (length l)); [apply sh_invalid; [apply res_rc_no_flags|reflexivity]|].
  destruct (local_of g m l (AT :: d0 :: d') =? 0) eqn:El; cbn [negb].
  2:{ apply sh_invalid; [apply res_rc_no_flags|]. cbn [rc res_rc]. apply Z.eqb_neq in El.
      pose proof (local_of_nonpos g m l (AT :: d0 :: d')). lia. }
  destruct (beqb d0 LBR) eqn:Eb.
  - apply beqb_eq in Eb. subst d0. unfold ip_result.
    destruct (check_ip_cases (LBR :: d') eq_refl) as [(r & Hci & Hr) | (c & f & Hf & Hci & Hd & Hsl)]; rewrite Hci.
    + apply sh_invalid; [apply res_rc_no_flags|exact Hr].
    + rewrite Hsl. cbn [tl]. rewrite Hd in Hci, Hat, Ea.
      destruct Hf as [-> | ->]; apply (sh_literal _ _ l c _ Ea Hat Hci); auto.
  - assert (Hh : hd NUL (d0 :: d') <> LBR).
    { cbn. intros ->. assert (beqb LBR LBR = true) by (apply beqb_eq; reflexivity). congruence. }
    destruct m as [am|].
    + destruct (ascii_domain (uscore g) (d0 :: d') [] =? 0) eqn:Ed; cbn [negb].
      * apply (sh_host _ _ l (d0 :: d')); auto. discriminate.
      * apply sh_invalid; [apply res_rc_no_flags|]. cbn [rc res_rc]. apply Z.eqb_neq in Ed.
        pose proof (ascii_domain_nonpos (uscore g) (d0 :: d')). lia.
    + destruct (utf8_domain idn g tbl t (d0 :: d')) as [r ir].
      destruct (0 <=? r) eqn:Er.
      * apply (sh_host _ _ l (d0 :: d')); auto. discriminate.
      * apply sh_invalid; [repeat split|]. cbn [rc]. apply Z.leb_gt in Er. exact Er.
Qed.

(* the result code: 0 without TLD checking, a class 1..9 or a negative code with it *)
Theorem host_rc_tld_off m a : let r := email idn g tbl m false a in is_domain r = true -> rc r = 0.
Proof.
  cbv zeta. unfold email. destruct a as [|a0 a']; [discriminate|].
  destruct (split_last AT (a0 :: a')) as [[l d]|]; [|discriminate].
  destruct d as [|d0 d']; [discriminate|].
  destruct (Nat.ltb 64 (length l)); [discriminate|].
  destruct (negb (local_of g m l (AT :: d0 :: d') =? 0)); [discriminate|].
  destruct (beqb d0 LBR).
  - unfold ip_result. destruct (check_ip (d0 :: d')) as [r [| |]]; discriminate.
  - destruct m as [am|].
    + destruct (negb (ascii_domain (uscore g) (d0 :: d') [] =? 0)); [discriminate|reflexivity].
    + pose proof (utf8_domain_off_rc idn g tbl (d0 :: d')) as Hr.
      destruct (utf8_domain idn g tbl false (d0 :: d')) as [r ir]. cbn [fst] in Hr.
      destruct (0 <=? r) eqn:Er; [|discriminate]. intros _. cbn [rc]. apply Z.leb_le in Er. lia.
Qed.
End Record.
