(* EmailProofs.v — facts about the composers (Email.v). *)
From Coq Require Import List NArith ZArith Lia Bool.
From Coq Require Import Strings.Byte.
Require Import Bytes Codes Local Local6531 Domain DomainSpec DomainProofs Ip Special Email.
Import ListNotations.
Local Open Scope Z_scope.

Lemma utf8_domain_sound idn g tbl tld d :
  (forall a, idn d = IdnOk a -> nulfree a) ->
  0 <= fst (utf8_domain idn g tbl tld d) ->
  exists a, idn d = IdnOk a /\ HostnameSpec (uscore g) a.
Proof.
  intros Hnf H. unfold utf8_domain in H. destruct d as [|b d']; [cbn [fst] in H; unfold E_DOMAIN_EMPTY in H; lia|].
  destruct (idn (b :: d')) as [a|e buf] eqn:Ei; [|cbn [fst] in H; unfold E_IDN in H; lia].
  exists a. split; [reflexivity|].
  destruct (ascii_domain (uscore g) a []) eqn:Ea.
  - apply ascii_domain_correct; [apply Hnf; reflexivity|exact Ea].
  - exfalso. cbn in H.
    assert (Hneg : forall us x, ascii_domain us x [] <= 0).
    { intros us x. unfold ascii_domain. destruct x; [cbv; discriminate|].
      assert (Hd : forall l ll nn aft, dscan us ll nn l aft <= 0).
      { induction l as [|y l IH]; intros ll nn aft; cbn [dscan]; unfold dfinal.
        - destruct (Nat.eqb ll 0); [cbv; discriminate|]. destruct nn; cbv; discriminate.
        - repeat match goal with |- context [if ?c then _ else _] => destruct c end;
            try apply IH; try (cbv; discriminate). }
      repeat match goal with |- context [if ?c then _ else _] => destruct c end; try apply Hd; cbv; discriminate. }
    specialize (Hneg (uscore g) a). rewrite Ea in Hneg. lia.
  - cbn in H. lia.
Qed.
