(* SpecialProofs.v — C09: is_special_domain recognises exactly the reserved names, on whole labels,
   whatever precedes them. *)
From Coq Require Import List NArith ZArith Bool Lia Arith.
From Coq Require Import Strings.Byte.
Require Import Bytes Codes Special.
Import ListNotations.

(* the labels of a domain: the maximal dot-free pieces *)
Fixpoint split_dots (l : list byte) : list (list byte) :=
  match l with
  | [] => [[]]
  | b :: r => if beqb b DOT then [] :: split_dots r
              else match split_dots r with
                   | x :: xs => (b :: x) :: xs
                   | [] => [[b]]
                   end
  end.

Definition ci_in (names : list (list byte)) (l : list byte) : Prop := exists n, In n names /\ ci_eqb l n = true.

(* S: the last label is test / example / invalid / localhost / onion, or the last two labels are
   example.com / example.net / example.org — compared case-insensitively on whole labels *)
Definition Reserved (d : list byte) : Prop :=
  let ls := split_dots d in
  ci_in reserved_names (last ls []) \/
  (exists pre l2 l1, ls = pre ++ [l2; l1] /\ ci_eqb l2 example_name = true /\ ci_in example_tlds l1).

Lemma split_dots_nonempty l : split_dots l <> [].
Proof. destruct l as [|b r]; cbn; [discriminate|]. destruct (beqb b DOT); [discriminate|]. destruct (split_dots r); discriminate. Qed.

Lemma ci_eqb_length a b : ci_eqb a b = true -> length a = length b.
Proof.
  revert b. induction a as [|x a IH]; intros [|y b] H; try discriminate; [reflexivity|].
  cbn in H. apply andb_true_iff in H as (_ & H). cbn. f_equal. apply IH. exact H.
Qed.
Lemma ci_eqb_sym a b : ci_eqb a b = ci_eqb b a.
Proof.
  revert b. induction a as [|x a IH]; intros [|y b]; try reflexivity. cbn. rewrite IH, N.eqb_sym. reflexivity.
Qed.

Lemma check_in_spec names l : check_in names l = true <-> ci_in names l.
Proof.
  unfold check_in, ci_in. rewrite existsb_exists. split; intros (n & Hin & H); exists n; (split; [exact Hin|]).
  - destruct (Nat.eq_dec (length l) (length n)) as [E|E].
    + rewrite strncaseeq_full in H by lia. exact H.
    + exfalso. clear Hin. revert n H E. induction l as [|x l IH]; intros [|y n] H E; cbn in *; try discriminate; try congruence.
      apply andb_true_iff in H as (_ & H). apply (IH n H). congruence.
  - rewrite strncaseeq_full by (apply ci_eqb_length in H; lia). exact H.
Qed.

Lemma reserved_lengths l : ci_in reserved_names l -> bad_len (length l) = false.
Proof.
  intros (n & Hin & H). apply ci_eqb_length in H. rewrite H.
  cbn in Hin. repeat destruct Hin as [<- | Hin]; try reflexivity. contradiction.
Qed.

(* first split *)
Lemma split_first_dots d p s : split_first DOT d = Some (p, s) ->
  split_dots d = p :: split_dots s /\ count_dots d = S (count_dots s) /\ count_dots p = 0.
Proof.
  revert p s. induction d as [|b r IH]; intros p s H; [discriminate|]. cbn [split_first] in H.
  unfold count_dots in *. cbn [split_dots filter].
  destruct (beqb b DOT) eqn:E.
  - inversion H; subst. cbn. auto.
  - destruct (split_first DOT r) as [[p' s']|]; [|discriminate]. inversion H; subst.
    destruct (IH p' s eq_refl) as (E1 & E2 & E3). rewrite E1. cbn [filter]. rewrite E. auto.
Qed.
Lemma split_first_none_dots d : split_first DOT d = None -> split_dots d = [d] /\ count_dots d = 0.
Proof.
  induction d as [|b r IH]; intros H; [split; reflexivity|]. cbn [split_first] in H.
  unfold count_dots in *. cbn [split_dots filter]. destruct (beqb b DOT); [discriminate|].
  destruct (split_first DOT r) as [[p' s']|]; [discriminate|]. destruct (IH eq_refl) as (E1 & E2). rewrite E1. auto.
Qed.
Lemma count0_first d : count_dots d = 0 -> split_first DOT d = None.
Proof.
  intros H. destruct (split_first DOT d) as [[p s]|] eqn:E; [|reflexivity].
  apply split_first_dots in E as (_ & E & _). lia.
Qed.

(* the last two labels, as the C code finds them *)
Definition last_two (d : list byte) : option (list byte * list byte) :=
  match split_first DOT (skip_labels (count_dots d - 1) d) with
  | Some (l2, after) => Some (l2, first_label after)
  | None => None
  end.

Lemma last_two_spec : forall n d, count_dots d = S n ->
  exists pre l2 l1, split_dots d = pre ++ [l2; l1] /\ last_two d = Some (l2, l1).
Proof.
  induction n as [|n IH]; intros d Hc.
  - unfold last_two. rewrite Hc. cbn [Nat.sub skip_labels].
    destruct (split_first DOT d) as [[p s]|] eqn:E.
    + destruct (split_first_dots _ _ _ E) as (E1 & E2 & _).
      assert (Hs : count_dots s = 0) by lia.
      pose proof (count0_first s Hs) as Hn. destruct (split_first_none_dots s Hn) as (E3 & _).
      exists [], p, s. split; [rewrite E1, E3; reflexivity|]. unfold first_label. rewrite Hn. reflexivity.
    + apply split_first_none_dots in E as (_ & E). lia.
  - destruct (split_first DOT d) as [[p s]|] eqn:E.
    + destruct (split_first_dots _ _ _ E) as (E1 & E2 & _).
      assert (Hs : count_dots s = S n) by lia.
      destruct (IH s Hs) as (pre & l2 & l1 & E3 & E4).
      exists (p :: pre), l2, l1. split; [rewrite E1, E3; reflexivity|].
      unfold last_two in *. rewrite Hc. rewrite Hs in E4. cbn [Nat.sub] in *.
      replace (S n - 0) with (S n) by lia. cbn [skip_labels]. rewrite E.
      replace (n - 0) with n in E4 by lia. exact E4.
    + apply split_first_none_dots in E as (_ & E). lia.
Qed.

Lemma last_snoc2 {A} (pre : list A) a b d : last (pre ++ [a; b]) d = b.
Proof. rewrite (app_assoc pre [a] [b]) || replace (pre ++ [a; b]) with ((pre ++ [a]) ++ [b]) by (rewrite <- app_assoc; reflexivity). apply last_last. Qed.

Lemma app2_inj {A} (p q : list A) a b c d : p ++ [a; b] = q ++ [c; d] -> a = c /\ b = d.
Proof.
  intros H. assert (H1 : rev (p ++ [a; b]) = rev (q ++ [c; d])) by (rewrite H; reflexivity).
  rewrite !rev_app_distr in H1. cbn in H1. inversion H1. auto.
Qed.

Theorem special_domain_correct d : last d NUL <> DOT -> (special_domain d = true <-> Reserved d).
Proof.
  intros Hroot. unfold special_domain, Reserved. cbv zeta.
  destruct (Nat.eqb_spec (count_dots d) 0) as [H0|H0].
  - (* single label *)
    pose proof (count0_first d H0) as Hn. destruct (split_first_none_dots d Hn) as (Es & _). rewrite Es. cbn [last].
    split.
    + destruct (bad_len (length d)); [discriminate|]. intros H. left. apply check_in_spec. exact H.
    + intros [H | (pre & l2 & l1 & E & _)].
      * rewrite (reserved_lengths d H). apply check_in_spec. exact H.
      * exfalso. destruct pre as [|x [|y pre]]; discriminate.
  - assert (Hb : beqb (last d NUL) DOT = false).
    { destruct (beqb (last d NUL) DOT) eqn:E; [|reflexivity]. apply beqb_eq in E. contradiction. }
    rewrite Hb.
    destruct (count_dots d) as [|n] eqn:Hc; [congruence|].
    destruct (last_two_spec n d Hc) as (pre & l2 & l1 & Es & El2).
    unfold last_two in El2. rewrite Hc in El2.
    destruct (split_first DOT (skip_labels (S n - 1) d)) as [[x after]|]; [|discriminate].
    injection El2 as Ex Ef. subst x. rewrite Ef. rewrite Es. rewrite last_snoc2.
    rewrite orb_true_iff, !andb_true_iff, negb_true_iff, !Nat.eqb_eq, !check_in_spec.
    split.
    + intros [(((Hlen7 & Hex) & Hlen3) & Hin) | (Hbl & Hin)].
      * right. exists pre, l2, l1. split; [reflexivity|]. split; [rewrite ci_eqb_sym; exact Hex|exact Hin].
      * left. exact Hin.
    + intros [Hin | (pre' & a & b & E & Hex & Hin)].
      * right. split; [apply reserved_lengths; exact Hin|exact Hin].
      * apply app2_inj in E as (<- & <-). left. repeat split.
        -- apply ci_eqb_length in Hex. rewrite Hex. reflexivity.
        -- rewrite ci_eqb_sym. exact Hex.
        -- destruct Hin as (t & Ht & Hc'). apply ci_eqb_length in Hc'. rewrite Hc'.
           cbn in Ht. repeat destruct Ht as [<- | Ht]; try reflexivity. contradiction.
        -- exact Hin.
Qed.
