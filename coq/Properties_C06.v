(* Properties_C06.v — C06 (partial): what a model can carry of memory safety / no abort / no leak.
   The runtime half — no read outside [first byte, terminator], no undefined behaviour, no uninitialised read,
   linear work — is carried by the sanitizer / guard-page / valgrind / callgrind runs of the C06 check on the real code. *)
From Coq Require Import List NArith ZArith Bool.
From Coq Require Import Strings.Byte.
Require Import Bytes Codes Local Local6531 Domain Ip Special Email Api ApiProofs TldProofs EnumTie SafetyProofs LocalA DomainA Local6531A IpA StrA SpecialA EmailA.
Require Gen.GenEnums.
Import ListNotations.

(* never aborts: with the table of the built library every result code is <= 9, so the "default: abort()" arm of the
   class switch is unreachable through the library's own callbacks *)
Theorem C06_no_abort :
  forall idn g s a, snd (is_email idn g tld_list s a) <> OAbort.
Proof. intros idn g s a. apply no_abort. exact tld_types_ok. Qed.
Print Assumptions C06_no_abort.

(* never calls a NULL callback once eav_setup has succeeded since eav_init *)
Theorem C06_no_null_callback :
  forall idn g tbl s0 ops m a, st_mode (settings_of settings_init ops) = Some m ->
    snd (is_email idn g tbl (fst (run idn g tbl s0 (Init :: ops))) a) <> OFault.
Proof. exact no_null_callback. Qed.
Print Assumptions C06_no_null_callback.

(* eav_init writes every field eav_is_email / eav_errstr read (two differently poisoned objects end up equal) *)
Theorem C06_init_writes_every_field :
  forallb (fun p => Z.eqb (fst (snd p)) (snd (snd p))) GenEnums.g_init = true /\ length GenEnums.g_init = 10%nat.
Proof. split; reflexivity. Qed.
Print Assumptions C06_init_writes_every_field.

(* no allocation is left once eav_free has been called; none is released twice *)
Theorem C06_allocations_balanced :
  forall idn g tbl s o, balanced s -> op_ok s o -> balanced (fst (step idn g tbl s o)).
Proof. exact balanced_step. Qed.
Print Assumptions C06_allocations_balanced.

(* layer A: the three ASCII local-part scanners and the host-name scanner written over a bounds-checked buffer with the
   C code's own index arithmetic (cp[-1], cp[1], cp[2], cp + 2 <= end, start[end - start - 1]).  For every input, every
   mode and whatever follows the end pointer, the access model never reads outside the buffer, never underflows cp[-1],
   never runs out of fuel, and returns exactly the functional model's code.  With buf = s ++ [NUL] (nothing after the end
   pointer but the terminator) this says: no byte before the first one and none after the terminator is read. *)
Theorem C06_local_scanners_access_model :
  forall m s rest, localA m (s ++ rest ++ [NUL]) (length s) = RetA (local m s rest).
Proof. exact localA_refines. Qed.
Print Assumptions C06_local_scanners_access_model.
Theorem C06_domain_scanner_access_model :
  forall us s rest, ascii_domainA us (s ++ rest ++ [NUL]) (length s) = RetA (ascii_domain us s rest).
Proof. exact ascii_domainA_refines. Qed.
Print Assumptions C06_domain_scanner_access_model.
(* the UTF-8 decoder (get / cont with the_index, the_length, the_byte) and is_6531_local (start[prev], start[pos + 1]) over a
   buffer cut off right at the end pointer: for every input and every build option no read at or after start + length,
   none before start, and the functional model's code *)
Theorem C06_utf8_scanner_access_model :
  forall g s, local6531A g s (length s) = RetA (local6531 g s).
Proof. exact local6531A_reads_below_end. Qed.
Print Assumptions C06_utf8_scanner_access_model.
(* is_ipv4 / is_ipv6 / is_ipaddr called on any part of a C string (st = offset of the start pointer, so that the
   recursive call is_ipv4 (cp - len, end) is covered): cp[1], cp++ then *cp, cp - len, cp += strspn (...),
   start[strspn (start, "0.")] and strchr never leave [first byte, terminator]; no underflow; the functional model's answer.
   For is_ipv6 the byte at the end pointer must not be a hexadecimal digit (it is ']' or the terminator in every call the
   library makes), otherwise strspn runs past the end pointer and the functional model, not the access model, is off. *)
Theorem C06_ipv4_access_model :
  forall buf st s rest, skipn st buf = s ++ rest ++ [NUL] ->
  ipv4A buf st (st + length s) = retb (ipv4 s rest).
Proof. exact ipv4A_refines. Qed.
Print Assumptions C06_ipv4_access_model.
Theorem C06_ipv6_access_model :
  forall buf st s rest, skipn st buf = s ++ rest ++ [NUL] ->
  match rest with [] => True | n :: _ => is_hex (code n) = false end ->
  ipv6A buf st (st + length s) = retb (ipv6 s rest).
Proof. exact ipv6A_refines. Qed.
Print Assumptions C06_ipv6_access_model.
Theorem C06_ipaddr_access_model :
  forall buf st s rest, skipn st buf = s ++ rest ++ [NUL] ->
  match rest with [] => True | n :: _ => is_hex (code n) = false end ->
  ipaddrA buf st (st + length s) = retb (ipaddr s rest).
Proof. exact ipaddrA_refines. Qed.
Print Assumptions C06_ipaddr_access_model.

(* is_special_domain with its strchr walks, end[-1], pointer differences, copies into the 64-byte label[] and strncasecmp
   calls: for every NUL-free domain (end = terminator) no strchr result that is used is NULL, no copy exceeds label[],
   no read leaves [first byte, terminator], and the answer is the functional model's *)
Theorem C06_special_domain_access_model :
  forall s, nulfree s -> specialA (s ++ [NUL]) (length s) = retb (special_domain s).
Proof. exact specialA_refines. Qed.
Print Assumptions C06_special_domain_access_model.

(* the whole ASCII-mode validation — basic_email_check, the mode's local-part scanner, *brs, is_ascii_domain, check_tld with
   is_special_domain / strrchr / is_tld over the table of the built library, check_ip with strrchr / strncmp / memchr / is_ipv6 /
   is_ipv4 — as one access model over the caller's C string: for every NUL-free address, every ASCII mode and both settings of
   tld_check it returns the functional model's result code, hence never reads outside [first byte, terminator], never uses a
   NULL strchr/strrchr result, never overflows label[], never exhausts a loop bound *)
Theorem C06_table_names_are_C_strings : rows_ok tld_list.
Proof. apply Forall_forall. intros r Hr. apply nulfreeb_spec. revert r Hr. apply forallb_forall. vm_compute. reflexivity. Qed.
Print Assumptions C06_table_names_are_C_strings.
Theorem C06_email_access_model :
  forall us a idn g m tld, nulfree a -> uscore g = us ->
  emailA tld_list us (a ++ [NUL]) m tld (length a) = RetA (rc (email idn g tld_list (MA m) tld a)).
Proof. intros us a idn g m tld Ha Hus. apply emailA_refines; [exact C06_table_names_are_C_strings|exact Ha|exact Hus]. Qed.
Print Assumptions C06_email_access_model.
(* mode 6531: the composer's own reads (strrchr for '@', the UTF-8 scanner, *brs, check_ip) stay inside the string and give the
   functional model's code; a host-name domain is handed, at the index right after the last '@', to is_utf8_domain — the IDN
   library and a heap copy of its output, which no access model describes (ext) *)
Theorem C06_email6531_access_model :
  forall tbl a idn g tld ext, nulfree a ->
  email6A (a ++ [NUL]) g ext (length a) =
  match split_last AT a with
  | Some (l, d0 :: d') =>
    if Nat.ltb 64 (length l) then RetA E_LPART_TOO_LONG
    else if negb (local6531 g l =? 0)%Z then RetA (local6531 g l)
    else if beqb d0 LBR then RetA (rc (email idn g tbl M6531 tld a))
    else ext (S (length l))
  | _ => RetA (rc (email idn g tbl M6531 tld a))
  end.
Proof. exact email6A_refines. Qed.
Print Assumptions C06_email6531_access_model.

(* look-ahead discipline: whatever lies beyond the end pointer can influence a scanner only through the byte at [end] *)
Theorem C06_local_lookahead :
  forall m l r1 r2, hd_code r1 = hd_code r2 -> local m l r1 = local m l r2.
Proof. exact local_lookahead_one_byte. Qed.
Print Assumptions C06_local_lookahead.
Theorem C06_domain_lookahead :
  forall us d r1 r2, nul_or_dot r1 = nul_or_dot r2 -> ascii_domain us d r1 = ascii_domain us d r2.
Proof. exact ascii_domain_lookahead_one_byte. Qed.
Print Assumptions C06_domain_lookahead.

(* the 64-byte label buffer of is_special_domain only ever receives labels of at most 9 bytes (plus terminator) *)
Theorem C06_label_buffer :
  forall l : list byte, bad_len (length l) = false -> (length l <= 9)%nat.
Proof. exact special_copies_are_short. Qed.
Print Assumptions C06_label_buffer.

Example C06_example : balanced (init_state 0) /\ op_ok (init_state 0) Setup.
Proof. split; reflexivity. Qed.
