(* LocalProofs.v — B <-> S for the three ASCII local-part scanners (C02). *)
From Coq Require Import List NArith ZArith Bool Lia.
From Coq Require Import Strings.Byte.
Require Import Bytes Codes Local LocalSpec.
Import ListNotations.
Local Open Scope N_scope.

Lemma code_DQ : code DQ = 34. Proof. reflexivity. Qed.
Lemma code_BS : code BS = 92. Proof. reflexivity. Qed.
Lemma code_DOT : code DOT = 46. Proof. reflexivity. Qed.
Lemma code_CR : code CR = 13. Proof. reflexivity. Qed.
Lemma code_LF : code LF = 10. Proof. reflexivity. Qed.

Lemma byte_of_code b n x : code b = n -> code x = n -> b = x.
Proof. intros H1 H2. apply code_inj. congruence. Qed.

Lemma is_cntrl_false c : is_cntrl c = false <-> 32 <= c /\ c <> 127.
Proof.
  unfold is_cntrl. rewrite orb_false_iff, N.ltb_ge, N.eqb_neq. tauto.
Qed.
Lemma is_cntrl_true c : is_cntrl c = true <-> c < 32 \/ c = 127.
Proof.
  unfold is_cntrl. rewrite orb_true_iff, N.ltb_lt, N.eqb_eq. tauto.
Qed.
Lemma is_ws_spec c : is_ws c = true <-> c = 10 \/ c = 13 \/ c = 9 \/ c = 32.
Proof. unfold is_ws. rewrite !orb_true_iff, !N.eqb_eq. tauto. Qed.
Lemma is_ws_false c : is_ws c = false <-> c <> 10 /\ c <> 13 /\ c <> 9 /\ c <> 32.
Proof. unfold is_ws. rewrite !orb_false_iff, !N.eqb_neq. tauto. Qed.
Lemma is_lwsp_spec c : is_lwsp c = true <-> c = 9 \/ c = 32.
Proof. unfold is_lwsp. rewrite !orb_true_iff, !N.eqb_eq. tauto. Qed.
Lemma special_32 c : is_special c = false -> c <> 32.
Proof. intros H ->. discriminate H. Qed.
Lemma special_92 c : is_special c = false -> c <> 92.
Proof. intros H ->. discriminate H. Qed.

Lemma nulfree_cons b r : nulfree (b :: r) -> code b <> 0 /\ nulfree r.
Proof. intros H. inversion H; subst. split; assumption. Qed.
Lemma nulfree_app a b : nulfree (a ++ b) <-> nulfree a /\ nulfree b.
Proof. unfold nulfree. apply Forall_app. Qed.

Section M.
Variable m : amode.
Variable rest : list byte.
Notation sc := (scan m rest).

(* ------------------------------------------------------------------ single transitions *)
Lemma scan_atext prev b r : atext b -> sc Out prev (b :: r) = sc Out (Some b) r.
Proof.
  intros (Hr & Hs & H34 & H46). cbn [scan].
  destruct (N.eqb_spec (code b) 0); [lia|].
  destruct (N.ltb_spec 127 (code b)); [lia|].
  assert (is_cntrl (code b) = false) as -> by (apply is_cntrl_false; lia).
  rewrite andb_false_r.
  destruct (N.eqb_spec (code b) 34); [contradiction|].
  destruct (N.eqb_spec (code b) 46); [contradiction|].
  rewrite Hs. reflexivity.
Qed.

Lemma scan_dot p n r : code n <> 46 -> sc Out (Some p) (DOT :: n :: r) = sc Out (Some DOT) (n :: r).
Proof.
  intros Hn. cbn [scan]. rewrite code_DOT. cbn [N.eqb Pos.eqb N.ltb N.compare Pos.compare Pos.compare_cont].
  replace (is_cntrl 46) with false by reflexivity. rewrite andb_false_r.
  destruct (N.eqb_spec (code n) 46); [contradiction|reflexivity].
Qed.

Definition boundary (prev : option byte) := prev = None \/ exists p, prev = Some p /\ code p = 46.

Lemma scan_open prev r : boundary prev -> sc Out prev (DQ :: r) = sc InQ (Some DQ) r.
Proof.
  intros Hb. cbn [scan]. rewrite code_DQ. cbn [N.eqb Pos.eqb N.ltb N.compare Pos.compare Pos.compare_cont].
  replace (is_cntrl 34) with false by reflexivity. rewrite andb_false_r.
  destruct Hb as [-> | (p & -> & Hp)]; [reflexivity|]. rewrite Hp. reflexivity.
Qed.

Lemma scan_close x t :
  sc InQ x (DQ :: t) =
  match t with [] => 0%Z | n :: _ => if code n =? 46 then sc Out (Some DQ) t else E_MQUOTE end.
Proof.
  cbn [scan]. rewrite code_DQ. cbn [N.eqb Pos.eqb N.ltb N.compare Pos.compare Pos.compare_cont].
  replace (is_cntrl 34) with false by reflexivity. rewrite andb_false_r.
  destruct t; reflexivity.
Qed.

Lemma scan_bs x r : sc InQ x (BS :: r) = sc InQP (Some BS) r.
Proof.
  cbn [scan]. rewrite code_BS. cbn [N.eqb Pos.eqb N.ltb N.compare Pos.compare Pos.compare_cont].
  replace (is_cntrl 92) with false by reflexivity. rewrite andb_false_r. reflexivity.
Qed.

Lemma scan_qp x b r : qpairable m b -> sc InQP x (b :: r) = sc InQ (Some b) r.
Proof.
  intros H. cbn [scan].
  destruct m; cbn [qpairable] in H; cbn [ctrl_rejected andb];
    destruct (N.eqb_spec (code b) 0); try lia;
    destruct (N.ltb_spec 127 (code b)); try lia; try reflexivity.
  assert (is_cntrl (code b) = false) as -> by (apply is_cntrl_false; lia). reflexivity.
Qed.

Lemma scan_qtext x b r : qtext m b -> sc InQ x (b :: r) = sc InQ (Some b) r.
Proof.
  intros (H34 & H92 & H). cbn [scan].
  destruct m; cbn [ctrl_rejected andb];
    destruct (N.eqb_spec (code b) 0); try lia;
    destruct (N.ltb_spec 127 (code b)); try lia.
  - destruct (N.eqb_spec (code b) 34); [contradiction|].
    destruct (N.eqb_spec (code b) 92); [contradiction|].
    destruct (N.eqb_spec (code b) 13); [lia|]. reflexivity.
  - assert (is_cntrl (code b) = false) as -> by (apply is_cntrl_false; lia).
    destruct (N.eqb_spec (code b) 34); [contradiction|].
    destruct (N.eqb_spec (code b) 92); [contradiction|]. reflexivity.
  - destruct (N.eqb_spec (code b) 34); [contradiction|].
    destruct (N.eqb_spec (code b) 92); [contradiction|].
    destruct H as (_ & ->). reflexivity.
Qed.

Lemma scan_fold x w r : m = M822 -> is_lwsp (code w) = true ->
  sc InQ x (CR :: LF :: w :: r) = sc InQ (Some w) r.
Proof.
  intros Hm Hw. cbn [scan]. rewrite Hm. cbn [ctrl_rejected andb].
  rewrite code_CR, code_LF. cbn [N.eqb Pos.eqb N.ltb N.compare Pos.compare Pos.compare_cont andb].
  rewrite Hw. reflexivity.
Qed.

Lemma scan_ws p b r t : m = M5322 -> is_ws (code b) = true ->
  is_dq_or_ws (code p) = true \/ is_dq_or_ws (hd_code (r ++ [DQ])) = true ->
  sc InQ (Some p) (b :: r ++ DQ :: t) = sc InQ (Some b) (r ++ DQ :: t).
Proof.
  intros Hm Hw Hc. apply is_ws_spec in Hw as Hw'. cbn [scan]. rewrite Hm. cbn [ctrl_rejected andb].
  destruct (N.eqb_spec (code b) 0); [lia|].
  destruct (N.ltb_spec 127 (code b)); [lia|].
  destruct (N.eqb_spec (code b) 34); [lia|].
  destruct (N.eqb_spec (code b) 92); [lia|].
  rewrite Hw.
  destruct (is_dq_or_ws (code p)) eqn:Ep; [reflexivity|].
  destruct Hc as [Hc|Hc]; [discriminate|].
  destruct r as [|y r']; cbn [app hd_code] in *.
  - rewrite Hc. reflexivity.
  - rewrite Hc. reflexivity.
Qed.

(* ------------------------------------------------------------------ completeness: S -> B *)
Lemma scan_atom a : Forall atext a -> forall prev t,
  a <> [] -> exists p, atext p /\ sc Out prev (a ++ t) = sc Out (Some p) t.
Proof.
  induction 1 as [|b a Hb Ha IH]; intros prev t Hne; [congruence|].
  cbn [app]. rewrite scan_atext by exact Hb.
  destruct a as [|c a'].
  - exists b. split; [exact Hb|reflexivity].
  - apply IH. discriminate.
Qed.

Lemma scan_qb p q : qb m p q -> forall t, exists x, sc InQ (Some p) (q ++ DQ :: t) = sc InQ x (DQ :: t).
Proof.
  induction 1 as [p | p b r Hb Hq IH | p b r Hb Hq IH | p w r Hm Hw Hq IH | p b r Hm Hw Hc Hq IH]; intros t.
  - exists (Some p). reflexivity.
  - cbn [app]. rewrite scan_qtext by exact Hb. apply IH.
  - cbn [app]. rewrite scan_bs. rewrite scan_qp by exact Hb. apply IH.
  - cbn [app]. rewrite scan_fold by assumption. apply IH.
  - cbn [app]. rewrite scan_ws by assumption. apply IH.
Qed.

Lemma words_head l : words m l -> exists n r, l = n :: r /\ code n <> 46.
Proof.
  assert (Hw : forall w, word m w -> forall t, exists n r, w ++ t = n :: r /\ code n <> 46).
  { intros w Hw t. destruct Hw as [a Hne Ha | q Hq].
    - destruct a as [|n a']; [congruence|]. exists n, (a' ++ t). split; [reflexivity|].
      inversion Ha as [|? ? Hn _]; subst. unfold atext in Hn. lia.
    - exists DQ, ((q ++ [DQ]) ++ t). split; [reflexivity|]. rewrite code_DQ. lia. }
  intros H. destruct H as [w Hword | w r Hword _].
  - destruct (Hw w Hword []) as (n & r & E & Hn). rewrite app_nil_r in E. eauto.
  - apply Hw. exact Hword.
Qed.

Theorem complete l : words m l -> forall prev, boundary prev -> sc Out prev l = 0%Z.
Proof.
  induction 1 as [w Hw | w r Hw Hr IH]; intros prev Hb.
  - destruct Hw as [a Hne Ha | q Hq].
    + destruct (scan_atom a Ha prev [] Hne) as (p & _ & E). rewrite app_nil_r in E. rewrite E. reflexivity.
    + rewrite scan_open by exact Hb. destruct (scan_qb DQ q Hq []) as (x & ->).
      rewrite scan_close. reflexivity.
  - assert (Hdot : boundary (Some DOT)) by (right; exists DOT; split; reflexivity).
    destruct (words_head r Hr) as (n & r' & -> & Hn).
    destruct Hw as [a Hne Ha | q Hq].
    + destruct (scan_atom a Ha prev (DOT :: n :: r') Hne) as (p & _ & E). rewrite E.
      rewrite scan_dot by exact Hn. apply IH. exact Hdot.
    + cbn [app]. rewrite scan_open by exact Hb.
      rewrite <- app_assoc. cbn [app].
      destruct (scan_qb DQ q Hq (DOT :: n :: r')) as (x & ->).
      rewrite scan_close. rewrite code_DOT. cbn [N.eqb Pos.eqb].
      rewrite scan_dot by exact Hn. apply IH. exact Hdot.
Qed.

(* ------------------------------------------------------------------ soundness: B -> S *)
Definition tail_ok (t : list byte) := t = [] \/ exists r, t = DOT :: r /\ words m r.
Definition head_not_dot (l : list byte) := match l with [] => True | n :: _ => code n <> 46 end.
Definition boundary' (prev : option byte) (l : list byte) :=
  prev = None \/ (exists p, prev = Some p /\ code p = 46) /\ head_not_dot l.

Definition PA (l : list byte) := forall prev, boundary' prev l -> l <> [] -> nulfree l ->
  sc Out prev l = 0%Z -> words m l.
Definition PB (l : list byte) := forall p, code p <> 46 -> nulfree l ->
  sc Out (Some p) l = 0%Z -> exists a t, l = a ++ t /\ Forall atext a /\ tail_ok t.
Definition PD (l : list byte) := forall p, nulfree l ->
  sc InQ (Some p) l = 0%Z -> exists q t, l = q ++ DQ :: t /\ qb m p q /\ tail_ok t.
Definition PE (l : list byte) := forall p, nulfree l ->
  sc InQP (Some p) l = 0%Z -> exists b q t, l = b :: q ++ DQ :: t /\ qpairable m b /\ qb m b q /\ tail_ok t.

(* an accepted byte met outside quotes is printable *)
Lemma out_printable prev b r : code b <> 0 -> sc Out prev (b :: r) = 0%Z -> 32 <= code b <= 126.
Proof.
  intros H0. cbn [scan].
  destruct (N.eqb_spec (code b) 0); [contradiction|].
  destruct (N.ltb_spec 127 (code b)); [discriminate|].
  assert (ctrl_rejected m Out = true) as -> by (destruct m; reflexivity). cbn [andb].
  destruct (is_cntrl (code b)) eqn:E; [discriminate|]. apply is_cntrl_false in E. lia.
Qed.

Lemma out_step prev b r : 32 <= code b <= 126 ->
  sc Out prev (b :: r) =
    if code b =? 34 then
      match prev with
      | None => sc InQ (Some b) r
      | Some p => if code p =? 46 then sc InQ (Some b) r else E_MQUOTE
      end
    else if code b =? 46 then
      match prev with
      | None => E_MDOT
      | Some _ => match r with
                  | [] => E_MDOT
                  | n :: _ => if code n =? 46 then E_TMD else sc Out (Some b) r
                  end
      end
    else if is_special (code b) then E_SPECIAL
    else sc Out (Some b) r.
Proof.
  intros H. cbn [scan].
  destruct (N.eqb_spec (code b) 0); [lia|].
  destruct (N.ltb_spec 127 (code b)); [lia|].
  assert (is_cntrl (code b) = false) as -> by (apply is_cntrl_false; lia).
  rewrite andb_false_r. reflexivity.
Qed.

Lemma sound_all fuel : forall l, (length l <= fuel)%nat -> PA l /\ PB l /\ PD l /\ PE l.
Proof.
  induction fuel as [|fuel IHn]; intros l Hlen.
  { destruct l; [|cbn in Hlen; lia]. repeat split.
    - intros prev _ Hne; congruence.
    - intros p _ _ _. exists [], []. repeat split; [constructor|left; reflexivity].
    - intros p _ H. discriminate H.
    - intros p _ H. discriminate H. }
  destruct l as [|b r].
  { repeat split.
    - intros prev _ Hne; congruence.
    - intros p _ _ _. exists [], []. repeat split; [constructor|left; reflexivity].
    - intros p _ H. discriminate H.
    - intros p _ H. discriminate H. }
  cbn [length] in Hlen.
  assert (IH : forall l', (length l' <= length r)%nat -> PA l' /\ PB l' /\ PD l' /\ PE l').
  { intros l' Hl'. apply IHn. lia. }
  destruct (IH r (le_n _)) as (IHA & IHB & IHD & IHE).
  repeat split.
  - (* PA *)
    intros prev Hb _ Hn H. destruct (nulfree_cons _ _ Hn) as (H0 & Hnr).
    pose proof (out_printable _ _ _ H0 H) as Hp.
    rewrite out_step in H by exact Hp.
    destruct (N.eqb_spec (code b) 34) as [E34|N34].
    + assert (Hq : sc InQ (Some b) r = 0%Z).
      { destruct Hb as [-> | ((p & -> & Hp46) & _)]; [exact H|]. rewrite Hp46 in H. exact H. }
      destruct (IHD _ Hnr Hq) as (q & t & -> & Hqb & Ht).
      assert (b = DQ) as -> by (apply (byte_of_code _ 34); [exact E34|reflexivity]).
      destruct Ht as [-> | (r' & -> & Hw)].
      * apply ws_one. apply w_quoted. exact Hqb.
      * replace (DQ :: q ++ DQ :: DOT :: r') with ((DQ :: q ++ [DQ]) ++ DOT :: r')
          by (cbn [app]; rewrite <- app_assoc; reflexivity).
        apply ws_more; [apply w_quoted; exact Hqb | exact Hw].
    + destruct (N.eqb_spec (code b) 46) as [E46|N46].
      * exfalso. destruct Hb as [-> | (_ & Hh)]; [discriminate H|]. apply Hh. exact E46.
      * destruct (is_special (code b)) eqn:Hs; [discriminate H|].
        pose proof (special_32 _ Hs) as H32.
        assert (Hab : atext b) by (unfold atext; repeat split; try assumption; lia).
        destruct (IHB b N46 Hnr H) as (a & t & -> & Ha & Ht).
        destruct Ht as [-> | (r' & -> & Hw)].
        -- rewrite app_nil_r. apply ws_one. apply w_atom; [discriminate|]. constructor; assumption.
        -- replace (b :: a ++ DOT :: r') with ((b :: a) ++ DOT :: r') by reflexivity.
           apply ws_more; [|exact Hw]. apply w_atom; [discriminate|]. constructor; assumption.
  - (* PB *)
    intros p Hp46 Hn H. destruct (nulfree_cons _ _ Hn) as (H0 & Hnr).
    pose proof (out_printable _ _ _ H0 H) as Hp.
    rewrite out_step in H by exact Hp.
    destruct (N.eqb_spec (code b) 34) as [E34|N34].
    + destruct (N.eqb_spec (code p) 46) as [Ep|Np]; [contradiction|discriminate H].
    + destruct (N.eqb_spec (code b) 46) as [E46|N46].
      * destruct r as [|n r']; [discriminate H|].
        destruct (N.eqb_spec (code n) 46) as [En|Nn]; [discriminate H|].
        assert (b = DOT) as -> by (apply (byte_of_code _ 46); [exact E46|reflexivity]).
        assert (Hw : words m (n :: r')).
        { apply (IHA (Some DOT)); [right; split; [exists DOT; split; reflexivity|exact Nn] | discriminate | exact Hnr | exact H]. }
        exists [], (DOT :: n :: r'). repeat split; [constructor|]. right. eauto.
      * destruct (is_special (code b)) eqn:Hs; [discriminate H|].
        pose proof (special_32 _ Hs) as H32.
        assert (Hab : atext b) by (unfold atext; repeat split; try assumption; lia).
        destruct (IHB b N46 Hnr H) as (a & t & -> & Ha & Ht).
        exists (b :: a), t. repeat split; [constructor; assumption|exact Ht].
  - (* PD *)
    intros p Hn H. destruct (nulfree_cons _ _ Hn) as (H0 & Hnr).
    cbn [scan] in H.
    destruct (N.eqb_spec (code b) 0) as [Ez|Nz]; [contradiction|].
    destruct (N.ltb_spec 127 (code b)) as [|H127]; [discriminate|].
    destruct (ctrl_rejected m InQ && is_cntrl (code b)) eqn:Ectl; [discriminate|].
    destruct (N.eqb_spec (code b) 34) as [E34|N34].
    { (* closing quote *)
      assert (b = DQ) as -> by (apply (byte_of_code _ 34); [exact E34|reflexivity]).
      exists [], r. repeat split; [constructor|].
      destruct r as [|n r']; [left; reflexivity|].
      destruct (N.eqb_spec (code n) 46) as [En|Nn]; [|discriminate H].
      assert (Hq : code DQ <> 46) by (rewrite code_DQ; lia).
      destruct (IHB DQ Hq Hnr H) as (a & t & E & Ha & Ht).
      destruct a as [|x a'].
      * cbn [app] in E. subst t. exact Ht.
      * exfalso. cbn [app] in E. inversion E; subst x. inversion Ha as [|? ? Hx _]; subst.
        unfold atext in Hx. lia. }
    destruct (N.eqb_spec (code b) 92) as [E92|N92].
    { assert (b = BS) as -> by (apply (byte_of_code _ 92); [exact E92|reflexivity]).
      destruct (IHE _ Hnr H) as (c & q & t & -> & Hc & Hq & Ht).
      exists (BS :: c :: q), t. repeat split; [|exact Ht]. apply qb_pair; assumption. }
    assert (Hm : m = M822 \/ m = M5321 \/ m = M5322) by (destruct m; auto).
    destruct Hm as [Em|[Em|Em]].
    + (* 822 *)
      rewrite Em in H at 1. cbv iota in H.
      destruct (N.eqb_spec (code b) 13) as [E13|N13].
      * assert (b = CR) as -> by (apply (byte_of_code _ 13); [exact E13|reflexivity]).
        destruct r as [|n1 [|n2 r']]; [discriminate H| |].
        { destruct ((code n1 =? 10) && is_lwsp (hd_code rest)); discriminate H. }
        destruct (N.eqb_spec (code n1) 10) as [E10|N10]; [|discriminate H]. cbn [andb] in H.
        destruct (is_lwsp (code n2)) eqn:Ew; [|discriminate H].
        assert (n1 = LF) as -> by (apply (byte_of_code _ 10); [exact E10|reflexivity]).
        assert (Hnr' : nulfree r').
        { apply nulfree_cons in Hnr as (_ & Hnr). apply nulfree_cons in Hnr as (_ & Hnr). exact Hnr. }
        assert (Hl : (length r' <= length (LF :: n2 :: r'))%nat) by (cbn [length]; lia).
        destruct (IH r' Hl) as (_ & _ & IHD' & _).
        destruct (IHD' _ Hnr' H) as (q & t & -> & Hq & Ht).
        exists (CR :: LF :: n2 :: q), t. repeat split; [|exact Ht]. apply qb_fold; auto.
      * destruct (IHD _ Hnr H) as (q & t & -> & Hq & Ht).
        exists (b :: q), t. repeat split; [|exact Ht]. apply qb_text; [|exact Hq].
        unfold qtext. rewrite Em. repeat split; try assumption; lia.
    + (* 5321 *)
      rewrite Em in H at 1. cbv iota in H.
      rewrite Em in Ectl. cbn [ctrl_rejected andb] in Ectl. apply is_cntrl_false in Ectl.
      destruct (IHD _ Hnr H) as (q & t & -> & Hq & Ht).
      exists (b :: q), t. repeat split; [|exact Ht]. apply qb_text; [|exact Hq].
      unfold qtext. rewrite Em. repeat split; try assumption; lia.
    + (* 5322 *)
      rewrite Em in H at 1. cbv iota in H.
      destruct (is_ws (code b)) eqn:Ews.
      * assert (Hcont : sc InQ (Some b) r = 0%Z /\
                  (is_dq_or_ws (code p) = true \/ r = [] \/ is_dq_or_ws (hd_code r) = true)).
        { destruct (is_dq_or_ws (code p)); [split; [exact H|left; reflexivity]|].
          destruct r as [|y r']; [split; [exact H|right; left; reflexivity]|].
          cbn [hd_code]. destruct (is_dq_or_ws (code y)); [split; [exact H|right; right; reflexivity]|discriminate H]. }
        destruct Hcont as (Hc1 & Hc2).
        destruct (IHD _ Hnr Hc1) as (q & t & -> & Hq & Ht).
        exists (b :: q), t. repeat split; [|exact Ht]. apply qb_ws; [exact Em|exact Ews| |exact Hq].
        destruct Hc2 as [Hc2|[Hc2|Hc2]]; [left; exact Hc2| |].
        -- destruct q; discriminate Hc2.
        -- right. destruct q as [|y q']; cbn [app hd_code] in *; exact Hc2.
      * destruct (IHD _ Hnr H) as (q & t & -> & Hq & Ht).
        exists (b :: q), t. repeat split; [|exact Ht]. apply qb_text; [|exact Hq].
        unfold qtext. rewrite Em. repeat split; try assumption; lia.
  - (* PE *)
    intros p Hn H. destruct (nulfree_cons _ _ Hn) as (H0 & Hnr).
    cbn [scan] in H.
    destruct (N.eqb_spec (code b) 0) as [Ez|Nz]; [contradiction|].
    destruct (N.ltb_spec 127 (code b)) as [|H127]; [discriminate|].
    destruct (ctrl_rejected m InQP && is_cntrl (code b)) eqn:Ectl; [discriminate|].
    destruct (IHD _ Hnr H) as (q & t & -> & Hq & Ht).
    exists b, q, t. repeat split; try assumption.
    assert (Hm : m = M822 \/ m = M5321 \/ m = M5322) by (destruct m; auto).
    destruct Hm as [Em|[Em|Em]]; unfold qpairable; rewrite Em; try lia.
    rewrite Em in Ectl. cbn [ctrl_rejected andb] in Ectl. apply is_cntrl_false in Ectl. lia.
Qed.

Theorem local_correct l : nulfree l -> (local m l rest = 0%Z <-> LocalSpec m l).
Proof.
  intros Hn. unfold LocalSpec. split.
  - destruct l as [|b r]; [discriminate|]. cbn [local]. intros H.
    destruct (sound_all (length (b :: r)) (b :: r) (le_n _)) as (HA & _).
    apply (HA None); [left; reflexivity | discriminate | exact Hn | exact H].
  - intros Hw. destruct (words_head l Hw) as (n & r & -> & _). cbn [local].
    apply complete; [exact Hw | left; reflexivity].
Qed.
End M.

(* ------------------------------------------------------------------ consequences of the grammar *)
Lemma qb_ascii m p q : qb m p q -> Forall (fun b => code b <= 127) q.
Proof.
  induction 1 as [p | p b r Hb Hq IH | p b r Hb Hq IH | p w r Hm Hw Hq IH | p b r Hm Hw Hc Hq IH].
  - constructor.
  - constructor; [|exact IH]. destruct Hb as (_ & _ & Hb). destruct m; lia.
  - constructor; [rewrite code_BS; lia|]. constructor; [|exact IH]. destruct m; cbn [qpairable] in Hb; lia.
  - constructor; [rewrite code_CR; lia|]. constructor; [rewrite code_LF; lia|].
    constructor; [|exact IH]. apply is_lwsp_spec in Hw. lia.
  - constructor; [|exact IH]. apply is_ws_spec in Hw. lia.
Qed.

Lemma word_ascii m w : word m w -> Forall (fun b => code b <= 127) w.
Proof.
  intros [a _ Ha | q Hq].
  - eapply Forall_impl; [|exact Ha]. intros b (Hb & _). lia.
  - constructor; [rewrite code_DQ; lia|]. apply Forall_app. split; [eapply qb_ascii; exact Hq|].
    constructor; [rewrite code_DQ; lia|constructor].
Qed.

Lemma spec_ascii m s : LocalSpec m s -> Forall (fun b => code b <= 127) s.
Proof.
  unfold LocalSpec. induction 1 as [w Hw | w r Hw Hr IH].
  - eapply word_ascii; exact Hw.
  - apply Forall_app. split; [eapply word_ascii; exact Hw|].
    constructor; [rewrite code_DOT; lia|exact IH].
Qed.

Lemma word_ends m w : word m w -> w <> [] /\ hd DOT w <> DOT /\ last w DOT <> DOT.
Proof.
  intros [a Hne Ha | q Hq].
  - split; [exact Hne|]. split.
    + destruct a as [|x a]; [congruence|]. cbn [hd]. inversion Ha as [|? ? Hx _]; subst.
      intros ->. destruct Hx as (_ & _ & _ & Hx). apply Hx. reflexivity.
    + assert (Hl : In (last a DOT) a).
      { destruct a as [|x a]; [congruence|]. clear. revert x. induction a as [|y a IH]; intros x.
        - left. reflexivity.
        - right. apply IH. }
      rewrite Forall_forall in Ha. destruct (Ha _ Hl) as (_ & _ & _ & Hx).
      intros E. apply Hx. rewrite E. reflexivity.
  - split; [discriminate|]. split; [cbn [hd]; discriminate|].
    change (DQ :: q ++ [DQ]) with ((DQ :: q) ++ [DQ]). rewrite last_last. discriminate.
Qed.

Lemma last_app_cons {A} (a : list A) x b d : last (a ++ x :: b) d = last (x :: b) d.
Proof.
  induction a as [|y a IH]; [reflexivity|]. cbn [app]. rewrite <- IH.
  destruct (a ++ x :: b) eqn:E; [destruct a; discriminate|reflexivity].
Qed.

Lemma spec_dots m s : LocalSpec m s -> s <> [] /\ hd DOT s <> DOT /\ last s DOT <> DOT.
Proof.
  unfold LocalSpec. induction 1 as [w Hw | w r Hw Hr IH].
  - eapply word_ends; exact Hw.
  - destruct (word_ends m w Hw) as (Hne & Hh & _). destruct IH as (Hrne & _ & Hl).
    split; [destruct w; [congruence|discriminate]|]. split.
    + destruct w; [congruence|exact Hh].
    + rewrite last_app_cons. destruct r as [|y r]; [congruence|]. exact Hl.
Qed.
