(* Local6531Spec.v — layer S for C03: the RFC 5321 local-part grammar extended by RFC 6531:
   a well-formed non-ASCII character is one more atom character and one more quoted-text character. *)
From Coq Require Import List NArith ZArith Bool.
From Coq Require Import Strings.Byte.
Require Import Bytes Codes Local Local6531 LocalSpec Utf8Spec.
Import ListNotations.
Local Open Scope N_scope.

(* r20 = the RFC6531_FOLLOW_RFC20 build option: # ^ ` { | } ~ are then excluded from atoms *)
Definition atext6 (r20 : bool) (b : byte) : Prop := atext b /\ (r20 = true -> is_rfc20 (code b) = false).

Section Spec.
Variable r20 : bool.

Inductive aunit : list byte -> Prop :=
| au_ascii b : atext6 r20 b -> aunit [b]
| au_utf8 e : wf_nonascii e -> aunit e.

Inductive atom6 : list byte -> Prop :=
| a6_one u : aunit u -> atom6 u
| a6_more u r : aunit u -> atom6 r -> atom6 (u ++ r).

Inductive qb6 : list byte -> Prop :=
| q6_nil : qb6 []
| q6_text b r : qtext M5321 b -> qb6 r -> qb6 (b :: r)
| q6_utf8 e r : wf_nonascii e -> qb6 r -> qb6 (e ++ r)
| q6_pair b r : qpairable M5321 b -> qb6 r -> qb6 (BS :: b :: r).

Inductive word6 : list byte -> Prop :=
| w6_atom a : atom6 a -> word6 a
| w6_quoted q : qb6 q -> word6 (DQ :: q ++ [DQ]).

Inductive words6 : list byte -> Prop :=
| ws6_one w : word6 w -> words6 w
| ws6_more w r : word6 w -> words6 r -> words6 (w ++ DOT :: r).
End Spec.

Definition LocalSpec6531 (r20 : bool) (s : list byte) : Prop := words6 r20 s.
