(* Local6531Proofs.v — B <-> S for is_6531_local (default build and RFC6531_FOLLOW_RFC20). *)
From Coq Require Import List NArith ZArith Bool Lia.
From Coq Require Import Strings.Byte.
Require Import Bytes Codes Local Local6531 LocalSpec LocalProofs Utf8Spec Utf8Proofs Local6531Spec.
Import ListNotations.
Local Open Scope N_scope.

Section S6.
Variable g : cfg.
Hypothesis Hf : f5322 g = false.
Notation r20 := (rfc20 g).
Notation sc := (scan6 g).

(* ------------------------------------------------------------------ decoding steps *)
Lemma wf_lead e : wf_nonascii e -> exists a r, e = a :: r /\ 194 <= code a <= 244.
Proof.
  intros [a b H | a b c H | a b c d H]; eexists; eexists; (split; [reflexivity|]).
  - unfold wf2b in H. apply andb_true_iff in H as (H & _). apply rng_spec in H. lia.
  - unfold wf3b in H. rewrite !andb_true_iff, !orb_true_iff, !andb_true_iff, !rng_spec in H. lia.
  - unfold wf4b in H. rewrite !andb_true_iff, !orb_true_iff, !andb_true_iff, !rng_spec in H. lia.
Qed.

Lemma rng_true lo hi b : lo <= code b <= hi -> rng lo hi b = true.
Proof. intros H. apply rng_spec. exact H. Qed.
Lemma rng_false' lo hi b : code b < lo \/ hi < code b -> rng lo hi b = false.
Proof. intros H. apply rng_false. exact H. Qed.

Lemma scan6_utf8_step s prev e r : wf_nonascii e ->
  sc s prev (e ++ r) = if nonascii_blocked s then E_NOT_ASCII
                       else sc s (Some (hd NUL e)) r.
Proof.
  intros [a b H | a b c H | a b c d H]; cbn [app hd scan6].
  - pose proof H as H'. unfold wf2b in H'. apply andb_true_iff in H' as (Ha & _). apply rng_spec in Ha.
    destruct (N.ltb_spec (code a) 128); [lia|].
    assert (L2 : is_lead2 (code a) = true) by (rewrite lead2_range; apply rng_true; lia).
    pose proof (dec2_table a b) as T. rewrite H, L2 in T. rewrite L2, T. reflexivity.
  - pose proof H as H'. unfold wf3b in H'. apply andb_true_iff in H' as (Ha & _).
    rewrite !orb_true_iff, !andb_true_iff, !rng_spec in Ha.
    destruct (N.ltb_spec (code a) 128); [lia|].
    assert (L2 : is_lead2 (code a) = false) by (rewrite lead2_range; apply rng_false'; lia).
    assert (L3 : is_lead3 (code a) = true) by (rewrite lead3_range; apply rng_true; lia).
    pose proof (dec3_table a b c) as T. rewrite H, L3 in T. rewrite L2, L3, T. reflexivity.
  - pose proof H as H'. unfold wf4b in H'. rewrite !andb_true_iff in H'. destruct H' as ((Ha & _) & _).
    rewrite !orb_true_iff, !andb_true_iff, !rng_spec in Ha.
    destruct (N.ltb_spec (code a) 128); [lia|].
    assert (L2 : is_lead2 (code a) = false) by (rewrite lead2_range; apply rng_false'; lia).
    assert (L3 : is_lead3 (code a) = false) by (rewrite lead3_range; apply rng_false'; lia).
    assert (L4 : is_lead4 (code a) = true) by (rewrite lead4_range; apply rng_true; lia).
    pose proof (dec4_table a b c d) as T. rewrite H, L4 in T. rewrite L2, L3, L4, T. reflexivity.
Qed.

Lemma scan6_nonascii_inv s prev b r : 128 <= code b -> sc s prev (b :: r) = 0%Z ->
  exists e r', b :: r = e ++ r' /\ wf_nonascii e /\ nonascii_blocked s = false /\
               sc s (Some b) r' = 0%Z /\ (length r' < length (b :: r))%nat.
Proof.
  intros Hb H. cbn [scan6] in H.
  destruct (N.ltb_spec (code b) 128); [lia|].
  destruct (is_lead2 (code b)) eqn:E2.
  { destruct r as [|c1 r1]; [discriminate|].
    pose proof (dec2_table b c1) as T. rewrite E2 in T. rewrite T in H.
    destruct (wf2b b c1) eqn:W; [|discriminate].
    destruct (nonascii_blocked s); [discriminate|].
    exists [b; c1], r1. repeat split; auto; [constructor; exact W|cbn; lia]. }
  destruct (is_lead3 (code b)) eqn:E3.
  { destruct r as [|c1 [|c2 r2]]; try discriminate.
    pose proof (dec3_table b c1 c2) as T. rewrite E3 in T. rewrite T in H.
    destruct (wf3b b c1 c2) eqn:W; [|discriminate].
    destruct (nonascii_blocked s); [discriminate|].
    exists [b; c1; c2], r2. repeat split; auto; [constructor; exact W|cbn; lia]. }
  destruct (is_lead4 (code b)) eqn:E4; [|discriminate].
  destruct r as [|c1 [|c2 [|c3 r3]]]; try discriminate.
  pose proof (dec4_table b c1 c2 c3) as T. rewrite E4 in T. rewrite T in H.
  destruct (wf4b b c1 c2 c3) eqn:W; [|discriminate].
  destruct (nonascii_blocked s); [discriminate|].
  exists [b; c1; c2; c3], r3. repeat split; auto; [constructor; exact W|cbn; lia].
Qed.

(* ------------------------------------------------------------------ ASCII steps *)
Lemma scan6_ascii s prev b r : code b < 128 ->
  sc s prev (b :: r) =
  if is_cntrl (code b) then E_CTRL else
  match s with
  | Out =>
    if code b =? 34 then
      match prev with
      | None => sc InQ (Some b) r
      | Some p => if code p =? 46 then sc InQ (Some b) r else E_MQUOTE
      end
    else if code b =? 46 then
      match prev with
      | None => E_MDOT
      | Some p => if code p =? 46 then E_TMD else match r with [] => E_MDOT | _ :: _ => sc Out (Some b) r end
      end
    else if is_special (code b) || (r20 && is_rfc20 (code b)) then E_SPECIAL
    else sc Out (Some b) r
  | InQP => sc InQ (Some b) r
  | InQ =>
    if code b =? 34 then
      match r with
      | [] => sc Out (Some b) r
      | n :: _ => if code n =? 46 then sc Out (Some b) r else E_MQUOTE
      end
    else if code b =? 92 then sc InQP (Some b) r
    else sc InQ (Some b) r
  end.
Proof.
  intros H. cbn [scan6]. destruct (N.ltb_spec (code b) 128); [|lia]. rewrite Hf. cbn [negb andb].
  destruct (is_cntrl (code b)); reflexivity.
Qed.

Lemma scan6_atext prev b r : atext6 r20 b -> sc Out prev (b :: r) = sc Out (Some b) r.
Proof.
  intros ((Hr & Hs & H34 & H46) & H20). rewrite scan6_ascii by lia.
  assert (is_cntrl (code b) = false) as -> by (apply is_cntrl_false; lia).
  destruct (N.eqb_spec (code b) 34); [contradiction|].
  destruct (N.eqb_spec (code b) 46); [contradiction|].
  rewrite Hs. cbn [orb]. destruct r20; [rewrite H20 by reflexivity|]; reflexivity.
Qed.

Lemma scan6_dot p n r : code p <> 46 -> sc Out (Some p) (DOT :: n :: r) = sc Out (Some DOT) (n :: r).
Proof.
  intros Hp. rewrite scan6_ascii by (rewrite code_DOT; lia). rewrite code_DOT.
  replace (is_cntrl 46) with false by reflexivity. cbn [N.eqb Pos.eqb].
  destruct (N.eqb_spec (code p) 46); [contradiction|reflexivity].
Qed.

Lemma scan6_open prev r : boundary prev -> sc Out prev (DQ :: r) = sc InQ (Some DQ) r.
Proof.
  intros Hb. rewrite scan6_ascii by (rewrite code_DQ; lia). rewrite code_DQ.
  replace (is_cntrl 34) with false by reflexivity. cbn [N.eqb Pos.eqb].
  destruct Hb as [-> | (p & -> & Hp)]; [reflexivity|]. rewrite Hp. reflexivity.
Qed.

Lemma scan6_close x t :
  sc InQ x (DQ :: t) =
  match t with [] => 0%Z | n :: _ => if code n =? 46 then sc Out (Some DQ) t else E_MQUOTE end.
Proof.
  rewrite scan6_ascii by (rewrite code_DQ; lia). rewrite code_DQ.
  replace (is_cntrl 34) with false by reflexivity. cbn [N.eqb Pos.eqb]. destruct t; reflexivity.
Qed.

(* ------------------------------------------------------------------ completeness *)
Lemma scan6_aunit u : aunit r20 u -> forall prev t, exists p, code p <> 46 /\ sc Out prev (u ++ t) = sc Out (Some p) t.
Proof.
  intros [b Hb | e He] prev t.
  - exists b. split; [destruct Hb as ((_ & _ & _ & H) & _); exact H|]. cbn [app]. apply scan6_atext. exact Hb.
  - destruct (wf_lead e He) as (a & r & -> & Ha). exists a. split; [lia|].
    rewrite scan6_utf8_step by exact He. reflexivity.
Qed.

Lemma scan6_atom a : atom6 r20 a -> forall prev t, exists p, code p <> 46 /\ sc Out prev (a ++ t) = sc Out (Some p) t.
Proof.
  induction 1 as [u Hu | u r Hu Hr IH]; intros prev t.
  - apply scan6_aunit. exact Hu.
  - destruct (scan6_aunit u Hu prev (r ++ t)) as (p & _ & E). rewrite <- app_assoc, E. apply IH.
Qed.

Lemma scan6_qb q : qb6 q -> forall p t, exists x, sc InQ p (q ++ DQ :: t) = sc InQ x (DQ :: t).
Proof.
  induction 1 as [| b r (H34 & H92 & Hb) Hq IH | e r He Hq IH | b r Hb Hq IH]; intros p t.
  - exists p. reflexivity.
  - cbn [app]. rewrite scan6_ascii by lia.
    assert (is_cntrl (code b) = false) as -> by (apply is_cntrl_false; lia).
    destruct (N.eqb_spec (code b) 34); [contradiction|].
    destruct (N.eqb_spec (code b) 92); [contradiction|]. apply IH.
  - rewrite <- app_assoc. rewrite scan6_utf8_step by exact He. cbn [nonascii_blocked]. apply IH.
  - cbn [app]. rewrite scan6_ascii by (rewrite code_BS; lia). rewrite code_BS.
    replace (is_cntrl 92) with false by reflexivity. cbn [N.eqb Pos.eqb].
    cbn [qpairable] in Hb. rewrite scan6_ascii by lia.
    assert (is_cntrl (code b) = false) as -> by (apply is_cntrl_false; lia). apply IH.
Qed.

Lemma aunit_head u : aunit r20 u -> forall t, exists n r, u ++ t = n :: r /\ code n <> 46.
Proof.
  intros [b Hb | e He] t.
  - exists b, t. split; [reflexivity|]. destruct Hb as ((_ & _ & _ & H) & _). exact H.
  - destruct (wf_lead e He) as (a & r & -> & Ha). exists a, (r ++ t). split; [reflexivity|lia].
Qed.
Lemma atom6_head a : atom6 r20 a -> forall t, exists n r, a ++ t = n :: r /\ code n <> 46.
Proof.
  intros [u Hu | u r Hu _] t; [apply aunit_head; exact Hu|].
  rewrite <- app_assoc. apply aunit_head. exact Hu.
Qed.
Lemma words6_head l : words6 r20 l -> exists n r, l = n :: r /\ code n <> 46.
Proof.
  assert (Hw : forall w, word6 r20 w -> forall t, exists n r, w ++ t = n :: r /\ code n <> 46).
  { intros w [a Ha | q Hq] t; [apply atom6_head; exact Ha|].
    exists DQ, ((q ++ [DQ]) ++ t). split; [reflexivity|rewrite code_DQ; lia]. }
  intros [w Hword | w r Hword _].
  - destruct (Hw w Hword []) as (n & r & E & Hn). rewrite app_nil_r in E. eauto.
  - apply Hw. exact Hword.
Qed.

Theorem complete6 l : words6 r20 l -> forall prev, boundary prev -> sc Out prev l = 0%Z.
Proof.
  induction 1 as [w Hw | w r Hw Hr IH]; intros prev Hb.
  - destruct Hw as [a Ha | q Hq].
    + destruct (scan6_atom a Ha prev []) as (p & _ & E). rewrite app_nil_r in E. rewrite E. reflexivity.
    + rewrite scan6_open by exact Hb. destruct (scan6_qb q Hq (Some DQ) []) as (x & ->).
      rewrite scan6_close. reflexivity.
  - assert (Hdot : boundary (Some DOT)) by (right; exists DOT; split; reflexivity).
    destruct (words6_head r Hr) as (n & r' & -> & Hn).
    destruct Hw as [a Ha | q Hq].
    + destruct (scan6_atom a Ha prev (DOT :: n :: r')) as (p & Hp & E). rewrite E.
      rewrite scan6_dot by exact Hp. apply IH. exact Hdot.
    + cbn [app]. rewrite scan6_open by exact Hb. rewrite <- app_assoc. cbn [app].
      destruct (scan6_qb q Hq (Some DQ) (DOT :: n :: r')) as (x & ->).
      rewrite scan6_close. rewrite code_DOT. cbn [N.eqb Pos.eqb].
      rewrite scan6_dot by (rewrite code_DQ; lia). apply IH. exact Hdot.
Qed.

(* ------------------------------------------------------------------ soundness *)
Definition tail6 (t : list byte) := t = [] \/ exists r, t = DOT :: r /\ words6 r20 r.
Definition atoms0 (a : list byte) := a = [] \/ atom6 r20 a.

Definition QA (l : list byte) := forall prev, boundary prev -> l <> [] -> sc Out prev l = 0%Z -> words6 r20 l.
Definition QB (l : list byte) := forall p, code p <> 46 -> sc Out (Some p) l = 0%Z ->
  exists a t, l = a ++ t /\ atoms0 a /\ tail6 t.
Definition QD (l : list byte) := forall p, sc InQ p l = 0%Z -> exists q t, l = q ++ DQ :: t /\ qb6 q /\ tail6 t.
Definition QE (l : list byte) := forall p, sc InQP p l = 0%Z ->
  exists b q t, l = b :: q ++ DQ :: t /\ qpairable M5321 b /\ qb6 q /\ tail6 t.

Lemma atoms0_cons u a : aunit r20 u -> atoms0 a -> atom6 r20 (u ++ a).
Proof. intros Hu [-> | Ha]; [rewrite app_nil_r; apply a6_one; exact Hu|apply a6_more; assumption]. Qed.

Lemma words_of_atom a t : atom6 r20 a -> tail6 t -> words6 r20 (a ++ t).
Proof.
  intros Ha [-> | (r & -> & Hw)].
  - rewrite app_nil_r. apply ws6_one. apply w6_atom. exact Ha.
  - apply ws6_more; [apply w6_atom; exact Ha|exact Hw].
Qed.

Lemma sound6 fuel : forall l, (length l <= fuel)%nat -> QA l /\ QB l /\ QD l /\ QE l.
Proof.
  induction fuel as [|fuel IHn]; intros l Hlen.
  { destruct l; [|cbn in Hlen; lia]. repeat split.
    - intros prev _ Hne; congruence.
    - intros p _ _. exists [], []. repeat split; [left; reflexivity|left; reflexivity].
    - intros p H. discriminate H.
    - intros p H. discriminate H. }
  destruct l as [|b r].
  { repeat split.
    - intros prev _ Hne; congruence.
    - intros p _ _. exists [], []. repeat split; [left; reflexivity|left; reflexivity].
    - intros p H. discriminate H.
    - intros p H. discriminate H. }
  cbn [length] in Hlen.
  assert (IH : forall l', (length l' <= length r)%nat -> QA l' /\ QB l' /\ QD l' /\ QE l').
  { intros l' Hl'. apply IHn. lia. }
  destruct (IH r (le_n _)) as (IHA & IHB & IHD & IHE).
  destruct (N.lt_ge_cases (code b) 128) as [Hasc|Hhigh].
  - (* an ASCII byte *)
    repeat split.
    + (* QA *)
      intros prev Hb _ H. rewrite scan6_ascii in H by exact Hasc.
      destruct (is_cntrl (code b)) eqn:Ec; [discriminate|]. apply is_cntrl_false in Ec.
      destruct (N.eqb_spec (code b) 34) as [E34|N34].
      * assert (Hq : sc InQ (Some b) r = 0%Z).
        { destruct Hb as [-> | (p & -> & Hp46)]; [exact H|]. rewrite Hp46 in H. exact H. }
        destruct (IHD _ Hq) as (q & t & -> & Hqb & Ht).
        assert (b = DQ) as -> by (apply (byte_of_code _ 34); [exact E34|reflexivity]).
        destruct Ht as [-> | (r' & -> & Hw)].
        -- apply ws6_one. apply w6_quoted. exact Hqb.
        -- replace (DQ :: q ++ DQ :: DOT :: r') with ((DQ :: q ++ [DQ]) ++ DOT :: r')
             by (cbn [app]; rewrite <- app_assoc; reflexivity).
           apply ws6_more; [apply w6_quoted; exact Hqb | exact Hw].
      * destruct (N.eqb_spec (code b) 46) as [E46|N46].
        -- exfalso. destruct Hb as [-> | (p & -> & Hp46)]; [discriminate H|]. rewrite Hp46 in H. discriminate H.
        -- destruct (is_special (code b) || (r20 && is_rfc20 (code b))) eqn:Hs; [discriminate H|].
           apply orb_false_iff in Hs as (Hs & H20).
           pose proof (special_32 _ Hs) as H32.
           assert (Hab : atext6 r20 b).
           { split; [unfold atext; repeat split; try assumption; lia|]. intros E. rewrite E in H20. exact H20. }
           destruct (IHB b N46 H) as (a & t & -> & Ha & Ht).
           change (b :: a ++ t) with (([b] ++ a) ++ t). apply words_of_atom; [|exact Ht].
           apply atoms0_cons; [apply au_ascii; exact Hab|exact Ha].
    + (* QB *)
      intros p Hp46 H. rewrite scan6_ascii in H by exact Hasc.
      destruct (is_cntrl (code b)) eqn:Ec; [discriminate|]. apply is_cntrl_false in Ec.
      destruct (N.eqb_spec (code b) 34) as [E34|N34].
      * destruct (N.eqb_spec (code p) 46) as [Ep|Np]; [contradiction|discriminate H].
      * destruct (N.eqb_spec (code b) 46) as [E46|N46].
        -- destruct (N.eqb_spec (code p) 46) as [Ep|Np]; [contradiction|].
           destruct r as [|y r']; [discriminate H|].
           assert (b = DOT) as -> by (apply (byte_of_code _ 46); [exact E46|reflexivity]).
           assert (Hw : words6 r20 (y :: r')).
           { apply (IHA (Some DOT)); [right; exists DOT; split; reflexivity | discriminate | exact H]. }
           exists [], (DOT :: y :: r'). repeat split; [left; reflexivity|]. right. eauto.
        -- destruct (is_special (code b) || (r20 && is_rfc20 (code b))) eqn:Hs; [discriminate H|].
           apply orb_false_iff in Hs as (Hs & H20).
           pose proof (special_32 _ Hs) as H32.
           assert (Hab : atext6 r20 b).
           { split; [unfold atext; repeat split; try assumption; lia|]. intros E. rewrite E in H20. exact H20. }
           destruct (IHB b N46 H) as (a & t & -> & Ha & Ht).
           exists ([b] ++ a), t. repeat split; [|exact Ht]. right. apply atoms0_cons; [apply au_ascii; exact Hab|exact Ha].
    + (* QD *)
      intros p H. rewrite scan6_ascii in H by exact Hasc.
      destruct (is_cntrl (code b)) eqn:Ec; [discriminate|]. apply is_cntrl_false in Ec.
      destruct (N.eqb_spec (code b) 34) as [E34|N34].
      { assert (b = DQ) as -> by (apply (byte_of_code _ 34); [exact E34|reflexivity]).
        exists [], r. repeat split; [constructor|].
        destruct r as [|y r']; [left; reflexivity|].
        destruct (N.eqb_spec (code y) 46) as [En|Nn]; [|discriminate H].
        assert (Hq : code DQ <> 46) by (rewrite code_DQ; lia).
        destruct (IHB DQ Hq H) as (a & t & E & Ha & Ht).
        assert (a = []) as ->.
        { destruct Ha as [->|Ha]; [reflexivity|]. exfalso.
          destruct (atom6_head a Ha t) as (n0 & r0 & E0 & Hn0). rewrite <- E in E0. inversion E0; subst. contradiction. }
        cbn [app] in E. subst t. exact Ht. }
      destruct (N.eqb_spec (code b) 92) as [E92|N92].
      { assert (b = BS) as -> by (apply (byte_of_code _ 92); [exact E92|reflexivity]).
        destruct (IHE _ H) as (c & q & t & -> & Hc & Hq & Ht).
        exists (BS :: c :: q), t. repeat split; [|exact Ht]. apply q6_pair; assumption. }
      destruct (IHD _ H) as (q & t & -> & Hq & Ht).
      exists (b :: q), t. repeat split; [|exact Ht]. apply q6_text; [|exact Hq].
      unfold qtext. repeat split; try assumption; lia.
    + (* QE *)
      intros p H. rewrite scan6_ascii in H by exact Hasc.
      destruct (is_cntrl (code b)) eqn:Ec; [discriminate|]. apply is_cntrl_false in Ec.
      destruct (IHD _ H) as (q & t & -> & Hq & Ht).
      exists b, q, t. repeat split; try assumption; cbn [qpairable]; lia.
  - (* a non-ASCII character *)
    repeat split.
    + intros prev Hb _ H.
      destruct (scan6_nonascii_inv _ _ _ _ Hhigh H) as (e & r' & E & He & _ & H' & Hl).
      assert (Hl' : (length r' <= length r)%nat) by (cbn [length] in Hl; lia).
      destruct (IH r' Hl') as (_ & IHB' & _ & _).
      assert (Hb46 : code b <> 46) by lia.
      destruct (IHB' b Hb46 H') as (a & t & -> & Ha & Ht).
      rewrite E. rewrite app_assoc. apply words_of_atom; [|exact Ht].
      apply atoms0_cons; [apply au_utf8; exact He|exact Ha].
    + intros p Hp H.
      destruct (scan6_nonascii_inv _ _ _ _ Hhigh H) as (e & r' & E & He & _ & H' & Hl).
      assert (Hl' : (length r' <= length r)%nat) by (cbn [length] in Hl; lia).
      destruct (IH r' Hl') as (_ & IHB' & _ & _).
      assert (Hb46 : code b <> 46) by lia.
      destruct (IHB' b Hb46 H') as (a & t & -> & Ha & Ht).
      exists (e ++ a), t. rewrite E, app_assoc. repeat split; [|exact Ht].
      right. apply atoms0_cons; [apply au_utf8; exact He|exact Ha].
    + intros p H.
      destruct (scan6_nonascii_inv _ _ _ _ Hhigh H) as (e & r' & E & He & _ & H' & Hl).
      assert (Hl' : (length r' <= length r)%nat) by (cbn [length] in Hl; lia).
      destruct (IH r' Hl') as (_ & _ & IHD' & _).
      destruct (IHD' _ H') as (q & t & -> & Hq & Ht).
      exists (e ++ q), t. rewrite E, app_assoc. repeat split; [|exact Ht]. apply q6_utf8; assumption.
    + intros p H.
      destruct (scan6_nonascii_inv _ _ _ _ Hhigh H) as (e & r' & E & He & Hblk & _). discriminate Hblk.
Qed.

Theorem local6531_correct l : local6531 g l = 0%Z <-> LocalSpec6531 r20 l.
Proof.
  unfold LocalSpec6531. split.
  - destruct l as [|b r]; [discriminate|]. cbn [local6531]. intros H.
    destruct (sound6 (length (b :: r)) (b :: r) (le_n _)) as (HA & _).
    apply (HA None); [left; reflexivity | discriminate | exact H].
  - intros Hw. destruct (words6_head l Hw) as (n & r & -> & _). cbn [local6531].
    apply complete6; [exact Hw | left; reflexivity].
Qed.
End S6.

(* ------------------------------------------------------------------ consequences *)
Definition all_ascii (s : list byte) : Prop := Forall (fun b => code b < 128) s.

Lemma wf_not_ascii e : wf_nonascii e -> ~ all_ascii e.
Proof.
  intros He Ha. destruct (wf_lead e He) as (a & r & -> & Hr). inversion Ha; subst. lia.
Qed.

Lemma all_ascii_app a b : all_ascii (a ++ b) <-> all_ascii a /\ all_ascii b.
Proof. unfold all_ascii. apply Forall_app. Qed.

(* on pure ASCII the 6531 grammar (default build) is the 5321 grammar *)
Lemma atom6_ascii a : atom6 false a -> all_ascii a -> a <> [] /\ Forall atext a.
Proof.
  induction 1 as [u Hu | u r Hu Hr IH]; intros Ha.
  - destruct Hu as [b (Hb & _) | e He]; [split; [discriminate|constructor; [exact Hb|constructor]]|].
    exfalso. eapply wf_not_ascii; eassumption.
  - apply all_ascii_app in Ha as (Ha1 & Ha2). destruct (IH Ha2) as (_ & IHf).
    destruct Hu as [b (Hb & _) | e He]; [|exfalso; eapply wf_not_ascii; eassumption].
    split; [discriminate|]. constructor; assumption.
Qed.

Lemma qb6_ascii q : qb6 q -> all_ascii q -> forall p, qb M5321 p q.
Proof.
  induction 1 as [| b r Hb Hq IH | e r He Hq IH | b r Hb Hq IH]; intros Ha p.
  - constructor.
  - inversion Ha; subst. apply qb_text; [exact Hb|apply IH; assumption].
  - apply all_ascii_app in Ha as (Ha & _). exfalso. eapply wf_not_ascii; eassumption.
  - inversion Ha as [|? ? _ Ha']; subst. inversion Ha'; subst. apply qb_pair; [exact Hb|apply IH; assumption].
Qed.

Lemma words6_ascii s : words6 false s -> all_ascii s -> words M5321 s.
Proof.
  induction 1 as [w Hw | w r Hw Hr IH]; intros Ha.
  - apply ws_one. destruct Hw as [a Hat | q Hq].
    + destruct (atom6_ascii a Hat Ha) as (Hne & Hf). apply w_atom; assumption.
    + apply w_quoted. apply qb6_ascii; [exact Hq|].
      inversion Ha as [|? ? _ Ha']; subst. apply all_ascii_app in Ha' as (Ha' & _). exact Ha'.
  - apply all_ascii_app in Ha as (Ha1 & Ha2). inversion Ha2 as [|? ? _ Ha3]; subst.
    apply ws_more; [|apply IH; exact Ha3]. destruct Hw as [a Hat | q Hq].
    + destruct (atom6_ascii a Hat Ha1) as (Hne & Hf). apply w_atom; assumption.
    + apply w_quoted. apply qb6_ascii; [exact Hq|].
      inversion Ha1 as [|? ? _ Ha']; subst. apply all_ascii_app in Ha' as (Ha' & _). exact Ha'.
Qed.

Lemma atoms_atom6 a : a <> [] -> Forall atext a -> atom6 false a.
Proof.
  intros Hne Hf. induction Hf as [|b r Hb Hr IH]; [congruence|].
  assert (Hu : aunit false [b]) by (apply au_ascii; split; [exact Hb|discriminate]).
  destruct r as [|c r']; [apply a6_one; exact Hu|].
  change (b :: c :: r') with ([b] ++ c :: r'). apply a6_more; [exact Hu|apply IH; discriminate].
Qed.

Lemma qb_qb6 p q : qb M5321 p q -> qb6 q.
Proof.
  induction 1 as [p | p b r Hb Hq IH | p b r Hb Hq IH | p w r Hm Hw Hq IH | p b r Hm Hw Hc Hq IH];
    try discriminate.
  - constructor.
  - apply q6_text; assumption.
  - apply q6_pair; assumption.
Qed.

Lemma words_words6 s : words M5321 s -> words6 false s.
Proof.
  induction 1 as [w Hw | w r Hw Hr IH].
  - apply ws6_one. destruct Hw as [a Hne Ha | q Hq]; [apply w6_atom; apply atoms_atom6; assumption|].
    apply w6_quoted. eapply qb_qb6; exact Hq.
  - apply ws6_more; [|exact IH]. destruct Hw as [a Hne Ha | q Hq]; [apply w6_atom; apply atoms_atom6; assumption|].
    apply w6_quoted. eapply qb_qb6; exact Hq.
Qed.

Theorem ascii_agrees s rest : all_ascii s -> nulfree s ->
  (local6531 cfg0 s = 0%Z <-> local M5321 s rest = 0%Z).
Proof.
  intros Ha Hn. rewrite (local6531_correct cfg0 eq_refl). rewrite (local_correct M5321 rest s Hn).
  unfold LocalSpec6531, LocalSpec. cbn [rfc20 cfg0]. split; [intros H; apply words6_ascii; assumption|apply words_words6].
Qed.

(* the grammar only derives well-formed UTF-8 *)
Lemma aunit_wf r20 u : aunit r20 u -> forall t, wf_utf8 t -> wf_utf8 (u ++ t).
Proof.
  intros [b ((Hb & _) & _) | e He] t Ht; [apply wfu_ascii; [lia|exact Ht]|apply wfu_multi; assumption].
Qed.
Lemma atom6_wf r20 a : atom6 r20 a -> forall t, wf_utf8 t -> wf_utf8 (a ++ t).
Proof.
  induction 1 as [u Hu | u r Hu Hr IH]; intros t Ht; [eapply aunit_wf; eassumption|].
  rewrite <- app_assoc. eapply aunit_wf; [exact Hu|]. apply IH. exact Ht.
Qed.
Lemma qb6_wf q : qb6 q -> forall t, wf_utf8 t -> wf_utf8 (q ++ t).
Proof.
  induction 1 as [| b r (_ & _ & Hb) Hq IH | e r He Hq IH | b r Hb Hq IH]; intros t Ht.
  - exact Ht.
  - cbn [app]. apply wfu_ascii; [lia|apply IH; exact Ht].
  - rewrite <- app_assoc. apply wfu_multi; [exact He|apply IH; exact Ht].
  - cbn [app]. apply wfu_ascii; [rewrite code_BS; lia|]. cbn [qpairable] in Hb. apply wfu_ascii; [lia|apply IH; exact Ht].
Qed.
Lemma word6_wf r20 w : word6 r20 w -> forall t, wf_utf8 t -> wf_utf8 (w ++ t).
Proof.
  intros [a Ha | q Hq] t Ht; [eapply atom6_wf; eassumption|].
  cbn [app]. apply wfu_ascii; [rewrite code_DQ; lia|]. rewrite <- app_assoc. apply qb6_wf; [exact Hq|].
  cbn [app]. apply wfu_ascii; [rewrite code_DQ; lia|exact Ht].
Qed.
Theorem spec6_wf r20 s : LocalSpec6531 r20 s -> wf_utf8 s.
Proof.
  unfold LocalSpec6531. induction 1 as [w Hw | w r Hw Hr IH].
  - rewrite <- (app_nil_r w). eapply word6_wf; [exact Hw|constructor].
  - eapply word6_wf; [exact Hw|]. apply wfu_ascii; [rewrite code_DOT; lia|exact IH].
Qed.

(* non-ASCII characters next to dots and quotes *)
Theorem dot_X_dot g (Hf : f5322 g = false) e :
  wf_nonascii e -> local6531 g (x61 :: DOT :: e ++ [DOT; x62]) = 0%Z.
Proof.
  intros He. apply (local6531_correct g Hf). unfold LocalSpec6531.
  assert (Hat : forall b, (code b = 97 \/ code b = 98) -> atom6 (rfc20 g) [b]).
  { intros b Hb. apply a6_one. apply au_ascii. split.
    - unfold atext. destruct Hb as [-> | ->]; repeat split; try lia; reflexivity.
    - intros _. destruct Hb as [-> | ->]; reflexivity. }
  change (x61 :: DOT :: e ++ [DOT; x62]) with ([x61] ++ DOT :: (e ++ DOT :: [x62])).
  apply ws6_more; [apply w6_atom; apply Hat; left; reflexivity|].
  apply ws6_more; [apply w6_atom; apply a6_one; apply au_utf8; exact He|].
  apply ws6_one. apply w6_atom. apply Hat. right. reflexivity.
Qed.

Theorem quote_after_atom g (Hf : f5322 g = false) a v :
  atom6 (rfc20 g) a -> local6531 g (a ++ DQ :: v) = E_MQUOTE.
Proof.
  intros Ha. destruct (atom6_head g a Ha (DQ :: v)) as (n & r & E & _).
  unfold local6531. rewrite E. rewrite <- E.
  destruct (scan6_atom g Hf a Ha None (DQ :: v)) as (p & Hp & ->).
  rewrite scan6_ascii by (exact Hf || (rewrite code_DQ; lia)). rewrite code_DQ.
  replace (is_cntrl 34) with false by reflexivity. cbn [N.eqb Pos.eqb].
  destruct (N.eqb_spec (code p) 46); [contradiction|reflexivity].
Qed.

(* the decoder model on one character: success exactly on ASCII bytes and on the RFC 3629 table *)
Theorem utf8_next_strict l :
  utf8_next l <> None <->
  exists e r, l = e ++ r /\ ((exists b, e = [b] /\ code b < 128) \/ wf_nonascii e).
Proof.
  split.
  - destruct l as [|b r]; [cbn; congruence|]. cbn [utf8_next].
    destruct (N.ltb_spec (code b) 128) as [Hlt|Hge].
    { intros _. exists [b], r. split; [reflexivity|]. left. eauto. }
    destruct (is_lead2 (code b)) eqn:E2.
    { destruct r as [|c1 r1]; [congruence|]. pose proof (dec2_table b c1) as T. rewrite E2 in T. rewrite T.
      destruct (wf2b b c1) eqn:W; [|congruence]. intros _. exists [b; c1], r1. split; [reflexivity|right; constructor; exact W]. }
    destruct (is_lead3 (code b)) eqn:E3.
    { destruct r as [|c1 [|c2 r2]]; try congruence. pose proof (dec3_table b c1 c2) as T. rewrite E3 in T. rewrite T.
      destruct (wf3b b c1 c2) eqn:W; [|congruence]. intros _. exists [b; c1; c2], r2. split; [reflexivity|right; constructor; exact W]. }
    destruct (is_lead4 (code b)) eqn:E4; [|congruence].
    destruct r as [|c1 [|c2 [|c3 r3]]]; try congruence. pose proof (dec4_table b c1 c2 c3) as T. rewrite E4 in T. rewrite T.
    destruct (wf4b b c1 c2 c3) eqn:W; [|congruence]. intros _. exists [b; c1; c2; c3], r3. split; [reflexivity|right; constructor; exact W].
  - intros (e & r & -> & [(b & -> & Hb) | He]).
    + cbn [app utf8_next]. destruct (N.ltb_spec (code b) 128); [congruence|lia].
    + destruct He as [a b H | a b c H | a b c d H]; cbn [app utf8_next].
      * pose proof H as H'. unfold wf2b in H'. apply andb_true_iff in H' as (Ha & _). apply rng_spec in Ha.
        destruct (N.ltb_spec (code a) 128); [lia|].
        assert (L2 : is_lead2 (code a) = true) by (rewrite lead2_range; apply rng_spec; lia).
        pose proof (dec2_table a b) as T. rewrite H, L2 in T. rewrite L2, T. congruence.
      * pose proof H as H'. unfold wf3b in H'. apply andb_true_iff in H' as (Ha & _).
        rewrite !orb_true_iff, !andb_true_iff, !rng_spec in Ha.
        destruct (N.ltb_spec (code a) 128); [lia|].
        assert (L2 : is_lead2 (code a) = false) by (rewrite lead2_range; apply rng_false; lia).
        assert (L3 : is_lead3 (code a) = true) by (rewrite lead3_range; apply rng_spec; lia).
        pose proof (dec3_table a b c) as T. rewrite H, L3 in T. rewrite L2, L3, T. congruence.
      * pose proof H as H'. unfold wf4b in H'. rewrite !andb_true_iff in H'. destruct H' as ((Ha & _) & _).
        rewrite !orb_true_iff, !andb_true_iff, !rng_spec in Ha.
        destruct (N.ltb_spec (code a) 128); [lia|].
        assert (L2 : is_lead2 (code a) = false) by (rewrite lead2_range; apply rng_false; lia).
        assert (L3 : is_lead3 (code a) = false) by (rewrite lead3_range; apply rng_false; lia).
        assert (L4 : is_lead4 (code a) = true) by (rewrite lead4_range; apply rng_spec; lia).
        pose proof (dec4_table a b c d) as T. rewrite H, L4 in T. rewrite L2, L3, L4, T. congruence.
Qed.

(* the value delivered for a well-formed character is the scalar value the RFC 3629 table assigns, and exactly the
   character's bytes are consumed; an ASCII byte is delivered as itself *)
Definition scalar_of (e : list byte) : N :=
  match e with
  | [a; b] => scalar2 a b
  | [a; b; c] => scalar3 a b c
  | [a; b; c; d] => scalar4 a b c d
  | _ => 0
  end.

Theorem utf8_next_value e r : wf_nonascii e -> utf8_next (e ++ r) = Some (scalar_of e, r).
Proof.
  intros He. destruct He as [a b H | a b c H | a b c d H]; cbn [app utf8_next scalar_of].
  - pose proof H as H'. unfold wf2b in H'. apply andb_true_iff in H' as (Ha & _). apply rng_spec in Ha.
    destruct (N.ltb_spec (code a) 128); [lia|].
    assert (L2 : is_lead2 (code a) = true) by (rewrite lead2_range; apply rng_spec; lia).
    pose proof (dec2_table a b) as T. rewrite H, L2 in T. rewrite L2, T. reflexivity.
  - pose proof H as H'. unfold wf3b in H'. apply andb_true_iff in H' as (Ha & _).
    rewrite !orb_true_iff, !andb_true_iff, !rng_spec in Ha.
    destruct (N.ltb_spec (code a) 128); [lia|].
    assert (L2 : is_lead2 (code a) = false) by (rewrite lead2_range; apply rng_false; lia).
    assert (L3 : is_lead3 (code a) = true) by (rewrite lead3_range; apply rng_spec; lia).
    pose proof (dec3_table a b c) as T. rewrite H, L3 in T. rewrite L2, L3, T. reflexivity.
  - pose proof H as H'. unfold wf4b in H'. rewrite !andb_true_iff in H'. destruct H' as ((Ha & _) & _).
    rewrite !orb_true_iff, !andb_true_iff, !rng_spec in Ha.
    destruct (N.ltb_spec (code a) 128); [lia|].
    assert (L2 : is_lead2 (code a) = false) by (rewrite lead2_range; apply rng_false; lia).
    assert (L3 : is_lead3 (code a) = false) by (rewrite lead3_range; apply rng_false; lia).
    assert (L4 : is_lead4 (code a) = true) by (rewrite lead4_range; apply rng_spec; lia).
    pose proof (dec4_table a b c d) as T. rewrite H, L4 in T. rewrite L2, L3, L4, T. reflexivity.
Qed.

Lemma utf8_next_ascii b r : code b < 128 -> utf8_next (b :: r) = Some (code b, r).
Proof. intros H. cbn [utf8_next]. destruct (N.ltb_spec (code b) 128); [reflexivity|lia]. Qed.

(* the scalar values are the ones of the Unicode code space minus the surrogates: 128..0x10FFFF *)
Lemma scalar_of_range e : wf_nonascii e -> 128 <= scalar_of e <= 1114111 /\ ~ (55296 <= scalar_of e <= 57343).
Proof.
  intros He. destruct He as [a b H | a b c H | a b c d H]; cbn [scalar_of].
  - unfold wf2b in H. rewrite !andb_true_iff, !rng_spec in H. unfold scalar2. lia.
  - unfold wf3b in H. rewrite !andb_true_iff, !orb_true_iff, !andb_true_iff, !rng_spec in H. unfold scalar3. lia.
  - unfold wf4b in H. rewrite !andb_true_iff, !orb_true_iff, !andb_true_iff, !rng_spec in H. unfold scalar4. lia.
Qed.
