(* Api.v — B model of the façade partial/idn2/eav.c + src/eav.c:
   eav_init / eav_setup / eav_is_email / eav_errstr / eav_free as a state machine. *)
From Coq Require Import List NArith ZArith Bool Arith.
From Coq Require Import Strings.Byte.
Require Import Bytes Codes Local Local6531 Domain Ip Special Email.
Import ListNotations.
Local Open Scope Z_scope.

Inductive msg := MsgTable (code : Z) | MsgIdn (idn_code : Z) | MsgNull.

Record eav := mkeav {
  e_rfc : Z; e_allow : Z; e_tldc : bool;
  e_utf8 : bool; e_errcode : Z; e_idnmsg : option Z; e_init : bool;
  e_utf8_cb : bool; e_ascii_cb : option amode;
  e_result : option result;
  e_live : Z      (* result records currently allocated by this object *)
}.

Inductive op :=
| Init | SetRfc (z : Z) | SetTld (b : bool) | SetMask (z : Z)
| Setup | IsEmail (a : list byte) | ErrStr | Free.

Inductive out :=
| ONone | ORet (z : Z) | OMsg (m : msg)
| OFault      (* NULL callback called *)
| OAbort.     (* abort() in the class switch *)

Definition default_mask : Z := 8 + 16 + 32 + 64 + 128 + 512.

(* the state eav_init leaves; e_live is carried over (eav_init does not release anything) *)
Definition init_state (live : Z) : eav :=
  mkeav EAV_RFC_6531 default_mask true false EEAV_NO_ERROR None false false None None live.

Definition class_bit (k : Z) : Z := Z.shiftl 1 (k + 1).
Definition class_err (k : Z) : Z := EEAV_TLD_INVALID + k.   (* EEAV_TLD_x = EEAV_TLD_INVALID + TLD_TYPE_x *)

Section Api.
Variable idn : list byte -> idn_res.
Variable g : cfg.
Variable tbl : list tld_row.

Definition set_rfc s z := mkeav z (e_allow s) (e_tldc s) (e_utf8 s) (e_errcode s) (e_idnmsg s) (e_init s) (e_utf8_cb s) (e_ascii_cb s) (e_result s) (e_live s).
Definition set_mask s z := mkeav (e_rfc s) z (e_tldc s) (e_utf8 s) (e_errcode s) (e_idnmsg s) (e_init s) (e_utf8_cb s) (e_ascii_cb s) (e_result s) (e_live s).
Definition set_tldc s b := mkeav (e_rfc s) (e_allow s) b (e_utf8 s) (e_errcode s) (e_idnmsg s) (e_init s) (e_utf8_cb s) (e_ascii_cb s) (e_result s) (e_live s).

Definition setup (s : eav) : eav * out :=
  let ascii m := (mkeav (e_rfc s) (e_allow s) (e_tldc s) false (e_errcode s) (e_idnmsg s) false (e_utf8_cb s) (Some m) (e_result s) (e_live s), ORet 0) in
  if e_rfc s =? EAV_RFC_822 then ascii M822
  else if e_rfc s =? EAV_RFC_5321 then ascii M5321
  else if e_rfc s =? EAV_RFC_5322 then ascii M5322
  else if e_rfc s =? EAV_RFC_6531 then
    (mkeav (e_rfc s) (e_allow s) (e_tldc s) true (e_errcode s) (e_idnmsg s) true true (e_ascii_cb s) (e_result s) (e_live s), ORet 0)
  else
    (mkeav (e_rfc s) (e_allow s) (e_tldc s) (e_utf8 s) EEAV_INVALID_RFC (e_idnmsg s) (e_init s) (e_utf8_cb s) (e_ascii_cb s) (e_result s) (e_live s),
     ORet EEAV_INVALID_RFC).

(* the callback that eav_is_email would call, if any *)
Definition callback (s : eav) : option mode :=
  if e_utf8 s then (if e_utf8_cb s then Some M6531 else None)
  else match e_ascii_cb s with Some m => Some (MA m) | None => None end.

(* what eav_is_email does once the callback has produced r (errcode, policy, return value) *)
Definition judge (s : eav) (r : result) : eav * out :=
  let live0 := match e_result s with Some _ => e_live s - 1 | None => e_live s end in
  let fin code im o :=
    (mkeav (e_rfc s) (e_allow s) (e_tldc s) (e_utf8 s) code im (e_init s) (e_utf8_cb s) (e_ascii_cb s) (Some r) (live0 + 1), o) in
  if rc r =? 0 then fin EEAV_NO_ERROR None (ORet 1)
  else if rc r <? 0 then
    let code := - rc r in
    fin code (if code =? EEAV_IDN_ERROR then Some (idn_rc r) else None) (ORet 0)
  else if (1 <=? rc r) && (rc r <=? 9) then
    if negb (Z.land (e_allow s) (class_bit (rc r)) =? 0)
    then fin EEAV_NO_ERROR None (ORet 1)
    else fin (class_err (rc r)) None (ORet 0)
  else fin (e_errcode s) None OAbort.

Definition is_email (s : eav) (a : list byte) : eav * out :=
  match callback s with
  | None => (s, OFault)
  | Some m => judge s (email idn g tbl m (e_tldc s) a)
  end.

Definition errstr (s : eav) : msg :=
  if e_errcode s =? EEAV_IDN_ERROR then
    match e_idnmsg s with Some c => MsgIdn c | None => MsgNull end
  else MsgTable (e_errcode s).

Definition step (s : eav) (o : op) : eav * out :=
  match o with
  | Init => (init_state (e_live s), ONone)
  | SetRfc z => (set_rfc s z, ONone)
  | SetTld b => (set_tldc s b, ONone)
  | SetMask z => (set_mask s z, ONone)
  | Setup => setup s
  | IsEmail a => is_email s a
  | ErrStr => (s, OMsg (errstr s))
  | Free =>
    (mkeav (e_rfc s) (e_allow s) (e_tldc s) (e_utf8 s) (e_errcode s) (e_idnmsg s) (e_init s) (e_utf8_cb s) (e_ascii_cb s) None
           (match e_result s with Some _ => e_live s - 1 | None => e_live s end), ONone)
  end.

Fixpoint run (s : eav) (ops : list op) : eav * list out :=
  match ops with
  | [] => (s, [])
  | o :: r => let '(s1, x) := step s o in let '(s2, xs) := run s1 r in (s2, x :: xs)
  end.
End Api.
