(* DiagProofs.v — C15: which codes each part can return, and what a reported code implies about the input. *)
From Coq Require Import List NArith ZArith Bool Lia.
From Coq Require Import Strings.Byte.
Require Import Bytes Codes Local Local6531 LocalSpec LocalProofs Local6531Spec Local6531Proofs Domain Ip Special Email EmailProofs Api ApiProofs TldProofs.
Import ListNotations.
Local Open Scope Z_scope.

Definition local_codes : list Z := [0; E_NOT_ASCII; E_SPECIAL; E_CTRL; E_MQUOTE; E_UNQUOTED; E_TMD; E_MDOT; E_UFWS; E_FOLD; E_UTF8].

Ltac unfold_codes := cbv [E_EMAIL_EMPTY E_LPART_EMPTY E_LPART_TOO_LONG E_NOT_ASCII E_SPECIAL E_CTRL E_MQUOTE E_UNQUOTED E_TMD E_MDOT E_UFWS E_FOLD E_UTF8 E_DOMAIN_EMPTY E_LABEL_LONG E_HYPHEN E_DELIM E_DCHAR E_DOMAIN_LONG E_NUMERIC E_NOT_FQDN E_IP E_BRACKET E_TLD_INVALID E_IDN In] in *.

Lemma final_in s : In (final s) local_codes.
Proof. destruct s; cbv; auto 12. Qed.

Lemma scan_codes am rest z : forall s p, In (scan am rest s p z) local_codes.
Proof.
  assert (Hfuel : forall n z, (length z <= n)%nat -> forall s p, In (scan am rest s p z) local_codes).
  { induction n as [|n IH]; intros x Hx s p.
    - destruct x; [|cbn in Hx; lia]. apply final_in.
    - destruct x as [|y x]; [apply final_in|]. cbn [length] in Hx. cbn [scan].
      repeat match goal with
             | |- context [if ?c then _ else _] => destruct c
             | |- context [match ?v with _ => _ end] => destruct v
             end; try (apply IH; cbn [length] in *; lia); try apply final_in; cbv; auto 12. }
  intros s p. apply (Hfuel (length z)). lia.
Qed.

Lemma scan6_codes g z : forall s p, In (scan6 g s p z) local_codes.
Proof.
  assert (Hfuel : forall n z, (length z <= n)%nat -> forall s p, In (scan6 g s p z) local_codes).
  { induction n as [|n IH]; intros x Hx s p.
    - destruct x; [|cbn in Hx; lia]. apply final_in.
    - destruct x as [|y x]; [apply final_in|]. cbn [length] in Hx. cbn [scan6].
      repeat match goal with
             | |- context [if ?c then _ else _] => destruct c
             | |- context [match ?v with _ => _ end] => destruct v
             end; try (apply IH; cbn [length] in *; lia); try apply final_in; cbv; auto 12. }
  intros s p. apply (Hfuel (length z)). lia.
Qed.

Lemma local_of_codes g m l rest : In (local_of g m l rest) (E_LPART_EMPTY :: local_codes).
Proof.
  destruct m as [am|]; cbn [local_of]; [unfold local|unfold local6531]; destruct l; try (left; reflexivity); right;
    [apply scan_codes|apply scan6_codes].
Qed.

Definition domain_codes : list Z := [0; E_DOMAIN_EMPTY; E_LABEL_LONG; E_HYPHEN; E_DELIM; E_DCHAR; E_DOMAIN_LONG; E_NUMERIC].
Lemma ascii_domain_codes us d rest : In (ascii_domain us d rest) domain_codes.
Proof.
  unfold ascii_domain. destruct d; [cbv; auto 10|].
  assert (Hd : forall l ll nn aft, In (dscan us ll nn l aft) domain_codes).
  { induction l as [|y l IH]; intros ll nn aft; cbn [dscan]; unfold dfinal.
    - destruct (Nat.eqb ll 0); [cbv; auto 10|]. destruct nn; cbv; auto 10.
    - repeat match goal with |- context [if ?c then _ else _] => destruct c end; try apply IH; cbv; auto 10. }
  repeat match goal with |- context [if ?c then _ else _] => destruct c end; try apply Hd; cbv; auto 10.
Qed.

(* "too many dots" is reported only if the local part contains ".." *)
Lemma scan_tmd am rest z : forall s p, scan am rest s p z = E_TMD -> exists x y, z = x ++ DOT :: DOT :: y.
Proof.
  assert (Hfuel : forall n z, (length z <= n)%nat -> forall s p, scan am rest s p z = E_TMD -> exists x y, z = x ++ DOT :: DOT :: y).
  { induction n as [|n IH]; intros x Hx s p H.
    - destruct x; [|cbn in Hx; lia]. destruct s; discriminate H.
    - destruct x as [|b r]; [destruct s; discriminate H|]. cbn [length] in Hx.
      assert (Hrec : forall s' p' r', (length r' <= n)%nat -> (exists u, b :: r = u ++ r') -> scan am rest s' p' r' = E_TMD ->
                     exists x y, b :: r = x ++ DOT :: DOT :: y).
      { intros s' p' r' Hl (u & Eu) Hs. destruct (IH r' Hl s' p' Hs) as (x1 & y1 & E1). exists (u ++ x1), y1.
        rewrite Eu, E1, app_assoc. reflexivity. }
      cbn [scan] in H.
      destruct (code b =? 0)%N; [destruct s; discriminate H|].
      destruct (127 <? code b)%N; [discriminate H|].
      destruct (ctrl_rejected am s && is_cntrl (code b)); [discriminate H|].
      destruct s.
      + destruct (N.eqb_spec (code b) 34).
        { destruct p as [p|]; [destruct (code p =? 46)%N; [|discriminate H]|];
            (apply (Hrec InQ (Some b) r); [lia|exists [b]; reflexivity|exact H]). }
        destruct (N.eqb_spec (code b) 46) as [E46|].
        { destruct p as [p|]; [|discriminate H]. destruct r as [|y r']; [discriminate H|].
          destruct (N.eqb_spec (code y) 46) as [Ey|].
          - exists [], r'. cbn [app].
            assert (b = DOT) as -> by (apply (byte_of_code _ 46); [exact E46|reflexivity]).
            assert (y = DOT) as -> by (apply (byte_of_code _ 46); [exact Ey|reflexivity]). reflexivity.
          - apply (Hrec Out (Some b) (y :: r')); [cbn [length] in *; lia|exists [b]; reflexivity|exact H]. }
        destruct (is_special (code b)); [discriminate H|].
        apply (Hrec Out (Some b) r); [lia|exists [b]; reflexivity|exact H].
      + destruct (N.eqb_spec (code b) 34).
        { destruct r as [|y r']; [discriminate H|]. destruct (code y =? 46)%N; [|discriminate H].
          apply (Hrec Out (Some b) (y :: r')); [cbn [length] in *; lia|exists [b]; reflexivity|exact H]. }
        destruct (code b =? 92)%N; [apply (Hrec InQP (Some b) r); [lia|exists [b]; reflexivity|exact H]|].
        destruct am.
        * destruct (code b =? 13)%N.
          -- destruct r as [|n1 [|n2 r']]; [discriminate H| |].
             ++ destruct ((code n1 =? 10)%N && is_lwsp (hd_code rest)); discriminate H.
             ++ destruct ((code n1 =? 10)%N && is_lwsp (code n2)); [|discriminate H].
                apply (Hrec InQ (Some n2) r'); [cbn [length] in *; lia|exists [b; n1; n2]; reflexivity|exact H].
          -- apply (Hrec InQ (Some b) r); [lia|exists [b]; reflexivity|exact H].
        * apply (Hrec InQ (Some b) r); [lia|exists [b]; reflexivity|exact H].
        * destruct (is_ws (code b)).
          -- destruct (match p with Some p0 => is_dq_or_ws (code p0) | None => false end);
               [apply (Hrec InQ (Some b) r); [lia|exists [b]; reflexivity|exact H]|].
             destruct r as [|y r']; [apply (Hrec InQ (Some b) []); [cbn; lia|exists [b]; reflexivity|exact H]|].
             destruct (is_dq_or_ws (code y)); [|discriminate H].
             apply (Hrec InQ (Some b) (y :: r')); [cbn [length] in *; lia|exists [b]; reflexivity|exact H].
          -- apply (Hrec InQ (Some b) r); [lia|exists [b]; reflexivity|exact H].
      + apply (Hrec InQ (Some b) r); [lia|exists [b]; reflexivity|exact H]. }
  intros s p. apply (Hfuel (length z)). lia.
Qed.

(* "non-ascii" is reported by the ASCII scanners only if a byte >= 0x80 is present *)
Lemma scan_ascii_never_not_ascii am rest z : Forall (fun b => (code b <= 127)%N) z ->
  forall s p, scan am rest s p z <> E_NOT_ASCII.
Proof.
  assert (Hfuel : forall n z, (length z <= n)%nat -> Forall (fun b => (code b <= 127)%N) z ->
                  forall s p, scan am rest s p z <> E_NOT_ASCII).
  { induction n as [|n IH]; intros x Hx Hall s p.
    - destruct x; [|cbn in Hx; lia]. destruct s; discriminate.
    - destruct x as [|b r]; [destruct s; discriminate|]. cbn [length] in Hx. cbn [scan].
      inversion Hall as [|? ? Hb Hr]; subst.
      destruct (code b =? 0)%N; [destruct s; discriminate|].
      destruct (N.ltb_spec 127 (code b)); [lia|].
      repeat match goal with
             | |- context [if ?c then _ else _] => destruct c
             | |- context [match ?v with _ => _ end] => destruct v
             end; try discriminate;
        (apply IH; [cbn [length] in *; lia|
                    first [assumption |
                           repeat match goal with Hf : Forall _ (_ :: _) |- _ => inversion Hf; clear Hf; subst end;
                           first [assumption | constructor; assumption | constructor]]]). }
  intros Hall s p. apply (Hfuel (length z)); [lia|exact Hall].
Qed.

Lemma scan_not_ascii am rest z s p : scan am rest s p z = E_NOT_ASCII -> Exists (fun b => (127 < code b)%N) z.
Proof.
  intros H.
  assert (Hdec : forall b : byte, {(code b <= 127)%N} + {~ (code b <= 127)%N}).
  { intros b. destruct (code b <=? 127)%N eqn:E; [left; apply N.leb_le; exact E|right; apply N.leb_gt in E; lia]. }
  destruct (Forall_Exists_dec (fun b => (code b <= 127)%N) Hdec z) as [Hall|Hex].
  - exfalso. exact (scan_ascii_never_not_ascii am rest z Hall s p H).
  - eapply Exists_impl; [|exact Hex]. cbv beta. intros b Hb. lia.
Qed.

Section Email.
Variable idn : list byte -> idn_res.
Variable g : cfg.
Variable tbl : list tld_row.

Lemma check_ip_codes d : In (fst (check_ip d)) [0; E_IP; E_BRACKET].
Proof.
  unfold check_ip. repeat match goal with |- context [if ?c then _ else _] => destruct c
                          | |- context [match ?x with _ => _ end] => destruct x end; cbv; auto.
Qed.

Lemma tld_verdict_codes d : table_ok tbl -> let v := tld_verdict tbl d in v = E_NOT_FQDN \/ v = E_TLD_INVALID \/ 1 <= v <= 9.
Proof.
  intros Ht. cbv zeta. unfold tld_verdict. destruct (special_domain d); [right; right; cbv; split; discriminate|].
  destruct (split_last DOT d) as [[p t]|]; [|left; reflexivity].
  destruct (tld_lookup_range tbl t Ht); auto.
Qed.

(* where the result code of a composer comes from *)
Inductive rc_source (m : mode) (t : bool) (a : list byte) (r : Z) : Prop :=
| src_basic : r = E_EMAIL_EMPTY \/ r = E_DOMAIN_EMPTY -> rc_source m t a r
| src_long l d : a = l ++ AT :: d -> ~ In AT d -> (64 < length l)%nat -> r = E_LPART_TOO_LONG -> rc_source m t a r
| src_local l d : a = l ++ AT :: d -> ~ In AT d -> d <> [] -> (length l <= 64)%nat ->
    r = local_of g m l (AT :: d) -> r <> 0 -> rc_source m t a r
| src_literal l d : a = l ++ AT :: d -> ~ In AT d -> (length l <= 64)%nat -> local_of g m l (AT :: d) = 0 ->
    hd NUL d = LBR -> r = fst (check_ip d) -> rc_source m t a r
| src_host_syntax l d am : m = MA am -> a = l ++ AT :: d -> ~ In AT d -> (length l <= 64)%nat -> local am l (AT :: d) = 0 ->
    hd NUL d <> LBR -> r = ascii_domain (uscore g) d [] -> r <> 0 -> rc_source m t a r
| src_host_ok l d am : m = MA am -> a = l ++ AT :: d -> ~ In AT d -> (length l <= 64)%nat -> local am l (AT :: d) = 0 ->
    hd NUL d <> LBR -> ascii_domain (uscore g) d [] = 0 -> r = (if t then tld_verdict tbl d else 0) -> rc_source m t a r
| src_host_utf8 l d : m = M6531 -> a = l ++ AT :: d -> ~ In AT d -> (length l <= 64)%nat -> local6531 g l = 0 ->
    hd NUL d <> LBR -> d <> [] -> r = fst (utf8_domain idn g tbl t d) -> rc_source m t a r.

Theorem email_rc_source m t a : rc_source m t a (rc (email idn g tbl m t a)).
Proof.
  unfold email. destruct a as [|a0 a']; [apply src_basic; left; reflexivity|].
  destruct (split_last AT (a0 :: a')) as [[l d]|] eqn:E; [|apply src_basic; right; reflexivity].
  destruct (split_last_spec _ _ _ _ E) as (Ea & Hat).
  destruct d as [|d0 d']; [apply src_basic; right; reflexivity|].
  destruct (Nat.ltb_spec 64 (length l)) as [Hl|Hl]; [eapply src_long; eauto|].
  destruct (local_of g m l (AT :: d0 :: d') =? 0) eqn:El; cbn [negb].
  2:{ apply Z.eqb_neq in El. eapply src_local; eauto. discriminate. }
  apply Z.eqb_eq in El.
  destruct (beqb d0 LBR) eqn:Eb.
  - apply beqb_eq in Eb. subst d0. rewrite ip_result_rc. eapply src_literal; eauto.
  - assert (Hh : hd NUL (d0 :: d') <> LBR).
    { cbn. intros ->. assert (beqb LBR LBR = true) by (apply beqb_eq; reflexivity). congruence. }
    destruct m as [am|].
    + destruct (ascii_domain (uscore g) (d0 :: d') [] =? 0) eqn:Ed; cbn [negb].
      * apply Z.eqb_eq in Ed. eapply src_host_ok; eauto.
      * apply Z.eqb_neq in Ed. eapply src_host_syntax; eauto.
    + destruct (utf8_domain idn g tbl t (d0 :: d')) as [r ir] eqn:Eu.
      assert (Hr : r = fst (utf8_domain idn g tbl t (d0 :: d'))) by (rewrite Eu; reflexivity).
      destruct (0 <=? r); cbn [rc]; (eapply src_host_utf8; eauto; discriminate).
Qed.

Lemma utf8_domain_codes t d : table_ok tbl ->
  let v := fst (utf8_domain idn g tbl t d) in
  In v (E_IDN :: E_NOT_FQDN :: E_TLD_INVALID :: domain_codes) \/ 1 <= v <= 9.
Proof.
  intros Ht. cbv zeta. unfold utf8_domain. destruct d; [left; cbv; auto 12|].
  destruct (idn (b :: d)) as [a|e buf]; [|left; left; reflexivity].
  pose proof (ascii_domain_codes (uscore g) a []) as X.
  destruct (negb (ascii_domain (uscore g) a [] =? 0)); [left; cbn [fst]; right; right; right; exact X|].
  destruct (negb t); [left; cbn; auto 12|]. cbn [fst].
  destruct (tld_verdict_codes a Ht) as [-> | [-> | H]]; [left; cbv; auto|left; cbv; auto|right; exact H].
Qed.

(* the code a domain half can produce is never a local-part code *)
Definition local_part_codes : list Z :=
  [E_LPART_EMPTY; E_LPART_TOO_LONG; E_NOT_ASCII; E_SPECIAL; E_CTRL; E_MQUOTE; E_UNQUOTED; E_TMD; E_MDOT; E_UFWS; E_FOLD; E_UTF8].

(* C15: a local-part code is reported only if the local part is too long or the local-part scanner
   of the mode returned that very code *)
Theorem local_code_origin m t a : table_ok tbl ->
  let r := rc (email idn g tbl m t a) in In r local_part_codes ->
  exists l d, a = l ++ AT :: d /\ ~ In AT d /\
    ((r = E_LPART_TOO_LONG /\ (64 < length l)%nat) \/ ((length l <= 64)%nat /\ r = local_of g m l (AT :: d) /\ r <> 0)).
Proof.
  intros Ht. cbv zeta. intros Hin.
  destruct (email_rc_source m t a) as [Hb | l d Ea Hat Hl Hr | l d Ea Hat Hne Hl Hr Hnz | l d Ea Hat Hl Hloc Hh Hr
                                      | l d am Em Ea Hat Hl Hloc Hh Hr Hnz | l d am Em Ea Hat Hl Hloc Hh Hd Hr | l d Em Ea Hat Hl Hloc Hh Hne Hr].
  - exfalso. revert Hin Hb. generalize (rc (email idn g tbl m t a)). intros z. unfold local_part_codes. unfold_codes. lia.
  - exists l, d. auto.
  - exists l, d. split; [exact Ea|]. split; [exact Hat|]. right. auto.
  - exfalso. pose proof (check_ip_codes d) as X. rewrite <- Hr in X. revert Hin X.
    generalize (rc (email idn g tbl m t a)). intros z. unfold local_part_codes. unfold_codes. lia.
  - exfalso. pose proof (ascii_domain_codes (uscore g) d []) as X. rewrite <- Hr in X. revert Hin X.
    generalize (rc (email idn g tbl m t a)). intros z. unfold local_part_codes, domain_codes. unfold_codes. lia.
  - exfalso. set (z := rc (email idn g tbl m t a)) in *. clearbody z. destruct t.
    + destruct (tld_verdict_codes d Ht) as [E|[E|E]]; rewrite <- Hr in E; revert Hin E;
        unfold local_part_codes; unfold_codes; lia.
    + revert Hin Hr. unfold local_part_codes. unfold_codes. lia.
  - exfalso. pose proof (utf8_domain_codes t d Ht) as X. cbv zeta in X. rewrite <- Hr in X. revert Hin X.
    generalize (rc (email idn g tbl m t a)). intros z. unfold local_part_codes, domain_codes. unfold_codes. lia.
Qed.

(* "too long" iff more than 64 octets before the last @ *)
Theorem too_long_iff m t l d : table_ok tbl -> ~ In AT d -> d <> [] ->
  (rc (email idn g tbl m t (l ++ AT :: d)) = E_LPART_TOO_LONG <-> (64 < length l)%nat).
Proof.
  intros Ht Hat Hne. split.
  - intros H. destruct (local_code_origin m t (l ++ AT :: d) Ht) as (l2 & d2 & Ea & Hat2 & Hc).
    { cbv zeta. rewrite H. right. left. reflexivity. }
    assert (l2 = l /\ d2 = d) as (-> & ->).
    { pose proof (split_last_app AT l d Hat) as E1. rewrite Ea in E1. rewrite (split_last_app AT l2 d2 Hat2) in E1. inversion E1; auto. }
    destruct Hc as [(_ & Hl) | (Hl & Hr & _)]; [exact Hl|]. exfalso.
    pose proof (local_of_codes g m l (AT :: d)) as X. rewrite <- Hr, H in X. revert X. unfold local_codes. unfold_codes. lia.
  - intros Hl. rewrite email_split by exact Hat. destruct d; [congruence|].
    assert (Nat.ltb 64 (length l) = true) as -> by (apply PeanoNat.Nat.ltb_lt; exact Hl). reflexivity.
Qed.
End Email.

(* "invalid TLD" from the lookup means no row equals the label *)
Theorem tld_invalid_means_unlisted l : l <> [] -> tld_lookup tld_list l = E_TLD_INVALID ->
  forall r, In r tld_list -> ci_eqb (row_name r) l = false.
Proof.
  intros Hl H r Hin. rewrite (lookup_whole_label tld_list l tld_len_ok Hl) in H.
  destruct (find (fun r0 => ci_eqb (row_name r0) l) tld_list) as [x|] eqn:E.
  - exfalso. apply find_some in E as (Hx & _). pose proof tld_types_ok as Ht. rewrite Forall_forall in Ht.
    specialize (Ht x Hx). destruct x as [[n len] t]. cbn [row_type] in H. subst t. unfold E_TLD_INVALID in Ht. lia.
  - exact (find_none _ _ E r Hin).
Qed.
