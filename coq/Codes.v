(* Codes.v — numeric values of the library's enums as the model uses them.
   EnumTie.v proves each equal to the value dumped from the built library (Gen/GenEnums.v). *)
From Coq Require Import ZArith.
Local Open Scope Z_scope.
Definition EEAV_NO_ERROR := 0.
Definition EEAV_INVALID_RFC := 1.
Definition EEAV_IDN_ERROR := 2.
Definition EEAV_EMAIL_EMPTY := 3.
Definition EEAV_LPART_EMPTY := 4.
Definition EEAV_LPART_TOO_LONG := 5.
Definition EEAV_LPART_NOT_ASCII := 6.
Definition EEAV_LPART_SPECIAL := 7.
Definition EEAV_LPART_CTRL_CHAR := 8.
Definition EEAV_LPART_MISPLACED_QUOTE := 9.
Definition EEAV_LPART_UNQUOTED := 10.
Definition EEAV_LPART_TOO_MANY_DOTS := 11.
Definition EEAV_LPART_MISPLACED_DOT := 12.
Definition EEAV_LPART_UNQUOTED_FWS := 13.
Definition EEAV_LPART_INVALID_FOLDING := 14.
Definition EEAV_LPART_INVALID_UTF8 := 15.
Definition EEAV_DOMAIN_EMPTY := 16.
Definition EEAV_DOMAIN_LABEL_TOO_LONG := 17.
Definition EEAV_DOMAIN_MISPLACED_HYPHEN := 18.
Definition EEAV_DOMAIN_MISPLACED_DELIMITER := 19.
Definition EEAV_DOMAIN_INVALID_CHAR := 20.
Definition EEAV_DOMAIN_TOO_LONG := 21.
Definition EEAV_DOMAIN_NUMERIC := 22.
Definition EEAV_DOMAIN_NOT_FQDN := 23.
Definition EEAV_IPADDR_INVALID := 24.
Definition EEAV_IPADDR_BRACKET_UNPAIR := 25.
Definition EEAV_TLD_INVALID := 26.
Definition EEAV_TLD_NOT_ASSIGNED := 27.
Definition EEAV_TLD_COUNTRY_CODE := 28.
Definition EEAV_TLD_GENERIC := 29.
Definition EEAV_TLD_GENERIC_RESTRICTED := 30.
Definition EEAV_TLD_INFRASTRUCTURE := 31.
Definition EEAV_TLD_SPONSORED := 32.
Definition EEAV_TLD_TEST := 33.
Definition EEAV_TLD_SPECIAL := 34.
Definition EEAV_TLD_RETIRED := 35.
Definition EEAV_MAX := 36.
(* negated codes, as returned by the per-part validators *)
Definition E_EMAIL_EMPTY := -3. Definition E_LPART_EMPTY := -4. Definition E_LPART_TOO_LONG := -5.
Definition E_NOT_ASCII := -6. Definition E_SPECIAL := -7. Definition E_CTRL := -8.
Definition E_MQUOTE := -9. Definition E_UNQUOTED := -10. Definition E_TMD := -11.
Definition E_MDOT := -12. Definition E_UFWS := -13. Definition E_FOLD := -14. Definition E_UTF8 := -15.
Definition E_DOMAIN_EMPTY := -16. Definition E_LABEL_LONG := -17. Definition E_HYPHEN := -18.
Definition E_DELIM := -19. Definition E_DCHAR := -20. Definition E_DOMAIN_LONG := -21.
Definition E_NUMERIC := -22. Definition E_NOT_FQDN := -23. Definition E_IP := -24.
Definition E_BRACKET := -25. Definition E_TLD_INVALID := -26. Definition E_IDN := -2.
(* TLD_TYPE_* *)
Definition TLD_TYPE_NOT_ASSIGNED := 1. Definition TLD_TYPE_COUNTRY_CODE := 2.
Definition TLD_TYPE_GENERIC := 3. Definition TLD_TYPE_GENERIC_RESTRICTED := 4.
Definition TLD_TYPE_INFRASTRUCTURE := 5. Definition TLD_TYPE_SPONSORED := 6.
Definition TLD_TYPE_TEST := 7. Definition TLD_TYPE_SPECIAL := 8. Definition TLD_TYPE_RETIRED := 9.
(* EAV_RFC_* *)
Definition EAV_RFC_822 := 0. Definition EAV_RFC_5321 := 1. Definition EAV_RFC_5322 := 2.
Definition EAV_RFC_6531 := 3.
(* limits *)
Definition VALID_HOSTNAME_LEN := 255. Definition VALID_LABEL_LEN := 63. Definition VALID_LPART_LEN := 64.
