(* EmailA.v — layer A for C06: is_tld and the three ASCII e-mail composers (is_822_email, is_5321_email, is_5322_email with the
   macros basic_email_check / check_tld / check_ip of include/eav/private_email.h) over one bounds-checked buffer holding the
   whole C string: strrchr for '@', ']' and '.', the pointer comparisons and differences, *brs, strncmp, memchr, and the calls
   into the scanner access models at their offsets.  The refinement theorem: for every NUL-free address the access model
   returns the functional model's result code (Email.v) — no read outside [first byte, terminator], no NULL result used, no
   label[] overflow, no exhausted loop bound anywhere below an ASCII-mode validation.
   (Mode 6531 hands its host-name domains to libidn2 and a malloc'ed copy: that part is outside the access model; the result
   record itself is heap memory covered by the allocation-balance theorem and the sanitizer runs.) *)
From Coq Require Import List NArith ZArith Bool Arith Lia.
From Coq Require Import Strings.Byte.
Require Import Bytes Codes Local Local6531 Domain Ip Special SpecialProofs Email LocalA Local6531A DomainA IpA StrA SpecialA.
Import ListNotations.
Local Open Scope Z_scope.

Definition bindA (r : resA) (k : Z -> resA) : resA := match r with RetA z => k z | other => other end.

Section A.
Variable tbl : list tld_row.
Variable us : bool.             (* LABELS_ALLOW_UNDERSCORE *)
Variable buf : list byte.
Let rd := LocalA.rd buf.

(* is_tld (buf + i, buf + e) *)
Fixpoint tld_loopA (i : nat) (rows : list tld_row) : resA :=
  match rows with
  | [] => RetA E_TLD_INVALID
  | (n, len, t) :: rows' => strncaseA buf i n len (fun r => if r then RetA t else tld_loopA i rows')
  end.
Definition tldA (i e : nat) : resA := if Nat.eqb i e then RetA E_TLD_INVALID else tld_loopA i tbl.

(* check_tld (): ch = index of '@', e = end *)
Definition check_tldA (tld : bool) (ch e : nat) : resA :=
  if negb tld then RetA 0 else
  bindA (specialA (skipn (S ch) buf) (e - S ch)) (fun sp =>
    if negb (sp =? 0) then RetA TLD_TYPE_SPECIAL else
    strrchrA buf DOT (S ch) (fun r =>
      match r with
      | None => RetA E_NOT_FQDN
      | Some dot => tldA (S dot) e
      end)).

(* check_ip (): brs = index of '[', e = end *)
Definition check_ipA (brs e : nat) : resA :=
  if Nat.leb (e - brs) 8 then RetA E_IP else
  strrchrA buf RBR brs (fun r =>
    match r with
    | None => RetA E_BRACKET
    | Some bre =>
      if negb (Nat.eqb (S bre) e) then RetA E_IP else
      strncmpA buf (S brs) tag_ipv6 5 (fun tagged =>
        if tagged then bindA (ipv6A buf (brs + 6) bre) (fun ok => if ok =? 0 then RetA E_IP else RetA 0)
        else memchrA buf COLON (S brs) (bre - brs - 1) (fun colon =>
          if colon then bindA (ipv6A buf (S brs) bre) (fun ok => if ok =? 0 then RetA E_IP else RetA 0)
          else bindA (ipv4A buf (S brs) bre) (fun ok => if ok =? 0 then RetA E_IP else RetA 0)))
    end).

(* is_<m>_email (buf, length, tld_check): the result code *)
Definition emailA (m : amode) (tld : bool) (len : nat) : resA :=
  if Nat.eqb len 0 then RetA E_EMAIL_EMPTY else
  strrchrA buf AT 0 (fun r =>
    match r with
    | None => RetA E_DOMAIN_EMPTY
    | Some ch =>
      if Nat.eqb (S ch) len then RetA E_DOMAIN_EMPTY else
      if Nat.ltb 64 ch then RetA E_LPART_TOO_LONG else
      bindA (localA m buf ch) (fun rc =>
        if negb (rc =? 0) then RetA rc else
        rd (S ch) (fun b =>                                                     (* *brs != '[' *)
          if negb (beqb b LBR) then
            bindA (ascii_domainA us (skipn (S ch) buf) (len - S ch)) (fun rc2 =>
              if negb (rc2 =? 0) then RetA rc2 else check_tldA tld ch len)
          else check_ipA (S ch) len))
    end).

(* is_6531_email: the same frame with the UTF-8 scanner; a host-name domain is handed to is_utf8_domain, i.e. to the IDN
   library and a heap copy of its output — [ext] stands for that call (index of the first domain byte) *)
Variable g : cfg.
Definition email6A (ext : nat -> resA) (len : nat) : resA :=
  if Nat.eqb len 0 then RetA E_EMAIL_EMPTY else
  strrchrA buf AT 0 (fun r =>
    match r with
    | None => RetA E_DOMAIN_EMPTY
    | Some ch =>
      if Nat.eqb (S ch) len then RetA E_DOMAIN_EMPTY else
      if Nat.ltb 64 ch then RetA E_LPART_TOO_LONG else
      bindA (local6531A g buf ch) (fun rc =>
        if negb (rc =? 0) then RetA rc else
        rd (S ch) (fun b => if negb (beqb b LBR) then ext (S ch) else check_ipA (S ch) len))
    end).
End A.

(* ---------------------------------------------------------------- refinement *)
Lemma strncaseeq_sym : forall n a b, strncaseeq a b n = strncaseeq b a n.
Proof.
  induction n as [|n IH]; intros a b; [destruct a; destruct b; reflexivity|].
  destruct a as [|x a]; destruct b as [|y b]; cbn [strncaseeq]; try reflexivity.
  rewrite (N.eqb_sym (tolower (code x))). rewrite IH. reflexivity.
Qed.

Lemma starts_with_snoc p x : ~ In x p -> forall c, starts_with p (c ++ [x]) = starts_with p c.
Proof.
  induction p as [|y p IH]; intros Hn c; [reflexivity|].
  destruct c as [|z c]; cbn [app starts_with].
  - destruct (beqb y x) eqn:E; [|reflexivity]. apply beqb_eq in E. exfalso. apply Hn. left. exact E.
  - rewrite IH; [reflexivity|]. intros H. apply Hn. right. exact H.
Qed.

Lemma starts_with_len p : forall c, starts_with p c = true -> (length p <= length c)%nat.
Proof.
  induction p as [|y p IH]; intros c H; [cbn; lia|]. destruct c as [|z c]; [discriminate|].
  cbn [starts_with] in H. apply andb_true_iff in H as (_ & H). apply IH in H. cbn [length]. lia.
Qed.

Definition rows_ok (tbl : list tld_row) : Prop := Forall (fun r => nulfree (fst (fst r))) tbl.

Section Refine.
Variable tbl : list tld_row.
Hypothesis Htbl : rows_ok tbl.
Variable us : bool.
Variable a : list byte.
Hypothesis Ha : nulfree a.
Let buf := a ++ [NUL].

(* the bytes from index i on *)
Definition at_ (i : nat) (t : list byte) : Prop := skipn i buf = t ++ [NUL] /\ nulfree t /\ (i + length t = length a)%nat.

Lemma at_0 : at_ 0 a.
Proof. split; [reflexivity|]. split; [exact Ha|reflexivity]. Qed.

Lemma at_split i t p c s' : at_ i t -> t = p ++ c :: s' -> at_ (S (i + length p)) s'.
Proof.
  intros (H1 & H2 & H3) ->. apply nulfree_app in H2 as (_ & H2). destruct (nulfree_cons _ _ H2) as (_ & H2').
  split; [|split; [exact H2'|]].
  - replace (S (i + length p)) with (i + S (length p))%nat by lia. rewrite <- skipn_skipn', H1.
    rewrite <- app_assoc. rewrite skipn_app. replace (S (length p) - length p)%nat with 1%nat by lia.
    rewrite (skipn_all2 (n := S (length p))) by lia. reflexivity.
  - rewrite app_length in H3. cbn [length] in H3. lia.
Qed.

Lemma at_skip i t k : at_ i t -> (k <= length t)%nat -> at_ (i + k) (skipn k t).
Proof.
  intros (H1 & H2 & H3) Hk. split; [|split].
  - rewrite <- skipn_skipn', H1. rewrite skipn_app. replace (k - length t)%nat with 0%nat by lia. reflexivity.
  - rewrite <- (firstn_skipn k t) in H2. apply nulfree_app in H2 as (_ & H2). exact H2.
  - rewrite skipn_length. lia.
Qed.

Lemma tld_loopA_spec i t : at_ i t -> forall rows, rows_ok rows ->
  tld_loopA buf i rows = RetA (match find (fun r => match r with (n, len, _) => strncaseeq n t len end) rows with
                               | Some (_, _, ty) => ty | None => E_TLD_INVALID end).
Proof.
  intros (H1 & H2 & _). induction rows as [|[[n len] ty] rows IH]; intros Hr; [reflexivity|].
  inversion Hr as [|x xs Hn Hrs]; subst. cbn [fst] in Hn.
  cbn [tld_loopA find]. rewrite (strncaseA_spec buf len t n i _ H1 H2 Hn). rewrite strncaseeq_sym.
  destruct (strncaseeq n t len); [reflexivity|]. apply IH. exact Hrs.
Qed.

Lemma tldA_spec i t : at_ i t -> tldA tbl buf i (length a) = RetA (tld_lookup tbl t).
Proof.
  intros Hat. unfold tldA, tld_lookup. destruct Hat as (H1 & H2 & H3).
  destruct (Nat.eqb_spec i (length a)) as [E|E].
  - assert (length t = 0%nat) by lia. destruct t; [reflexivity|discriminate].
  - destruct t as [|b r]; [cbn [length] in H3; lia|]. apply tld_loopA_spec; [|exact Htbl]. split; [exact H1|split; assumption].
Qed.

Lemma special_at i t : at_ i t -> specialA (skipn i buf) (length a - i) = retb (special_domain t).
Proof.
  intros (H1 & H2 & H3). rewrite H1. replace (length a - i)%nat with (length t) by lia. apply specialA_refines. exact H2.
Qed.

Lemma split_last_spec' c l p s : split_last c l = Some (p, s) -> l = p ++ c :: s.
Proof.
  revert p s. induction l as [|b r IH]; intros p s H; [discriminate|]. cbn [split_last] in H.
  destruct (split_last c r) as [[p' s']|] eqn:E.
  - inversion H; subst. rewrite (IH p' s eq_refl). reflexivity.
  - destruct (beqb b c) eqn:Eb; [|discriminate]. inversion H; subst. apply beqb_eq in Eb. subst. reflexivity.
Qed.

Lemma check_tldA_spec tld ch d : at_ (S ch) d ->
  check_tldA tbl buf tld ch (length a) = RetA (if tld then tld_verdict tbl d else 0).
Proof.
  intros Hat. unfold check_tldA, tld_verdict. destruct tld; cbn [negb]; [|reflexivity].
  replace (length a - S ch)%nat with (length a - S ch)%nat by reflexivity.
  rewrite (special_at (S ch) d Hat). unfold retb. cbn [bindA].
  destruct (special_domain d); cbn [negb Z.eqb]; [reflexivity|].
  destruct Hat as (H1 & H2 & H3).
  rewrite (strrchrA_spec buf DOT ltac:(discriminate) d (S ch) _ H1 H2).
  destruct (split_last DOT d) as [[p t]|] eqn:E; [|reflexivity].
  apply (tldA_spec (S (S ch + length p)) t). apply (at_split (S ch) d p DOT t); [split; [exact H1|split; assumption]|].
  apply split_last_spec'. exact E.
Qed.

Lemma ok_code (b : bool) : bindA (retb b) (fun ok => if ok =? 0 then RetA E_IP else RetA 0) = RetA (if b then 0 else E_IP).
Proof. destruct b; reflexivity. Qed.

Lemma check_ipA_spec brs d : at_ brs d -> hd NUL d = LBR ->
  check_ipA buf brs (length a) = RetA (fst (check_ip d)).
Proof.
  intros Hat Hd. unfold check_ipA, check_ip. destruct Hat as (H1 & H2 & H3).
  replace (length a - brs)%nat with (length d) by lia.
  destruct (Nat.leb (length d) 8) eqn:E8; [reflexivity|]. apply Nat.leb_gt in E8.
  rewrite (strrchrA_spec buf RBR ltac:(discriminate) d brs _ H1 H2).
  destruct (split_last RBR d) as [[p after]|] eqn:Es; [|reflexivity].
  pose proof (split_last_spec' _ _ _ _ Es) as Ed.
  assert (Hat2 : at_ (S (brs + length p)) after) by (apply (at_split brs d p RBR after); [split; [exact H1|split; assumption]|exact Ed]).
  destruct Hat2 as (_ & _ & A3).
  destruct after as [|x after'].
  2:{ destruct (Nat.eqb_spec (S (brs + length p)) (length a)) as [E|E]; [cbn [length] in A3; lia|]. reflexivity. }
  destruct (Nat.eqb_spec (S (brs + length p)) (length a)) as [_|E]; [|cbn [length] in A3; lia]. cbn [negb].
  (* p = '[' :: c *)
  destruct p as [|p0 c].
  { subst d. cbn in Hd. discriminate. }
  assert (p0 = LBR) by (subst d; exact Hd). subst p0. cbn [tl].
  assert (Hd2 : d = LBR :: c ++ [RBR]) by (rewrite Ed; reflexivity).
  assert (Hatc : at_ (S brs) (c ++ [RBR])).
  { replace (S brs) with (S (brs + length (@nil byte))) by (cbn [length]; lia). apply (at_split brs d [] LBR (c ++ [RBR])); [split; [exact H1|split; assumption]|exact Hd2]. }
  destruct Hatc as (C1 & C2 & C3).
  change (strncmpA buf (S brs) tag_ipv6 5) with (strncmpA buf (S brs) tag_ipv6 (length tag_ipv6)).
  rewrite (strncmpA_spec buf tag_ipv6 (c ++ [RBR]) (S brs) _ C1 C2) by (apply nulfreeb_spec; reflexivity).
  rewrite starts_with_snoc by (cbn; intros [H|[H|[H|[H|[H|[]]]]]]; discriminate).
  cbn [length] in *.
  destruct (starts_with tag_ipv6 c) eqn:Etag.
  - (* tagged *)
    pose proof (starts_with_len _ _ Etag) as Hl5. cbn [length] in Hl5.
    assert (Hb : skipn (brs + 6) buf = skipn 5 c ++ [RBR] ++ [NUL]).
    { replace (brs + 6)%nat with (S brs + 5)%nat by lia. rewrite <- skipn_skipn', C1. rewrite <- app_assoc.
      rewrite skipn_app. replace (5 - length c)%nat with 0%nat by lia. reflexivity. }
    assert (He : (brs + S (length c) = brs + 6 + length (skipn 5 c))%nat) by (rewrite skipn_length; lia).
    rewrite He. rewrite (ipv6A_refines buf (brs + 6) (skipn 5 c) [RBR] Hb) by reflexivity.
    rewrite ok_code. destruct (ipv6 (skipn 5 c) [RBR]); reflexivity.
  - replace (brs + S (length c) - brs - 1)%nat with (length c) by lia.
    rewrite (memchrA_spec buf COLON (length c) (c ++ [RBR]) (S brs) _ C1) by (rewrite app_length; lia).
    rewrite firstn_app, Nat.sub_diag, firstn_all. cbn [firstn]. rewrite app_nil_r.
    assert (Hb : skipn (S brs) buf = c ++ [RBR] ++ [NUL]) by (rewrite C1, <- app_assoc; reflexivity).
    replace (brs + S (length c))%nat with (S brs + length c)%nat by lia.
    destruct (memb COLON c).
    + rewrite (ipv6A_refines buf (S brs) c [RBR] Hb) by reflexivity. rewrite ok_code. destruct (ipv6 c [RBR]); reflexivity.
    + rewrite (ipv4A_refines buf (S brs) c [RBR] Hb). rewrite ok_code. destruct (ipv4 c [RBR]); reflexivity.
Qed.

End Refine.

Theorem emailA_refines tbl us a idn g0 m tld : rows_ok tbl -> nulfree a -> uscore g0 = us ->
  emailA tbl us (a ++ [NUL]) m tld (length a) = RetA (rc (email idn g0 tbl (MA m) tld a)).
Proof.
  intros Htbl Ha0 Hus. destruct a as [|a0 a']; [reflexivity|].
  unfold email. cbv iota. remember (a0 :: a') as a eqn:Ea.
  assert (E0 : length a <> 0%nat) by (rewrite Ea; discriminate).
  assert (Ha : nulfree a) by exact Ha0. clear Ha0.
  unfold emailA. destruct (Nat.eqb_spec (length a) 0) as [Ez|_]; [contradiction|].
  set (buf := a ++ [NUL]).
  pose proof (at_0 a Ha) as (H1 & H2 & H3). fold buf in H1.
  rewrite (strrchrA_spec buf AT ltac:(discriminate) a 0 _ H1 H2). cbn [Nat.add].
  destruct (split_last AT a) as [[l d]|] eqn:Es; [|reflexivity].
  pose proof (split_last_spec' _ _ _ _ Es) as Ed.
  assert (Hatd : at_ a (S (length l)) d).
  { replace (S (length l)) with (S (0 + length l)) by lia. apply (at_split a 0 a l AT d); [apply at_0; exact Ha|exact Ed]. }
  destruct Hatd as (D1 & D2 & D3). fold buf in D1.
  destruct d as [|d0 d'].
  { destruct (Nat.eqb_spec (S (length l)) (length a)) as [_|E]; [reflexivity|cbn [length] in D3; lia]. }
  destruct (Nat.eqb_spec (S (length l)) (length a)) as [E|_]; [cbn [length] in D3; lia|].
  destruct (Nat.ltb 64 (length l)); [reflexivity|]. cbv zeta. cbn [local_of].
  assert (Hbuf : buf = l ++ (AT :: d0 :: d') ++ [NUL]) by (unfold buf; rewrite Ed, <- app_assoc; reflexivity).
  rewrite Hbuf at 1. rewrite (localA_refines m l (AT :: d0 :: d')). cbn [bindA].
  destruct (local m l (AT :: d0 :: d') =? 0); cbn [negb]; [|reflexivity].
  assert (Hbrs : nth_error buf (S (length l)) = Some d0) by (apply (skipn_nth buf (S (length l)) d0 (d' ++ [NUL])); exact D1).
  unfold LocalA.rd. rewrite Hbrs.
  destruct (beqb d0 LBR) eqn:Eb; cbn [negb].
  - (* address literal *)
    unfold buf. rewrite (check_ipA_spec a (S (length l)) (d0 :: d')); [|split; [exact D1|split; assumption]|apply beqb_eq in Eb; exact Eb].
    unfold ip_result. destruct (check_ip (d0 :: d')) as [r f]. destruct f; reflexivity.
  - rewrite D1. replace (length a - S (length l))%nat with (length (d0 :: d')) by lia.
    pose proof (ascii_domainA_refines us (d0 :: d') []) as Hdom. change (@nil byte ++ [NUL]) with [NUL] in Hdom. rewrite Hdom. cbn [bindA]. rewrite Hus.
    destruct (ascii_domain us (d0 :: d') [] =? 0); cbn [negb]; [|reflexivity].
    unfold buf. rewrite (check_tldA_spec tbl Htbl a tld (length l) (d0 :: d')); [reflexivity|split; [exact D1|split; assumption]].
Qed.

(* mode 6531: up to the call of is_utf8_domain the composer reads only inside the string; with an address-literal domain, or
   when the local part or the frame is rejected, the access model returns the functional model's code without calling out *)
Theorem email6A_refines tbl a idn g0 tld ext : nulfree a ->
  email6A (a ++ [NUL]) g0 ext (length a) =
  match split_last AT a with
  | Some (l, d0 :: d') =>
    if Nat.ltb 64 (length l) then RetA E_LPART_TOO_LONG
    else if negb (local6531 g0 l =? 0) then RetA (local6531 g0 l)
    else if beqb d0 LBR then RetA (rc (email idn g0 tbl M6531 tld a))
    else ext (S (length l))
  | _ => RetA (rc (email idn g0 tbl M6531 tld a))
  end.
Proof.
  intros Ha0. destruct a as [|a0 a']; [reflexivity|].
  unfold email. cbv iota. remember (a0 :: a') as a eqn:Ea.
  assert (E0 : length a <> 0%nat) by (rewrite Ea; discriminate).
  assert (Ha : nulfree a) by exact Ha0. clear Ha0.
  unfold email6A. destruct (Nat.eqb_spec (length a) 0) as [Ez|_]; [contradiction|].
  set (buf := a ++ [NUL]).
  pose proof (at_0 a Ha) as (H1 & H2 & H3). fold buf in H1.
  rewrite (strrchrA_spec buf AT ltac:(discriminate) a 0 _ H1 H2). cbn [Nat.add].
  destruct (split_last AT a) as [[l d]|] eqn:Es; [|reflexivity].
  pose proof (split_last_spec' _ _ _ _ Es) as Ed.
  assert (Hatd : at_ a (S (length l)) d).
  { replace (S (length l)) with (S (0 + length l)) by lia. apply (at_split a 0 a l AT d); [apply at_0; exact Ha|exact Ed]. }
  destruct Hatd as (D1 & D2 & D3). fold buf in D1.
  destruct d as [|d0 d'].
  { destruct (Nat.eqb_spec (S (length l)) (length a)) as [_|E]; [reflexivity|cbn [length] in D3; lia]. }
  destruct (Nat.eqb_spec (S (length l)) (length a)) as [E|_]; [cbn [length] in D3; lia|].
  destruct (Nat.ltb 64 (length l)); [reflexivity|]. cbv zeta. cbn [local_of].
  assert (Hbuf : buf = l ++ (AT :: d0 :: d') ++ [NUL]) by (unfold buf; rewrite Ed, <- app_assoc; reflexivity).
  rewrite Hbuf at 1. rewrite (local6531A_refines g0 l ((AT :: d0 :: d') ++ [NUL])). cbn [bindA].
  destruct (local6531 g0 l =? 0); cbn [negb]; [|reflexivity].
  assert (Hbrs : nth_error buf (S (length l)) = Some d0) by (apply (skipn_nth buf (S (length l)) d0 (d' ++ [NUL])); exact D1).
  unfold LocalA.rd. rewrite Hbrs.
  destruct (beqb d0 LBR) eqn:Eb; cbn [negb]; [|reflexivity].
  unfold buf. rewrite (check_ipA_spec a (S (length l)) (d0 :: d')); [|split; [exact D1|split; assumption]|apply beqb_eq in Eb; exact Eb].
  unfold ip_result. destruct (check_ip (d0 :: d')) as [r f]. destruct f; reflexivity.
Qed.
