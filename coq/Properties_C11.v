(* Properties_C11.v — C11: the generated TLD table is a faithful translation of data/punycode.csv.
   GenTld.v is dumped from the library built from /repo, GenCsv.v is read from /repo/data, on every run;
   gen_row / gen_domain_line model util/gentld.pl and util/gen_utf8_pass_test.pl. *)
From Coq Require Import List NArith ZArith Lia Bool.
From Coq Require Import Strings.Byte.
Require Import Bytes Codes Hex Local Local6531 LocalSpec LocalProofs Utf8Spec Local6531Spec Local6531Proofs Domain DomainSpec DomainProofs Ip Special SpecialProofs Email EmailProofs Api ApiProofs TldProofs GenModel GenProofs EnumTie.
Import ListNotations.
From Coq Require Strings.String.
Import Strings.String.StringSyntax.
Local Open Scope string_scope.

(* row for row, the compiled table is what the generator makes of the CSV: every row is present with the
   documented class ("Not assigned" manager -> not-assigned, "Retired" -> retired, else the IANA type),
   length field strlen+1, and nothing else is present *)
Theorem C11_table_is_generated_from_csv :
  all2 opt_row_eqb (map gen_row punycode_rows) tld_list = true.
Proof. exact table_is_generated. Qed.
Print Assumptions C11_table_is_generated_from_csv.

(* no domain has two classes; entries are lower-case A-labels *)
Theorem C11_table_functional_and_lowercase :
  nodupb (map row_name tld_list) = true /\ forallb row_wf tld_list = true.
Proof. split; [exact tld_names_nodup|exact tld_rows_wf]. Qed.
Print Assumptions C11_table_functional_and_lowercase.

(* a label is found only if it is (case-insensitively) a CSV row *)
Theorem C11_nothing_outside_the_csv :
  forall l, l <> [] -> tld_lookup tld_list l <> E_TLD_INVALID ->
    exists r, In r tld_list /\ ci_eqb (row_name r) l = true /\ tld_lookup tld_list l = row_type r.
Proof.
  intros l Hl H. rewrite (lookup_whole_label tld_list l tld_len_ok Hl) in *.
  destruct (find (fun r => ci_eqb (row_name r) l) tld_list) as [r|] eqn:E; [|congruence].
  exists r. split; [eapply find_some_in; exact E|]. apply find_some in E as (_ & E). split; [exact E|reflexivity].
Qed.
Print Assumptions C11_nothing_outside_the_csv.

(* the second generator: data/tld-domains.txt = "<domain>.<domain>" for every row of data/raw.csv;
   raw.csv and punycode.csv have the same number of rows and of rows of each type; the header's enum order is the generator's *)
Theorem C11_domains_file_and_header :
  all2 opt_line_eqb (map gen_domain_line raw_rows) tld_domains_txt = true /\
  (Nat.eqb (length raw_rows) (length punycode_rows) = true /\
   forallb (fun p => Nat.eqb (count_type (fst p) (map snd raw_rows))
                             (count_type (fst p) (map (fun r => snd (fst r)) punycode_rows))) type_names = true) /\
  GenCsv.header_enum_order = expected_enum_order.
Proof. split; [exact domains_txt_is_generated|split; [exact raw_and_punycode_same_types|exact header_enum_is_generated]]. Qed.
Print Assumptions C11_domains_file_and_header.

Example C11_example : length tld_list = length punycode_rows /\ (1000 < length tld_list)%nat /\
  gen_row (bs "abarth", bs "generic", bs "Not assigned") = Some (bs "abarth", 7%nat, TLD_TYPE_NOT_ASSIGNED).
Proof. repeat split; vm_compute; try reflexivity. apply PeanoNat.Nat.ltb_lt. vm_compute. reflexivity. Qed.
