(* LocalA.v — layer A for C06: the three ASCII local-part scanners re-expressed over a bounds-checked
   buffer with the C code's own index arithmetic (cp[-1], cp[1], cp[2], cp + 1 == end, cp + 2 <= end),
   and the proof that this access model never faults and computes exactly the functional model (Local.v).
   start = index 0, end = index e, buf = the C string including its terminator. *)
From Coq Require Import List NArith ZArith Bool Arith Lia.
From Coq Require Import Strings.Byte.
Require Import Bytes Codes Local.
Import ListNotations.
Local Open Scope N_scope.

Inductive resA :=
| RetA (z : Z)
| FaultA (i : nat)        (* read outside the buffer at index i *)
| UnderA                  (* cp[-1] with cp == start *)
| FuelA
| NullA                   (* a NULL result of strchr / strrchr used as a pointer *)
| OverA (n : nat).        (* n bytes written into a local buffer that is smaller *)

Definition finalA (quote : bool) : resA := RetA (if quote then E_UNQUOTED else 0%Z).

Section A.
Variable m : amode.
Variable buf : list byte.
Variable e : nat.

Definition rd (i : nat) (k : byte -> resA) : resA :=
  match nth_error buf i with Some b => k b | None => FaultA i end.
Definition rd_before (cp : nat) (k : byte -> resA) : resA :=
  match cp with O => UnderA | S c => rd c k end.

Definition is_5321 : bool := match m with M5321 => true | _ => false end.

Fixpoint scanA (fuel cp : nat) (quote qpair : bool) : resA :=
  match fuel with
  | O => FuelA
  | S fuel' =>
    if Nat.leb e cp then finalA quote else              (* for (...; cp < end && ...) *)
    rd cp (fun b =>
      let ch := code b in
      if ch =? 0 then finalA quote else                  (* ... (ch = *cp) != 0 *)
      if 127 <? ch then RetA E_NOT_ASCII else
      if is_5321 && is_cntrl ch then RetA E_CTRL else    (* 5321: ISCNTRL before anything else *)
      let next := scanA fuel' (S cp) in
      if negb quote then
        if negb is_5321 && negb qpair && is_cntrl ch then RetA E_CTRL else
        if ch =? 34 then
          if Nat.eqb cp 0 then next true qpair
          else rd_before cp (fun p => if code p =? 46 then next true qpair else RetA E_MQUOTE)
        else if ch =? 46 then
          if Nat.eqb cp 0 || Nat.eqb (S cp) e then RetA E_MDOT
          else if Nat.ltb (S cp) e
               then rd (S cp) (fun n => if code n =? 46 then RetA E_TMD else next quote qpair)
               else next quote qpair
        else if is_special ch then RetA E_SPECIAL
        else next quote qpair
      else if qpair then next quote false
      else
        if ch =? 34 then
          if Nat.ltb (S cp) e
          then rd (S cp) (fun n => if code n =? 46 then next false qpair else RetA E_MQUOTE)
          else next false qpair
        else if ch =? 92 then next quote true
        else match m with
             | M5321 => next quote qpair
             | M822 =>
               if ch =? 13 then
                 if Nat.leb (S (S cp)) e
                 then rd (S cp) (fun n1 =>
                        if code n1 =? 10
                        then rd (S (S cp)) (fun n2 =>
                               if is_lwsp (code n2) then scanA fuel' (S (S (S cp))) quote qpair else RetA E_FOLD)
                        else RetA E_FOLD)
                 else RetA E_FOLD
               else next quote qpair
             | M5322 =>
               if is_ws ch then
                 rd_before cp (fun p =>
                   if is_dq_or_ws (code p) then next quote qpair
                   else if Nat.leb (e - 1) cp then next quote qpair
                   else rd (S cp) (fun n => if is_dq_or_ws (code n) then next quote qpair else RetA E_UFWS))
               else next quote qpair
             end)
  end.

Definition localA : resA :=
  if Nat.eqb e 0 then RetA E_LPART_EMPTY else scanA (S e) 0 false false.
End A.

(* ---------------------------------------------------------------- refinement *)
Definition st_of (quote qpair : bool) : st := if quote then (if qpair then InQP else InQ) else Out.

Section Refine.
Variable m : amode.
Variable s rest : list byte.
Let buf := s ++ rest ++ [NUL].
Let e := length s.

Lemma load_in i : (i < e)%nat -> nth_error buf i = nth_error s i.
Proof. intros H. unfold buf. apply nth_error_app1. exact H. Qed.

Lemma load_end : exists b, nth_error buf e = Some b /\ code b = hd_code rest.
Proof.
  unfold buf, e. rewrite nth_error_app2 by lia. rewrite Nat.sub_diag.
  destruct rest as [|r0 rr]; cbn; eauto.
Qed.

Lemma skipn_cons (l : list byte) i b : nth_error l i = Some b -> skipn i l = b :: skipn (S i) l.
Proof.
  revert i. induction l as [|x l IH]; intros i H; [destruct i; discriminate|].
  destruct i; [inversion H; reflexivity|]. cbn in H. cbn [skipn]. apply IH. exact H.
Qed.

Definition prev_of (cp : nat) : option byte := match cp with O => None | S c => nth_error s c end.

Lemma nth_some i : (i < e)%nat -> exists b, nth_error s i = Some b.
Proof. intros H. destruct (nth_error s i) eqn:E; [eauto|]. apply nth_error_None in E. unfold e in H. lia. Qed.

Theorem scanA_refines : forall fuel cp quote qpair, (e - cp < fuel)%nat ->
  (quote = false -> qpair = false) -> (quote = true -> (0 < cp)%nat) ->
  scanA m buf e fuel cp quote qpair = RetA (scan m rest (st_of quote qpair) (prev_of cp) (skipn cp s)).
Proof.
  induction fuel as [|fuel IH]; intros cp quote qpair Hf Hq Hpos; [lia|].
  cbn [scanA]. destruct (Nat.leb_spec e cp) as [Hge|Hlt].
  { rewrite skipn_all2 by (unfold e in Hge; lia). cbn [scan]. unfold finalA, st_of, final. destruct quote, qpair; reflexivity. }
  destruct (nth_some cp Hlt) as (b & Eb). unfold rd. rewrite load_in by exact Hlt. rewrite Eb.
  rewrite (skipn_cons s cp b Eb). cbn [scan].
  assert (Hnext : forall q qp, (q = false -> qp = false) ->
            scanA m buf e fuel (S cp) q qp = RetA (scan m rest (st_of q qp) (Some b) (skipn (S cp) s))).
  { intros q qp Hq'. rewrite IH by (lia || exact Hq' || (intros _; lia)). cbn [prev_of]. rewrite Eb. reflexivity. }
  destruct (N.eqb_spec (code b) 0) as [Ez|Nz]. { unfold finalA, st_of, final. destruct quote, qpair; reflexivity. }
  destruct (N.ltb_spec 127 (code b)) as [H127|H127]; [reflexivity|].
  assert (Hn1 : (S cp < e)%nat -> exists y, nth_error buf (S cp) = Some y /\ skipn (S cp) s = y :: skipn (S (S cp)) s).
  { intros Hx. destruct (nth_some (S cp) Hx) as (y & Ey). exists y. split; [rewrite load_in by exact Hx; exact Ey|apply skipn_cons; exact Ey]. }
  assert (Hn0 : ~ (S cp < e)%nat -> skipn (S cp) s = []).
  { intros Hx. apply skipn_all2. unfold e in Hx. lia. }
  assert (Hctl : forall st0, (is_5321 m && is_cntrl (code b)) = true -> (ctrl_rejected m st0 && is_cntrl (code b)) = true).
  { intros st0. unfold is_5321, ctrl_rejected. destruct m; cbn [andb]; try discriminate. auto. }
  destruct (is_5321 m && is_cntrl (code b)) eqn:E5.
  { rewrite (Hctl _ eq_refl). reflexivity. }
  destruct quote.
  - (* inside quotes *)
    specialize (Hpos eq_refl). cbn [negb]. destruct qpair.
    + cbn [st_of]. assert (ctrl_rejected m InQP && is_cntrl (code b) = false) as ->.
      { unfold is_5321, ctrl_rejected in *. destruct m; cbn [andb] in *; auto. }
      apply (Hnext true false). discriminate.
    + cbn [st_of]. assert (ctrl_rejected m InQ && is_cntrl (code b) = false) as ->.
      { unfold is_5321, ctrl_rejected in *. destruct m; cbn [andb] in *; auto. }
      destruct (N.eqb_spec (code b) 34).
      * destruct (Nat.ltb_spec (S cp) e) as [H1|H1].
        -- destruct (Hn1 H1) as (y & Ey & Es). rewrite Ey, Es. destruct (code y =? 46); [|reflexivity].
           rewrite <- Es. apply (Hnext false false). reflexivity.
        -- rewrite (Hn0 ltac:(lia)). rewrite <- (Hn0 ltac:(lia)). apply (Hnext false false). reflexivity.
      * destruct (N.eqb_spec (code b) 92); [apply (Hnext true true); discriminate|].
        destruct m.
        -- (* 822 *)
           destruct (N.eqb_spec (code b) 13); [|apply (Hnext true false); discriminate].
           destruct (Nat.leb_spec (S (S cp)) e) as [H2|H2].
           ++ assert (H1 : (S cp < e)%nat) by lia. destruct (Hn1 H1) as (y & Ey & Es). rewrite Ey, Es.
              destruct (N.eqb_spec (code y) 10); cbn [andb].
              ** destruct (Nat.ltb_spec (S (S cp)) e) as [H3|H3].
                 --- destruct (nth_some (S (S cp)) H3) as (z & Ez). rewrite load_in by exact H3. rewrite Ez.
                     rewrite (skipn_cons s (S (S cp)) z Ez).
                     destruct (is_lwsp (code z)); [|reflexivity].
                     rewrite IH by (lia || discriminate || (intros _; lia)). cbn [prev_of st_of]. rewrite Ez. reflexivity.
                 --- assert (S (S cp) = e) as E2 by lia. rewrite E2. destruct load_end as (z & Ez & Hz). rewrite Ez.
                     rewrite (skipn_all2 (n := e)) by (unfold e; lia). rewrite Hz.
                     destruct (is_lwsp (hd_code rest)); [|reflexivity].
                     rewrite IH by (lia || discriminate || (intros _; lia)). rewrite skipn_all2 by (unfold e in *; lia). reflexivity.
              ** destruct (skipn (S (S cp)) s) as [|z zs]; [|destruct (is_lwsp (code z))]; reflexivity.
           ++ rewrite (Hn0 ltac:(lia)). reflexivity.
        -- apply (Hnext true false). discriminate.
        -- (* 5322 *)
           destruct (is_ws (code b)); [|apply (Hnext true false); discriminate].
           destruct cp as [|c]; [lia|]. cbn [rd_before prev_of]. unfold rd.
           assert (Hc : (c < e)%nat) by lia. destruct (nth_some c Hc) as (p & Ep). rewrite load_in by exact Hc. rewrite Ep.
           destruct (is_dq_or_ws (code p)); [apply (Hnext true false); discriminate|].
           destruct (Nat.leb_spec (e - 1) (S c)) as [H1|H1].
           ++ rewrite (Hn0 ltac:(lia)). rewrite <- (Hn0 ltac:(lia)). apply (Hnext true false). discriminate.
           ++ assert (H2 : (S (S c) < e)%nat) by lia. destruct (Hn1 H2) as (y & Ey & Es). rewrite Ey, Es.
              destruct (is_dq_or_ws (code y)); [|reflexivity]. rewrite <- Es. apply (Hnext true false). discriminate.
  - (* outside quotes *)
    rewrite (Hq eq_refl). cbn [negb st_of andb].
    assert (ctrl_rejected m Out = true) as -> by (destruct m; reflexivity). cbn [andb].
    assert (Hc2 : (negb (is_5321 m) && is_cntrl (code b)) = is_cntrl (code b)).
    { unfold is_5321 in *. destruct m; cbn [negb andb] in *; try reflexivity. rewrite E5. reflexivity. }
    rewrite andb_true_r. rewrite Hc2. destruct (is_cntrl (code b)); [reflexivity|].
    destruct (N.eqb_spec (code b) 34).
    + destruct cp as [|c]; [change (Nat.eqb 0 0) with true; cbn [prev_of]|change (Nat.eqb (S c) 0) with false; cbn [rd_before prev_of]].
      * apply (Hnext true false). discriminate.
      * unfold rd. assert (Hc : (c < e)%nat) by lia. destruct (nth_some c Hc) as (p & Ep). rewrite load_in by exact Hc. rewrite Ep.
        destruct (code p =? 46); [apply (Hnext true false); discriminate|reflexivity].
    + destruct (N.eqb_spec (code b) 46).
      * destruct cp as [|c]; [reflexivity|]. change (Nat.eqb (S c) 0) with false. cbn [orb prev_of].
        assert (Hc : (c < e)%nat) by lia. destruct (nth_some c Hc) as (p & Ep). rewrite Ep.
        destruct (Nat.eqb_spec (S (S c)) e) as [E2|N2].
        -- rewrite (Hn0 ltac:(lia)). reflexivity.
        -- destruct (Nat.ltb_spec (S (S c)) e) as [H1|H1]; [|lia].
           destruct (Hn1 H1) as (y & Ey & Es). rewrite Ey, Es. destruct (code y =? 46); [reflexivity|].
           rewrite <- Es. apply (Hnext false false). reflexivity.
      * destruct (is_special (code b)); [reflexivity|]. apply (Hnext false false). reflexivity.
Qed.

(* the access model of the whole function: never a fault, never out of fuel, and the functional model's result *)
Theorem localA_refines : localA m buf e = RetA (local m s rest).
Proof.
  unfold localA, local. destruct (Nat.eqb_spec e 0) as [E0|N0].
  - unfold e in E0. apply length_zero_iff_nil in E0. rewrite E0. reflexivity.
  - rewrite scanA_refines by (lia || discriminate || reflexivity). cbn [st_of prev_of skipn].
    destruct s as [|b r]; [exfalso; apply N0; reflexivity|reflexivity].
Qed.
End Refine.

(* every read of the access model is at an index <= e: with nothing after the end pointer but the terminator
   (buf = s ++ [NUL], length e + 1) it still never faults, so no byte beyond the terminator is read and none before index 0 *)
Corollary localA_reads_within_string m s :
  localA m (s ++ [NUL]) (length s) = RetA (local m s []).
Proof. apply (localA_refines m s []). Qed.
