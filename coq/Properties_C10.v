(* Properties_C10.v — C10: IDN — U-label and A-label spellings of a domain are treated identically.
   The conversion is a parameter [idn]; what each theorem needs from it is an explicit hypothesis, and
   every such hypothesis is checked against the real libidn2 on every generated input of the C10 check. *)
From Coq Require Import List NArith ZArith Lia Bool.
From Coq Require Import Strings.Byte.
Require Import Bytes Codes Local Local6531 Domain Ip Special Email EmailProofs Api ApiProofs CaseProofs.
Import ListNotations.
From Coq Require Strings.String.
Import Strings.String.StringSyntax.
Local Open Scope string_scope.

(* U-label and A-label: same result code, IDN code, hence same decision, class and flags *)
Theorem C10_U_and_A_label_identical :
  forall idn g tbl t u a, u <> [] -> a <> [] -> idn u = IdnOk a -> idn a = IdnOk a ->
    utf8_domain idn g tbl t u = utf8_domain idn g tbl t a.
Proof. exact utf8_domain_UA. Qed.
Print Assumptions C10_U_and_A_label_identical.

(* the ASCII modes give that A-label the same decision and class *)
Theorem C10_ascii_modes_on_the_A_label :
  forall idn g tbl t a, a <> [] -> idn a = IdnOk a ->
    fst (utf8_domain idn g tbl t a) =
    (let r := ascii_domain (uscore g) a [] in if negb (r =? 0)%Z then r else if t then tld_verdict tbl a else 0%Z).
Proof. exact utf8_domain_vs_ascii. Qed.
Print Assumptions C10_ascii_modes_on_the_A_label.

(* all-ASCII domains: given that the IDN library lower-cases ASCII, mode 6531 gives the ASCII-mode verdict
   (same class), or the rejection is an IDN-library error *)
Theorem C10_all_ascii_domains :
  forall idn g tbl t d, d <> [] -> (forall a, idn d = IdnOk a -> a = map lowerb d) ->
    (exists e b, idn d = IdnErr e b /\ fst (utf8_domain idn g tbl t d) = E_IDN) \/
    fst (utf8_domain idn g tbl t d) =
      (let r := ascii_domain (uscore g) d [] in if negb (r =? 0)%Z then r else if t then tld_verdict tbl d else 0%Z).
Proof. exact ascii_domain_same_verdict. Qed.
Print Assumptions C10_all_ascii_domains.

(* the verdict of the ASCII machinery does not depend on letter case *)
Theorem C10_case_insensitive :
  forall us tbl d, ascii_domain us (map lowerb d) [] = ascii_domain us d [] /\
                   special_domain (map lowerb d) = special_domain d /\ tld_verdict tbl (map lowerb d) = tld_verdict tbl d.
Proof. intros us tbl d. split; [apply ascii_domain_lower|split; [apply special_domain_lower|apply tld_verdict_lower]]. Qed.
Print Assumptions C10_case_insensitive.

(* what the IDN library refuses (invalid UTF-8, IDNA2008 violations: its decision) is rejected with the IDN code *)
Theorem C10_idn_refusal_is_rejection :
  forall idn g tbl t d e buf, d <> [] -> idn d = IdnErr e buf -> utf8_domain idn g tbl t d = (E_IDN, e).
Proof. exact utf8_domain_reject. Qed.
Print Assumptions C10_idn_refusal_is_rejection.

Example C10_example : map lowerb (Special.bs "ExAmPle.COM") = Special.bs "example.com".
Proof. vm_compute. reflexivity. Qed.
