(* Utf8Proofs.v — the decoder model (utf8_decode_next) accepts exactly the RFC 3629 table. *)
From Coq Require Import List NArith Bool Lia.
From Coq Require Import Strings.Byte.
Require Import Bytes Local6531 Utf8Spec.
Import ListNotations.
Local Open Scope N_scope.

Definition isSome {A} (o : option A) : bool := match o with Some _ => true | None => false end.
Definition opt_eqb (a b : option N) : bool :=
  match a, b with Some x, Some y => x =? y | None, None => true | _, _ => false end.
Lemma opt_eqb_eq a b : opt_eqb a b = true -> a = b.
Proof. destruct a, b; cbn; try discriminate; try reflexivity. intros H. apply N.eqb_eq in H. congruence. Qed.

(* ---- finite sweeps (proofs over all 256 / 256^2 / 16 x 256^2 byte tuples) ---- *)
Lemma lead_classes b :
  (code b <? 128) || is_lead2 (code b) || is_lead3 (code b) || is_lead4 (code b)
  = negb (rng 128 191 b || rng 248 255 b).
Proof.
  assert (H := all_bytes_spec (fun b => Bool.eqb ((code b <? 128) || is_lead2 (code b) || is_lead3 (code b) || is_lead4 (code b))
                                                 (negb (rng 128 191 b || rng 248 255 b))) ltac:(vm_compute; reflexivity) b).
  apply Bool.eqb_prop in H. exact H.
Qed.

Lemma lead2_range b : is_lead2 (code b) = rng 192 223 b.
Proof.
  assert (H := all_bytes_spec (fun b => Bool.eqb (is_lead2 (code b)) (rng 192 223 b)) ltac:(vm_compute; reflexivity) b).
  apply Bool.eqb_prop in H. exact H.
Qed.
Lemma lead3_range b : is_lead3 (code b) = rng 224 239 b.
Proof.
  assert (H := all_bytes_spec (fun b => Bool.eqb (is_lead3 (code b)) (rng 224 239 b)) ltac:(vm_compute; reflexivity) b).
  apply Bool.eqb_prop in H. exact H.
Qed.
Lemma lead4_range b : is_lead4 (code b) = rng 240 247 b.
Proof.
  assert (H := all_bytes_spec (fun b => Bool.eqb (is_lead4 (code b)) (rng 240 247 b)) ltac:(vm_compute; reflexivity) b).
  apply Bool.eqb_prop in H. exact H.
Qed.

Lemma cont_spec b : cont b = if rng 128 191 b then Some (code b - 128) else None.
Proof.
  assert (H := all_bytes_spec (fun b => opt_eqb (cont b) (if rng 128 191 b then Some (code b - 128) else None)) ltac:(vm_compute; reflexivity) b).
  apply opt_eqb_eq in H. exact H.
Qed.
Lemma lead4_payload b : is_lead4 (code b) = true -> N.land (code b) 7 = code b - 240.
Proof.
  assert (H := all_bytes_spec (fun b => negb (is_lead4 (code b)) || (N.land (code b) 7 =? code b - 240)) ltac:(vm_compute; reflexivity) b).
  cbv beta in H. intros E. rewrite E in H. cbn [negb orb] in H. apply N.eqb_eq in H. exact H.
Qed.

(* two-byte sequences: decoder = table, value = table value *)
Lemma dec2_table a b :
  (if is_lead2 (code a) then dec2 a b else None) = if wf2b a b then Some (scalar2 a b) else None.
Proof.
  assert (H := all_bytes2_spec (fun a b => opt_eqb (if is_lead2 (code a) then dec2 a b else None)
                                                   (if wf2b a b then Some (scalar2 a b) else None)) ltac:(vm_compute; reflexivity) a b).
  apply opt_eqb_eq in H. exact H.
Qed.

(* three-byte sequences: the sweep visits only the 16 lead bytes E0..EF *)
Lemma dec3_table a b c :
  (if is_lead3 (code a) then dec3 a b c else None) = if wf3b a b c then Some (scalar3 a b c) else None.
Proof.
  assert (H := all_bytes_spec (fun a =>
     if is_lead3 (code a)
     then forallb (fun b => forallb (fun c => opt_eqb (dec3 a b c) (if wf3b a b c then Some (scalar3 a b c) else None)) all_bytes) all_bytes
     else true) ltac:(vm_compute; reflexivity) a).
  cbv beta in H. destruct (is_lead3 (code a)) eqn:El.
  - rewrite forallb_forall in H. specialize (H b (all_bytes_in b)).
    rewrite forallb_forall in H. specialize (H c (all_bytes_in c)). apply opt_eqb_eq in H. exact H.
  - rewrite lead3_range in El. unfold rng in El. apply andb_false_iff in El. rewrite !N.leb_gt in El.
    unfold wf3b.
    assert (rng 224 224 a = false) as -> by (unfold rng; apply andb_false_iff; rewrite !N.leb_gt; lia).
    assert (rng 225 236 a = false) as -> by (unfold rng; apply andb_false_iff; rewrite !N.leb_gt; lia).
    assert (rng 237 237 a = false) as -> by (unfold rng; apply andb_false_iff; rewrite !N.leb_gt; lia).
    assert (rng 238 239 a = false) as -> by (unfold rng; apply andb_false_iff; rewrite !N.leb_gt; lia).
    reflexivity.
Qed.

(* ---- four-byte sequences: arithmetic instead of a 2^27 sweep ---- *)
Lemma lor_disjoint k q n : q < 2 ^ n -> N.lor (N.shiftl k n) q = N.shiftl k n + q.
Proof.
  intros Hq. assert (Hl : N.land (N.shiftl k n) q = 0).
  { apply N.bits_inj. intros i. rewrite N.land_spec, N.bits_0.
    destruct (N.lt_ge_cases i n) as [Hi|Hi].
    - rewrite N.shiftl_spec_low by exact Hi. reflexivity.
    - rewrite <- (N.mod_small q (2 ^ n)) by exact Hq.
      rewrite N.mod_pow2_bits_high by exact Hi. apply andb_false_r. }
  rewrite <- N.lxor_lor by exact Hl. symmetry. apply N.add_nocarry_lxor. exact Hl.
Qed.

Lemma assemble4 x v1 v2 v3 : x < 8 -> v1 < 64 -> v2 < 64 -> v3 < 64 ->
  N.lor (N.lor (N.lor (N.shiftl x 18) (N.shiftl v1 12)) (N.shiftl v2 6)) v3
  = x * 262144 + v1 * 4096 + v2 * 64 + v3.
Proof.
  intros Hx H1 H2 H3.
  assert (E1 : N.lor (N.shiftl x 18) (N.shiftl v1 12) = N.shiftl (x * 64 + v1) 12).
  { replace (N.shiftl x 18) with (N.shiftl (x * 64) 12) by (rewrite !N.shiftl_mul_pow2; change (2 ^ 18) with 262144; change (2 ^ 12) with 4096; lia).
    rewrite <- N.shiftl_lor. f_equal.
    replace (x * 64) with (N.shiftl x 6) by (rewrite N.shiftl_mul_pow2; reflexivity).
    rewrite lor_disjoint by (change (2 ^ 6) with 64; exact H1). reflexivity. }
  rewrite E1.
  assert (E2 : N.lor (N.shiftl (x * 64 + v1) 12) (N.shiftl v2 6) = N.shiftl ((x * 64 + v1) * 64 + v2) 6).
  { replace (N.shiftl (x * 64 + v1) 12) with (N.shiftl ((x * 64 + v1) * 64) 6)
      by (rewrite !N.shiftl_mul_pow2; change (2 ^ 12) with 4096; change (2 ^ 6) with 64; lia).
    rewrite <- N.shiftl_lor. f_equal.
    replace ((x * 64 + v1) * 64) with (N.shiftl (x * 64 + v1) 6) by (rewrite N.shiftl_mul_pow2; reflexivity).
    rewrite lor_disjoint by (change (2 ^ 6) with 64; exact H2). reflexivity. }
  rewrite E2. rewrite lor_disjoint by (change (2 ^ 6) with 64; exact H3).
  rewrite N.shiftl_mul_pow2. change (2 ^ 6) with 64. lia.
Qed.

Lemma rng_spec lo hi b : rng lo hi b = true <-> lo <= code b <= hi.
Proof. unfold rng. rewrite andb_true_iff, !N.leb_le. tauto. Qed.
Lemma rng_false lo hi b : rng lo hi b = false <-> code b < lo \/ hi < code b.
Proof. unfold rng. rewrite andb_false_iff, !N.leb_gt. tauto. Qed.

Lemma dec4_table a b c d :
  (if is_lead4 (code a) then dec4 a b c d else None) = if wf4b a b c d then Some (scalar4 a b c d) else None.
Proof.
  destruct (is_lead4 (code a)) eqn:El.
  - pose proof (lead4_payload a El) as Hp. rewrite lead4_range in El. apply rng_spec in El.
    unfold dec4. rewrite !cont_spec.
    destruct (rng 128 191 b) eqn:Eb.
    2:{ apply rng_false in Eb. unfold wf4b.
        assert (rng 144 191 b = false) as -> by (apply rng_false; lia).
        assert (rng 128 191 b = false) as -> by (apply rng_false; lia).
        assert (rng 128 143 b = false) as -> by (apply rng_false; lia).
        rewrite !andb_false_r. reflexivity. }
    destruct (rng 128 191 c) eqn:Ec; [|unfold wf4b; rewrite Ec, andb_false_r; reflexivity].
    destruct (rng 128 191 d) eqn:Ed; [|unfold wf4b; rewrite Ed, andb_false_r; reflexivity].
    apply rng_spec in Eb, Ec, Ed. cbv zeta.
    rewrite Hp. rewrite assemble4 by lia.
    unfold wf4b, scalar4.
    assert (Hc : rng 128 191 c = true) by (apply rng_spec; exact Ec).
    assert (Hd : rng 128 191 d = true) by (apply rng_spec; exact Ed).
    rewrite Hc, Hd, !andb_true_r.
    set (r := (code a - 240) * 262144 + (code b - 128) * 4096 + (code c - 128) * 64 + (code d - 128)).
    destruct (((rng 240 240 a && rng 144 191 b) || (rng 241 243 a && rng 128 191 b) || (rng 244 244 a && rng 128 143 b))) eqn:Et.
    + assert ((65536 <=? r) && (r <=? 1114111) = true) as ->; [|reflexivity].
      apply andb_true_iff. rewrite !N.leb_le.
      rewrite !orb_true_iff, !andb_true_iff, !rng_spec in Et. subst r. lia.
    + assert ((65536 <=? r) && (r <=? 1114111) = false) as ->; [|reflexivity].
      apply andb_false_iff. rewrite !N.leb_gt.
      rewrite !orb_false_iff, !andb_false_iff, !rng_false in Et. subst r. lia.
  - rewrite lead4_range in El. apply rng_false in El. unfold wf4b.
    assert (rng 240 240 a = false) as -> by (apply rng_false; lia).
    assert (rng 241 243 a = false) as -> by (apply rng_false; lia).
    assert (rng 244 244 a = false) as -> by (apply rng_false; lia). reflexivity.
Qed.
