(* SpecialA.v — layer A for C06: is_special_domain (src/is_special_domain.c) over a bounds-checked buffer, with its
   strchr walks, end[-1], the pointer differences ch - cp / end - cp, the copies into the 64-byte label[] and the CHECK
   macro's strncasecmp calls.  A NULL result of strchr that the C code would dereference is NullA, a copy that does not
   fit label[] is OverA: the refinement theorem shows that neither can happen, that no read leaves [first byte, terminator],
   and that the answer is the functional model's (Special.v).  As in Special.v, [end] is the terminator. *)
From Coq Require Import List NArith ZArith Bool Arith Lia.
From Coq Require Import Strings.Byte.
Require Import Bytes Codes Local Ip Special SpecialProofs SafetyProofs LocalA DomainA IpA StrA.
Import ListNotations.
Local Open Scope N_scope.

Definition LABEL_SIZE : nat := 64.

Section A.
Variable buf : list byte.
Variable e : nat.               (* end - start; start = index 0 *)
Let rd := LocalA.rd buf.

(* for (cp = start; (ch = strchr (cp, '.')) != 0; cp = ch + 1, count++); *)
Fixpoint countA (fuel cp count : nat) (k : nat -> resA) : resA :=
  match fuel with
  | O => FuelA
  | S f => strchrA buf DOT cp (fun r => match r with Some ch => countA f (S ch) (S count) k | None => k count end)
  end.

(* CHECK (a, buf + i): strncasecmp (buf + i, a[j].domain, a[j].length) for each row *)
Fixpoint checkA (i : nat) (names : list (list byte)) (k : bool -> resA) : resA :=
  match names with
  | [] => k false
  | n :: ns => strncaseA buf i n (S (length n)) (fun r => if r then k true else checkA i ns k)
  end.

(* while (count >= 2) { ch = strchr (cp, '.'); cp = ch + 1; count--; } *)
Fixpoint skipA (fuel count cp : nat) (k : nat -> resA) : resA :=
  match fuel with
  | O => FuelA
  | S f =>
    if Nat.leb 2 count
    then strchrA buf DOT cp (fun r => match r with Some ch => skipA f (count - 1) (S ch) k | None => NullA end)
    else k cp
  end.

(* memcpy (label, buf + i, len); label[len] = 0; *)
Definition copyA (i len : nat) (k : list byte -> resA) : resA :=
  if Nat.ltb LABEL_SIZE (S len) then OverA (S len) else readnA buf i len k.

(* len = (ch = strchr (p, '.')) ? ch - p : end - p *)
Definition label_lenA (p : nat) (k : nat -> resA) : resA :=
  strchrA buf DOT p (fun r =>
    match r with
    | Some ch => k (ch - p)%nat
    | None => if Nat.ltb e p then UnderA else k (e - p)%nat
    end).

(* the block "probably special or reserved": the label that starts at cp2 *)
Definition lastA (cp2 : nat) : resA :=
  label_lenA cp2 (fun len2 =>
    if bad_len len2 then NO
    else copyA cp2 len2 (fun label => retb (check_in reserved_names label))).

Definition specialA : resA :=
  countA (S (length buf)) 0 0 (fun count =>
    if Nat.eqb count 0 then
      if bad_len e then NO else checkA 0 reserved_names retb
    else
      if Nat.eqb e 0 then UnderA else
      rd (e - 1)%nat (fun lastb =>                                             (* end[-1] == '.' *)
        let count' := if code lastb =? 46 then (count - 1)%nat else count in
        skipA (S (length buf)) count' 0 (fun cp =>
          strchrA buf DOT cp (fun r =>
            match r with
            | None => NullA                                                    (* len = ch - cp with ch == NULL *)
            | Some ch =>
              if Nat.eqb (ch - cp) 7 then
                copyA cp 7 (fun label =>
                  if strncaseeq example_name label 8 then
                    label_lenA (S ch) (fun len3 =>
                      if Nat.eqb len3 3
                      then copyA (S ch) 3 (fun l3 => if check_in example_tlds l3 then retb true else lastA (S ch))
                      else lastA (S ch))
                  else lastA (S ch))
              else lastA (S ch)
            end)))).
End A.

(* ---------------------------------------------------------------- refinement *)
Lemma nulfree_app a b : nulfree (a ++ b) -> nulfree a /\ nulfree b.
Proof. unfold nulfree. rewrite Forall_app. tauto. Qed.

Lemma split_first_len c l p s : split_first c l = Some (p, s) -> length l = (length p + 1 + length s)%nat /\ firstn (length p) l = p.
Proof.
  intros H. apply split_first_spec in H as (-> & _). rewrite app_length. cbn [length]. split; [lia|].
  rewrite firstn_app, Nat.sub_diag, firstn_all. cbn [firstn]. apply app_nil_r.
Qed.

Lemma count_dots_le l : (count_dots l <= length l)%nat.
Proof. unfold count_dots. induction l as [|b r IH]; cbn [filter length]; [lia|]. destruct (beqb b DOT); cbn [length]; lia. Qed.

Section Refine.
Variable s : list byte.
Hypothesis Hs : nulfree s.
Let buf := s ++ [NUL].
Let e := length s.

Lemma suffix_of i t : skipn i s = t -> skipn i buf = t ++ [NUL] \/ (length s < i)%nat.
Proof.
  intros H. destruct (Nat.le_gt_cases i (length s)) as [Hi|Hi]; [left|right; exact Hi].
  unfold buf. rewrite skipn_app. replace (i - length s)%nat with 0%nat by lia. rewrite H. reflexivity.
Qed.

(* state of the walks: index i, with t = what is left of s from i on *)
Definition at_ (i : nat) (t : list byte) : Prop := skipn i buf = t ++ [NUL] /\ nulfree t /\ (i + length t = e)%nat.

Lemma at_0 : at_ 0 s.
Proof. split; [reflexivity|]. split; [exact Hs|reflexivity]. Qed.

Lemma at_next i t p s' : at_ i t -> split_first DOT t = Some (p, s') -> at_ (S (i + length p)) s'.
Proof.
  intros (H1 & H2 & H3) Hsp. destruct (split_first_spec _ _ _ _ Hsp) as (Et & _). subst t.
  apply nulfree_app in H2 as (_ & H2). destruct (nulfree_cons _ _ H2) as (_ & H2').
  split; [|split; [exact H2'|]].
  - replace (S (i + length p)) with (i + S (length p))%nat by lia. rewrite <- skipn_skipn', H1.
    rewrite <- app_assoc. rewrite skipn_app. replace (S (length p) - length p)%nat with 1%nat by lia.
    rewrite (skipn_all2 (n := S (length p))) by lia. reflexivity.
  - rewrite app_length in H3. cbn [length] in H3. lia.
Qed.

Lemma strchr_at i t k : at_ i t ->
  strchrA buf DOT i k = k (match split_first DOT t with Some (p, _) => Some (i + length p)%nat | None => None end).
Proof. intros (H1 & H2 & _). apply strchrA_spec; [discriminate|exact H1|exact H2]. Qed.

Lemma countA_spec : forall fuel i t count k, at_ i t -> (length t < fuel)%nat ->
  countA buf fuel i count k = k (count + count_dots t)%nat.
Proof.
  induction fuel as [|fuel IH]; intros i t count k Hat Hf; [lia|].
  cbn [countA]. rewrite (strchr_at i t _ Hat). destruct (split_first DOT t) as [[p s']|] eqn:E.
  - destruct (SpecialProofs.split_first_dots t p s' E) as (_ & Hc & _). destruct (split_first_len _ _ _ _ E) as (Hl & _).
    rewrite (IH (S (i + length p)) s') by (try (eapply at_next; eassumption); lia). f_equal. lia.
  - destruct (SpecialProofs.split_first_none_dots t E) as (_ & Hc). rewrite Hc. f_equal. lia.
Qed.

Lemma skipA_spec : forall fuel n i t k, at_ i t -> (n <= count_dots t)%nat -> (n < fuel)%nat ->
  exists i', at_ i' (skip_labels n t) /\ skipA buf fuel (S n) i k = k i'.
Proof.
  induction fuel as [|fuel IH]; intros n i t k Hat Hn Hf; [lia|].
  cbn [skipA]. destruct n as [|n].
  - exists i. split; [exact Hat|reflexivity].
  - change (Nat.leb 2 (S (S n))) with true. cbv iota. rewrite (strchr_at i t _ Hat). cbn [skip_labels].
    destruct (split_first DOT t) as [[p s']|] eqn:E.
    + destruct (SpecialProofs.split_first_dots t p s' E) as (_ & Hc & _).
      replace (S (S n) - 1)%nat with (S n) by lia.
      apply (IH n (S (i + length p)) s' k); [eapply at_next; eassumption|lia|lia].
    + destruct (SpecialProofs.split_first_none_dots t E) as (_ & Hc). lia.
Qed.

Lemma count_dots_skip : forall n t, (n <= count_dots t)%nat -> count_dots (skip_labels n t) = (count_dots t - n)%nat.
Proof.
  induction n as [|n IH]; intros t Hn; [cbn [skip_labels]; lia|]. cbn [skip_labels].
  destruct (split_first DOT t) as [[p s']|] eqn:E.
  - destruct (SpecialProofs.split_first_dots t p s' E) as (_ & Hc & _). rewrite IH by lia. lia.
  - destruct (SpecialProofs.split_first_none_dots t E) as (_ & Hc). lia.
Qed.

Lemma checkA_spec i t names k : at_ i t -> Forall nulfree names ->
  checkA buf i names k = k (check_in names t).
Proof.
  intros (H1 & H2 & _) Hn. induction names as [|n ns IH]; [reflexivity|].
  cbn [checkA]. inversion Hn; subst. rewrite (strncaseA_spec buf (S (length n)) t n i _ H1 H2) by assumption.
  unfold check_in. cbn [existsb]. destruct (strncaseeq t n (S (length n))); [reflexivity|]. cbn [orb]. apply IH. assumption.
Qed.

Lemma copyA_spec i t len k : at_ i t -> (len <= length t)%nat -> (len < LABEL_SIZE)%nat ->
  copyA buf i len k = k (firstn len t).
Proof.
  intros (H1 & _ & _) Hl Hb. unfold copyA. destruct (Nat.ltb_spec LABEL_SIZE (S len)); [lia|].
  apply readnA_spec; assumption.
Qed.

Lemma label_lenA_spec i t k : at_ i t -> label_lenA buf e i k = k (length (first_label t)).
Proof.
  intros Hat. unfold label_lenA. rewrite (strchr_at i t _ Hat). unfold first_label.
  destruct Hat as (_ & _ & H3). destruct (split_first DOT t) as [[p s']|] eqn:E.
  - f_equal. lia.
  - destruct (Nat.ltb_spec e i); [lia|]. f_equal. lia.
Qed.

Lemma first_label_prefix t : firstn (length (first_label t)) t = first_label t /\ (length (first_label t) <= length t)%nat.
Proof.
  unfold first_label. destruct (split_first DOT t) as [[p s']|] eqn:E.
  - destruct (split_first_len _ _ _ _ E) as (Hl & Hf). split; [exact Hf|lia].
  - split; [apply firstn_all|lia].
Qed.

Lemma bad_len_small n : bad_len n = false -> (n < LABEL_SIZE)%nat.
Proof. intros H. pose proof (SafetyProofs.special_copies_are_short (repeat NUL n)) as H9. rewrite repeat_length in H9. specialize (H9 H). unfold LABEL_SIZE. lia. Qed.

Lemma lastA_spec i t : at_ i t ->
  lastA buf e i = retb (negb (bad_len (length (first_label t))) && check_in reserved_names (first_label t)).
Proof.
  intros Hat. unfold lastA. rewrite (label_lenA_spec i t _ Hat).
  destruct (bad_len (length (first_label t))) eqn:Eb; [reflexivity|]. cbn [negb andb].
  destruct (first_label_prefix t) as (Hf & Hl).
  rewrite (copyA_spec i t _ _ Hat Hl (bad_len_small _ Eb)). rewrite Hf. reflexivity.
Qed.

Lemma names_nulfree : Forall nulfree reserved_names /\ Forall nulfree example_tlds.
Proof.
  split; apply Forall_forall; intros x Hx; apply nulfreeb_spec; cbn in Hx;
  repeat (destruct Hx as [<-|Hx]; [reflexivity|]); contradiction.
Qed.

Theorem specialA_refines : specialA buf e = retb (special_domain s).
Proof.
  unfold specialA, special_domain. pose proof at_0 as H0.
  assert (Hlb : length buf = S e) by (unfold buf, e; rewrite app_length; cbn [length]; lia).
  rewrite (countA_spec (S (length buf)) 0 s 0 _ H0) by (rewrite Hlb; unfold e; lia). cbn [Nat.add].
  destruct (Nat.eqb_spec (count_dots s) 0) as [Ec|Ec].
  { fold e. destruct (bad_len e); [reflexivity|]. apply (checkA_spec 0 s); [exact H0|apply names_nulfree]. }
  assert (Hne : s <> []) by (intros E; apply Ec; rewrite E; reflexivity).
  destruct (Nat.eqb_spec e 0) as [E0|E0]; [unfold e in E0; apply length_zero_iff_nil in E0; contradiction|].
  (* end[-1] *)
  assert (Hlast : nth_error buf (e - 1) = Some (last s NUL)).
  { unfold buf. rewrite nth_error_app1 by (unfold e in *; lia). unfold e. apply DomainA.nth_error_last. exact Hne. }
  unfold LocalA.rd. rewrite Hlast. unfold beqb. change (code DOT) with 46.
  set (count' := if code (last s NUL) =? 46 then (count_dots s - 1)%nat else count_dots s).
  assert (Hc' : (count' - 1 <= count_dots s)%nat /\ (count' <= count_dots s)%nat) by (subst count'; destruct (code (last s NUL) =? 46); lia).
  (* the walk to the last two labels; it needs one more dot than it skips, which the trailing-dot adjustment guarantees *)
  assert (Hskip : exists i', at_ i' (skip_labels (count' - 1) s) /\
            forall k, skipA buf (S (length buf)) count' 0 k = k i').
  { destruct (Nat.eq_dec count' 0) as [Ez|Nz].
    - exists 0%nat. rewrite Ez. split; [exact H0|]. intros k. reflexivity.
    - set (c' := (count' - 1)%nat). assert (Ecnt : count' = S c') by (subst c'; lia).
      assert (Hdots : (c' <= count_dots s)%nat) by lia.
      assert (Hfuel : (c' < S (length buf))%nat).
      { rewrite Hlb. unfold e. pose proof (count_dots_le s) as Hle. lia. }
      destruct (skipA_spec (S (length buf)) c' 0 s (fun x => RetA (Z.of_nat x)) H0 Hdots Hfuel) as (j & Hj & _).
      exists j. split; [exact Hj|]. intros k. rewrite Ecnt.
      destruct (skipA_spec (S (length buf)) c' 0 s k H0 Hdots Hfuel) as (j2 & Hj2 & Hk).
      rewrite Hk. f_equal.
      destruct Hj as (_ & _ & A1). destruct Hj2 as (_ & _ & A2). lia. }
  destruct Hskip as (i' & Hat & Hk). rewrite Hk.
  set (t := skip_labels (count' - 1) s) in *.
  rewrite (strchr_at i' t _ Hat).
  assert (Hdots_t : (1 <= count_dots t)%nat).
  { subst t. rewrite count_dots_skip by lia. subst count'. destruct (code (last s NUL) =? 46); lia. }
  destruct (split_first DOT t) as [[l1 after]|] eqn:E1.
  2:{ destruct (SpecialProofs.split_first_none_dots t E1) as (_ & Hz). lia. }
  pose proof (at_next i' t l1 after Hat E1) as Hat2.
  replace (i' + length l1 - i')%nat with (length l1) by lia.
  pose proof (lastA_spec (S (i' + length l1)) after Hat2) as Hlast2.
  destruct (split_first_len _ _ _ _ E1) as (Hlen1 & Hf1).
  destruct (Nat.eqb_spec (length l1) 7) as [E7|N7]; cbn [andb].
  2:{ rewrite Hlast2. reflexivity. }
  rewrite (copyA_spec i' t 7 _ Hat) by (unfold LABEL_SIZE; lia).
  replace (firstn 7 t) with l1 by (rewrite <- Hf1, E7; reflexivity).
  assert (Hex : strncaseeq example_name l1 8 = ci_eqb example_name l1) by (apply strncaseeq_full; cbn; lia).
  rewrite Hex. destruct (ci_eqb example_name l1); cbn [andb].
  2:{ rewrite Hlast2. reflexivity. }
  rewrite (label_lenA_spec (S (i' + length l1)) after _ Hat2).
  destruct (first_label_prefix after) as (Hf2 & Hl2).
  destruct (Nat.eqb_spec (length (first_label after)) 3) as [E3|N3]; cbn [andb].
  2:{ rewrite Hlast2. reflexivity. }
  rewrite (copyA_spec (S (i' + length l1)) after 3 _ Hat2) by (unfold LABEL_SIZE; lia).
  replace (firstn 3 after) with (first_label after) by (rewrite <- Hf2 at 1; rewrite E3; reflexivity).
  destruct (check_in example_tlds (first_label after)); cbn [orb]; [reflexivity|]. rewrite Hlast2. reflexivity.
Qed.
End Refine.
