(* Properties_C07.v — C07: TLD class = the shipped table, matched on the whole last label. *)
From Coq Require Import List NArith ZArith Lia Bool.
From Coq Require Import Strings.Byte.
Require Import Bytes Codes Hex Local Local6531 LocalSpec LocalProofs Utf8Spec Local6531Spec Local6531Proofs Domain DomainSpec DomainProofs Ip Special SpecialProofs Email EmailProofs Api ApiProofs TldProofs EnumTie.
Import ListNotations.
From Coq Require Strings.String.
Import Strings.String.StringSyntax.
Local Open Scope string_scope.

(* the table exported by the built library: every length field is strlen+1, names are lower-case
   A-labels, classes are 1..9, no name occurs twice *)
Theorem C07_table_wellformed :
  forallb row_wf tld_list = true /\ nodupb (map row_name tld_list) = true.
Proof. split; [exact tld_rows_wf|exact tld_names_nodup]. Qed.
Print Assumptions C07_table_wellformed.

(* lookup = the row whose name equals the WHOLE label case-insensitively, else "invalid TLD" *)
Theorem C07_lookup_whole_label :
  forall l, l <> [] ->
    tld_lookup tld_list l =
    match find (fun r => ci_eqb (row_name r) l) tld_list with
    | Some r => row_type r
    | None => E_TLD_INVALID
    end.
Proof. intros l Hl. apply lookup_whole_label; [exact tld_len_ok|exact Hl]. Qed.
Print Assumptions C07_lookup_whole_label.

(* e-mail level, ASCII modes, TLD checking on, valid host name without root dot:
   reserved -> special; otherwise single label -> not FQDN, else the class of the text after the last dot *)
Theorem C07_email_classification :
  forall idn g am l d, ~ In AT d -> d <> [] -> hd NUL d <> LBR -> (length l <= 64)%nat ->
    local am l (AT :: d) = 0%Z -> ascii_domain (uscore g) d [] = 0%Z -> last d NUL <> DOT -> ~ Reserved d ->
    let r := rc (email idn g tld_list (MA am) true (l ++ AT :: d)) in
    (~ In DOT d -> r = E_NOT_FQDN) /\
    (forall p t, d = p ++ DOT :: t -> ~ In DOT t -> r = tld_lookup tld_list t).
Proof.
  intros idn g am l d Hat Hne Hbr Hlen Hl Hd Hroot Hres. cbv zeta.
  rewrite (host_rc_ascii idn g tld_list am true l d Hat Hne Hbr Hlen Hl Hd).
  exact (tld_verdict_not_reserved tld_list d Hroot Hres).
Qed.
Print Assumptions C07_email_classification.

(* mode 6531: the U-label and the A-label spelling are classified through the same A-label,
   and the ASCII modes classify that A-label the same way *)
Theorem C07_U_and_A_label_agree :
  forall idn g t u a, u <> [] -> a <> [] -> idn u = IdnOk a -> idn a = IdnOk a ->
    utf8_domain idn g tld_list t u = utf8_domain idn g tld_list t a /\
    fst (utf8_domain idn g tld_list t a) =
      (let r := ascii_domain (uscore g) a [] in if negb (r =? 0)%Z then r else if t then tld_verdict tld_list a else 0%Z).
Proof.
  intros idn g t u a Hu Ha H1 H2. split; [apply utf8_domain_UA; assumption|apply utf8_domain_vs_ascii; assumption].
Qed.
Print Assumptions C07_U_and_A_label_agree.

Example C07_example :
  tld_lookup tld_list (bs "CoM") = TLD_TYPE_GENERIC /\ tld_lookup tld_list (bs "co") = TLD_TYPE_COUNTRY_CODE /\
  tld_lookup tld_list (bs "comm") = E_TLD_INVALID /\ tld_lookup tld_list (bs "xn--p1ai") = TLD_TYPE_COUNTRY_CODE /\
  rc (email (fun d => IdnOk d) cfg0 tld_list (MA M822) true (bs "a@b.c.Museum")) = TLD_TYPE_SPONSORED.
Proof. repeat split; vm_compute; reflexivity. Qed.
