(* IpSpec.v — layer S for C05: textual IPv4 and IPv6 addresses. *)
From Coq Require Import List NArith ZArith Bool Lia Arith.
From Coq Require Import Strings.Byte.
Require Import Bytes Codes Ip.
Import ListNotations.
Local Open Scope N_scope.

Definition digit (b : byte) : Prop := is_digit (code b) = true.
Definition hexdigit (b : byte) : Prop := is_hex (code b) = true.

(* decimal value of a digit string, most significant first *)
Definition valacc (v : N) (ds : list byte) : N := fold_left (fun a d => a * 10 + (code d - 48)) ds v.
Definition value (ds : list byte) : N := valacc 0 ds.

(* a decimal octet 0..255 (any number of leading zeros) *)
Definition octet (l : list byte) : Prop := l <> [] /\ Forall digit l /\ value l <= 255.

(* k octets separated by single dots *)
Inductive octets : nat -> list byte -> Prop :=
| oc_one o : octet o -> octets 1 o
| oc_more k o r : octet o -> octets k r -> octets (S k) (o ++ DOT :: r).

Definition Ipv4Text (c : list byte) : Prop := octets 4 c.

(* the lower bound of the property: 1-3 digit octets <= 255, first octet non-zero *)
Definition octet3 (l : list byte) : Prop := octet l /\ (length l <= 3)%nat.
Definition Ipv4Lower (c : list byte) : Prop :=
  exists a b c' d, c = a ++ DOT :: b ++ DOT :: c' ++ DOT :: d /\
    octet3 a /\ octet3 b /\ octet3 c' /\ octet3 d /\ value a <> 0.

(* ---- IPv6 (RFC 4291 text form) ---- *)
(* a group: 1 to 4 hexadecimal digits *)
Definition group (l : list byte) : Prop := (1 <= length l <= 4)%nat /\ Forall hexdigit l.

(* n groups separated by single colons (n >= 1) *)
Inductive groups : nat -> list byte -> Prop :=
| gr_one x : group x -> groups 1 x
| gr_more n x r : group x -> groups n r -> groups (S n) (x ++ COLON :: r).

(* zero or more groups *)
Definition groups0 (n : nat) (l : list byte) : Prop := (n = 0%nat /\ l = []) \/ groups n l.

(* the part before a dotted-quad tail: n groups each followed by a colon *)
Inductive groups_colon : nat -> list byte -> Prop :=
| gc_nil : groups_colon 0 []
| gc_cons n x r : group x -> groups_colon n r -> groups_colon (S n) (x ++ COLON :: r).

(* RFC 4291 section 2.2: 8 groups; or one "::" standing for one or more zero groups;
   the last two groups may be written as a dotted quad *)
Definition Ipv6Text (a : list byte) : Prop :=
  groups 8 a \/
  (exists h q, a = h ++ q /\ groups_colon 6 h /\ Ipv4Text q) \/
  (exists n m h t, a = h ++ COLON :: COLON :: t /\ groups0 n h /\ groups0 m t /\ (n + m <= 7)%nat) \/
  (exists n m h t q, a = h ++ COLON :: COLON :: t ++ q /\ groups0 n h /\ groups_colon m t /\ Ipv4Text q /\ (n + m <= 5)%nat).
