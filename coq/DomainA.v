(* DomainA.v — layer A for C06: is_ascii_domain over a bounds-checked buffer with the C index arithmetic
   (start[end - start - 1], cp[1]), refined to the functional model (Domain.v). *)
From Coq Require Import List NArith ZArith Bool Arith Lia.
From Coq Require Import Strings.Byte.
Require Import Bytes Codes Local Domain LocalA.
Import ListNotations.
Local Open Scope N_scope.

Section A.
Variable us : bool.
Variable buf : list byte.
Variable e : nat.          (* end - start *)

Definition rdD (i : nat) (k : byte -> resA) : resA :=
  match nth_error buf i with Some b => k b | None => FaultA i end.

Definition dfinalA (ll : nat) (nn : bool) : resA := RetA (dfinal ll nn).

(* the loop, with [e'] = end after the optional root-dot strip *)
Fixpoint dscanA (e' fuel cp ll : nat) (nn : bool) : resA :=
  match fuel with
  | O => FuelA
  | S fuel' =>
    if Nat.leb e' cp then dfinalA ll nn else
    rdD cp (fun b =>
      let c := code b in
      if c =? 0 then dfinalA ll nn else
      if ldh_alnum us c then
        if Nat.ltb 63 (S ll) then RetA E_LABEL_LONG
        else dscanA e' fuel' (S cp) (S ll) (nn || negb (is_digit c))
      else if c =? 46 then
        if Nat.eqb ll 0 then RetA E_DELIM else dscanA e' fuel' (S cp) 0 nn
      else if c =? 45 then
        if Nat.eqb (S ll) 1 then RetA E_HYPHEN
        else rdD (S cp) (fun n =>                                  (* cp[1] *)
               if (code n =? 0) || (code n =? 46) then RetA E_HYPHEN
               else dscanA e' fuel' (S cp) (S ll) true)
      else RetA E_DCHAR)
  end.

(* the two length tests short-circuit exactly as in C: start[end - start - 1] is read only when the length test before it
   does not already decide *)
Definition ascii_domainA : resA :=
  if Nat.eqb e 0 then RetA E_DOMAIN_EMPTY else
  let strip :=
    if Nat.leb 2 e
    then rdD (e - 1)%nat (fun last =>                                  (* end - start >= 2 && start[end - start - 1] == '.' *)
           let e' := (if code last =? 46 then (e - 1)%nat else e) in dscanA e' (S e') 0 0 false)
    else dscanA e (S e) 0 0 false in
  if Nat.leb 255 e then RetA E_DOMAIN_LONG
  else if Nat.eqb e 254
       then rdD (e - 1)%nat (fun last => if negb (code last =? 46) then RetA E_DOMAIN_LONG else strip)
       else strip.
End A.

Lemma firstn_removelast {A} (l : list A) : firstn (length l - 1) l = removelast l.
Proof.
  induction l as [|x l IH]; [reflexivity|]. destruct l as [|y l']; [reflexivity|].
  cbn [length removelast]. replace (S (S (length l')) - 1)%nat with (S (S (length l') - 1)) by lia. cbn [firstn]. f_equal. exact IH.
Qed.
Lemma skipn_last {A} (l : list A) d : l <> [] -> skipn (length l - 1) l = [last l d].
Proof.
  induction l as [|x l IH]; [congruence|]. intros _. destruct l as [|y l']; [reflexivity|].
  cbn [length]. replace (S (S (length l')) - 1)%nat with (S (S (length l') - 1)) by lia. cbn [skipn]. apply IH. discriminate.
Qed.
Lemma nth_error_last {A} (l : list A) d : l <> [] -> nth_error l (length l - 1) = Some (last l d).
Proof.
  induction l as [|x l IH]; [congruence|]. intros _. destruct l as [|y l']; [reflexivity|].
  cbn [length]. replace (S (S (length l')) - 1)%nat with (S (S (length l') - 1)) by lia. cbn [nth_error]. apply IH. discriminate.
Qed.

Section Refine.
Variable us : bool.
Variable s rest : list byte.
Let buf := s ++ rest ++ [NUL].
Let e := length s.

Lemma dload_in i : (i < e)%nat -> nth_error buf i = nth_error s i.
Proof. intros H. unfold buf. apply nth_error_app1. exact H. Qed.

Lemma dnth_some i : (i < e)%nat -> exists b, nth_error s i = Some b.
Proof. intros H. destruct (nth_error s i) eqn:E; [eauto|]. apply nth_error_None in E. unfold e in H. lia. Qed.

Lemma nth_error_firstn {A} (l : list A) n i : (i < n)%nat -> nth_error (firstn n l) i = nth_error l i.
Proof.
  revert n i. induction l as [|x l IH]; intros n i H; [destruct n, i; reflexivity|].
  destruct n; [lia|]. destruct i; [reflexivity|]. cbn. apply IH. lia.
Qed.

(* the byte at index i (i <= e) of the buffer is the head of what follows position i *)
Lemma buf_tail i : (i <= e)%nat -> exists b, nth_error buf i = Some b /\
  match skipn i s ++ rest with y :: _ => code b = code y | [] => code b = 0 end.
Proof.
  intros H. destruct (Nat.eq_dec i e) as [->|Hne].
  - unfold buf, e. rewrite nth_error_app2 by lia. rewrite Nat.sub_diag. rewrite skipn_all. cbn [app].
    destruct rest as [|r0 rr]; cbn; eauto.
  - assert (Hi : (i < e)%nat) by lia. destruct (dnth_some i Hi) as (b & Eb). exists b. rewrite dload_in by exact Hi.
    split; [exact Eb|]. rewrite (skipn_cons s i b Eb). reflexivity.
Qed.

Lemma dscanA_refines e' : (e' <= e)%nat -> forall fuel cp ll nn, (e' - cp < fuel)%nat -> (cp <= e')%nat ->
  dscanA us buf e' fuel cp ll nn = RetA (dscan us ll nn (skipn cp (firstn e' s)) (skipn e' s ++ rest)).
Proof.
  intros He'. induction fuel as [|fuel IH]; intros cp ll nn Hf Hcp; [lia|].
  cbn [dscanA]. destruct (Nat.leb_spec e' cp) as [Hge|Hlt].
  { rewrite skipn_all2 by (rewrite firstn_length; lia). reflexivity. }
  assert (Hce : (cp < e)%nat) by lia. destruct (dnth_some cp Hce) as (b & Eb).
  unfold rdD. rewrite dload_in by exact Hce. rewrite Eb.
  assert (Ef : nth_error (firstn e' s) cp = Some b) by (rewrite nth_error_firstn by exact Hlt; exact Eb).
  rewrite (skipn_cons _ cp b Ef). cbn [dscan].
  destruct (code b =? 0); [reflexivity|].
  destruct (ldh_alnum us (code b)).
  { destruct (Nat.ltb 63 (S ll)); [reflexivity|]. apply IH; lia. }
  destruct (code b =? 46). { destruct (Nat.eqb ll 0); [reflexivity|]. apply IH; lia. }
  destruct (code b =? 45); [|reflexivity].
  destruct (Nat.eqb (S ll) 1); [reflexivity|]. cbn [orb].
  (* cp[1]: the next byte of the scanned range, or the first byte after it *)
  assert (Hnext : exists n, nth_error buf (S cp) = Some n /\
            nul_or_dot (skipn (S cp) (firstn e' s) ++ skipn e' s ++ rest) = (code n =? 0) || (code n =? 46)).
  { destruct (buf_tail (S cp) ltac:(lia)) as (n & En & Hn). exists n. split; [exact En|].
    assert (Hsplit : skipn (S cp) (firstn e' s) ++ skipn e' s = skipn (S cp) s).
    { rewrite <- (firstn_skipn e' s) at 3. rewrite skipn_app. rewrite firstn_length.
      replace (S cp - Nat.min e' (length s))%nat with 0%nat by (unfold e in *; lia). reflexivity. }
    rewrite app_assoc, Hsplit. unfold nul_or_dot. destruct (skipn (S cp) s ++ rest) as [|y ys]; [rewrite Hn; reflexivity|rewrite Hn; reflexivity]. }
  destruct Hnext as (n & En & Hn). rewrite En, Hn.
  destruct ((code n =? 0) || (code n =? 46)); [reflexivity|]. apply IH; lia.
Qed.

Theorem ascii_domainA_refines : ascii_domainA us buf e = RetA (ascii_domain us s rest).
Proof.
  unfold ascii_domainA, ascii_domain. destruct (Nat.eqb_spec e 0) as [E0|N0].
  { unfold e in E0. apply length_zero_iff_nil in E0. rewrite E0. reflexivity. }
  assert (Hne0 : s <> []) by (intros E; apply N0; unfold e; rewrite E; reflexivity).
  assert (Hm : match s with [] => E_DOMAIN_EMPTY | _ :: _ => (if Nat.leb 255 (length s) || (Nat.eqb (length s) 254 && negb (last_is_dot s)) then E_DOMAIN_LONG else if Nat.leb 2 (length s) && last_is_dot s then dscan us 0 false (removelast s) (DOT :: rest) else dscan us 0 false s rest) end = (if Nat.leb 255 (length s) || (Nat.eqb (length s) 254 && negb (last_is_dot s)) then E_DOMAIN_LONG else if Nat.leb 2 (length s) && last_is_dot s then dscan us 0 false (removelast s) (DOT :: rest) else dscan us 0 false s rest)) by (destruct s; [congruence|reflexivity]).
  rewrite Hm. clear Hm.
  assert (Hl : (e - 1 < e)%nat) by lia. destruct (dnth_some (e - 1) Hl) as (lb & Elb).
  assert (Hlast : last s NUL = lb).
  { pose proof (nth_error_last s NUL Hne0) as Hn. fold e in Hn. congruence. }
  unfold last_is_dot. rewrite Hlast. fold e.
  assert (Hstrip : (if Nat.leb 2 e
    then rdD buf (e - 1)%nat (fun last => let e' := (if code last =? 46 then (e - 1)%nat else e) in dscanA us buf e' (S e') 0 0 false)
    else dscanA us buf e (S e) 0 0 false) =
    RetA (if Nat.leb 2 e && (code lb =? 46) then dscan us 0 false (removelast s) (DOT :: rest) else dscan us 0 false s rest)).
  { destruct (Nat.leb_spec 2 e) as [H2|H2]; cbn [andb].
    - unfold rdD. rewrite dload_in by exact Hl. rewrite Elb. cbv zeta. destruct (code lb =? 46) eqn:Hd.
      + rewrite dscanA_refines by lia. f_equal.
        assert (Hf : firstn (e - 1) s = removelast s) by (unfold e; apply firstn_removelast).
        assert (Hs : skipn (e - 1) s = [DOT]).
        { unfold e. rewrite (skipn_last s NUL Hne0). rewrite Hlast. f_equal. apply N.eqb_eq in Hd. apply code_inj. rewrite Hd. reflexivity. }
        cbn [skipn]. rewrite Hf, Hs. reflexivity.
      + rewrite dscanA_refines by lia. f_equal. cbn [skipn]. unfold e. rewrite firstn_all, skipn_all. reflexivity.
    - rewrite dscanA_refines by lia. f_equal. cbn [skipn]. unfold e. rewrite firstn_all, skipn_all. reflexivity. }
  destruct (Nat.leb 255 e); [reflexivity|]. cbn [orb].
  destruct (Nat.eqb e 254); cbn [andb].
  - unfold rdD at 1. rewrite dload_in by exact Hl. rewrite Elb. destruct (negb (code lb =? 46)); [reflexivity|]. exact Hstrip.
  - exact Hstrip.
Qed.
End Refine.

Corollary ascii_domainA_reads_within_string us s :
  ascii_domainA us (s ++ [NUL]) (length s) = RetA (ascii_domain us s []).
Proof. apply (ascii_domainA_refines us s []). Qed.
