(* Properties_C18.v — C18: the IDN back end changes no decision and leaks no resource.
   The three partial/<backend> source sets are tied to ONE façade model by running the correspondence against each of
   them (libidn and idnkit compiled against stub headers and an adapter onto libidn2: those libraries are absent here). *)
From Coq Require Import List ZArith Bool.
From Coq Require Import Strings.Byte.
Require Import Bytes Codes Local6531 Special Email Api Kit.
Import ListNotations.

(* the back end enters the façade only through the conversion function: equivalent conversions give the same
   return values, error codes, messages, flags and result codes on every call history *)
Theorem C18_backend_enters_only_through_conversion :
  forall idn1 idn2, (forall d, idn1 d = idn2 d) -> forall g tbl ops s,
    run idn1 g tbl s ops = run idn2 g tbl s ops.
Proof. intros idn1 idn2 H g tbl ops s. apply run_ext. exact H. Qed.
Print Assumptions C18_backend_enters_only_through_conversion.

(* idnkit: along every legal history no context is destroyed twice or while dead, and at most one is live *)
Theorem C18_idnkit_context_invariant :
  forall ops k, kit_inv k -> all_legal k ops -> kit_inv (kit_run k ops).
Proof. exact kit_inv_run. Qed.
Print Assumptions C18_idnkit_context_invariant.

(* ... and after eav_free everything acquired by eav_setup has been released exactly once *)
Theorem C18_idnkit_released_exactly_once :
  forall ops k, kit_inv k -> all_legal k (ops ++ [Free]) ->
    let k' := kit_run k (ops ++ [Free]) in k_created k' = k_destroyed k' /\ k_bad k' = 0%Z.
Proof. exact kit_released_after_free. Qed.
Print Assumptions C18_idnkit_released_exactly_once.

Example C18_example :
  let ops := [Init; Setup; SetRfc 0; Setup; SetRfc 3; Setup; Setup; SetRfc 9; Setup; Free; Init; Setup; Free] in
  kit_inv kit0 /\ all_legal kit0 ops /\ k_created (kit_run kit0 ops) = 3%Z /\ k_destroyed (kit_run kit0 ops) = 3%Z.
Proof. cbv zeta. split; [split; reflexivity|]. split; [cbn; intuition reflexivity|split; reflexivity]. Qed.
