(* CaseProofs.v — C10: the domain verdict is invariant under ASCII case folding, hence for all-ASCII
   domains mode 6531 (where the IDN library lower-cases) and the ASCII modes agree. *)
From Coq Require Import List NArith ZArith Bool Lia Arith.
From Coq Require Import Strings.Byte.
Require Import Bytes Codes Hex Local Local6531 Domain Ip Special SpecialProofs Email EmailProofs OptionProofs.
Import ListNotations.
Local Open Scope N_scope.

Definition lowerb (b : byte) : byte := byte_of_N (tolower (code b)).
Notation lower := (map lowerb).

Lemma lowerb_code b : code (lowerb b) = tolower (code b).
Proof.
  assert (H := all_bytes_spec (fun b => code (lowerb b) =? tolower (code b)) ltac:(vm_compute; reflexivity) b).
  apply N.eqb_eq in H. exact H.
Qed.

Lemma tolower_idem c : tolower (tolower c) = tolower c.
Proof.
  unfold tolower, is_upper. destruct ((65 <=? c) && (c <=? 90)) eqn:E; [|rewrite E; reflexivity].
  apply andb_true_iff in E as (E1 & E2). apply N.leb_le in E1, E2.
  destruct ((65 <=? c + 32) && (c + 32 <=? 90)) eqn:E'; [|reflexivity].
  apply andb_true_iff in E' as (_ & E'). apply N.leb_le in E'. lia.
Qed.

Lemma lower_tests b :
  is_alnum (code (lowerb b)) = is_alnum (code b) /\ is_digit (code (lowerb b)) = is_digit (code b) /\
  (code (lowerb b) =? 0) = (code b =? 0) /\ (code (lowerb b) =? 46) = (code b =? 46) /\
  (code (lowerb b) =? 45) = (code b =? 45) /\ (code (lowerb b) =? 95) = (code b =? 95).
Proof.
  assert (H := all_bytes_spec (fun b =>
     Bool.eqb (is_alnum (code (lowerb b))) (is_alnum (code b)) && Bool.eqb (is_digit (code (lowerb b))) (is_digit (code b)) &&
     Bool.eqb (code (lowerb b) =? 0) (code b =? 0) && Bool.eqb (code (lowerb b) =? 46) (code b =? 46) &&
     Bool.eqb (code (lowerb b) =? 45) (code b =? 45) && Bool.eqb (code (lowerb b) =? 95) (code b =? 95)) ltac:(vm_compute; reflexivity) b).
  cbv beta in H. rewrite !andb_true_iff in H. destruct H as (((((H1 & H2) & H3) & H4) & H5) & H6).
  repeat split; apply Bool.eqb_prop; assumption.
Qed.

(* ---- is_ascii_domain ---- *)
Lemma nul_or_dot_lower l : nul_or_dot (lower l) = nul_or_dot l.
Proof. destruct l as [|b r]; [reflexivity|]. cbn. destruct (lower_tests b) as (_ & _ & -> & -> & _). reflexivity. Qed.

Lemma dscan_lower us l : forall ll nn after, dscan us ll nn (lower l) (lower after) = dscan us ll nn l after.
Proof.
  induction l as [|b r IH]; intros ll nn after; [reflexivity|]. cbn [map dscan].
  destruct (lower_tests b) as (H1 & H2 & H3 & H4 & H5 & H6). unfold ldh_alnum. rewrite H1, H2, H3, H4, H5, H6. rewrite <- map_app. rewrite nul_or_dot_lower. rewrite !IH. reflexivity.
Qed.

Lemma last_lower l : (code (last (lower l) NUL) =? 46) = (code (last l NUL) =? 46).
Proof.
  induction l as [|b r IH]; [reflexivity|]. cbn [map]. destruct r as [|c r'].
  - cbn. destruct (lower_tests b) as (_ & _ & _ & H & _). exact H.
  - exact IH.
Qed.

Theorem ascii_domain_lower us d : ascii_domain us (lower d) [] = ascii_domain us d [].
Proof.
  unfold ascii_domain. destruct d as [|b r]; [reflexivity|].
  rewrite map_length.
  unfold last_is_dot. rewrite last_lower.
  destruct (Nat.leb 255 (length (b :: r)) || (Nat.eqb (length (b :: r)) 254 && negb (code (last (b :: r) NUL) =? 46))); [reflexivity|].
  destruct (Nat.leb 2 (length (b :: r)) && (code (last (b :: r) NUL) =? 46)).
  - rewrite removelast_map. change [DOT] with (lower [DOT]). apply dscan_lower.
  - change (@nil byte) with (lower []). apply dscan_lower.
Qed.

(* ---- comparisons that fold case ---- *)
Lemma ci_eqb_lower_r a b : ci_eqb a (lower b) = ci_eqb a b.
Proof.
  revert b. induction a as [|x a IH]; intros [|y b]; try reflexivity. cbn [map ci_eqb].
  rewrite lowerb_code, tolower_idem. rewrite IH. reflexivity.
Qed.
Lemma ci_eqb_lower_l a b : ci_eqb (lower a) b = ci_eqb a b.
Proof. rewrite ci_eqb_sym, ci_eqb_lower_r, ci_eqb_sym. reflexivity. Qed.

Lemma strncaseeq_lower_r a b n : strncaseeq a (lower b) n = strncaseeq a b n.
Proof.
  revert a b. induction n as [|n IH]; intros a b; [destruct a; reflexivity|]. destruct a as [|x a], b as [|y b]; try reflexivity.
  cbn [map strncaseeq]. rewrite lowerb_code, tolower_idem. rewrite IH. reflexivity.
Qed.
Lemma strncaseeq_lower_l a b n : strncaseeq (lower a) b n = strncaseeq a b n.
Proof.
  revert a b. induction n as [|n IH]; intros a b; [destruct a; reflexivity|]. destruct a as [|x a], b as [|y b]; try reflexivity.
  cbn [map strncaseeq]. rewrite lowerb_code, tolower_idem. rewrite IH. reflexivity.
Qed.

Lemma check_in_lower names l : check_in names (lower l) = check_in names l.
Proof. unfold check_in. induction names as [|n r IH]; [reflexivity|]. cbn [existsb]. rewrite strncaseeq_lower_l, IH. reflexivity. Qed.

Lemma tld_lookup_lower tbl l : tld_lookup tbl (lower l) = tld_lookup tbl l.
Proof.
  unfold tld_lookup. destruct l as [|b r]; [reflexivity|].
  assert (H : forall t, find (fun r0 : tld_row => let '(n, len, _) := r0 in strncaseeq n (lower (b :: r)) len) t =
                      find (fun r0 : tld_row => let '(n, len, _) := r0 in strncaseeq n (b :: r) len) t).
  { induction t as [|[[n len] ty] t IH]; [reflexivity|]. cbn [find]. rewrite strncaseeq_lower_r, IH. reflexivity. }
  rewrite H. reflexivity.
Qed.

(* ---- splitting at dots commutes with case folding ---- *)
Lemma beqb_dot_lower b : beqb (lowerb b) DOT = beqb b DOT.
Proof. unfold beqb. destruct (lower_tests b) as (_ & _ & _ & H & _). exact H. Qed.

Lemma split_first_lower l : split_first DOT (lower l) = match split_first DOT l with Some (p, s) => Some (lower p, lower s) | None => None end.
Proof.
  induction l as [|b r IH]; [reflexivity|]. cbn [map split_first]. rewrite beqb_dot_lower. destruct (beqb b DOT); [reflexivity|]. rewrite IH. destruct (split_first DOT r) as [[p s]|]; reflexivity.
Qed.
Lemma split_last_lower l : split_last DOT (lower l) = match split_last DOT l with Some (p, s) => Some (lower p, lower s) | None => None end.
Proof.
  induction l as [|b r IH]; [reflexivity|]. cbn [map split_last]. rewrite IH.
  destruct (split_last DOT r) as [[p s]|]; [reflexivity|]. rewrite beqb_dot_lower. destruct (beqb b DOT); reflexivity.
Qed.
Lemma count_dots_lower l : count_dots (lower l) = count_dots l.
Proof.
  unfold count_dots. induction l as [|b r IH]; [reflexivity|]. cbn [map filter]. rewrite beqb_dot_lower.
  destruct (beqb b DOT); cbn [length]; fold (lower r); rewrite IH; reflexivity.
Qed.
Lemma skip_labels_lower k l : skip_labels k (lower l) = lower (skip_labels k l).
Proof.
  revert l. induction k as [|k IH]; intros l; [reflexivity|]. cbn [skip_labels]. rewrite split_first_lower.
  destruct (split_first DOT l) as [[p s]|]; [apply IH|reflexivity].
Qed.
Lemma first_label_lower l : first_label (lower l) = lower (first_label l).
Proof. unfold first_label. rewrite split_first_lower. destruct (split_first DOT l) as [[p s]|]; reflexivity. Qed.
Lemma last_lower_dot l : beqb (last (lower l) NUL) DOT = beqb (last l NUL) DOT.
Proof. unfold beqb. apply last_lower. Qed.

Theorem special_domain_lower d : special_domain (lower d) = special_domain d.
Proof.
  unfold special_domain. rewrite count_dots_lower. rewrite map_length.
  rewrite check_in_lower, last_lower_dot, skip_labels_lower, split_first_lower.
  destruct (Nat.eqb (count_dots d) 0); [reflexivity|].
  destruct (split_first DOT (skip_labels ((if beqb (last d NUL) DOT then count_dots d - 1 else count_dots d) - 1) d)) as [[l1 after]|]; [|reflexivity].
  rewrite first_label_lower. rewrite !map_length.
  rewrite ci_eqb_lower_r, !check_in_lower. reflexivity.
Qed.

Theorem tld_verdict_lower tbl d : tld_verdict tbl (lower d) = tld_verdict tbl d.
Proof.
  unfold tld_verdict. rewrite special_domain_lower. destruct (special_domain d); [reflexivity|].
  rewrite split_last_lower. destruct (split_last DOT d) as [[p t]|]; [apply tld_lookup_lower|reflexivity].
Qed.

(* ---- C10 for all-ASCII domains ---- *)
Section Ascii.
Variable idn : list byte -> idn_res.
Variable g : cfg.
Variable tbl : list tld_row.

(* If the IDN library maps an ASCII domain to its lower-case form (what libidn2 does), the 6531 verdict on d is
   the ASCII-mode verdict on d; and if the IDN library refuses d, the code is the IDN error *)
Theorem ascii_domain_same_verdict t d : d <> [] ->
  (forall a, idn d = IdnOk a -> a = lower d) ->
  (exists e b, idn d = IdnErr e b /\ fst (utf8_domain idn g tbl t d) = E_IDN) \/
  fst (utf8_domain idn g tbl t d) =
    (let r := ascii_domain (uscore g) d [] in if negb (r =? 0)%Z then r else if t then tld_verdict tbl d else 0%Z).
Proof.
  intros Hne Hlow. unfold utf8_domain. destruct d as [|b r]; [congruence|].
  destruct (idn (b :: r)) as [a|e buf] eqn:Ei; [|left; exists e, buf; split; reflexivity].
  right. rewrite (Hlow a eq_refl). cbv zeta. rewrite ascii_domain_lower.
  destruct (negb (ascii_domain (uscore g) (b :: r) [] =? 0)%Z); [reflexivity|].
  destruct t; cbn [negb fst]; [apply tld_verdict_lower|reflexivity].
Qed.
End Ascii.
