(* Properties_C20.v — C20: the eav tool: one verdict per line, agreeing with the library.
   (Memory safety and normal termination of the real process are the runtime half: ASan build, see the check.) *)
From Coq Require Import List NArith ZArith Lia Bool.
From Coq Require Import Strings.Byte.
Require Import Bytes Codes Local6531 Utf8Spec Cli CliProofs Special CliA.
Import ListNotations.
From Coq Require Strings.String.
Import Strings.String.StringSyntax.
Local Open Scope string_scope.

(* exactly one verdict per non-comment line, in input order, each the library's decision on the trimmed line
   (line terminator, one leading space, one trailing blank removed) *)
Theorem C20_one_verdict_per_line :
  forall lib f,
    verdicts lib f = map (fun t => fst (lib t)) (flat_map (fun ln => match trim_line ln with Some t => [t] | None => [] end) (file_lines f)).
Proof. exact verdicts_one_per_line. Qed.
Print Assumptions C20_one_verdict_per_line.

(* a PASS line, or a FAIL line followed by the library's message *)
Theorem C20_output_shape :
  forall lib f,
    tool_output lib f =
    flat_map (fun t => let '(ok, msg) := lib t in
                       if ok then [bs_pass ++ sanitize t] else [bs_fail ++ sanitize t; bs_indent ++ msg])
             (flat_map (fun ln => match trim_line ln with Some t => [t] | None => [] end) (file_lines f)).
Proof. exact output_shape. Qed.
Print Assumptions C20_output_shape.

(* a line that is well-formed UTF-8 without control characters is echoed unchanged *)
Theorem C20_echo_unchanged :
  forall l, wf_utf8 l -> no_ctrl l -> sanitize l = l.
Proof. exact echo_unchanged. Qed.
Print Assumptions C20_echo_unchanged.

(* the echo buffer: sanitize_utf8 asks for length * 4 + 1 bytes; what it writes, terminator included, always fits *)
Theorem C20_echo_buffer_suffices :
  forall l, (length (sanitize l) + 1 <= length l * 4 + 1)%nat.
Proof. exact sanitize_fits. Qed.
Print Assumptions C20_echo_buffer_suffices.

(* the line handling of parse_file over the buffer getline() filled (read >= 1 bytes + terminator, NULs allowed inside):
   line[read - 2], line[read - 1], line[0], strlen, cp[len - 1] and the NUL stores never leave the buffer, and what is handed to
   eav_is_email — pointer line + cp with cp <= 1, length len, the C string found there — is exactly trim_line's answer *)
Theorem C20_line_handling_access_model :
  forall ln, ln <> [] -> agrees (trimT (ln ++ [NUL]) (length ln)) (trim_line ln) (S (length ln)).
Proof. exact trimT_refines. Qed.
Print Assumptions C20_line_handling_access_model.

Example C20_example :
  file_lines (bs "a@b.c" ++ [x0d; x0a] ++ bs "#x" ++ [x0a; x0a] ++ bs " y ") = [bs "a@b.c" ++ [x0d; x0a]; bs "#x" ++ [x0a]; [x0a]; bs " y "] /\
  trim_line (bs "a@b.c" ++ [x0d; x0a]) = Some (bs "a@b.c") /\ trim_line (bs "#x" ++ [x0a]) = None /\
  trim_line [x0a] = Some [] /\ trim_line (bs " y ") = Some (bs "y") /\ trim_line (bs "z" ++ [x0d]) = Some (bs "z" ++ [x0d]) /\
  sanitize ([x01; xff] ++ bs "ok" ++ [xd0; xb0]) = bs "0x010xffok" ++ [xd0; xb0].
Proof. repeat split; vm_compute; reflexivity. Qed.
