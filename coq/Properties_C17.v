(* Properties_C17.v — C17: build options change exactly what they document and nothing else. *)
From Coq Require Import List NArith ZArith Lia Bool.
From Coq Require Import Strings.Byte.
Require Import Bytes Codes Local Local6531 Domain Ip Special Email OptionProofs.
Import ListNotations.
From Coq Require Strings.String.
Import Strings.String.StringSyntax.
Local Open Scope string_scope.

(* RFC6531_FOLLOW_RFC20: rejects exactly the local parts with one of # ^ ` { | } ~ outside quotes *)
Theorem C17_rfc20 :
  forall g l, f5322 g = false ->
    (local6531 (with_rfc20 g true) l = 0%Z <->
     local6531 (with_rfc20 g false) l = 0%Z /\ rfc20_free (unquoted Out l)).
Proof. exact rfc20_option. Qed.
Print Assumptions C17_rfc20.

(* LABELS_ALLOW_UNDERSCORE: a host name is judged as the default build judges it with '_' read as a letter
   (same decision, same error code) *)
Theorem C17_underscore :
  forall d rest, ascii_domain true d rest = ascii_domain false (map ua d) (map ua rest).
Proof. exact uscore_option. Qed.
Print Assumptions C17_underscore.

(* RFC6531_FOLLOW_RFC5322: mode 6531 judges pure-ASCII local parts as mode 5322 does (same code) *)
Theorem C17_follow_5322 :
  forall l rest, ascii_nz l -> local6531 g5322 l = local M5322 l rest.
Proof. exact f5322_option. Qed.
Print Assumptions C17_follow_5322.

(* nothing else moves: the ASCII modes see only the underscore option (and only in the host-name scanner);
   the 6531 scanner sees only the two RFC6531_* options; address literals, reserved names, TLD lookup and policy
   take no option at all (their models have no configuration parameter) *)
Theorem C17_ascii_modes_untouched :
  forall idn g1 g2 tbl am t a, uscore g1 = uscore g2 ->
    email idn g1 tbl (MA am) t a = email idn g2 tbl (MA am) t a.
Proof. exact ascii_modes_ignore_6531_options. Qed.
Print Assumptions C17_ascii_modes_untouched.
Theorem C17_mode_6531_sees_only_the_options :
  forall idn g1 g2 tbl t a, rfc20 g1 = rfc20 g2 -> f5322 g1 = f5322 g2 -> uscore g1 = uscore g2 ->
    email idn g1 tbl M6531 t a = email idn g2 tbl M6531 t a.
Proof. exact mode6531_depends_on_options_only. Qed.
Print Assumptions C17_mode_6531_sees_only_the_options.

Example C17_example :
  local6531 (with_rfc20 cfg0 true) (bs "a#b") <> 0%Z /\ local6531 (with_rfc20 cfg0 true) (bs """a#b""") = 0%Z /\
  ascii_domain true (bs "a_b.c") [] = 0%Z /\ ascii_domain false (bs "a_b.c") [] <> 0%Z /\
  local6531 g5322 (bs """a b""") <> 0%Z /\ local6531 cfg0 (bs """a b""") = 0%Z /\ ascii_nz (bs """a b""").
Proof. repeat split; try (vm_compute; reflexivity); try (vm_compute; discriminate). repeat constructor; vm_compute; discriminate. Qed.
