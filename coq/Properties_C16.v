(* Properties_C16.v — C16: the result record is consistent with the decision and the form of the domain. *)
From Coq Require Import List NArith ZArith Lia Bool.
From Coq Require Import Strings.Byte.
Require Import Bytes Codes Hex Local Local6531 LocalSpec LocalProofs Utf8Spec Local6531Spec Local6531Proofs Domain DomainSpec DomainProofs Ip Special SpecialProofs Email EmailProofs Api ApiProofs TldProofs EnumTie DiagProofs.
Require Gen.GenEnums.
Import ListNotations.
From Coq Require Strings.String.
Import Strings.String.StringSyntax.
Local Open Scope string_scope.

(* every result has one of three shapes:
   - rejected for a syntactic reason: negative code, no flag, no lpart/domain;
   - host-name domain: only is_domain set, lpart/domain are the two halves;
   - address literal accepted: code 0, exactly the flag of the family that parsed, domain without brackets *)
Theorem C16_result_shapes :
  forall idn g tbl m t a, shape a (email idn g tbl m t a).
Proof. exact email_shape. Qed.
Print Assumptions C16_result_shapes.

(* at most one flag, always *)
Theorem C16_at_most_one_flag :
  forall idn g tbl m t a, let r := email idn g tbl m t a in
    (is_ipv4 r && is_ipv6 r = false) /\ (is_ipv4 r && is_domain r = false) /\ (is_ipv6 r && is_domain r = false).
Proof.
  intros idn g tbl m t a. cbv zeta.
  destruct (email_shape idn g tbl m t a) as [(H4 & H6 & Hd & _) _ | l d _ _ _ _ H4 H6 Hd _ _ | l c f _ _ _ Hf _ H4 H6 Hd _ _];
    rewrite ?H4, ?H6, ?Hd; auto. destruct Hf as [-> | ->]; auto.
Qed.
Print Assumptions C16_at_most_one_flag.

(* accepted (code >= 0): exactly one flag and it matches the form of the domain part *)
Theorem C16_accepted_flag_matches_form :
  forall idn g tbl m t a, let r := email idn g tbl m t a in (0 <= rc r)%Z ->
    exists l d, a = l ++ AT :: d /\ ~ In AT d /\ lpart r = Some l /\
      ((hd NUL d <> LBR /\ is_domain r = true /\ is_ipv4 r = false /\ is_ipv6 r = false /\ domain r = Some d) \/
       (exists c f, d = LBR :: c ++ [RBR] /\ check_ip d = (0%Z, f) /\ is_domain r = false /\ domain r = Some c /\
          ((f = Fam4 /\ is_ipv4 r = true /\ is_ipv6 r = false) \/ (f = Fam6 /\ is_ipv4 r = false /\ is_ipv6 r = true)))).
Proof.
  intros idn g tbl m t a. cbv zeta. intros Hr.
  destruct (email_shape idn g tbl m t a) as [_ Hn | l d Ea Hat Hh Hne H4 H6 Hd Hl Hdm | l c f Ea Hat Hc Hf Hrc H4 H6 Hd Hl Hdm]; [lia| |].
  - exists l, d. repeat split; auto. left. auto.
  - exists l, (LBR :: c ++ [RBR]). repeat split; auto. right. exists c, f. repeat split; auto.
    destruct Hf as [-> | ->]; [left|right]; auto.
Qed.
Print Assumptions C16_accepted_flag_matches_form.

(* the code: 0 for an accepted address without TLD checking *)
Theorem C16_code_without_tld_check :
  forall idn g tbl m a, let r := email idn g tbl m false a in (0 <= rc r)%Z -> rc r = 0%Z.
Proof.
  intros idn g tbl m a. cbv zeta. intros Hr.
  destruct (email_shape idn g tbl m false a) as [_ Hn | l d _ _ _ _ _ _ Hd _ _ | l c f _ _ _ _ Hrc _ _ _ _ _]; [lia| |exact Hrc].
  apply host_rc_tld_off. exact Hd.
Qed.
Print Assumptions C16_code_without_tld_check.

(* ... the TLD class (1..9) or a negative code with it *)
Theorem C16_code_range :
  forall idn g tbl m t a, table_ok tbl ->
    (rc (email idn g tbl m t a) <= 0)%Z \/ (1 <= rc (email idn g tbl m t a) <= 9)%Z.
Proof. intros idn g tbl m t a Ht. apply email_rc_range. exact Ht. Qed.
Print Assumptions C16_code_range.

Example C16_example :
  let idn := fun d => IdnOk d in
  let r1 := email idn cfg0 tld_list (MA M822) true (bs "a@[IPv6:::1]") in
  let r2 := email idn cfg0 tld_list M6531 true (bs "a@b.org") in
  (is_ipv6 r1 = true /\ domain r1 = Some (bs "IPv6:::1") /\ rc r1 = 0%Z) /\
  (is_domain r2 = true /\ rc r2 = TLD_TYPE_GENERIC /\ lpart r2 = Some (bs "a")).
Proof. cbv zeta. repeat split; vm_compute; reflexivity. Qed.
