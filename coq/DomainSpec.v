(* DomainSpec.v — layer S for C04: host names as dot-separated LDH labels with the RFC 1035 limits. *)
From Coq Require Import List NArith ZArith Bool Lia Arith.
From Coq Require Import Strings.Byte.
Require Import Bytes Codes Domain.
Import ListNotations.
Local Open Scope N_scope.

(* letter, digit, hyphen (underscore too when the build option allows it) *)
Definition ldh (us : bool) (b : byte) : Prop := ldh_alnum us (code b) = true \/ code b = 45.

Definition label (us : bool) (l : list byte) : Prop :=
  (1 <= length l <= 63)%nat /\ Forall (ldh us) l /\ hd DOT l <> HYP /\ last l DOT <> HYP.

(* one or more labels separated by single dots *)
Inductive labels (us : bool) : list byte -> Prop :=
| lb_one l : label us l -> labels us l
| lb_more l r : label us l -> labels us r -> labels us (l ++ DOT :: r).

Definition numeric_char (b : byte) : Prop := is_digit (code b) = true \/ code b = 46.

(* d without its optional single root dot *)
Definition HostnameSpec (us : bool) (d : list byte) : Prop :=
  exists h, (d = h \/ d = h ++ [DOT]) /\ labels us h /\ (length h <= 253)%nat /\ ~ Forall numeric_char h.
