(* Properties_C04.v — C04: host-name domains are LDH labels within the RFC 1035 limits, not all-numeric. *)
From Coq Require Import List NArith ZArith Lia Bool.
From Coq Require Import Strings.Byte.
Require Import Bytes Codes Local6531 Domain DomainSpec DomainProofs Special Email EmailProofs.
Import ListNotations.
From Coq Require Strings.String.
Import Strings.String.StringSyntax.
Local Open Scope string_scope.

(* ASCII modes (and every caller that passes the terminator as end): decision = the specification *)
Theorem C04_ascii_domain :
  forall (us : bool) (d : list byte), nulfree d -> (ascii_domain us d [] = 0%Z <-> HostnameSpec us d).
Proof. exact ascii_domain_correct. Qed.
Print Assumptions C04_ascii_domain.

(* mode 6531: whatever is accepted has an A-label form (the IDN library's answer) that meets the same
   specification, with TLD checking off or on; the oracle is only assumed to return C strings *)
Theorem C04_utf8_domain :
  forall idn g tbl tld d,
    (forall a, idn d = IdnOk a -> nulfree a) ->
    (0 <= fst (utf8_domain idn g tbl tld d))%Z ->
    exists a, idn d = IdnOk a /\ HostnameSpec (uscore g) a.
Proof. exact utf8_domain_sound. Qed.
Print Assumptions C04_utf8_domain.

Example C04_example_accept :
  nulfree (bs "a-b.xn--p1ai.") /\ ascii_domain false (bs "a-b.xn--p1ai.") [] = 0%Z /\
  ascii_domain true (bs "a_b.c0m") [] = 0%Z.
Proof. split; [apply nulfreeb_spec; reflexivity|]. split; vm_compute; reflexivity. Qed.
Example C04_example_reject :
  ascii_domain false (bs "a..") [] <> 0%Z /\ ascii_domain false (bs "1.2") [] <> 0%Z /\
  ascii_domain false (bs "a_b.com") [] <> 0%Z /\ ascii_domain false (bs "a-.com") [] <> 0%Z.
Proof. repeat split; vm_compute; discriminate. Qed.
