(* LocalSpec.v — layer S for C02: the local-part grammar  word *("." word)  with the quoted-string
   content rules of RFC 822 / 5321 / 5322 as the property states them. *)
From Coq Require Import List NArith ZArith Bool Lia.
From Coq Require Import Strings.Byte.
Require Import Bytes Codes Local.
Import ListNotations.
Local Open Scope N_scope.

(* atom characters: printable ASCII other than space, DQUOTE, dot and the other specials *)
Definition atext (b : byte) : Prop :=
  33 <= code b <= 126 /\ is_special (code b) = false /\ code b <> 34 /\ code b <> 46.

(* an unescaped, non-white-space character of quoted content *)
Definition qtext (m : amode) (b : byte) : Prop :=
  code b <> 34 /\ code b <> 92 /\
  match m with
  | M822 => 1 <= code b <= 127 /\ code b <> 13
  | M5321 => 32 <= code b <= 126
  | M5322 => 1 <= code b <= 127 /\ is_ws (code b) = false
  end.

(* what a backslash may escape *)
Definition qpairable (m : amode) (b : byte) : Prop :=
  match m with
  | M5321 => 32 <= code b <= 126
  | _ => 1 <= code b <= 127
  end.

(* [qb m p q]: q is legal content of a quoted string whose preceding byte is p and which is
   followed by the closing DQUOTE.  p only matters for the RFC 5322 white-space rule. *)
Inductive qb (m : amode) : byte -> list byte -> Prop :=
| qb_nil p : qb m p []
| qb_text p b r : qtext m b -> qb m b r -> qb m p (b :: r)
| qb_pair p b r : qpairable m b -> qb m b r -> qb m p (BS :: b :: r)
| qb_fold p w r : m = M822 -> is_lwsp (code w) = true -> qb m w r -> qb m p (CR :: LF :: w :: r)
| qb_ws p b r : m = M5322 -> is_ws (code b) = true ->
    is_dq_or_ws (code p) = true \/ is_dq_or_ws (hd_code (r ++ [DQ])) = true ->
    qb m b r -> qb m p (b :: r).

Inductive word (m : amode) : list byte -> Prop :=
| w_atom a : a <> [] -> Forall atext a -> word m a
| w_quoted q : qb m DQ q -> word m (DQ :: q ++ [DQ]).

Inductive words (m : amode) : list byte -> Prop :=
| ws_one w : word m w -> words m w
| ws_more w r : word m w -> words m r -> words m (w ++ DOT :: r).

Definition LocalSpec (m : amode) (s : list byte) : Prop := words m s.
