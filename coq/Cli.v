(* Cli.v — model of the eav tool (bin/main.c parse_file, bin/main.h sanitize_utf8):
   what one input line becomes before it is handed to the library, and how it is echoed. *)
From Coq Require Import List NArith ZArith Bool Arith Lia.
From Coq Require Import Strings.Byte.
Require Import Bytes Codes Hex Local6531.
Import ListNotations.
Local Open Scope N_scope.

(* getline(): the file as lines, each with its terminating LF except possibly the last *)
Fixpoint lines_acc (cur : list byte) (l : list byte) : list (list byte) :=
  match l with
  | [] => match cur with [] => [] | _ => [rev cur] end
  | b :: r => if code b =? 10 then rev (b :: cur) :: lines_acc [] r else lines_acc (b :: cur) r
  end.
Definition file_lines (f : list byte) : list (list byte) := lines_acc [] f.

(* strip "\r\n", else "\n" *)
Definition strip_eol (ln : list byte) : list byte :=
  match rev ln with
  | n :: c :: r => if (code n =? 10) && (code c =? 13) then rev r
                   else if code n =? 10 then rev (c :: r) else ln
  | [n] => if code n =? 10 then [] else ln
  | [] => []
  end.

Definition drop_last_blank (l : list byte) : list byte :=
  match rev l with
  | x :: r => if (code x =? 32) || (code x =? 9) then rev r else l
  | [] => []
  end.

(* None = comment line (skipped); Some t = the C string handed to eav_is_email *)
Definition trim_line (ln : list byte) : option (list byte) :=
  let s := cstr (strip_eol ln) in
  match s with
  | b :: r => if code b =? 35 then None
              else Some (drop_last_blank (if code b =? 32 then r else s))
  | [] => Some []
  end.

(* "0x%02x" *)
Definition hexdig (n : N) : byte := byte_of_N (if n <? 10 then 48 + n else 87 + n).
Definition esc (v : N) : list byte := [x30; x78; hexdig (v / 16); hexdig (v mod 16)].

(* sanitize_utf8: control characters and ill-formed bytes are shown as 0xNN, everything else is copied *)
Fixpoint sanitize_fuel (fuel : nat) (l : list byte) : list byte :=
  match fuel with
  | O => []
  | S k =>
    match l with
    | [] => []
    | b :: r =>
      match utf8_next l with
      | Some (v, r') =>
        if (v <? 32) || (v =? 127) then esc v ++ sanitize_fuel k r'
        else firstn (length l - length r') l ++ sanitize_fuel k r'
      | None => esc (code b) ++ sanitize_fuel k r
      end
    end
  end.
Definition sanitize (l : list byte) : list byte := sanitize_fuel (S (length l)) l.

(* the verdict lines the tool prints for one file, given the library's decision and message *)
Section Tool.
Variable lib : list byte -> bool * list byte.   (* eav_is_email under default settings: (accepted, eav_errstr) *)

Definition bs_pass : list byte := [x50; x41; x53; x53; x3a; x20].            (* "PASS: " *)
Definition bs_fail : list byte := [x46; x41; x49; x4c; x3a; x20].            (* "FAIL: " *)
Definition bs_indent : list byte := [x20; x20; x20; x20; x20; x20].

Definition verdict_of (t : list byte) : list (list byte) :=
  let '(ok, msg) := lib t in
  if ok then [bs_pass ++ sanitize t] else [bs_fail ++ sanitize t; bs_indent ++ msg].

Definition tool_output (f : list byte) : list (list byte) :=
  flat_map (fun ln => match trim_line ln with Some t => verdict_of t | None => [] end) (file_lines f).

Definition verdicts (f : list byte) : list bool :=
  flat_map (fun ln => match trim_line ln with Some t => [fst (lib t)] | None => [] end) (file_lines f).
End Tool.
