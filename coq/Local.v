(* Local.v — B models of is_822_local, is_5321_local, is_5322_local (src/is_*_local.c).
   One recursion, three instances; every branch is one arm of the C loop body.
   [rest] = the bytes from [end] up to the terminator (only the RFC 822 fold test can look there). *)
From Coq Require Import List NArith ZArith Bool.
From Coq Require Import Strings.Byte.
Require Import Bytes Codes.
Import ListNotations.
Local Open Scope N_scope.

Inductive amode := M822 | M5321 | M5322.
Inductive st := Out | InQ | InQP.

Definition specials : list N := [40;41;60;62;64;44;59;58;92;91;93;32].
Definition is_special (c : N) : bool := existsb (N.eqb c) specials.
Definition is_ws (c : N) : bool := (c =? 10) || (c =? 13) || (c =? 9) || (c =? 32).
Definition is_lwsp (c : N) : bool := (c =? 9) || (c =? 32).
Definition is_dq_or_ws (c : N) : bool := (c =? 34) || is_ws c.

Definition final (s : st) : Z := match s with Out => 0%Z | _ => E_UNQUOTED end.

(* does this mode reject a control character met in state s? *)
Definition ctrl_rejected (m : amode) (s : st) : bool :=
  match m with
  | M5321 => true
  | _ => match s with Out => true | _ => false end
  end.

Definition hd_code (l : list byte) : N := match l with [] => 0 | n :: _ => code n end.

Fixpoint scan (m : amode) (rest : list byte) (s : st) (prev : option byte) (l : list byte) : Z :=
  match l with
  | [] => final s
  | b :: r =>
    let c := code b in
    if c =? 0 then final s else
    if 127 <? c then E_NOT_ASCII else
    if ctrl_rejected m s && is_cntrl c then E_CTRL else
    match s with
    | Out =>
      if c =? 34 then
        match prev with
        | None => scan m rest InQ (Some b) r
        | Some p => if code p =? 46 then scan m rest InQ (Some b) r else E_MQUOTE
        end
      else if c =? 46 then
        match prev with
        | None => E_MDOT
        | Some _ =>
          match r with
          | [] => E_MDOT
          | n :: _ => if code n =? 46 then E_TMD else scan m rest Out (Some b) r
          end
        end
      else if is_special c then E_SPECIAL
      else scan m rest Out (Some b) r
    | InQP => scan m rest InQ (Some b) r
    | InQ =>
      if c =? 34 then
        match r with
        | [] => scan m rest Out (Some b) r
        | n :: _ => if code n =? 46 then scan m rest Out (Some b) r else E_MQUOTE
        end
      else if c =? 92 then scan m rest InQP (Some b) r
      else
        match m with
        | M5321 => scan m rest InQ (Some b) r
        | M822 =>
          if c =? 13 then
            match r with
            | n1 :: n2 :: r' =>
              if (code n1 =? 10) && is_lwsp (code n2) then scan m rest InQ (Some n2) r' else E_FOLD
            | [n1] =>
              (* cp[2] is the byte at [end]; cp += 2 then leaves the range with the quote open *)
              if (code n1 =? 10) && is_lwsp (hd_code rest) then E_UNQUOTED else E_FOLD
            | [] => E_FOLD
            end
          else scan m rest InQ (Some b) r
        | M5322 =>
          if is_ws c then
            if match prev with Some p => is_dq_or_ws (code p) | None => false end
            then scan m rest InQ (Some b) r
            else match r with
                 | [] => scan m rest InQ (Some b) r
                 | n :: _ => if is_dq_or_ws (code n) then scan m rest InQ (Some b) r else E_UFWS
                 end
          else scan m rest InQ (Some b) r
        end
    end
  end.

Definition local (m : amode) (s rest : list byte) : Z :=
  match s with [] => E_LPART_EMPTY | _ => scan m rest Out None s end.
