(* Hex.v — decoding of the hexadecimal byte strings found in Gen/*.v *)
From Coq Require Import List NArith Strings.String Strings.Ascii.
From Coq Require Import Strings.Byte.
Import ListNotations.
Local Open Scope N_scope.

Definition hexval (a : ascii) : N :=
  let n := N_of_ascii a in
  if n <=? 57 then n - 48 else N.lor n 32 - 87.

Definition byte_of_N (n : N) : byte := match Byte.of_N n with Some b => b | None => x00 end.

Fixpoint unhex (s : string) : list byte :=
  match s with
  | String a (String b r) => byte_of_N (16 * hexval a + hexval b) :: unhex r
  | _ => []
  end.

Example unhex_ex : unhex "41ff0a" = [x41; xff; x0a].
Proof. reflexivity. Qed.
