(* CliProofs.v — C20: one verdict per non-comment line, in order, equal to the library's decision on the
   trimmed line; well-formed UTF-8 without control characters is echoed unchanged. *)
From Coq Require Import List NArith ZArith Bool Arith Lia.
From Coq Require Import Strings.Byte.
Require Import Bytes Codes Hex Local6531 Utf8Spec Utf8Proofs Local6531Proofs Cli.
Import ListNotations.
Local Open Scope N_scope.

Section Tool.
Variable lib : list byte -> bool * list byte.

(* exactly one verdict per non-comment line, in input order, equal to the library's decision on the trimmed line *)
Theorem verdicts_one_per_line f :
  verdicts lib f = map (fun t => fst (lib t)) (flat_map (fun ln => match trim_line ln with Some t => [t] | None => [] end) (file_lines f)).
Proof.
  unfold verdicts. induction (file_lines f) as [|ln r IH]; [reflexivity|]. cbn [flat_map].
  rewrite map_app, IH. destruct (trim_line ln); reflexivity.
Qed.

(* the printed lines: a PASS line, or a FAIL line followed by the library's message, per verdict *)
Theorem output_shape f :
  tool_output lib f =
  flat_map (fun t => let '(ok, msg) := lib t in
                     if ok then [bs_pass ++ sanitize t] else [bs_fail ++ sanitize t; bs_indent ++ msg])
           (flat_map (fun ln => match trim_line ln with Some t => [t] | None => [] end) (file_lines f)).
Proof.
  unfold tool_output. induction (file_lines f) as [|ln r IH]; [reflexivity|]. cbn [flat_map].
  rewrite flat_map_app, IH. destruct (trim_line ln); [cbn [flat_map]; rewrite app_nil_r; reflexivity|reflexivity].
Qed.
End Tool.

(* echo: a line that is well-formed UTF-8 without control characters is printed unchanged *)
Definition no_ctrl (l : list byte) : Prop := Forall (fun b => 32 <= code b /\ code b <> 127) l.

Lemma utf8_next_ascii b r : code b < 128 -> utf8_next (b :: r) = Some (code b, r).
Proof. intros H. cbn [utf8_next]. destruct (N.ltb_spec (code b) 128); [reflexivity|lia]. Qed.

Lemma utf8_next_wf e r : wf_nonascii e -> exists v, utf8_next (e ++ r) = Some (v, r) /\ 128 <= v.
Proof.
  intros [a b H | a b c H | a b c d H]; cbn [app utf8_next].
  - pose proof H as H'. unfold wf2b in H'. apply andb_true_iff in H' as (Ha & Hb). apply rng_spec in Ha, Hb.
    destruct (N.ltb_spec (code a) 128); [lia|].
    assert (L2 : is_lead2 (code a) = true) by (rewrite lead2_range; apply rng_spec; lia).
    pose proof (dec2_table a b) as T. rewrite H, L2 in T. rewrite L2, T. eexists. split; [reflexivity|]. unfold scalar2. lia.
  - pose proof H as H'. unfold wf3b in H'. apply andb_true_iff in H' as (Ha & Hc).
    rewrite !orb_true_iff, !andb_true_iff, !rng_spec in Ha. apply rng_spec in Hc.
    destruct (N.ltb_spec (code a) 128); [lia|].
    assert (L2 : is_lead2 (code a) = false) by (rewrite lead2_range; apply rng_false; lia).
    assert (L3 : is_lead3 (code a) = true) by (rewrite lead3_range; apply rng_spec; lia).
    pose proof (dec3_table a b c) as T. rewrite H, L3 in T. rewrite L2, L3, T. eexists. split; [reflexivity|]. unfold scalar3. lia.
  - pose proof H as H'. unfold wf4b in H'. rewrite !andb_true_iff in H'. destruct H' as ((Ha & Hc) & Hd).
    rewrite !orb_true_iff, !andb_true_iff, !rng_spec in Ha. apply rng_spec in Hc, Hd.
    destruct (N.ltb_spec (code a) 128); [lia|].
    assert (L2 : is_lead2 (code a) = false) by (rewrite lead2_range; apply rng_false; lia).
    assert (L3 : is_lead3 (code a) = false) by (rewrite lead3_range; apply rng_false; lia).
    assert (L4 : is_lead4 (code a) = true) by (rewrite lead4_range; apply rng_spec; lia).
    pose proof (dec4_table a b c d) as T. rewrite H, L4 in T. rewrite L2, L3, L4, T. eexists. split; [reflexivity|]. unfold scalar4. lia.
Qed.

Lemma firstn_app_exact {A} (e r : list A) : firstn (length (e ++ r) - length r) (e ++ r) = e.
Proof.
  rewrite app_length. replace (length e + length r - length r)%nat with (length e) by lia.
  rewrite firstn_app. rewrite Nat.sub_diag. cbn [firstn]. rewrite app_nil_r. apply firstn_all.
Qed.

Lemma sanitize_fuel_echo l : wf_utf8 l -> no_ctrl l -> forall fuel, (length l < fuel)%nat -> sanitize_fuel fuel l = l.
Proof.
  induction 1 as [|b r Hb Hr IH | e r He Hr IH]; intros Hc fuel Hf.
  - destruct fuel; reflexivity.
  - destruct fuel; [lia|]. cbn [length] in Hf. inversion Hc as [|? ? (Hb1 & Hb2) Hcr]; subst.
    cbn [sanitize_fuel]. rewrite utf8_next_ascii by exact Hb.
    destruct (N.ltb_spec (code b) 32); [lia|]. destruct (N.eqb_spec (code b) 127); [lia|]. cbn [orb].
    change (b :: r) with ([b] ++ r). rewrite firstn_app_exact. cbn [app]. f_equal. apply IH; [exact Hcr|lia].
  - destruct fuel; [rewrite app_length in Hf; lia|].
    destruct (wf_lead e He) as (a & t & Ee & _).
    assert (Hce : no_ctrl r) by (unfold no_ctrl in *; apply Forall_app in Hc; tauto).
    destruct (utf8_next_wf e r He) as (v & Ev & Hv).
    rewrite Ee in *. cbn [app sanitize_fuel]. change (a :: t ++ r) with ((a :: t) ++ r). rewrite Ev.
    destruct (N.ltb_spec v 32); [lia|]. destruct (N.eqb_spec v 127); [lia|]. cbn [orb].
    rewrite firstn_app_exact. f_equal. apply IH; [exact Hce|]. rewrite app_length in Hf. cbn [length] in *. lia.
Qed.

Theorem echo_unchanged l : wf_utf8 l -> no_ctrl l -> sanitize l = l.
Proof. intros Hw Hc. unfold sanitize. apply sanitize_fuel_echo; auto. Qed.

(* ---- the output buffer of sanitize_utf8: length * 4 + 1 bytes are enough ---- *)
Lemma utf8_next_consumes l v r : utf8_next l = Some (v, r) -> exists k, (1 <= k)%nat /\ length l = (k + length r)%nat.
Proof.
  unfold utf8_next. destruct l as [|b t]; [discriminate|].
  destruct (code b <? 128). { intros H. inversion H; subst. exists 1%nat. cbn [length]. split; lia. }
  destruct (is_lead2 (code b)).
  { destruct t as [|c1 t1]; [discriminate|]. destruct (dec2 b c1); [|discriminate]. intros H. inversion H; subst. exists 2%nat. cbn [length]. split; lia. }
  destruct (is_lead3 (code b)).
  { destruct t as [|c1 [|c2 t2]]; try discriminate. destruct (dec3 b c1 c2); [|discriminate]. intros H. inversion H; subst. exists 3%nat. cbn [length]. split; lia. }
  destruct (is_lead4 (code b)); [|discriminate].
  destruct t as [|c1 [|c2 [|c3 t3]]]; try discriminate. destruct (dec4 b c1 c2 c3); [|discriminate]. intros H. inversion H; subst. exists 4%nat. cbn [length]. split; lia.
Qed.

Lemma sanitize_fuel_bound : forall fuel l, (length (sanitize_fuel fuel l) <= 4 * length l)%nat.
Proof.
  induction fuel as [|fuel IH]; intros l; [cbn; lia|].
  cbn [sanitize_fuel]. destruct l as [|b t]; [cbn; lia|].
  destruct (utf8_next (b :: t)) as [[v r']|] eqn:E.
  - destruct (utf8_next_consumes _ _ _ E) as (k & Hk & Hl). specialize (IH r').
    destruct ((v <? 32) || (v =? 127)); rewrite app_length.
    + unfold esc. cbn [length] in *. lia.
    + rewrite firstn_length. cbn [length] in *. lia.
  - rewrite app_length. specialize (IH t). unfold esc. cbn [length] in *. lia.
Qed.

(* pos never exceeds 4 * length, so the terminator written at sanitized[pos] is inside the length * 4 + 1 bytes requested *)
Theorem sanitize_fits l : (length (sanitize l) + 1 <= length l * 4 + 1)%nat.
Proof. unfold sanitize. pose proof (sanitize_fuel_bound (S (length l)) l). lia. Qed.

(* what is handed to the library is a contiguous part of the line: at most one leading space, the terminator and at most one trailing blank are cut *)
Lemma drop_last_blank_prefix l : exists q, l = drop_last_blank l ++ q /\ (length q <= 1)%nat.
Proof.
  unfold drop_last_blank. destruct (rev l) as [|x r] eqn:E.
  - apply (f_equal (@rev byte)) in E. rewrite rev_involutive in E. cbn in E. subst. exists []. split; [reflexivity|cbn; lia].
  - destruct ((code x =? 32) || (code x =? 9)).
    + exists [x]. split; [|cbn; lia]. apply (f_equal (@rev byte)) in E. rewrite rev_involutive in E. cbn [rev] in E. exact E.
    + exists []. split; [rewrite app_nil_r; reflexivity|cbn; lia].
Qed.
