(* Email.v — B models of basic_email_check / check_tld / check_ip (include/eav/private_email.h),
   is_{822,5321,5322}_email (src/), is_utf8_domain and is_6531_email (partial/idn2/).
   The IDN conversion is a parameter [idn]; nothing is assumed about it here. *)
From Coq Require Import List NArith ZArith Bool Arith.
From Coq Require Import Strings.Byte.
Require Import Bytes Codes Local Local6531 Domain Ip Special.
Import ListNotations.
Local Open Scope Z_scope.

Inductive idn_res :=
| IdnOk (a : list byte)              (* IDN2_OK, output buffer = a *)
| IdnErr (code : Z) (buf : bool).    (* error code; was an output buffer handed back? *)

Record result := mkres {
  rc : Z; idn_rc : Z;
  is_ipv4 : bool; is_ipv6 : bool; is_domain : bool;
  lpart : option (list byte); domain : option (list byte)   (* EAV_EXTRA *)
}.

Definition res_rc (r : Z) : result := mkres r 0 false false false None None.

Inductive mode := MA (m : amode) | M6531.

Section Email.
Variable idn : list byte -> idn_res.
Variable g : cfg.
Variable tbl : list tld_row.

(* check_tld() as the ASCII composers run it on the domain as written *)
Definition tld_verdict (d : list byte) : Z :=
  if special_domain d then TLD_TYPE_SPECIAL
  else match split_last DOT d with
       | None => E_NOT_FQDN
       | Some (_, t) => tld_lookup tbl t
       end.

(* is_utf8_domain: returns (rc, idn_rc) *)
Definition utf8_domain (tld : bool) (d : list byte) : Z * Z :=
  match d with
  | [] => (E_DOMAIN_EMPTY, 0)
  | _ =>
    match idn d with
    | IdnErr e _ => (E_IDN, e)
    | IdnOk a =>
      let r := ascii_domain (uscore g) a [] in
      if negb (r =? 0) then (r, 0)
      else if negb tld then (0, 0)
      else (tld_verdict a, 0)
    end
  end.

Definition ip_result (l d : list byte) : result :=
  match check_ip d with
  | (r, Fam4) => mkres r 0 true false false (Some l)
                   (match split_last RBR d with Some (p, _) => Some (tl p) | None => None end)
  | (r, Fam6) => mkres r 0 false true false (Some l)
                   (match split_last RBR d with Some (p, _) => Some (tl p) | None => None end)
  | (r, FamNone) => res_rc r
  end.

Definition local_of (m : mode) (l rest : list byte) : Z :=
  match m with
  | MA am => local am l rest
  | M6531 => local6531 g l
  end.

Definition email (m : mode) (tld : bool) (a : list byte) : result :=
  match a with
  | [] => res_rc E_EMAIL_EMPTY
  | _ =>
    match split_last AT a with
    | None => res_rc E_DOMAIN_EMPTY
    | Some (l, d) =>
      match d with
      | [] => res_rc E_DOMAIN_EMPTY
      | d0 :: _ =>
        if Nat.ltb 64 (length l) then res_rc E_LPART_TOO_LONG else
        let r := local_of m l (AT :: d) in
        if negb (r =? 0) then res_rc r else
        if beqb d0 LBR then ip_result l d else
        match m with
        | MA _ =>
          let r := ascii_domain (uscore g) d [] in
          if negb (r =? 0) then res_rc r
          else mkres (if tld then tld_verdict d else 0) 0 false false true (Some l) (Some d)
        | M6531 =>
          let '(r, ir) := utf8_domain tld d in
          if 0 <=? r then mkres r ir false false true (Some l) (Some d)
          else mkres r ir false false false None None
        end
      end
    end
  end.
End Email.
