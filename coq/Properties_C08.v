(* Properties_C08.v — C08: allow_tld / tld_check policy. *)
From Coq Require Import List NArith ZArith Lia Bool.
From Coq Require Import Strings.Byte.
Require Import Bytes Codes Hex Local Local6531 LocalSpec LocalProofs Utf8Spec Local6531Spec Local6531Proofs Domain DomainSpec DomainProofs Ip Special SpecialProofs Email EmailProofs Api ApiProofs TldProofs EnumTie.
Require Gen.GenEnums.
Import ListNotations.
From Coq Require Strings.String.
Import Strings.String.StringSyntax.
Local Open Scope string_scope.

(* class k (1..9) is accepted iff bit k+1 of allow_tld is set, for an arbitrary integer mask;
   the recorded error is "no error" or EEAV_TLD_INVALID + k *)
Theorem C08_policy :
  forall s r k, (1 <= k <= 9)%Z -> rc r = k ->
    snd (judge s r) = ORet (if Z.testbit (e_allow s) (k + 1) then 1 else 0)%Z /\
    e_errcode (fst (judge s r)) = (if Z.testbit (e_allow s) (k + 1) then EEAV_NO_ERROR else EEAV_TLD_INVALID + k)%Z.
Proof. exact judge_policy. Qed.
Print Assumptions C08_policy.

(* each class is governed by its own bit and no other: masks that agree on bit k+1 decide alike *)
Theorem C08_own_bit_only :
  forall s1 s2 r k, (1 <= k <= 9)%Z -> rc r = k ->
    Z.testbit (e_allow s1) (k + 1) = Z.testbit (e_allow s2) (k + 1) ->
    snd (judge s1 r) = snd (judge s2 r).
Proof.
  intros s1 s2 r k Hk Hr Hb. destruct (judge_policy s1 r k Hk Hr) as (-> & _).
  destruct (judge_policy s2 r k Hk Hr) as (-> & _). rewrite Hb. reflexivity.
Qed.
Print Assumptions C08_own_bit_only.

(* the bit tested for class k is the public EAV_TLD_x constant, and the error is the public EEAV_TLD_x *)
Theorem C08_bits_are_the_public_constants :
  [ GenEnums.g_EAV_TLD_NOT_ASSIGNED; GenEnums.g_EAV_TLD_COUNTRY_CODE; GenEnums.g_EAV_TLD_GENERIC;
    GenEnums.g_EAV_TLD_GENERIC_RESTRICTED; GenEnums.g_EAV_TLD_INFRASTRUCTURE; GenEnums.g_EAV_TLD_SPONSORED;
    GenEnums.g_EAV_TLD_TEST; GenEnums.g_EAV_TLD_SPECIAL; GenEnums.g_EAV_TLD_RETIRED ]
  = map class_bit [1; 2; 3; 4; 5; 6; 7; 8; 9]%Z /\
  map class_err [1; 2; 3; 4; 5; 6; 7; 8; 9]%Z =
  [ GenEnums.g_EEAV_TLD_NOT_ASSIGNED; GenEnums.g_EEAV_TLD_COUNTRY_CODE; GenEnums.g_EEAV_TLD_GENERIC;
    GenEnums.g_EEAV_TLD_GENERIC_RESTRICTED; GenEnums.g_EEAV_TLD_INFRASTRUCTURE; GenEnums.g_EEAV_TLD_SPONSORED;
    GenEnums.g_EEAV_TLD_TEST; GenEnums.g_EEAV_TLD_SPECIAL; GenEnums.g_EEAV_TLD_RETIRED ].
Proof. split; [exact allow_bits_match|exact class_err_match]. Qed.
Print Assumptions C08_bits_are_the_public_constants.

(* a negative code (unlisted TLD, non-FQDN, any syntax error) is rejected whatever the mask; code 0 accepted *)
Theorem C08_mask_irrelevant_for_nonclasses :
  forall s1 s2 r, (rc r <= 0)%Z ->
    snd (judge s1 r) = snd (judge s2 r) /\ e_errcode (fst (judge s1 r)) = e_errcode (fst (judge s2 r)).
Proof. exact judge_mask_irrelevant. Qed.
Print Assumptions C08_mask_irrelevant_for_nonclasses.

(* address literals are not subject to the policy: neither the table, nor tld_check matters, and the code is <= 0 *)
Theorem C08_literals_outside_policy :
  forall idn g tbl1 tbl2 t1 t2 m l d, ~ In AT d -> hd NUL d = LBR ->
    email idn g tbl1 m t1 (l ++ AT :: d) = email idn g tbl2 m t2 (l ++ AT :: d).
Proof. exact literal_independent. Qed.
Print Assumptions C08_literals_outside_policy.

(* with TLD checking off neither the TLD table (hence the TLD and FQDN-ness) nor allow_tld matters *)
Theorem C08_tld_check_off :
  forall idn g tbl1 tbl2 m a s1 s2,
    email idn g tbl1 m false a = email idn g tbl2 m false a /\
    (table_ok tbl1 ->
     snd (judge s1 (email idn g tbl1 m false a)) = snd (judge s2 (email idn g tbl1 m false a))).
Proof.
  intros idn g tbl1 tbl2 m a s1 s2. split; [apply tld_off_table_independent|]. intros Ht.
  apply judge_mask_irrelevant.
  destruct (email_shape idn g tbl1 m false a) as [_ Hr | l d _ _ _ _ _ _ Hd _ _ | l c f _ _ _ _ Hr _ _ _ _ _]; try lia.
  rewrite (host_rc_tld_off idn g tbl1 m a Hd). lia.
Qed.
Print Assumptions C08_tld_check_off.

(* eav_init: mode 6531, TLD checking on, every class except not-assigned, test and retired
   (GenEnums.g_init is what the built library's eav_init leaves, dumped on this run) *)
Theorem C08_defaults :
  GenEnums.g_init =
  [ ("rfc", (EAV_RFC_6531, EAV_RFC_6531)); ("allow_tld", (default_mask, default_mask));
    ("tld_check", (1, 1)); ("utf8", (0, 0)); ("errcode", (0, 0)); ("idnmsg", (0, 0)); ("initialized", (0, 0));
    ("utf8_cb", (0, 0)); ("ascii_cb", (0, 0)); ("result", (0, 0)) ]%Z /\
  default_mask = (GenEnums.g_EAV_TLD_COUNTRY_CODE + GenEnums.g_EAV_TLD_GENERIC + GenEnums.g_EAV_TLD_GENERIC_RESTRICTED +
                  GenEnums.g_EAV_TLD_INFRASTRUCTURE + GenEnums.g_EAV_TLD_SPONSORED + GenEnums.g_EAV_TLD_SPECIAL)%Z /\
  Z.land default_mask (GenEnums.g_EAV_TLD_NOT_ASSIGNED + GenEnums.g_EAV_TLD_TEST + GenEnums.g_EAV_TLD_RETIRED) = 0%Z.
Proof. split; [reflexivity|exact default_mask_is_documented]. Qed.
Print Assumptions C08_defaults.

Example C08_example :
  let s := init_state 0 in
  snd (judge s (res_rc TLD_TYPE_GENERIC)) = ORet 1 /\ snd (judge s (res_rc TLD_TYPE_TEST)) = ORet 0 /\
  snd (judge (set_mask s (-1)) (res_rc TLD_TYPE_RETIRED)) = ORet 1.
Proof. cbv zeta. repeat split; vm_compute; reflexivity. Qed.
