(* Sched.v — C14: threads that each own their eav_t.  A step of thread t touches component t only, so
   whatever the interleaving, every thread observes what it would observe running alone.  The premise that
   the library has no other state is the regenerated inventory GenGlobals.mutable_globals = [] (objects of
   libeav.a in writable sections). *)
From Coq Require Import List NArith ZArith Bool Arith Lia.
From Coq Require Import Strings.Byte Strings.String.
Require Import Bytes Codes Local Local6531 Domain Ip Special Email Api.
Require Gen.GenGlobals.
Import ListNotations.

Section Sched.
Variable idn : list byte -> idn_res.    (* the conversion is a function of its argument: no hidden state *)
Variable g : cfg.
Variable tbl : list tld_row.

Definition sys := nat -> eav.
Definition upd (s : sys) (t : nat) (e : eav) : sys := fun u => if Nat.eqb u t then e else s u.

(* a schedule: which thread performs which operation next *)
Fixpoint run_sched (s : sys) (sc : list (nat * op)) : sys * list (nat * out) :=
  match sc with
  | [] => (s, [])
  | (t, o) :: r =>
    let '(e, x) := step idn g tbl (s t) o in
    let '(s', xs) := run_sched (upd s t e) r in
    (s', (t, x) :: xs)
  end.

Definition project (t : nat) (sc : list (nat * op)) : list op :=
  map snd (filter (fun p => Nat.eqb (fst p) t) sc).
Definition outputs_of (t : nat) (xs : list (nat * out)) : list out :=
  map snd (filter (fun p => Nat.eqb (fst p) t) xs).

Lemma upd_same s t e : upd s t e t = e.
Proof. unfold upd. rewrite Nat.eqb_refl. reflexivity. Qed.
Lemma upd_other s t e u : u <> t -> upd s t e u = s u.
Proof. intros H. unfold upd. destruct (Nat.eqb_spec u t); [contradiction|reflexivity]. Qed.

(* schedule independence: thread t's final state and outputs under any interleaving are those of running
   its own operations alone from its own initial state *)
Theorem schedule_independent sc : forall s t,
  fst (run_sched s sc) t = fst (run idn g tbl (s t) (project t sc)) /\
  outputs_of t (snd (run_sched s sc)) = snd (run idn g tbl (s t) (project t sc)).
Proof.
  induction sc as [|[u o] r IH]; intros s t; [split; reflexivity|].
  cbn [run_sched]. destruct (step idn g tbl (s u) o) as [e x] eqn:Es.
  destruct (run_sched (upd s u e) r) as [s' xs] eqn:Er. cbn [fst snd].
  specialize (IH (upd s u e) t). rewrite Er in IH. cbn [fst snd] in IH.
  unfold project, outputs_of in *. cbn [filter fst].
  destruct (Nat.eqb_spec u t) as [->|Hne].
  - cbn [map snd run]. rewrite upd_same in IH. rewrite Es.
    destruct (run idn g tbl e (map snd (filter (fun p => Nat.eqb (fst p) t) r))) as [s2 ys]. cbn [fst snd] in *.
    destruct IH as (IH1 & IH2). split; [exact IH1|]. f_equal. exact IH2.
  - rewrite upd_other in IH by (intros E; apply Hne; symmetry; exact E). exact IH.
Qed.

(* two schedules with the same per-thread programs give every thread the same outcomes *)
Corollary same_programs_same_outcomes sc1 sc2 s t : project t sc1 = project t sc2 ->
  outputs_of t (snd (run_sched s sc1)) = outputs_of t (snd (run_sched s sc2)).
Proof.
  intros H. destruct (schedule_independent sc1 s t) as (_ & ->). destruct (schedule_independent sc2 s t) as (_ & ->).
  rewrite H. reflexivity.
Qed.
End Sched.

(* the library owns no writable static storage: nothing outside the caller's eav_t / result record is written *)
Lemma no_mutable_globals : GenGlobals.mutable_globals = [].
Proof. reflexivity. Qed.
(* nor does it call a libc function that keeps hidden static state (strtok, rand, localtime, ...): what a race detector cannot see *)
Lemma no_unsafe_libc_calls : GenGlobals.unsafe_libc_calls = [].
Proof. reflexivity. Qed.
