(* Local6531A.v — layer A for C06: utf8_decode_next (get / cont / the_index / the_length / the_byte) and
   is_6531_local (start[prev], start[pos + 1], start + pos + 1 == end) re-expressed over a bounds-checked
   buffer with the C code's own index arithmetic, and the proof that this access model never faults and
   computes exactly the functional model (Local6531.v).  start = index 0, end = index e = the_length. *)
From Coq Require Import List NArith ZArith Bool Arith Lia.
From Coq Require Import Strings.Byte.
Require Import Bytes Codes Local Local6531 LocalA.
Import ListNotations.
Local Open Scope N_scope.

(* what utf8_decode_next hands back: a scalar value with the new the_index and the_byte, UTF8_END or UTF8_ERROR *)
Inductive dres := DChar (v : N) (idx' pos : nat) | DEnd | DErr.

Section A.
Variable g : cfg.
Variable buf : list byte.
Variable e : nat.

Let rd := rd buf.

(* get(): UTF8_END when the_index >= the_length, else the byte, the_index += 1 *)
Definition getA (idx : nat) (k : option byte -> nat -> resA) : resA :=
  if Nat.leb e idx then k None idx else rd idx (fun b => k (Some b) (S idx)).

Definition opt_dres (o : option N) (idx' pos : nat) : dres :=
  match o with Some v => DChar v idx' pos | None => DErr end.

(* utf8_decode_next(): every cont() of a branch is executed before the results are looked at, as in C *)
Definition nextA (idx : nat) (k : dres -> resA) : resA :=
  if Nat.leb e idx then k (if Nat.eqb idx e then DEnd else DErr) else
  getA idx (fun ob i1 =>
    match ob with
    | None => k DErr
    | Some b =>
      let c := code b in
      if c <? 128 then k (DChar c i1 idx)
      else if is_lead2 c then
        getA i1 (fun o1 i2 =>
          k (opt_dres (match o1 with Some c1 => dec2 b c1 | None => None end) i2 idx))
      else if is_lead3 c then
        getA i1 (fun o1 i2 => getA i2 (fun o2 i3 =>
          k (opt_dres (match o1, o2 with Some c1, Some c2 => dec3 b c1 c2 | _, _ => None end) i3 idx)))
      else if is_lead4 c then
        getA i1 (fun o1 i2 => getA i2 (fun o2 i3 => getA i3 (fun o3 i4 =>
          k (opt_dres (match o1, o2, o3 with Some c1, Some c2, Some c3 => dec4 b c1 c2 c3 | _, _, _ => None end) i4 idx))))
      else k DErr
    end).

Fixpoint scan6A (fuel idx prev : nat) (quote qpair : bool) : resA :=
  match fuel with
  | O => FuelA
  | S fuel' =>
    nextA idx (fun d =>
      match d with
      | DEnd => finalA quote
      | DErr => RetA E_UTF8
      | DChar ch idx' pos =>
        if 127 <? ch then
          if qpair then RetA E_NOT_ASCII else scan6A fuel' idx' pos quote qpair
        else
        if negb (f5322 g) && is_cntrl ch then RetA E_CTRL else
        let next := scan6A fuel' idx' pos in
        if negb quote then
          if f5322 g && negb qpair && is_cntrl ch then RetA E_CTRL else
          if ch =? 34 then
            if Nat.eqb pos 0 then next true qpair
            else rd prev (fun p => if code p =? 46 then next true qpair else RetA E_MQUOTE)
          else if ch =? 46 then
            let tail := if Nat.eqb pos 0 || Nat.eqb (S pos) e then RetA E_MDOT else next quote qpair in
            if Nat.leb 1 pos then rd prev (fun p => if code p =? 46 then RetA E_TMD else tail) else tail
          else if is_special ch || (rfc20 g && is_rfc20 ch) then RetA E_SPECIAL
          else next quote qpair
        else if qpair then next quote false
        else
          if ch =? 34 then
            if Nat.ltb (S pos) e
            then rd (S pos) (fun n => if code n =? 46 then next false qpair else RetA E_MQUOTE)
            else next false qpair
          else if ch =? 92 then next quote true
          else if f5322 g && is_ws ch then
            rd prev (fun p =>
              if is_dq_or_ws (code p) then next quote qpair
              else if Nat.ltb (S pos) e
                   then rd (S pos) (fun n =>
                          if 127 <? code n then next quote qpair
                          else if is_dq_or_ws (code n) then next quote qpair else RetA E_UFWS)
                   else next quote qpair)
          else next quote qpair
      end)
  end.

Definition local6531A : resA :=
  if Nat.eqb e 0 then RetA E_LPART_EMPTY else scan6A (S e) 0 0 false false.
End A.

(* ---------------------------------------------------------------- refinement *)
Lemma tl_skipn (l : list byte) i : tl (skipn i l) = skipn (S i) l.
Proof.
  revert l. induction i as [|i IH]; intros l.
  - destruct l; reflexivity.
  - destruct l as [|x l]; [reflexivity|]. cbn [skipn] in *. apply IH.
Qed.

Section Refine.
Variable g : cfg.
Variable s rest : list byte.
Let buf := s ++ rest.
Let e := length s.

Lemma load_in6 i : (i < e)%nat -> nth_error buf i = nth_error s i.
Proof. intros H. unfold buf. apply nth_error_app1. exact H. Qed.

Lemma nth_some6 i : (i < e)%nat -> exists b, nth_error s i = Some b.
Proof. intros H. destruct (nth_error s i) eqn:E; [eauto|]. apply nth_error_None in E. unfold e in H. lia. Qed.

(* get() seen from the list: the head of the unread suffix, if any *)
Lemma getA_spec idx k : (idx <= e)%nat ->
  getA buf e idx k = match skipn idx s with
                     | [] => k None idx
                     | b :: _ => k (Some b) (S idx)
                     end.
Proof.
  intros Hle. unfold getA. destruct (Nat.leb_spec e idx) as [Hge|Hlt].
  - rewrite skipn_all2 by (unfold e in Hge; lia). reflexivity.
  - destruct (nth_some6 idx Hlt) as (b & Eb). unfold LocalA.rd. rewrite load_in6 by exact Hlt. rewrite Eb.
    rewrite (skipn_cons s idx b Eb). reflexivity.
Qed.

Lemma skipn_S_tl idx b r : skipn idx s = b :: r -> skipn (S idx) s = r /\ (idx < e)%nat.
Proof.
  intros H. split.
  - rewrite <- tl_skipn. rewrite H. reflexivity.
  - destruct (Nat.lt_ge_cases idx e) as [Hl|Hg]; [exact Hl|]. rewrite skipn_all2 in H by (unfold e in Hg; lia). discriminate.
Qed.

(* the functional decoder step on the unread suffix, with indices *)
Definition dnext (idx : nat) (l : list byte) : dres :=
  match l with
  | [] => DEnd
  | b :: r =>
    let c := code b in
    if c <? 128 then DChar c (S idx) idx
    else if is_lead2 c then
      match r with c1 :: _ => opt_dres (dec2 b c1) (S (S idx)) idx | [] => DErr end
    else if is_lead3 c then
      match r with c1 :: c2 :: _ => opt_dres (dec3 b c1 c2) (S (S (S idx))) idx | _ => DErr end
    else if is_lead4 c then
      match r with c1 :: c2 :: c3 :: _ => opt_dres (dec4 b c1 c2 c3) (S (S (S (S idx)))) idx | _ => DErr end
    else DErr
  end.

Lemma nextA_spec idx k : (idx <= e)%nat -> nextA buf e idx k = k (dnext idx (skipn idx s)).
Proof.
  intros Hle. unfold nextA. destruct (Nat.leb_spec e idx) as [Hge|Hlt].
  - assert (idx = e) as -> by lia. rewrite Nat.eqb_refl. rewrite skipn_all2 by (unfold e; lia). reflexivity.
  - rewrite getA_spec by exact Hle. destruct (skipn idx s) as [|b r] eqn:E0.
    { exfalso. assert (length (skipn idx s) = 0%nat) as Hl by (rewrite E0; reflexivity). rewrite skipn_length in Hl. unfold e in Hlt. lia. }
    destruct (skipn_S_tl idx b r E0) as (E1 & _). cbn [dnext].
    destruct (code b <? 128); [reflexivity|].
    assert (H1 : (S idx <= e)%nat) by lia.
    destruct (is_lead2 (code b)).
    { rewrite getA_spec by exact H1. rewrite E1. destruct r as [|c1 r1]; reflexivity. }
    destruct (is_lead3 (code b)).
    { rewrite getA_spec by exact H1. rewrite E1. destruct r as [|c1 r1].
      - rewrite getA_spec by exact H1. rewrite E1. reflexivity.
      - destruct (skipn_S_tl (S idx) c1 r1 E1) as (E2 & H2). rewrite getA_spec by lia. rewrite E2.
        destruct r1 as [|c2 r2]; reflexivity. }
    destruct (is_lead4 (code b)); [|reflexivity].
    rewrite getA_spec by exact H1. rewrite E1. destruct r as [|c1 r1].
    { rewrite getA_spec by exact H1. rewrite E1. rewrite getA_spec by exact H1. rewrite E1. reflexivity. }
    destruct (skipn_S_tl (S idx) c1 r1 E1) as (E2 & H2). rewrite getA_spec by lia. rewrite E2.
    destruct r1 as [|c2 r2].
    { rewrite getA_spec by lia. rewrite E2. reflexivity. }
    destruct (skipn_S_tl (S (S idx)) c2 r2 E2) as (E3 & H3). rewrite getA_spec by lia. rewrite E3.
    destruct r2 as [|c3 r3]; reflexivity.
Qed.

Lemma dec2_big b c1 v : dec2 b c1 = Some v -> (127 <? v) = true.
Proof.
  unfold dec2. destruct (cont c1) as [v1|]; [|discriminate]. cbv zeta.
  destruct (N.leb_spec 128 (N.lor (N.shiftl (N.land (code b) 31) 6) v1)) as [H|H]; [|discriminate].
  intros E. inversion E; subst. apply N.ltb_lt. lia.
Qed.
Lemma dec3_big b c1 c2 v : dec3 b c1 c2 = Some v -> (127 <? v) = true.
Proof.
  unfold dec3. destruct (cont c1) as [v1|]; [|discriminate]. destruct (cont c2) as [v2|]; [|discriminate]. cbv zeta.
  match goal with |- context [2048 <=? ?r] => destruct (N.leb_spec 2048 r) as [H|H] end; [|discriminate].
  cbn [andb]. match goal with |- context [if ?c then _ else _] => destruct c end; [|discriminate].
  intros E. inversion E; subst. apply N.ltb_lt. lia.
Qed.
Lemma dec4_big b c1 c2 c3 v : dec4 b c1 c2 c3 = Some v -> (127 <? v) = true.
Proof.
  unfold dec4. destruct (cont c1) as [v1|]; [|discriminate]. destruct (cont c2) as [v2|]; [|discriminate].
  destruct (cont c3) as [v3|]; [|discriminate]. cbv zeta.
  match goal with |- context [65536 <=? ?r] => destruct (N.leb_spec 65536 r) as [H|H] end; [|discriminate].
  cbn [andb]. match goal with |- context [if ?c then _ else _] => destruct c end; [|discriminate].
  intros E. inversion E; subst. apply N.ltb_lt. lia.
Qed.

Lemma skipn_head idx b r : skipn idx s = b :: r -> nth_error s idx = Some b.
Proof.
  intros H. destruct (skipn_S_tl idx b r H) as (_ & Hlt). destruct (nth_some6 idx Hlt) as (b' & Eb).
  rewrite (skipn_cons s idx b' Eb) in H. inversion H; subst. exact Eb.
Qed.

Definition prevb (idx prev : nat) : option byte := match idx with O => None | S _ => nth_error s prev end.

Lemma blocked_st quote qpair : (quote = false -> qpair = false) -> nonascii_blocked (st_of quote qpair) = qpair.
Proof. destruct quote, qpair; cbn; intros H; try reflexivity. discriminate (H eq_refl). Qed.

Theorem scan6A_refines : forall fuel idx prev quote qpair,
  (e - idx < fuel)%nat -> (idx <= e)%nat ->
  (quote = false -> qpair = false) -> ((0 < idx)%nat -> (prev < idx)%nat) -> (quote = true -> (0 < idx)%nat) ->
  scan6A g buf e fuel idx prev quote qpair = RetA (scan6 g (st_of quote qpair) (prevb idx prev) (skipn idx s)).
Proof.
  induction fuel as [|fuel IH]; intros idx prev quote qpair Hf Hle Hq Hprev Hpos; [lia|].
  cbn [scan6A]. rewrite nextA_spec by exact Hle. destruct (skipn idx s) as [|b r] eqn:E0.
  { cbn [dnext scan6]. unfold finalA, st_of, final. destruct quote, qpair; reflexivity. }
  destruct (skipn_S_tl idx b r E0) as (E1 & Hlt). pose proof (skipn_head idx b r E0) as Hb.
  assert (Hnext : forall i' q qp, (idx < i')%nat -> (i' <= e)%nat -> (q = false -> qp = false) ->
            scan6A g buf e fuel i' idx q qp = RetA (scan6 g (st_of q qp) (Some b) (skipn i' s))).
  { intros i' q qp Hi Hi' Hq'. rewrite IH by (lia || exact Hq' || (intros _; lia)).
    unfold prevb. destruct i' as [|j]; [lia|]. rewrite Hb. reflexivity. }
  cbn [dnext scan6]. destruct (code b <? 128) eqn:Ea.
  - (* an ASCII character: the_index = idx + 1, the_byte = idx *)
    assert (127 <? code b = false) as -> by (apply N.ltb_lt in Ea; apply N.ltb_ge; lia).
    rewrite <- E1.
    assert (Hn1 : (S idx < e)%nat -> exists y, nth_error buf (S idx) = Some y /\ skipn (S idx) s = y :: skipn (S (S idx)) s).
    { intros Hx. destruct (nth_some6 (S idx) Hx) as (y & Ey). exists y. split; [rewrite load_in6 by exact Hx; exact Ey|apply skipn_cons; exact Ey]. }
    assert (Hn0 : ~ (S idx < e)%nat -> skipn (S idx) s = []).
    { intros Hx. apply skipn_all2. unfold e in Hx. lia. }
    assert (Hp : (0 < idx)%nat -> exists p, nth_error buf prev = Some p /\ prevb idx prev = Some p).
    { intros Hx. specialize (Hprev Hx). assert (Hpe : (prev < e)%nat) by lia. destruct (nth_some6 prev Hpe) as (p & Ep).
      exists p. split; [rewrite load_in6 by exact Hpe; exact Ep|]. unfold prevb. destruct idx; [lia|exact Ep]. }
    destruct (negb (f5322 g) && is_cntrl (code b)); [reflexivity|].
    destruct quote.
    + (* inside quotes *)
      specialize (Hpos eq_refl). cbn [negb]. destruct qpair; cbn [st_of].
      * apply (Hnext (S idx) true false); lia || discriminate.
      * destruct (N.eqb_spec (code b) 34).
        -- destruct (Nat.ltb_spec (S idx) e) as [H1|H1].
           ++ destruct (Hn1 H1) as (y & Ey & Es). unfold LocalA.rd. rewrite Ey, Es. destruct (code y =? 46); [|reflexivity].
              rewrite <- Es. apply (Hnext (S idx) false false); lia || reflexivity.
           ++ rewrite (Hn0 ltac:(lia)). rewrite <- (Hn0 ltac:(lia)). apply (Hnext (S idx) false false); lia || reflexivity.
        -- destruct (N.eqb_spec (code b) 92); [apply (Hnext (S idx) true true); lia || discriminate|].
           destruct (f5322 g && is_ws (code b)); [|apply (Hnext (S idx) true false); lia || discriminate].
           destruct (Hp Hpos) as (p & Ep & Epb). unfold LocalA.rd. rewrite Ep, Epb.
           destruct (is_dq_or_ws (code p)); [apply (Hnext (S idx) true false); lia || discriminate|].
           destruct (Nat.ltb_spec (S idx) e) as [H1|H1].
           ++ destruct (Hn1 H1) as (y & Ey & Es). rewrite Ey, Es.
              destruct (127 <? code y); cbn [orb]; [rewrite <- Es; apply (Hnext (S idx) true false); lia || discriminate|].
              destruct (is_dq_or_ws (code y)); [|reflexivity]. rewrite <- Es. apply (Hnext (S idx) true false); lia || discriminate.
           ++ rewrite (Hn0 ltac:(lia)). rewrite <- (Hn0 ltac:(lia)). apply (Hnext (S idx) true false); lia || discriminate.
    + (* outside quotes *)
      rewrite (Hq eq_refl). cbn [negb st_of]. rewrite andb_true_r.
      destruct (f5322 g && is_cntrl (code b)); [reflexivity|].
      destruct (N.eqb_spec (code b) 34).
      * destruct idx as [|i].
        -- change (Nat.eqb 0 0) with true. cbn [prevb]. apply (Hnext 1%nat true false); lia || discriminate.
        -- change (Nat.eqb (S i) 0) with false. destruct (Hp ltac:(lia)) as (p & Ep & Epb). unfold LocalA.rd. rewrite Ep, Epb.
           destruct (code p =? 46); [apply (Hnext (S (S i)) true false); lia || discriminate|reflexivity].
      * destruct (N.eqb_spec (code b) 46).
        -- destruct idx as [|i].
           ++ reflexivity.
           ++ change (Nat.leb 1 (S i)) with true. change (Nat.eqb (S i) 0) with false. cbn [orb].
              destruct (Hp ltac:(lia)) as (p & Ep & Epb). unfold LocalA.rd. rewrite Ep, Epb.
              destruct (code p =? 46); [reflexivity|].
              destruct (Nat.eqb_spec (S (S i)) e) as [E2|N2].
              ** rewrite (Hn0 ltac:(lia)). reflexivity.
              ** assert (H1 : (S (S i) < e)%nat) by lia. destruct (Hn1 H1) as (y & Ey & Es). rewrite Es. rewrite <- Es.
                 apply (Hnext (S (S i)) false false); lia || reflexivity.
        -- destruct (is_special (code b) || (rfc20 g && is_rfc20 (code b))); [reflexivity|].
           apply (Hnext (S idx) false false); lia || reflexivity.
  - (* a multi-byte character *)
    destruct (is_lead2 (code b)).
    { destruct r as [|c1 r1]; [reflexivity|]. destruct (skipn_S_tl (S idx) c1 r1 E1) as (E2 & H2).
      destruct (dec2 b c1) as [v|] eqn:Ed; cbn [opt_dres]; [|reflexivity].
      rewrite (dec2_big _ _ _ Ed). rewrite (blocked_st _ _ Hq). destruct qpair; [reflexivity|].
      rewrite <- E2. apply Hnext; lia || exact Hq. }
    destruct (is_lead3 (code b)).
    { destruct r as [|c1 [|c2 r2]]; [reflexivity|reflexivity|]. destruct (skipn_S_tl (S idx) c1 _ E1) as (E2 & H2).
      destruct (skipn_S_tl (S (S idx)) c2 r2 E2) as (E3 & H3).
      destruct (dec3 b c1 c2) as [v|] eqn:Ed; cbn [opt_dres]; [|reflexivity].
      rewrite (dec3_big _ _ _ _ Ed). rewrite (blocked_st _ _ Hq). destruct qpair; [reflexivity|].
      rewrite <- E3. apply Hnext; lia || exact Hq. }
    destruct (is_lead4 (code b)); [|reflexivity].
    destruct r as [|c1 [|c2 [|c3 r3]]]; [reflexivity|reflexivity|reflexivity|]. destruct (skipn_S_tl (S idx) c1 _ E1) as (E2 & H2).
    destruct (skipn_S_tl (S (S idx)) c2 _ E2) as (E3 & H3). destruct (skipn_S_tl (S (S (S idx))) c3 r3 E3) as (E4 & H4).
    destruct (dec4 b c1 c2 c3) as [v|] eqn:Ed; cbn [opt_dres]; [|reflexivity].
    rewrite (dec4_big _ _ _ _ _ Ed). rewrite (blocked_st _ _ Hq). destruct qpair; [reflexivity|].
    rewrite <- E4. apply Hnext; lia || exact Hq.
Qed.

(* the access model of the whole function: never a fault, never out of fuel, and the functional model's result;
   whatever lies at and after the end pointer (rest) is never looked at *)
Theorem local6531A_refines : local6531A g buf e = RetA (local6531 g s).
Proof.
  unfold local6531A, local6531. destruct (Nat.eqb_spec e 0) as [E0|N0].
  - unfold e in E0. apply length_zero_iff_nil in E0. rewrite E0. reflexivity.
  - rewrite scan6A_refines by (lia || discriminate || reflexivity). cbn [st_of prevb skipn].
    destruct s as [|b r]; [exfalso; apply N0; reflexivity|reflexivity].
Qed.
End Refine.

(* with the buffer cut off right at the end pointer — not even the terminator present — the access model still never faults:
   the decoder and the scanner read no byte at or after start + length, and none before start *)
Corollary local6531A_reads_below_end g s :
  local6531A g s (length s) = RetA (local6531 g s).
Proof. pose proof (local6531A_refines g s []) as H. rewrite app_nil_r in H. exact H. Qed.
