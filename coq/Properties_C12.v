(* Properties_C12.v — C12: modes differ only where the RFCs differ. *)
From Coq Require Import List NArith ZArith Lia Bool.
From Coq Require Import Strings.Byte.
Require Import Bytes Codes Local Local6531 LocalSpec Domain Ip Special Email CrossMode.
Import ListNotations.
From Coq Require Strings.String.
Import Strings.String.StringSyntax.
Local Open Scope string_scope.

(* on a pure-ASCII local part without DQUOTE and backslash the four scanners return the same code *)
Theorem C12_plain_local_parts_agree :
  forall m rest l, plain l ->
    local m l rest = local M5321 l [] /\ local M5321 l [] = local6531 cfg0 l.
Proof. exact plain_all_modes_agree. Qed.
Print Assumptions C12_plain_local_parts_agree.

(* hence the three ASCII composers return the same result record (decision, error code, flags) *)
Theorem C12_plain_addresses_agree_ascii :
  forall idn g tbl m1 m2 t a,
    (forall l d, split_last AT a = Some (l, d) -> plain l) ->
    email idn g tbl (MA m1) t a = email idn g tbl (MA m2) t a.
Proof.
  intros idn g tbl m1 m2 t a H. apply email_ascii_same_local. intros l d E.
  destruct (plain_all_modes_agree m1 (AT :: d) l (H l d E)) as (E1 & _).
  destruct (plain_all_modes_agree m2 (AT :: d) l (H l d E)) as (E2 & _). congruence.
Qed.
Print Assumptions C12_plain_addresses_agree_ascii.

(* everything mode 5321 accepts, mode 822 accepts *)
Theorem C12_5321_included_in_822 :
  forall l r1 r2, nulfree l -> local M5321 l r1 = 0%Z -> local M822 l r2 = 0%Z.
Proof. exact incl_5321_822. Qed.
Print Assumptions C12_5321_included_in_822.

(* address level: an address that mode 5321 takes as far as a form flag (every accepted address carries one, C16)
   gets the identical result record - decision, class, flags, parts - from mode 822 *)
Theorem C12_5321_addresses_included_in_822 :
  forall idn g tbl t a, nulfree a ->
    (is_domain (email idn g tbl (MA M5321) t a) = true \/ is_ipv4 (email idn g tbl (MA M5321) t a) = true
     \/ is_ipv6 (email idn g tbl (MA M5321) t a) = true) ->
    email idn g tbl (MA M822) t a = email idn g tbl (MA M5321) t a.
Proof. exact addr_5321_in_822. Qed.
Print Assumptions C12_5321_addresses_included_in_822.

(* empty address, no AT, empty domain, local part over 64 bytes: the same record in all four modes (mode 6531 included) *)
Theorem C12_basic_rejections_mode_independent :
  forall idn g tbl (m1 m2 : mode) t a,
    a = [] \/ split_last AT a = None \/ (exists l, split_last AT a = Some (l, [])) \/
    (exists l d, split_last AT a = Some (l, d) /\ (64 < length l)%nat) ->
    email idn g tbl m1 t a = email idn g tbl m2 t a.
Proof. exact email_basic_rejections. Qed.
Print Assumptions C12_basic_rejections_mode_independent.

(* for a fixed domain part the ASCII modes report the same domain verdict, class and flags *)
Theorem C12_domain_verdict_mode_independent :
  forall idn g tbl m1 m2 t l1 l2 d,
    ~ In AT d -> d <> [] -> (length l1 <= 64)%nat -> (length l2 <= 64)%nat ->
    local m1 l1 (AT :: d) = 0%Z -> local m2 l2 (AT :: d) = 0%Z ->
    let r1 := email idn g tbl (MA m1) t (l1 ++ AT :: d) in
    let r2 := email idn g tbl (MA m2) t (l2 ++ AT :: d) in
    rc r1 = rc r2 /\ is_ipv4 r1 = is_ipv4 r2 /\ is_ipv6 r1 = is_ipv6 r2 /\ is_domain r1 = is_domain r2 /\ domain r1 = domain r2.
Proof. exact email_ascii_domain_verdict. Qed.
Print Assumptions C12_domain_verdict_mode_independent.

Example C12_example : plain (bs "a.b+c#d") /\ local M822 (bs "a..b") [] = local6531 cfg0 (bs "a..b") /\
  local M5321 (bs """\" ++ [x01] ++ bs """") [] <> 0%Z /\ local M822 (bs """\" ++ [x01] ++ bs """") [] = 0%Z.
Proof.
  split; [repeat constructor; cbv; try discriminate; intros H; discriminate H|].
  repeat split; vm_compute; try reflexivity; discriminate.
Qed.

(* the premise of C12_5321_addresses_included_in_822 is met by an ordinary address *)
Example C12_example_addr :
  nulfree (bs "a.b@c.de") /\
  is_domain (email (fun _ => IdnErr 0 false) cfg0 [] (MA M5321) false (bs "a.b@c.de")) = true.
Proof. split; [apply nulfreeb_spec|]; vm_compute; reflexivity. Qed.
