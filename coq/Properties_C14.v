(* Properties_C14.v — C14: concurrent validation equals sequential validation, no shared mutable state.
   Partial: the theorems are about the model (each thread's eav_t is its own component, the IDN conversion is a
   pure function, the library has no writable statics — the last premise is re-derived from the built libeav.a on
   every run); the race detector run (TSan) carries the runtime half. *)
From Coq Require Import List NArith ZArith Bool.
From Coq Require Import Strings.Byte.
Require Import Bytes Codes Local6531 Special Email Api Sched.
Require Gen.GenGlobals.
Import ListNotations.
From Coq Require Strings.String.
Import Strings.String.StringSyntax.
Local Open Scope string_scope.

Theorem C14_no_writable_static_storage : GenGlobals.mutable_globals = [].
Proof. exact no_mutable_globals. Qed.
Print Assumptions C14_no_writable_static_storage.
(* and no call into libc functions with hidden static state (strtok, rand, localtime, setlocale, ...; `nm -u libeav.a` on this run) *)
Theorem C14_no_hidden_libc_state : GenGlobals.unsafe_libc_calls = [].
Proof. exact no_unsafe_libc_calls. Qed.
Print Assumptions C14_no_hidden_libc_state.

Theorem C14_schedule_independent :
  forall idn g tbl sc s t,
    fst (run_sched idn g tbl s sc) t = fst (run idn g tbl (s t) (project t sc)) /\
    outputs_of t (snd (run_sched idn g tbl s sc)) = snd (run idn g tbl (s t) (project t sc)).
Proof. exact schedule_independent. Qed.
Print Assumptions C14_schedule_independent.

Theorem C14_same_programs_same_outcomes :
  forall idn g tbl sc1 sc2 s t, project t sc1 = project t sc2 ->
    outputs_of t (snd (run_sched idn g tbl s sc1)) = outputs_of t (snd (run_sched idn g tbl s sc2)).
Proof. exact same_programs_same_outcomes. Qed.
Print Assumptions C14_same_programs_same_outcomes.

Example C14_example :
  let idn := fun d => IdnOk d in
  let a := Special.bs "a@b.com" in let b := Special.bs "bad" in
  let sc1 := [(0, Init); (1, Init); (0, Setup); (1, SetRfc 0); (1, Setup); (0, IsEmail a); (1, IsEmail b)]%nat in
  let sc2 := [(1, Init); (1, SetRfc 0); (1, Setup); (1, IsEmail b); (0, Init); (0, Setup); (0, IsEmail a)]%nat in
  outputs_of 0 (snd (run_sched idn cfg0 [] (fun _ => init_state 0) sc1)) = outputs_of 0 (snd (run_sched idn cfg0 [] (fun _ => init_state 0) sc2)).
Proof. vm_compute. reflexivity. Qed.
