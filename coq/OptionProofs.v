(* OptionProofs.v — C17: what the three build options change, and nothing else. *)
From Coq Require Import List NArith ZArith Bool Lia Arith.
From Coq Require Import Strings.Byte.
Require Import Bytes Codes Local Local6531 LocalSpec LocalProofs Utf8Spec Utf8Proofs Local6531Spec Local6531Proofs CrossMode Domain.
Import ListNotations.
Local Open Scope N_scope.

(* ================= LABELS_ALLOW_UNDERSCORE ================= *)
(* '_' read as the letter 'a' *)
Definition ua (b : byte) : byte := if code b =? 95 then x61 else b.

Lemma ua_code b : code (ua b) = if code b =? 95 then 97 else code b.
Proof. unfold ua. destruct (code b =? 95); reflexivity. Qed.

Lemma ua_tests b :
  ldh_alnum true (code b) = ldh_alnum false (code (ua b)) /\
  is_digit (code b) = is_digit (code (ua b)) /\
  (code b =? 0) = (code (ua b) =? 0) /\ (code b =? 46) = (code (ua b) =? 46) /\ (code b =? 45) = (code (ua b) =? 45).
Proof.
  rewrite ua_code. destruct (N.eqb_spec (code b) 95) as [E|E].
  - rewrite E. repeat split; reflexivity.
  - unfold ldh_alnum. cbn [andb]. rewrite orb_false_r.
    assert ((code b =? 95) = false) as -> by (apply N.eqb_neq; exact E). rewrite orb_false_r. repeat split; reflexivity.
Qed.

Lemma nul_or_dot_map l : nul_or_dot (map ua l) = nul_or_dot l.
Proof. destruct l as [|b r]; [reflexivity|]. cbn. destruct (ua_tests b) as (_ & _ & -> & -> & _). reflexivity. Qed.

Lemma dscan_uscore l : forall ll nn after,
  dscan true ll nn l after = dscan false ll nn (map ua l) (map ua after).
Proof.
  induction l as [|b r IH]; intros ll nn after; [reflexivity|]. cbn [map dscan].
  destruct (ua_tests b) as (H1 & H2 & H3 & H4 & H5). rewrite <- H1, <- H2, <- H3, <- H4, <- H5.
  rewrite <- map_app, nul_or_dot_map. rewrite !IH. reflexivity.
Qed.

Lemma last_map_ua l : code (last (map ua l) NUL) =? 46 = (code (last l NUL) =? 46).
Proof.
  induction l as [|b r IH]; [reflexivity|]. cbn [map]. destruct r as [|c r'].
  - cbn. destruct (ua_tests b) as (_ & _ & _ & H & _). symmetry. exact H.
  - exact IH.
Qed.

Lemma removelast_map {A B} (f : A -> B) l : removelast (map f l) = map f (removelast l).
Proof. induction l as [|x l IH]; [reflexivity|]. cbn. destruct l; [reflexivity|]. cbn in *. rewrite IH. reflexivity. Qed.

(* with the option, a name is judged exactly as the default build judges it with '_' replaced by a letter *)
Theorem uscore_option d rest :
  ascii_domain true d rest = ascii_domain false (map ua d) (map ua rest).
Proof.
  unfold ascii_domain. destruct d as [|b r]; [reflexivity|]. cbn [map]. rewrite <- (map_cons ua b r).
  rewrite map_length. unfold last_is_dot. rewrite last_map_ua.
  destruct (Nat.leb 255 (length (b :: r)) || (Nat.eqb (length (b :: r)) 254 && negb (code (last (b :: r) NUL) =? 46))); [reflexivity|].
  destruct (Nat.leb 2 (length (b :: r)) && (code (last (b :: r) NUL) =? 46)).
  - rewrite removelast_map. rewrite dscan_uscore. reflexivity.
  - apply dscan_uscore.
Qed.

(* ================= RFC6531_FOLLOW_RFC20 ================= *)
(* the bytes met outside quoted strings (quote tracking on bytes: DQUOTE and backslash are ASCII) *)
Fixpoint unquoted (s : st) (l : list byte) : list byte :=
  match l with
  | [] => []
  | b :: r =>
    match s with
    | Out => if code b =? 34 then unquoted InQ r else b :: unquoted Out r
    | InQ => if code b =? 34 then unquoted Out r else if code b =? 92 then unquoted InQP r else unquoted InQ r
    | InQP => unquoted InQ r
    end
  end.

Definition rfc20_free (l : list byte) : Prop := Forall (fun b => is_rfc20 (code b) = false) l.

Lemma high_not_rfc20 b : 128 <= code b -> is_rfc20 (code b) = false.
Proof.
  intros H. unfold is_rfc20, rfc20_chars. cbn [existsb].
  repeat match goal with |- context [code b =? ?k] => destruct (N.eqb_spec (code b) k); [lia|] end. reflexivity.
Qed.

Lemma unquoted_wf s e r : wf_nonascii e -> s <> InQP ->
  exists u, unquoted s (e ++ r) = u ++ unquoted s r /\ rfc20_free u.
Proof.
  intros He Hs.
  assert (Hhigh : Forall (fun b => 128 <= code b) e).
  { destruct He as [a b H | a b c H | a b c d H].
    - unfold wf2b in H. rewrite !andb_true_iff, !rng_spec in H. repeat constructor; lia.
    - unfold wf3b in H. rewrite !andb_true_iff, !orb_true_iff, !andb_true_iff, !rng_spec in H. repeat constructor; lia.
    - unfold wf4b in H. rewrite !andb_true_iff, !orb_true_iff, !andb_true_iff, !rng_spec in H. repeat constructor; lia. }
  clear He. induction Hhigh as [|b e Hb _ IH]; [exists []; split; [reflexivity|constructor]|].
  destruct IH as (u & E & Hu). cbn [app unquoted].
  destruct (N.eqb_spec (code b) 34); [lia|]. destruct (N.eqb_spec (code b) 92); [lia|].
  destruct s; [|exists u; split; [exact E|exact Hu]|congruence].
  exists (b :: u). split; [cbn; rewrite E; reflexivity|]. constructor; [apply high_not_rfc20; exact Hb|exact Hu].
Qed.

Definition with_rfc20 (g : cfg) (v : bool) : cfg := {| rfc20 := v; f5322 := f5322 g; uscore := uscore g |}.

Lemma rfc20_lockstep g : f5322 g = false -> forall n l, (length l <= n)%nat -> forall s p,
  (scan6 (with_rfc20 g true) s p l = 0%Z <-> scan6 (with_rfc20 g false) s p l = 0%Z /\ rfc20_free (unquoted s l)).
Proof.
  intros Hf. induction n as [|n IH]; intros l Hl s p.
  { destruct l; [|cbn in Hl; lia]. cbn. split; [intros H; split; [exact H|constructor]|tauto]. }
  destruct l as [|b r]; [cbn; split; [intros H; split; [exact H|constructor]|tauto]|].
  cbn [length] in Hl.
  destruct (N.lt_ge_cases (code b) 128) as [Hasc|Hhigh].
  - rewrite !scan6_ascii by (cbn; assumption). cbn [rfc20 with_rfc20 andb].
    destruct (is_cntrl (code b)); [split; [discriminate|intros (H & _); discriminate H]|].
    destruct s; cbn [unquoted].
    + destruct (N.eqb_spec (code b) 34) as [E34|N34].
      * destruct p as [p|]; [destruct (code p =? 46); [|split; [discriminate|intros (H & _); discriminate H]]|]; (match goal with |- (scan6 _ _ _ ?l = _ <-> _) => apply (IH l); cbn [length] in *; lia end).
      * destruct (N.eqb_spec (code b) 46) as [E46|N46].
        -- assert (Hnr : is_rfc20 (code b) = false) by (rewrite E46; reflexivity).
           destruct p as [p|]; [|split; [discriminate|intros (H & _); discriminate H]].
           destruct (code p =? 46); [split; [discriminate|intros (H & _); discriminate H]|].
           destruct r as [|y r']; [split; [discriminate|intros (H & _); discriminate H]|].
           rewrite (IH (y :: r')) by lia. unfold rfc20_free. rewrite Forall_cons_iff. tauto.
        -- destruct (is_special (code b)); [cbn [orb]; split; [discriminate|intros (H & _); discriminate H]|]. cbn [orb].
           destruct (is_rfc20 (code b)) eqn:E20.
           ++ split; [discriminate|]. intros (_ & H). inversion H; subst. congruence.
           ++ rewrite (IH r) by lia. unfold rfc20_free. rewrite Forall_cons_iff. tauto.
    + destruct (N.eqb_spec (code b) 34) as [E34|N34].
      * destruct r as [|y r']; [cbn; split; [intros H; split; [exact H|constructor]|tauto]|].
        destruct (code y =? 46); [(match goal with |- (scan6 _ _ _ ?l = _ <-> _) => apply (IH l); cbn [length] in *; lia end)|split; [discriminate|intros (H & _); discriminate H]].
      * destruct (N.eqb_spec (code b) 92); (match goal with |- (scan6 _ _ _ ?l = _ <-> _) => apply (IH l); cbn [length] in *; lia end).
    + (match goal with |- (scan6 _ _ _ ?l = _ <-> _) => apply (IH l); cbn [length] in *; lia end).
  - (* a non-ASCII character: both builds decode it the same way *)
    split.
    + intros H. destruct (scan6_nonascii_inv _ _ _ _ _ Hhigh H) as (e & r' & E & He & Hblk & H' & Hlen).
      assert (Hs : s <> InQP) by (intros ->; discriminate Hblk).
      rewrite E. rewrite (scan6_utf8_step (with_rfc20 g false) s p e r' He). rewrite Hblk.
      destruct (wf_lead e He) as (a & t & Ee & _). assert (hd NUL e = b) as -> by (rewrite Ee in E; inversion E; subst; reflexivity).
      apply (IH r') in H'; [|cbn [length] in Hlen; lia]. destruct H' as (H1 & H2).
      split; [exact H1|]. destruct (unquoted_wf s e r' He Hs) as (u & Eu & Hu). rewrite Eu.
      apply Forall_app. split; assumption.
    + intros (H & Hq). destruct (scan6_nonascii_inv _ _ _ _ _ Hhigh H) as (e & r' & E & He & Hblk & H' & Hlen).
      assert (Hs : s <> InQP) by (intros ->; discriminate Hblk).
      rewrite E in Hq |- *. rewrite (scan6_utf8_step (with_rfc20 g true) s p e r' He). rewrite Hblk.
      destruct (wf_lead e He) as (a & t & Ee & _). assert (hd NUL e = b) as -> by (rewrite Ee in E; inversion E; subst; reflexivity).
      apply (IH r'); [cbn [length] in Hlen; lia|]. split; [exact H'|].
      destruct (unquoted_wf s e r' He Hs) as (u & Eu & Hu). rewrite Eu in Hq. apply Forall_app in Hq. tauto.
Qed.

(* the option rejects exactly the local parts that have one of # ^ ` { | } ~ outside quotes *)
Theorem rfc20_option g l : f5322 g = false ->
  (local6531 (with_rfc20 g true) l = 0%Z <->
   local6531 (with_rfc20 g false) l = 0%Z /\ rfc20_free (unquoted Out l)).
Proof.
  intros Hf. unfold local6531. destruct l as [|b r]; [split; [discriminate|intros (H & _); discriminate H]|].
  apply (rfc20_lockstep g Hf (length (b :: r))). lia.
Qed.

(* ================= RFC6531_FOLLOW_RFC5322 ================= *)
Definition g5322 : cfg := {| rfc20 := false; f5322 := true; uscore := false |}.

Definition ascii_nz (l : list byte) : Prop := Forall (fun b => 1 <= code b <= 127) l.

Lemma f5322_lockstep rest : forall n l, (length l <= n)%nat -> ascii_nz l -> forall s p, no_dd p l \/ s <> Out ->
  scan6 g5322 s p l = scan M5322 rest s p l.
Proof.
  induction n as [|n IH]; intros l Hl Ha s p Hdd.
  { destruct l; [reflexivity|cbn in Hl; lia]. }
  destruct l as [|b r]; [reflexivity|]. cbn [length] in Hl. inversion Ha as [|? ? Hb Hr]; subst.
  assert (Hrec : forall s' p', no_dd p' r \/ s' <> Out -> scan6 g5322 s' p' r = scan M5322 rest s' p' r).
  { intros s' p' H'. apply IH; [lia|exact Hr|exact H']. }
  cbn [scan6 scan]. destruct (N.ltb_spec (code b) 128); [|lia].
  destruct (N.eqb_spec (code b) 0); [lia|]. destruct (N.ltb_spec 127 (code b)); [lia|].
  cbn [f5322 g5322 rfc20 negb andb].
  destruct s; cbn [ctrl_rejected andb].
  - destruct (is_cntrl (code b)); [reflexivity|]. rewrite orb_false_r.
    destruct (N.eqb_spec (code b) 34).
    + destruct p as [p|]; [destruct (code p =? 46); [|reflexivity]|]; apply Hrec; right; discriminate.
    + destruct (N.eqb_spec (code b) 46) as [E46|N46].
      * destruct p as [p|]; [|reflexivity].
        assert (Hp : code p <> 46).
        { destruct Hdd as [Hdd|Hdd]; [|congruence]. cbn in Hdd. intros E. apply Hdd. auto. }
        destruct (N.eqb_spec (code p) 46); [contradiction|].
        destruct r as [|y r']; [reflexivity|].
        assert (b = DOT) as -> by (apply (byte_of_code _ 46); [exact E46|reflexivity]).
        destruct (N.eqb_spec (code y) 46) as [Ey|Ny].
        -- assert (y = DOT) as -> by (apply (byte_of_code _ 46); [exact Ey|reflexivity]).
           cbn [scan6]. rewrite code_DOT. reflexivity.
        -- apply Hrec. left. cbn. intros (_ & Hy). contradiction.
      * destruct (is_special (code b)); [reflexivity|]. apply Hrec. left.
        destruct r as [|y r']; cbn; [exact I|]. intros (Hb' & _). contradiction.
  - destruct (N.eqb_spec (code b) 34).
    + destruct r as [|y r']; [apply Hrec; left; exact I|]. destruct (code y =? 46); [|reflexivity].
      apply Hrec. left. cbn. rewrite e. intros (H34 & _). discriminate H34.
    + destruct (N.eqb_spec (code b) 92); [apply Hrec; right; discriminate|].
      destruct (is_ws (code b)).
      * destruct (match p with Some p0 => is_dq_or_ws (code p0) | None => false end); [apply Hrec; right; discriminate|].
        destruct r as [|y r']; [apply Hrec; right; discriminate|].
        inversion Hr as [|? ? Hy _]; subst. destruct (N.ltb_spec 127 (code y)); [lia|]. cbn [orb].
        destruct (is_dq_or_ws (code y)); [apply Hrec; right; discriminate|reflexivity].
      * apply Hrec. right. discriminate.
  - apply Hrec. right. discriminate.
Qed.

(* with the option, mode 6531 judges pure-ASCII local parts as mode 5322 does (same code) *)
Theorem f5322_option l rest : ascii_nz l -> local6531 g5322 l = local M5322 l rest.
Proof.
  intros Ha. unfold local6531, local. destruct l as [|b r]; [reflexivity|].
  apply (f5322_lockstep rest (length (b :: r))); [lia|exact Ha|left; exact I].
Qed.

(* ================= each option leaves everything else alone ================= *)
Require Import Ip Special Email.

Lemma scan6_cfg_ext g1 g2 : rfc20 g1 = rfc20 g2 -> f5322 g1 = f5322 g2 ->
  forall n l, (length l <= n)%nat -> forall s p, scan6 g1 s p l = scan6 g2 s p l.
Proof.
  intros H1 H2. induction n as [|n IH]; intros l Hl s p; [destruct l; [reflexivity|cbn in Hl; lia]|].
  destruct l as [|b r]; [reflexivity|]. cbn [length] in Hl. cbn [scan6]. rewrite <- H1, <- H2.
  repeat match goal with
         | |- context [if ?c then _ else _] => destruct c
         | |- context [match ?v with _ => _ end] => destruct v
         end; try reflexivity; apply IH; cbn [length] in *; lia.
Qed.

Theorem local6531_depends_on_two_options g1 g2 l : rfc20 g1 = rfc20 g2 -> f5322 g1 = f5322 g2 ->
  local6531 g1 l = local6531 g2 l.
Proof.
  intros H1 H2. unfold local6531. destruct l; [reflexivity|]. apply (scan6_cfg_ext g1 g2 H1 H2 (length (b :: l))). lia.
Qed.

(* the ASCII modes only see LABELS_ALLOW_UNDERSCORE; mode 6531 sees all three options *)
Theorem ascii_modes_ignore_6531_options idn g1 g2 tbl am t a : uscore g1 = uscore g2 ->
  email idn g1 tbl (MA am) t a = email idn g2 tbl (MA am) t a.
Proof.
  intros Hu. unfold email. destruct a; [reflexivity|]. destruct (split_last AT (b :: a)) as [[l d]|]; [|reflexivity].
  destruct d; [reflexivity|]. cbn [local_of]. rewrite Hu. reflexivity.
Qed.

Theorem mode6531_depends_on_options_only idn g1 g2 tbl t a :
  rfc20 g1 = rfc20 g2 -> f5322 g1 = f5322 g2 -> uscore g1 = uscore g2 ->
  email idn g1 tbl M6531 t a = email idn g2 tbl M6531 t a.
Proof.
  intros H1 H2 H3. unfold email. destruct a; [reflexivity|]. destruct (split_last AT (b :: a)) as [[l d]|]; [|reflexivity].
  destruct d; [reflexivity|]. cbn [local_of]. rewrite (local6531_depends_on_two_options g1 g2 l H1 H2).
  unfold utf8_domain, tld_verdict. rewrite H3. reflexivity.
Qed.
