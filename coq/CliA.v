(* CliA.v — layer A for the tool: the line handling of parse_file (bin/main.c) over the buffer getline() filled —
   line[read - 2], line[read - 1], line[0], strlen (cp), cp[len - 1], the three NUL stores — with every index checked
   against the buffer, refined to the model of Cli.v (trim_line).  getline() returned read >= 1 bytes and wrote a
   terminator after them; the bytes may contain NULs. *)
From Coq Require Import List NArith ZArith Bool Arith Lia.
From Coq Require Import Strings.Byte.
Require Import Bytes Codes Hex Local Local6531 Ip LocalA IpA Cli.
Import ListNotations.
Local Open Scope N_scope.

Inductive resT :=
| SkipT                                        (* comment line *)
| CallT (cp len : nat) (buf : list byte)       (* eav_is_email (eav, line + cp, len) on the buffer as it now is *)
| FaultT (i : nat)                             (* read or write outside the buffer *)
| UnderT.                                      (* index below 0: cp[len - 1] with len == 0, line[read - 1] with read == 0 *)

Definition rdT (buf : list byte) (i : nat) (k : byte -> resT) : resT :=
  match nth_error buf i with Some b => k b | None => FaultT i end.
Definition wrT (buf : list byte) (i : nat) (b : byte) (k : list byte -> resT) : resT :=
  if Nat.ltb i (length buf) then k (firstn i buf ++ b :: skipn (S i) buf) else FaultT i.

(* strlen (buf + i) *)
Fixpoint strlenT (buf : list byte) (fuel i n : nat) (k : nat -> resT) : resT :=
  match fuel with
  | O => FaultT i
  | S f => rdT buf i (fun b => if code b =? 0 then k n else strlenT buf f (S i) (S n) k)
  end.

Definition trimT (line : list byte) (read : nat) : resT :=
  let after_eol (buf : list byte) : resT :=
    rdT buf 0 (fun b0 =>
      if code b0 =? 35 then SkipT else
      let cp := if code b0 =? 32 then 1%nat else 0%nat in
      strlenT buf (S (length buf)) cp 0 (fun len =>
        if Nat.ltb 0 len then
          rdT buf (cp + len - 1) (fun x =>
            if (code x =? 32) || (code x =? 9) then wrT buf (cp + len - 1) NUL (fun buf' => CallT cp (len - 1) buf')
            else CallT cp len buf)
        else CallT cp len buf)) in
  let lf_only (buf : list byte) : resT :=
    if Nat.leb 1 read
    then rdT buf (read - 1) (fun n => if code n =? 10 then wrT buf (read - 1) NUL after_eol else after_eol buf)
    else after_eol buf in
  if Nat.leb 2 read
  then rdT line (read - 2) (fun c => rdT line (read - 1) (fun n =>
         if (code c =? 13) && (code n =? 10) then wrT line (read - 2) NUL after_eol else lf_only line))
  else lf_only line.

(* ---------------------------------------------------------------- refinement *)
Lemma cstr_app_nul a j : cstr (a ++ NUL :: j) = cstr a.
Proof.
  induction a as [|b r IH]; cbn [app cstr]; [reflexivity|]. destruct (code b =? 0); [reflexivity|]. rewrite IH. reflexivity.
Qed.

Lemma cstr_split l : exists j, l ++ [NUL] = cstr l ++ NUL :: j /\ nulfree (cstr l).
Proof.
  induction l as [|b r IH]; cbn [app cstr].
  - exists []. split; [reflexivity|constructor].
  - destruct (N.eqb_spec (code b) 0) as [E|E].
    + exists (r ++ [NUL]). split; [|constructor]. cbn [app]. f_equal. apply code_inj. rewrite E. reflexivity.
    + destruct IH as (j & Hj & Hn). exists j. split; [cbn [app]; rewrite Hj; reflexivity|constructor; assumption].
Qed.

Lemma cstr_nulfree_app c j : nulfree c -> cstr (c ++ NUL :: j) = c.
Proof. intros H. rewrite cstr_app_nul. apply cstr_nulfree. exact H. Qed.

Lemma nth_error_mid (p : list byte) x q : nth_error (p ++ x :: q) (length p) = Some x.
Proof. rewrite nth_error_app2 by lia. rewrite Nat.sub_diag. reflexivity. Qed.

Lemma write_mid (p : list byte) x q b k : wrT (p ++ x :: q) (length p) b k = k (p ++ b :: q).
Proof.
  unfold wrT. rewrite app_length. cbn [length]. destruct (Nat.ltb_spec (length p) (length p + S (length q))); [|lia].
  rewrite firstn_app, Nat.sub_diag, firstn_all. cbn [firstn]. rewrite app_nil_r.
  replace (S (length p)) with (length p + 1)%nat by lia. rewrite skipn_app.
  replace (length p + 1 - length p)%nat with 1%nat by lia.
  rewrite (skipn_all2 (n := length p + 1)) by lia. reflexivity.
Qed.

Lemma strlenT_spec buf : forall c fuel i n k j, skipn i buf = c ++ NUL :: j -> nulfree c -> (length c < fuel)%nat ->
  strlenT buf fuel i n k = k (n + length c)%nat.
Proof.
  induction c as [|b r IH]; intros fuel i n k j Hs Hn Hf; (destruct fuel as [|f]; [cbn in Hf; lia|]); cbn [strlenT]; unfold rdT.
  - assert (nth_error buf i = Some NUL) as -> by (apply (IpA.skipn_nth buf i NUL j); exact Hs). cbn. f_equal. lia.
  - destruct (IpA.skipn_nth buf i b (r ++ NUL :: j) Hs) as (Hb & Hr). rewrite Hb. inversion Hn; subst.
    destruct (N.eqb_spec (code b) 0); [contradiction|]. rewrite (IH f (S i) (S n) k j Hr) by (assumption || (cbn [length] in Hf; lia)).
    f_equal. cbn [length]. lia.
Qed.

Lemma drop_last_blank_snoc v x : drop_last_blank (v ++ [x]) = if (code x =? 32) || (code x =? 9) then v else v ++ [x].
Proof. unfold drop_last_blank. rewrite rev_app_distr. cbn [rev app]. destruct ((code x =? 32) || (code x =? 9)); [apply rev_involutive|reflexivity]. Qed.

(* the part after the line terminator has been cut: buf = s ++ NUL :: j with s the C string in it *)
Definition after_eolT (buf : list byte) : resT :=
  rdT buf 0 (fun b0 =>
    if code b0 =? 35 then SkipT else
    let cp := if code b0 =? 32 then 1%nat else 0%nat in
    strlenT buf (S (length buf)) cp 0 (fun len =>
      if Nat.ltb 0 len then
        rdT buf (cp + len - 1) (fun x =>
          if (code x =? 32) || (code x =? 9) then wrT buf (cp + len - 1) NUL (fun buf' => CallT cp (len - 1) buf')
          else CallT cp len buf)
      else CallT cp len buf)).

Definition trim_cstr (s : list byte) : option (list byte) :=
  match s with
  | b :: r => if code b =? 35 then None else Some (drop_last_blank (if code b =? 32 then r else s))
  | [] => Some []
  end.

Definition agrees (r : resT) (o : option (list byte)) (n : nat) : Prop :=
  match o with
  | None => r = SkipT
  | Some t => exists cp buf', r = CallT cp (length t) buf' /\ cstr (skipn cp buf') = t /\ length buf' = n /\ (cp <= 1)%nat
  end.

Lemma after_eol_spec s j : nulfree s -> agrees (after_eolT (s ++ NUL :: j)) (trim_cstr s) (length (s ++ NUL :: j)).
Proof.
  intros Hn. unfold after_eolT, trim_cstr. destruct s as [|b r].
  - cbn [app]. unfold rdT. cbn [nth_error]. change (code NUL) with 0. cbn [N.eqb].
    cbn [strlenT length]. unfold rdT. cbn [nth_error]. change (code NUL =? 0) with true. cbv iota. cbn [Nat.ltb Nat.leb].
    exists 0%nat, (NUL :: j). repeat split; try reflexivity. lia.
  - unfold rdT at 1. cbn [app nth_error]. destruct (code b =? 35); [reflexivity|]. inversion Hn as [|? ? Hb Hr]; subst.
    set (buf := b :: r ++ NUL :: j).
    set (cp := if code b =? 32 then 1%nat else 0%nat).
    set (u := if code b =? 32 then r else b :: r).
    assert (Hu : skipn cp buf = u ++ NUL :: j /\ nulfree u /\ (cp <= 1)%nat /\ (cp + length u = length (b :: r))%nat).
    { subst cp u buf. destruct (code b =? 32); cbn [skipn app length]; repeat split; try assumption; try lia. }
    destruct Hu as (Hsk & Hnu & Hcp & Hlen).
    assert (Hlb : length buf = (length (b :: r) + 1 + length j)%nat) by (subst buf; cbn [length]; rewrite app_length; cbn [length]; lia).
    rewrite (strlenT_spec buf u (S (length buf)) cp 0 _ j Hsk Hnu) by lia. cbn [Nat.add].
    destruct (Nat.ltb_spec 0 (length u)) as [Hpos|Hz].
    + (* the last byte of the C string *)
      destruct (exists_last (l := u)) as (v & x & Ev); [intros E; rewrite E in Hpos; cbn in Hpos; lia|].
      assert (Hbuf : buf = firstn cp buf ++ v ++ x :: NUL :: j).
      { rewrite <- (firstn_skipn cp buf) at 1. rewrite Hsk, Ev, <- app_assoc. reflexivity. }
      assert (Hidx : (cp + length u - 1 = length (firstn cp buf ++ v))%nat).
      { rewrite app_length, firstn_length, Ev, app_length. cbn [length]. lia. }
      rewrite Hidx. rewrite Hbuf at 1. rewrite app_assoc. unfold rdT. rewrite nth_error_mid.
      rewrite Ev, drop_last_blank_snoc.
      destruct ((code x =? 32) || (code x =? 9)).
      * rewrite Hbuf at 1. rewrite app_assoc. rewrite write_mid.
        exists cp, ((firstn cp buf ++ v) ++ NUL :: NUL :: j). split; [|split; [|split]].
        -- rewrite app_length. cbn [length]. replace (length v + 1 - 1)%nat with (length v) by lia. reflexivity.
        -- rewrite <- app_assoc. rewrite skipn_app. rewrite firstn_length. replace (cp - Nat.min cp (length buf))%nat with 0%nat by lia.
           rewrite (skipn_all2 (n := cp)) by (rewrite firstn_length; lia). cbn [app skipn].
           apply cstr_nulfree_app. rewrite Ev in Hnu. apply Forall_app in Hnu. tauto.
        -- rewrite !app_length. cbn [length]. rewrite Hbuf at 2. rewrite !app_length. cbn [length]. lia.
        -- exact Hcp.
      * exists cp, buf. rewrite <- Ev. split; [reflexivity|]. split; [rewrite Hsk; apply cstr_nulfree_app; exact Hnu|]. split; [reflexivity|exact Hcp].
    + assert (u = []) by (destruct u; [reflexivity|cbn in Hz; lia]). subst u. rewrite H in *.
      exists cp, buf. cbn [length]. split; [reflexivity|]. split; [rewrite Hsk; reflexivity|]. split; [reflexivity|exact Hcp].
Qed.

(* after_eolT depends on the buffer only through its C string and what follows it *)
Lemma after_eol_any buf q j : buf = q ++ NUL :: j -> agrees (after_eolT buf) (trim_cstr (cstr q)) (length buf).
Proof.
  intros ->. destruct (cstr_split q) as (j' & Hj & Hn).
  assert (E : q ++ NUL :: j = cstr q ++ NUL :: (j' ++ j)).
  { replace (q ++ NUL :: j) with ((q ++ [NUL]) ++ j) by (rewrite <- app_assoc; reflexivity). rewrite Hj, <- app_assoc. reflexivity. }
  rewrite E. apply after_eol_spec. exact Hn.
Qed.

Lemma trim_line_cstr ln : trim_line ln = trim_cstr (cstr (strip_eol ln)).
Proof. reflexivity. Qed.

Lemma agrees_len r o n1 n2 : agrees r o n1 -> n1 = n2 -> agrees r o n2.
Proof. intros H <-. exact H. Qed.

Ltac fin buf q j := eapply agrees_len; [apply (after_eol_any buf q j); rewrite <- ?app_assoc; reflexivity | match goal with H : _ = S (length _) |- _ => rewrite H end; repeat (rewrite app_length; cbn [length]); try (match goal with H : ?p = ?q ++ [?c] |- _ => rewrite H; repeat (rewrite app_length; cbn [length]) end); lia].

Theorem trimT_refines ln : ln <> [] ->
  agrees (trimT (ln ++ [NUL]) (length ln)) (trim_line ln) (S (length ln)).
Proof.
  intros Hne. rewrite trim_line_cstr. unfold trimT. fold after_eolT.
  remember (S (length ln)) as N eqn:EN.
  destruct (exists_last Hne) as (p & n & Ep).
  assert (Hstrip : strip_eol (p ++ [n]) =
    if code n =? 10 then match rev p with c :: r => if code c =? 13 then rev r else p | [] => [] end else p ++ [n]).
  { unfold strip_eol. rewrite rev_app_distr. cbn [rev app]. destruct (rev p) as [|c r] eqn:Er.
    - destruct (code n =? 10) eqn:En; [reflexivity|]. apply (f_equal (@rev byte)) in Er. rewrite rev_involutive in Er. cbn in Er. subst p. reflexivity.
    - assert (Ep' : p = rev r ++ [c]) by (apply (f_equal (@rev byte)) in Er; rewrite rev_involutive in Er; exact Er).
      destruct (code n =? 10); cbn [andb].
      + destruct (code c =? 13); [reflexivity|]. cbn [rev]. rewrite <- Ep'. reflexivity.
      + reflexivity. }
  rewrite Ep in *. rewrite Hstrip. rewrite app_length. cbn [length].
  replace (length p + 1 - 1)%nat with (length p) by lia.
  destruct p as [|p0 p'] eqn:Epp.
  - (* a one-byte line *)
    cbn [length app Nat.add]. change (Nat.leb 2 1) with false. change (Nat.leb 1 1) with true. cbv iota.
    unfold rdT at 1. cbn [Nat.sub nth_error rev]. destruct (code n =? 10) eqn:En.
    + change [n; NUL] with ([] ++ n :: [NUL]). rewrite (write_mid [] n [NUL]). cbn [app].
      fin [NUL; NUL] (@nil byte) [NUL].
    + fin [n; NUL] [n] (@nil byte).
  - rewrite <- Epp in *. assert (Hp : p <> []) by (rewrite Epp; discriminate).
    destruct (exists_last Hp) as (q & c & Eq).
    assert (H2 : Nat.leb 2 (length p + 1) = true) by (apply Nat.leb_le; rewrite Eq, app_length; cbn [length]; lia).
    rewrite H2.
    assert (Hline : (p ++ [n]) ++ [NUL] = q ++ c :: n :: [NUL]) by (rewrite Eq, <- !app_assoc; reflexivity).
    rewrite Hline.
    assert (Hl2 : (length p + 1 - 2 = length q)%nat) by (rewrite Eq, app_length; cbn [length]; lia).
    assert (Hl1 : length p = length (q ++ [c])) by (rewrite Eq; reflexivity).
    assert (Hline2 : q ++ c :: n :: [NUL] = (q ++ [c]) ++ n :: [NUL]) by (rewrite <- app_assoc; reflexivity).
    rewrite Hl2. unfold rdT at 1. rewrite nth_error_mid.
    rewrite Hl1. unfold rdT at 1. rewrite Hline2 at 1. rewrite nth_error_mid.
    assert (Hrev : rev p = c :: rev q) by (rewrite Eq, rev_app_distr; reflexivity). rewrite Hrev. rewrite rev_involutive.
    assert (H1 : Nat.leb 1 (length (q ++ [c]) + 1) = true) by (apply Nat.leb_le; lia).
    destruct (code n =? 10) eqn:En; destruct (code c =? 13) eqn:Ec; cbn [andb].
    + rewrite write_mid. fin (q ++ NUL :: n :: [NUL]) q (n :: [NUL]).
    + rewrite H1. unfold rdT at 1. rewrite Hline2. rewrite nth_error_mid. rewrite En. rewrite write_mid. rewrite <- Eq.
      fin (p ++ NUL :: [NUL]) p [NUL].
    + rewrite H1. unfold rdT at 1. rewrite Hline2. rewrite nth_error_mid. rewrite En. rewrite <- Eq.
      fin (p ++ n :: [NUL]) (p ++ [n]) (@nil byte).
    + rewrite H1. unfold rdT at 1. rewrite Hline2. rewrite nth_error_mid. rewrite En. rewrite <- Eq.
      fin (p ++ n :: [NUL]) (p ++ [n]) (@nil byte).
Qed.
