(* Properties_C09.v — C09: reserved domains recognised exactly, whatever precedes them. *)
From Coq Require Import List NArith ZArith Lia Bool.
From Coq Require Import Strings.Byte.
Require Import Bytes Codes Hex Local Local6531 LocalSpec LocalProofs Utf8Spec Local6531Spec Local6531Proofs Domain DomainSpec DomainProofs Ip Special SpecialProofs SourceTables Email EmailProofs Api ApiProofs TldProofs EnumTie.
Import ListNotations.
From Coq Require Strings.String.
Import Strings.String.StringSyntax.
Local Open Scope string_scope.

Theorem C09_reserved_exactly :
  forall d, last d NUL <> DOT -> (special_domain d = true <-> Reserved d).
Proof. exact special_domain_correct. Qed.
Print Assumptions C09_reserved_exactly.

(* at e-mail level a reserved valid host name is classified special in the ASCII modes *)
Theorem C09_email_special :
  forall idn g tbl am l d, ~ In AT d -> d <> [] -> hd NUL d <> LBR -> (length l <= 64)%nat ->
    local am l (AT :: d) = 0%Z -> ascii_domain (uscore g) d [] = 0%Z -> last d NUL <> DOT -> Reserved d ->
    rc (email idn g tbl (MA am) true (l ++ AT :: d)) = TLD_TYPE_SPECIAL.
Proof.
  intros idn g tbl am l d Hat Hne Hbr Hlen Hl Hd Hroot Hres.
  rewrite (host_rc_ascii idn g tbl am true l d Hat Hne Hbr Hlen Hl Hd). apply tld_verdict_reserved; assumption.
Qed.
Print Assumptions C09_email_special.

(* the static tables of src/is_special_domain.c, read from the source on this run, are the model's names with compare
   length strlen + 1 (hypothesis: the source still has tables of that shape; gen.py records it) *)
Theorem C09_source_tables :
  Gen.GenSrc.special_tables_parsed = true ->
  map (fun r => (Hex.unhex (fst r), snd r)) Gen.GenSrc.reserved_rows_hex = map (fun n => (n, S (length n))) reserved_names /\
  map (fun r => (Hex.unhex (fst r), snd r)) Gen.GenSrc.example_rows_hex = map (fun n => (n, S (length n))) example_tlds.
Proof. exact source_tables. Qed.
Print Assumptions C09_source_tables.

Example C09_examples :
  special_domain (bs "mailbox.TEST") = true /\ special_domain (bs "a.b.c.example.ORG") = true /\
  special_domain (bs "localhost") = true /\ special_domain (bs "example.example") = true /\
  special_domain (bs "exampleA") = false /\ special_domain (bs "xexample.com") = false /\
  special_domain (bs "example.comm") = false /\ special_domain (bs "foo.tests") = false /\ special_domain (bs "example.co") = false.
Proof. repeat split; vm_compute; reflexivity. Qed.
Example C09_spec_example : Reserved (bs "x.example.net") /\ ~ Reserved (bs "example.co").
Proof.
  split.
  - right. exists [bs "x"], (bs "example"), (bs "net"). split; [reflexivity|]. split; [reflexivity|].
    exists (bs "net"). split; [right; left; reflexivity|reflexivity].
  - apply (fun H => proj1 (not_iff_compat (special_domain_correct (bs "example.co") H))); [vm_compute; discriminate|].
    vm_compute. discriminate.
Qed.
