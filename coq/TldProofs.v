(* TldProofs.v — the TLD table as dumped from the built library (Gen/GenTld.v), the rows of
   data/punycode.csv (Gen/GenCsv.v), the generator model (util/gentld.pl, util/gen_utf8_pass_test.pl)
   and the lookup theorem (C07, C11).  Statements over the concrete tables are decided by vm_compute. *)
From Coq Require Import List NArith ZArith Bool Lia Arith.
From Coq Require Import Strings.Byte.
From Coq Require Strings.String.
Import Strings.String.StringSyntax.
Require Import Bytes Codes Hex Special.
Require Gen.GenTld.
Import ListNotations.
Local Open Scope Z_scope.

Definition tld_list : list tld_row :=
  map (fun r => match r with (h, len, t) => (unhex h, len, t) end) GenTld.tld_list_hex.

Definition row_name (r : tld_row) : list byte := match r with (n, _, _) => n end.
Definition row_len (r : tld_row) : nat := match r with (_, l, _) => l end.
Definition row_type (r : tld_row) : Z := match r with (_, _, t) => t end.

(* a generic lookup lemma: when every length field is strlen + 1, the first row whose name is
   case-insensitively EQUAL to the whole label decides; no prefix or suffix can match *)
Definition len_ok (tbl : list tld_row) : Prop := Forall (fun r => row_len r = S (length (row_name r))) tbl.

Lemma find_ext {A} (f h : A -> bool) l : (forall x, In x l -> f x = h x) -> find f l = find h l.
Proof.
  induction l as [|x l IH]; intros H; [reflexivity|]. cbn. rewrite (H x (or_introl eq_refl)).
  destruct (h x); [reflexivity|]. apply IH. intros y Hy. apply H. right. exact Hy.
Qed.

Theorem lookup_whole_label tbl l : len_ok tbl -> l <> [] ->
  tld_lookup tbl l =
  match find (fun r => ci_eqb (row_name r) l) tbl with
  | Some r => row_type r
  | None => E_TLD_INVALID
  end.
Proof.
  intros Hl Hne. unfold tld_lookup. destruct l as [|b l']; [congruence|].
  rewrite (find_ext _ (fun r => ci_eqb (row_name r) (b :: l'))).
  - destruct (find _ tbl) as [[[n len] t]|]; reflexivity.
  - intros [[n len] t] Hin. unfold len_ok in Hl. rewrite Forall_forall in Hl. specialize (Hl _ Hin). cbn in Hl.
    cbn [row_name]. apply strncaseeq_full. lia.
Qed.

(* ---- facts about the concrete table, by computation over all of its rows ---- *)
Definition is_lower_alabel (n : list byte) : bool :=
  forallb (fun b => let c := code b in (is_lower c || is_digit c || (c =? 45))%N) n.

Definition row_wf (r : tld_row) : bool :=
  Nat.eqb (row_len r) (S (length (row_name r))) && is_lower_alabel (row_name r) &&
  negb (Nat.eqb (length (row_name r)) 0) && (1 <=? row_type r) && (row_type r <=? 9).

Lemma tld_rows_wf : forallb row_wf tld_list = true.
Proof. vm_compute. reflexivity. Qed.

Lemma tld_len_ok : len_ok tld_list.
Proof.
  unfold len_ok. apply Forall_forall. intros r Hin. pose proof tld_rows_wf as H. rewrite forallb_forall in H.
  specialize (H r Hin). unfold row_wf in H. rewrite !andb_true_iff in H. destruct H as ((((H & _) & _) & _) & _).
  apply Nat.eqb_eq. exact H.
Qed.

Lemma tld_types_ok : Forall (fun r => match r with (_, _, t) => 1 <= t <= 9 end) tld_list.
Proof.
  apply Forall_forall. intros [[n l] t] Hin. pose proof tld_rows_wf as H. rewrite forallb_forall in H.
  specialize (H _ Hin). unfold row_wf in H. rewrite !andb_true_iff, !Z.leb_le in H. cbn in H. lia.
Qed.

(* no name occurs twice (so "first row" = "the row") *)
Fixpoint nodupb (l : list (list byte)) : bool :=
  match l with
  | [] => true
  | x :: r => negb (existsb (fun y => ci_eqb x y) r) && nodupb r
  end.
Lemma tld_names_nodup : nodupb (map row_name tld_list) = true.
Proof. vm_compute. reflexivity. Qed.

