(* TldProofs.v — the TLD table as dumped from the built library (Gen/GenTld.v), the rows of
   data/punycode.csv (Gen/GenCsv.v), the generator model (util/gentld.pl, util/gen_utf8_pass_test.pl)
   and the lookup theorem (C07, C11).  Statements over the concrete tables are decided by vm_compute. *)
From Coq Require Import List NArith ZArith Bool Lia Arith.
From Coq Require Import Strings.Byte.
From Coq Require Strings.String.
Import Strings.String.StringSyntax.
Require Import Bytes Codes Hex Special.
Require Gen.GenTld Gen.GenCsv.
Import ListNotations.
Local Open Scope Z_scope.

Definition tld_list : list tld_row :=
  map (fun r => match r with (h, len, t) => (unhex h, len, t) end) GenTld.tld_list_hex.

Definition row_name (r : tld_row) : list byte := match r with (n, _, _) => n end.
Definition row_len (r : tld_row) : nat := match r with (_, l, _) => l end.
Definition row_type (r : tld_row) : Z := match r with (_, _, t) => t end.

(* a generic lookup lemma: when every length field is strlen + 1, the first row whose name is
   case-insensitively EQUAL to the whole label decides; no prefix or suffix can match *)
Definition len_ok (tbl : list tld_row) : Prop := Forall (fun r => row_len r = S (length (row_name r))) tbl.

Lemma find_ext {A} (f h : A -> bool) l : (forall x, In x l -> f x = h x) -> find f l = find h l.
Proof.
  induction l as [|x l IH]; intros H; [reflexivity|]. cbn. rewrite (H x (or_introl eq_refl)).
  destruct (h x); [reflexivity|]. apply IH. intros y Hy. apply H. right. exact Hy.
Qed.

Theorem lookup_whole_label tbl l : len_ok tbl -> l <> [] ->
  tld_lookup tbl l =
  match find (fun r => ci_eqb (row_name r) l) tbl with
  | Some r => row_type r
  | None => E_TLD_INVALID
  end.
Proof.
  intros Hl Hne. unfold tld_lookup. destruct l as [|b l']; [congruence|].
  rewrite (find_ext _ (fun r => ci_eqb (row_name r) (b :: l'))).
  - destruct (find _ tbl) as [[[n len] t]|]; reflexivity.
  - intros [[n len] t] Hin. unfold len_ok in Hl. rewrite Forall_forall in Hl. specialize (Hl _ Hin). cbn in Hl.
    cbn [row_name]. apply strncaseeq_full. lia.
Qed.

(* ---- facts about the concrete table, by computation over all of its rows ---- *)
Definition is_lower_alabel (n : list byte) : bool :=
  forallb (fun b => let c := code b in (is_lower c || is_digit c || (c =? 45))%N) n.

Definition row_wf (r : tld_row) : bool :=
  Nat.eqb (row_len r) (S (length (row_name r))) && is_lower_alabel (row_name r) &&
  negb (Nat.eqb (length (row_name r)) 0) && (1 <=? row_type r) && (row_type r <=? 9).

Lemma tld_rows_wf : forallb row_wf tld_list = true.
Proof. vm_compute. reflexivity. Qed.

Lemma tld_len_ok : len_ok tld_list.
Proof.
  unfold len_ok. apply Forall_forall. intros r Hin. pose proof tld_rows_wf as H. rewrite forallb_forall in H.
  specialize (H r Hin). unfold row_wf in H. rewrite !andb_true_iff in H. destruct H as ((((H & _) & _) & _) & _).
  apply Nat.eqb_eq. exact H.
Qed.

Lemma tld_types_ok : Forall (fun r => match r with (_, _, t) => 1 <= t <= 9 end) tld_list.
Proof.
  apply Forall_forall. intros [[n l] t] Hin. pose proof tld_rows_wf as H. rewrite forallb_forall in H.
  specialize (H _ Hin). unfold row_wf in H. rewrite !andb_true_iff, !Z.leb_le in H. cbn in H. lia.
Qed.

(* no name occurs twice (so "first row" = "the row") *)
Fixpoint nodupb (l : list (list byte)) : bool :=
  match l with
  | [] => true
  | x :: r => negb (existsb (fun y => ci_eqb x y) r) && nodupb r
  end.
Lemma tld_names_nodup : nodupb (map row_name tld_list) = true.
Proof. vm_compute. reflexivity. Qed.

(* ---- the generator model (util/gentld.pl) and C11 ---- *)
Definition csv_row := (list byte * list byte * list byte)%type.   (* domain, type, first 12 bytes of the manager *)
Definition punycode_rows : list csv_row :=
  map (fun r => match r with (d, t, m) => (unhex d, unhex t, unhex m) end) GenCsv.punycode_rows_hex.

Local Open Scope string_scope.
Definition s_not_assigned : list byte := bs "not assigned".
Definition s_retired : list byte := bs "retired".
Definition type_names : list (list byte * Z) :=
  [(bs "generic", TLD_TYPE_GENERIC); (bs "country-code", TLD_TYPE_COUNTRY_CODE);
   (bs "generic-restricted", TLD_TYPE_GENERIC_RESTRICTED); (bs "infrastructure", TLD_TYPE_INFRASTRUCTURE);
   (bs "test", TLD_TYPE_TEST); (bs "sponsored", TLD_TYPE_SPONSORED)].
Local Close Scope string_scope.

(* m =~ /^prefix/i *)
Fixpoint ci_prefix (p m : list byte) : bool :=
  match p, m with
  | [], _ => true
  | x :: p', y :: m' => (tolower (code x) =? tolower (code y))%N && ci_prefix p' m'
  | _ :: _, [] => false
  end.

Fixpoint list_eqb (a b : list byte) : bool :=
  match a, b with
  | [], [] => true
  | x :: a', y :: b' => beqb x y && list_eqb a' b'
  | _, _ => false
  end.

Definition type_of_name (t : list byte) : option Z :=
  match find (fun p => list_eqb (fst p) t) type_names with Some (_, z) => Some z | None => None end.

(* one row of auto_tld.c as gentld.pl prints it; None = the script dies on an unknown type *)
Definition gen_row (r : csv_row) : option tld_row :=
  match r with
  | (d, t, m) =>
    match type_of_name t with
    | None => None
    | Some ty =>
      let ty' := if ci_prefix s_not_assigned m then TLD_TYPE_NOT_ASSIGNED
                 else if ci_prefix s_retired m then TLD_TYPE_RETIRED else ty in
      Some (d, S (length d), ty')
    end
  end.

Definition opt_row_eqb (a : option tld_row) (b : tld_row) : bool :=
  match a with
  | Some (n, l, t) => list_eqb n (row_name b) && Nat.eqb l (row_len b) && (t =? row_type b)
  | None => false
  end.

Fixpoint all2 {A B} (f : A -> B -> bool) (a : list A) (b : list B) : bool :=
  match a, b with
  | [], [] => true
  | x :: a', y :: b' => f x y && all2 f a' b'
  | _, _ => false
  end.

(* the table compiled into the library is, row for row, what the generator makes of punycode.csv *)
Lemma table_is_generated : all2 opt_row_eqb (map gen_row punycode_rows) tld_list = true.
Proof. vm_compute. reflexivity. Qed.

(* data/tld-domains.txt is what gen_utf8_pass_test.pl makes of raw.csv: "<domain>.<domain>" per row *)
Definition raw_rows : list (list byte * list byte) :=
  map (fun r => match r with (d, t) => (unhex d, unhex t) end) GenCsv.raw_rows_hex.
Definition tld_domains_txt : list (list byte) := map unhex GenCsv.tld_domains_txt_hex.
Definition gen_domain_line (r : list byte * list byte) : option (list byte) :=
  match type_of_name (snd r) with Some _ => Some (fst r ++ DOT :: fst r) | None => None end.
Definition opt_line_eqb (a : option (list byte)) (b : list byte) : bool :=
  match a with Some x => list_eqb x b | None => false end.
Lemma domains_txt_is_generated : all2 opt_line_eqb (map gen_domain_line raw_rows) tld_domains_txt = true.
Proof. vm_compute. reflexivity. Qed.

(* raw.csv and punycode.csv list the same rows (same count, same types in the same order) *)
Lemma raw_and_punycode_aligned :
  all2 (fun a b => list_eqb (snd a) (snd (fst b))) raw_rows punycode_rows = true.
Proof. vm_compute. reflexivity. Qed.

(* the enum order of the shipped header is the one gentld.pl prints: UNUSED, NOT_ASSIGNED, the sorted
   type names, SPECIAL, RETIRED, MAX — and it agrees with the numeric values the model uses *)
Local Open Scope string_scope.
Definition expected_enum_order : list String.string :=
  ["TLD_TYPE_UNUSED"; "TLD_TYPE_NOT_ASSIGNED"; "TLD_TYPE_COUNTRY_CODE"; "TLD_TYPE_GENERIC";
   "TLD_TYPE_GENERIC_RESTRICTED"; "TLD_TYPE_INFRASTRUCTURE"; "TLD_TYPE_SPONSORED"; "TLD_TYPE_TEST";
   "TLD_TYPE_SPECIAL"; "TLD_TYPE_RETIRED"; "TLD_TYPE_MAX"].
Lemma header_enum_is_generated : GenCsv.header_enum_order = expected_enum_order.
Proof. reflexivity. Qed.
