(* Ip.v — B models of is_ipv4, is_ipv6, is_ipaddr (src/is_ipv4_ipv6.c) and the check_ip() macro.
   is_ipv6 is modelled one byte at a time: [run] holds the hexadecimal digits of the current
   group (what strspn() measured), so the model assumes the byte at [end] is not a hexadecimal
   digit (it is ']' or the terminator in every call the library makes). *)
From Coq Require Import List NArith ZArith Bool Arith.
From Coq Require Import Strings.Byte.
Require Import Bytes Codes.
Import ListNotations.
Local Open Scope N_scope.

(* start[strspn(start, "0.")] == 0 : the C string consists of '0' and '.' only *)
Definition zeros_dots_only (l : list byte) : bool :=
  forallb (fun b => (code b =? 48) || (code b =? 46)) (cstr l).

Fixpoint ip4 (zok inb : bool) (v cnt : N) (l : list byte) : bool :=
  match l with
  | [] => cnt =? 4
  | b :: r =>
    let c := code b in
    if c =? 0 then cnt =? 4 else
    if is_digit c then
      let v' := (if inb then v else 0) * 10 + (c - 48) in
      if 255 <? v' then false else ip4 zok true v' (if inb then cnt else cnt + 1) r
    else if c =? 46 then
      if negb inb || match r with [] => true | n :: _ => code n =? 0 end then false
      else if (cnt =? 1) && (v =? 0) && negb zok then false
      else ip4 zok false v cnt r
    else false
  end.

Definition ipv4 (s rest : list byte) : bool := ip4 (zeros_dots_only (s ++ rest)) false 0 0 s.

Local Open Scope Z_scope.
Definition ip6_end (field nf : Z) (run : list byte) : bool :=
  if (nf =? 0) && negb (field =? 7) then false
  else if match run with [] => true | _ => false end && negb (nf =? field - 1) then false
  else true.
Definition ip6_nul (field nf : Z) (run : list byte) : bool :=
  if field <? 2 then false
  else if match run with [] => true | _ => false end && negb (nf =? field - 1) then false
  else true.

(* run is kept in reverse order *)
Fixpoint ip6 (field nf : Z) (run : list byte) (l rest : list byte) : bool :=
  match l with
  | [] => ip6_end field nf run
  | b :: r =>
    let c := code b in
    if (c =? 0)%N then ip6_nul field nf run
    else if (c =? 46)%N then
      if (field <? 2) || (6 <? field) || ((nf =? 0) && negb (field =? 6)) then false
      else ipv4 (rev run ++ l) rest
    else if (c =? 58)%N then
      if (field =? 0) && match run with [] => true | _ => false end
         && is_alnum (match r ++ rest with [] => 0%N | n :: _ => code n end) then false
      else if 7 <? field + 1 then false
      else if match r ++ rest with n :: _ => (code n =? 58)%N | [] => false end
           then if 0 <? nf then false else ip6 (field + 1) (field + 1) [] r rest
           else ip6 (field + 1) nf [] r rest
    else if is_hex c then
      if Nat.ltb 4 (S (length run)) then false else ip6 field nf (b :: run) r rest
    else false
  end.

Definition ipv6 (s rest : list byte) : bool := ip6 0 0 [] s rest.
Definition ipaddr (s rest : list byte) : bool :=
  if memb COLON (cstr (s ++ rest)) then ipv6 s rest else ipv4 s rest.

Inductive family := FamNone | Fam4 | Fam6.

Definition tag_ipv6 : list byte := [x49; x50; x76; x36; x3a].  (* "IPv6:" *)
Fixpoint starts_with (p l : list byte) : bool :=
  match p, l with
  | [], _ => true
  | x :: p', y :: l' => beqb x y && starts_with p' l'
  | _ :: _, [] => false
  end.

(* check_ip(): d is the domain part, beginning with '[' *)
Definition check_ip (d : list byte) : Z * family :=
  if Nat.leb (length d) 8 then (E_IP, FamNone)
  else match split_last RBR d with
       | None => (E_BRACKET, FamNone)
       | Some (p, after) =>
         match after with
         | _ :: _ => (E_IP, FamNone)
         | [] =>
           let c := tl p in
           if starts_with tag_ipv6 c then
             if ipv6 (skipn 5 c) [RBR] then (0, Fam6) else (E_IP, FamNone)
           else if memb COLON c then
             if ipv6 c [RBR] then (0, Fam6) else (E_IP, FamNone)
           else
             if ipv4 c [RBR] then (0, Fam4) else (E_IP, FamNone)
         end
       end.
