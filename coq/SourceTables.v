(* SourceTables.v — the static tables of src/is_special_domain.c as read from the source on this run (Gen/GenSrc.v) against the
   names of the model (Special.v).  Kept apart from SpecialProofs.v so that a reshaped table touches this one theorem only. *)
From Coq Require Import List NArith ZArith Bool Arith.
From Coq Require Import Strings.Byte.
Require Import Bytes Codes Special.
Import ListNotations.
(* ---- the tables of the source file itself (Gen/GenSrc.v, regenerated on every run) are the model's, with compare length
   = strlen + 1 (so that strncasecmp also compares the terminator: whole-label match, never a prefix match) ---- *)
Require Gen.GenSrc.
Require Import Hex.
Lemma source_tables :
  GenSrc.special_tables_parsed = true ->
  map (fun r => (unhex (fst r), snd r)) GenSrc.reserved_rows_hex = map (fun n => (n, S (length n))) reserved_names /\
  map (fun r => (unhex (fst r), snd r)) GenSrc.example_rows_hex = map (fun n => (n, S (length n))) example_tlds.
Proof. intros H. first [discriminate H | (split; vm_compute; reflexivity)]. Qed.
