(* IpA.v — layer A for C06: is_ipv4 and is_ipv6 over a bounds-checked buffer with the C code's own index
   arithmetic (cp[1], cp + 1 == end, cp++ then *cp, cp - len, cp += strspn(cp, hex), start[strspn(start, "0.")]),
   and the proof that this access model never faults, never underflows, never runs out of fuel and computes
   exactly the functional model (Ip.v).  strspn is modelled as the byte-by-byte scan it is: it reads every byte
   up to and including the first one outside the set (at the latest the terminator). *)
From Coq Require Import List NArith ZArith Bool Arith Lia.
From Coq Require Import Strings.Byte.
Require Import Bytes Codes Local Ip LocalA.
Import ListNotations.
Local Open Scope N_scope.

Definition retb (b : bool) : resA := RetA (if b then 1 else 0)%Z.
Definition NO : resA := RetA 0%Z.
Definition is_zd (c : N) : bool := (c =? 48) || (c =? 46).

Definition ip6_endA (field nf : Z) (len : nat) : bool :=
  if ((nf =? 0) && negb (field =? 7))%Z then false
  else if (Nat.eqb len 0 && negb (nf =? field - 1)%Z) then false
  else true.
Definition ip6_nulA (field nf : Z) (len : nat) : bool :=
  if (field <? 2)%Z then false
  else if (Nat.eqb len 0 && negb (nf =? field - 1)%Z) then false
  else true.

Section A.
Variable buf : list byte.
Let rd := LocalA.rd buf.

(* strspn(buf + i, set): k receives the index of the first byte outside the set *)
Fixpoint spanA (inset : N -> bool) (fuel i : nat) (k : nat -> resA) : resA :=
  match fuel with
  | O => FuelA
  | S f => rd i (fun b => if inset (code b) then spanA inset f (S i) k else k i)
  end.

(* is_ipv4 (buf + st, buf + e) *)
Fixpoint ip4A (st e fuel cp : nat) (inb : bool) (v cnt : N) : resA :=
  match fuel with
  | O => FuelA
  | S f =>
    if Nat.leb e cp then retb (cnt =? 4) else
    rd cp (fun b =>
      let c := code b in
      if c =? 0 then retb (cnt =? 4) else
      if is_digit c then
        let v' := (if inb then v else 0) * 10 + (c - 48) in
        if 255 <? v' then NO else ip4A st e f (S cp) true v' (if inb then cnt else cnt + 1)
      else if c =? 46 then
        if negb inb then NO
        else if Nat.eqb (S cp) e then NO                                    (* cp + 1 == end *)
        else rd (S cp) (fun n =>                                             (* cp[1] == 0 *)
          if code n =? 0 then NO
          else if (cnt =? 1) && (v =? 0)
               then spanA is_zd (S (length buf)) st (fun j =>                (* start[strspn (start, "0.")] *)
                      rd j (fun z => if code z =? 0 then ip4A st e f (S cp) false v cnt else NO))
               else ip4A st e f (S cp) false v cnt)
      else NO)
  end.
Definition ipv4A (st e : nat) : resA := ip4A st e (S (length buf)) st false 0 0.

(* is_ipv6 (buf + st, buf + e) *)
Fixpoint ip6A (e fuel cp : nat) (field nf : Z) (len : nat) : resA :=
  match fuel with
  | O => FuelA
  | S f =>
    if Nat.leb e cp then retb (ip6_endA field nf len) else
    rd cp (fun b =>
      let c := code b in
      if c =? 0 then retb (ip6_nulA field nf len)
      else if c =? 46 then
        if ((field <? 2) || (6 <? field) || ((nf =? 0) && negb (field =? 6)))%Z then NO
        else if Nat.ltb cp len then UnderA                                   (* cp - len before the first byte *)
        else ipv4A (cp - len) e                                              (* is_ipv4 ((char * ) cp - len, end) *)
      else if c =? 58 then
        let k2 :=
          if (7 <? field + 1)%Z then NO else
          rd (S cp) (fun n =>                                                (* cp++; if ( *cp == ':') *)
            if code n =? 58 then (if (0 <? nf)%Z then NO else ip6A e f (S cp) (field + 1)%Z (field + 1)%Z 0)
            else ip6A e f (S cp) (field + 1)%Z nf 0) in
        if ((field =? 0)%Z && Nat.eqb len 0)%bool
        then rd (S cp) (fun n => if is_alnum (code n) then NO else k2)       (* ISALNUM (cp[1]) *)
        else k2
      else spanA is_hex (S (length buf)) cp (fun j =>                        (* len = strspn (cp, hexdigits) *)
             let len' := (j - cp)%nat in
             if Nat.ltb 4 len' then NO
             else if Nat.eqb len' 0 then NO
             else ip6A e f j field nf len'))                                 (* cp += len *)
  end.
Definition ipv6A (st e : nat) : resA := ip6A e (S (length buf)) st 0%Z 0%Z 0.

(* is_ipaddr: strchr (start, ':') reads up to the first colon or the terminator *)
Definition is_nc (c : N) : bool := negb (c =? 58) && negb (c =? 0).
Definition ipaddrA (st e : nat) : resA :=
  spanA is_nc (S (length buf)) st (fun j => rd j (fun z => if code z =? 58 then ipv6A st e else ipv4A st e)).
End A.

(* ---------------------------------------------------------------- list facts *)
Lemma skipn_nth (l : list byte) : forall i b r, skipn i l = b :: r -> nth_error l i = Some b /\ skipn (S i) l = r.
Proof.
  induction l as [|x l IH]; intros i b r H.
  - destruct i; discriminate.
  - destruct i as [|i]; [inversion H; subst; split; reflexivity|]. cbn [skipn nth_error] in *. apply IH. exact H.
Qed.
Lemma nth_error_skipn (l : list byte) : forall n i, nth_error (skipn n l) i = nth_error l (n + i).
Proof.
  induction l as [|x l IH]; intros n i.
  - destruct n; destruct i; reflexivity.
  - destruct n as [|n]; [reflexivity|]. cbn [skipn Nat.add nth_error]. apply IH.
Qed.
Lemma skipn_skipn' (l : list byte) : forall a b, skipn a (skipn b l) = skipn (b + a) l.
Proof.
  induction l as [|x l IH]; intros a b.
  - destruct a; destruct b; reflexivity.
  - destruct b as [|b]; [reflexivity|]. cbn [skipn Nat.add]. apply IH.
Qed.

Fixpoint span (inset : N -> bool) (l : list byte) : nat :=
  match l with
  | b :: r => if inset (code b) then S (span inset r) else O
  | [] => O
  end.

Lemma span_lt inset l : inset 0 = false -> (span inset (l ++ [NUL]) < length (l ++ [NUL]))%nat.
Proof.
  intros H0. induction l as [|b r IH]; cbn [app span length].
  - change (code NUL) with 0. rewrite H0. lia.
  - destruct (inset (code b)); lia.
Qed.

Section Span.
Variable buf : list byte.
Lemma spanA_spec inset : forall t fuel i k, skipn i buf = t -> (span inset t < length t)%nat -> (span inset t < fuel)%nat ->
  spanA buf inset fuel i k = k (i + span inset t)%nat.
Proof.
  induction t as [|b r IH]; intros fuel i k Hs Hl Hf; [cbn in Hl; lia|].
  destruct (skipn_nth buf i b r Hs) as (Hb & Hr).
  destruct fuel as [|f]; [lia|]. cbn [spanA span]. unfold LocalA.rd. rewrite Hb.
  destruct (inset (code b)) eqn:Ei.
  - cbn [span] in Hl, Hf. rewrite Ei in Hl, Hf. cbn [length] in Hl.
    rewrite (IH f (S i) k Hr) by lia. f_equal. lia.
  - f_equal. lia.
Qed.
End Span.

(* the byte strspn stops at is the terminator iff the C string consists of set members only *)
Lemma span_stop inset l : inset 0 = false ->
  exists z, nth_error (l ++ [NUL]) (span inset (l ++ [NUL])) = Some z /\
            (code z =? 0) = forallb (fun b => inset (code b)) (cstr l).
Proof.
  intros H0. induction l as [|b r IH]; cbn [app span cstr].
  - change (code NUL) with 0. rewrite H0. exists NUL. split; reflexivity.
  - destruct (N.eqb_spec (code b) 0) as [Ez|Nz].
    + rewrite Ez, H0. exists b. split; [reflexivity|]. rewrite Ez. reflexivity.
    + destruct (inset (code b)) eqn:Ei.
      * destruct IH as (z & Hz & Hc). exists z. split; [exact Hz|]. cbn [forallb]. rewrite Ei. exact Hc.
      * exists b. split; [reflexivity|]. cbn [forallb]. rewrite Ei. apply N.eqb_neq. exact Nz.
Qed.

(* ---------------------------------------------------------------- is_ipv4 *)
Section Refine4.
Variable buf : list byte.
Variable st : nat.
Variable s rest : list byte.
Hypothesis Hbuf : skipn st buf = s ++ rest ++ [NUL].
Let e := (st + length s)%nat.
Let zok := zeros_dots_only (s ++ rest).

Lemma load4 i b : nth_error s i = Some b -> nth_error buf (st + i) = Some b.
Proof.
  intros H. rewrite <- nth_error_skipn, Hbuf. rewrite nth_error_app1; [exact H|].
  apply nth_error_Some. congruence.
Qed.

Lemma buf_len : (st + length s + length rest + 1 <= length buf)%nat.
Proof.
  assert (H : length (skipn st buf) = length (s ++ rest ++ [NUL])) by (rewrite Hbuf; reflexivity).
  rewrite skipn_length, !app_length in H. cbn [length] in H. lia.
Qed.

Lemma nth_some4 i : (i < length s)%nat -> exists b, nth_error s i = Some b.
Proof. intros H. destruct (nth_error s i) eqn:E; [eauto|]. apply nth_error_None in E. lia. Qed.

Theorem ip4A_refines : forall fuel i inb v cnt, (i <= length s)%nat -> (length s - i < fuel)%nat ->
  ip4A buf st e fuel (st + i) inb v cnt = retb (ip4 zok inb v cnt (skipn i s)).
Proof.
  induction fuel as [|fuel IH]; intros i inb v cnt Hi Hf; [lia|].
  cbn [ip4A]. destruct (Nat.leb_spec e (st + i)) as [Hge|Hlt].
  { rewrite skipn_all2 by (unfold e in Hge; lia). reflexivity. }
  assert (Hil : (i < length s)%nat) by (unfold e in Hlt; lia).
  destruct (nth_some4 i Hil) as (b & Eb). unfold LocalA.rd. rewrite (load4 i b Eb).
  rewrite (LocalA.skipn_cons s i b Eb). cbn [ip4].
  destruct (code b =? 0); [reflexivity|].
  destruct (is_digit (code b)).
  { cbv zeta. destruct (255 <? (if inb then v else 0) * 10 + (code b - 48)); [reflexivity|].
    replace (S (st + i)) with (st + S i)%nat by lia. apply IH; lia. }
  destruct (code b =? 46); [|reflexivity].
  destruct inb; cbn [negb orb]; [|reflexivity].
  destruct (Nat.eqb_spec (S (st + i)) e) as [Ee|Ne].
  { rewrite skipn_all2 by (unfold e in Ee; lia). reflexivity. }
  assert (Hi1 : (S i < length s)%nat) by (unfold e in Ne; lia).
  destruct (nth_some4 (S i) Hi1) as (n & En). replace (S (st + i)) with (st + S i)%nat by lia.
  rewrite (load4 (S i) n En). rewrite (LocalA.skipn_cons s (S i) n En).
  destruct (code n =? 0); [reflexivity|]. rewrite <- (LocalA.skipn_cons s (S i) n En).
  destruct ((cnt =? 1) && (v =? 0)) eqn:Ec; cbn [andb].
  - pose proof buf_len as Hbl.
    rewrite (spanA_spec buf is_zd (s ++ rest ++ [NUL]) (S (length buf)) st _ Hbuf).
    2:{ rewrite app_assoc. apply span_lt. reflexivity. }
    2:{ assert (span is_zd (s ++ rest ++ [NUL]) < length (s ++ rest ++ [NUL]))%nat by (rewrite app_assoc; apply span_lt; reflexivity).
        rewrite !app_length in H. cbn [length] in H. lia. }
    destruct (span_stop is_zd (s ++ rest) eq_refl) as (z & Hz & Hc). rewrite <- app_assoc in Hz.
    rewrite <- nth_error_skipn, Hbuf, Hz. fold zok in Hc. unfold zeros_dots_only in zok.
    replace (code z =? 0) with zok by (symmetry; exact Hc).
    destruct zok; cbn [negb]; [apply IH; lia|reflexivity].
  - apply IH; lia.
Qed.

Theorem ipv4A_refines : ipv4A buf st e = retb (ipv4 s rest).
Proof.
  unfold ipv4A, ipv4. pose proof buf_len. replace st with (st + 0)%nat at 2 by lia.
  rewrite ip4A_refines by lia. reflexivity.
Qed.
End Refine4.

(* ---------------------------------------------------------------- is_ipv6 *)
Require Import IpSpec IpProofs.

Lemma span_app_stop inset l t : match t with [] => True | n :: _ => inset (code n) = false end ->
  span inset (l ++ t) = span inset l.
Proof.
  intros Ht. induction l as [|b r IH]; cbn [app span].
  - destruct t as [|n t']; [reflexivity|]. cbn [span]. rewrite Ht. reflexivity.
  - destruct (inset (code b)); [f_equal; exact IH|reflexivity].
Qed.

Lemma span_split inset l : Forall (fun b => inset (code b) = true) (firstn (span inset l) l) /\
  length (firstn (span inset l) l) = span inset l /\
  match skipn (span inset l) l with [] => True | n :: _ => inset (code n) = false end.
Proof.
  induction l as [|b r IH]; cbn [span]; [repeat split; constructor|].
  destruct (inset (code b)) eqn:Ei.
  - cbn [firstn skipn length]. destruct IH as (H1 & H2 & H3). repeat split; [constructor; assumption|f_equal; exact H2|exact H3].
  - cbn [firstn skipn length]. repeat split; [constructor|exact Ei].
Qed.

Lemma too_many_hex rest g : Forall hexdigit g -> forall f nf run l', (4 < length run + length g)%nat -> g <> [] ->
  ip6 f nf run (g ++ l') rest = false.
Proof.
  induction 1 as [|b g Hb Hg IH]; intros f nf run l' Hlen Hne; [congruence|].
  cbn [app ip6]. destruct (hexdigit_code b Hb) as (H0 & H46 & H58 & Hh).
  destruct (N.eqb_spec (code b) 0); [contradiction|]. destruct (N.eqb_spec (code b) 46); [contradiction|].
  destruct (N.eqb_spec (code b) 58); [contradiction|]. rewrite Hh.
  cbn [length] in Hlen. destruct (Nat.ltb_spec 4 (S (length run))) as [H4|H4]; [reflexivity|].
  destruct g as [|b' g']; [cbn [length] in Hlen; lia|].
  apply IH; [cbn [length] in *; lia|discriminate].
Qed.

Section Refine6.
Variable buf : list byte.
Variable st : nat.
Variable s rest : list byte.
Hypothesis Hbuf : skipn st buf = s ++ rest ++ [NUL].
(* the byte at the end pointer is not a hexadecimal digit: it is ']' or the terminator in every call the library makes *)
Hypothesis Hnh : match rest with [] => True | n :: _ => is_hex (code n) = false end.
Let e := (st + length s)%nat.

Lemma tail_nonhex : match rest ++ [NUL] with [] => True | n :: _ => is_hex (code n) = false end.
Proof. destruct rest as [|n t]; [reflexivity|exact Hnh]. Qed.

Lemma skipn_buf i : (i <= length s)%nat -> skipn (st + i) buf = skipn i s ++ rest ++ [NUL].
Proof.
  intros Hi. rewrite <- skipn_skipn', Hbuf. rewrite skipn_app. replace (i - length s)%nat with 0%nat by lia. reflexivity.
Qed.

(* the byte at index st + i, seen from the functional model: the head of what is left, 0 for the terminator *)
Lemma next_byte i : (i <= length s)%nat ->
  exists n, nth_error buf (st + i) = Some n /\ code n = hd_code (skipn i s ++ rest).
Proof.
  intros Hi. pose proof (skipn_buf i Hi) as Hs.
  destruct (skipn i s ++ rest ++ [NUL]) as [|n t] eqn:Et.
  { destruct (skipn i s); [destruct rest; discriminate|discriminate]. }
  destruct (skipn_nth buf _ n t Hs) as (Hn & _). exists n. split; [exact Hn|].
  rewrite app_assoc in Et. destruct (skipn i s ++ rest) as [|x xs]; cbn [app] in Et; inversion Et; subst; reflexivity.
Qed.

Lemma run_len i len : (i <= length s)%nat -> (len <= i)%nat -> length (rev (firstn len (skipn (i - len) s))) = len.
Proof. intros Hi Hl. rewrite rev_length, firstn_length, skipn_length. lia. Qed.

Lemma run_empty i len : (i <= length s)%nat -> (len <= i)%nat ->
  match rev (firstn len (skipn (i - len) s)) with [] => true | _ :: _ => false end = Nat.eqb len 0.
Proof.
  intros Hi Hl. pose proof (run_len i len Hi Hl) as H.
  destruct (rev (firstn len (skipn (i - len) s))); cbn [length] in H; subst; reflexivity.
Qed.

Definition stop_ok (i len : nat) : Prop :=
  (0 < len)%nat -> match skipn i s with b :: _ => is_hex (code b) = false | [] => True end.

Theorem ip6A_refines : forall fuel i field nf len, (i <= length s)%nat -> (len <= i)%nat -> (length s - i < fuel)%nat -> stop_ok i len ->
  ip6A buf e fuel (st + i) field nf len = retb (ip6 field nf (rev (firstn len (skipn (i - len) s))) (skipn i s) rest).
Proof.
  induction fuel as [|fuel IH]; intros i field nf len Hi Hl Hf Hstop; [lia|].
  cbn [ip6A]. destruct (Nat.leb_spec e (st + i)) as [Hge|Hlt].
  { rewrite (skipn_all2 (n := i)) by (unfold e in Hge; lia). cbn [ip6]. unfold ip6_end, ip6_endA. rewrite run_empty by assumption. reflexivity. }
  assert (Hil : (i < length s)%nat) by (unfold e in Hlt; lia).
  destruct (nth_some4 st s i Hil) as (b & Eb). unfold LocalA.rd. rewrite (load4 buf st s rest Hbuf i b Eb).
  pose proof (LocalA.skipn_cons s i b Eb) as Esk. rewrite Esk. cbn [ip6].
  destruct (N.eqb_spec (code b) 0) as [E0|N0].
  { unfold ip6_nul, ip6_nulA. rewrite run_empty by assumption. reflexivity. }
  destruct (N.eqb_spec (code b) 46) as [E46|N46].
  { destruct ((field <? 2) || (6 <? field) || ((nf =? 0) && negb (field =? 6)))%Z; [reflexivity|].
    destruct (Nat.ltb_spec (st + i) len) as [Hu|_]; [lia|].
    rewrite rev_involutive. rewrite <- Esk.
    assert (Hcat : firstn len (skipn (i - len) s) ++ skipn i s = skipn (i - len) s).
    { replace (skipn i s) with (skipn len (skipn (i - len) s)) by (rewrite skipn_skipn'; f_equal; lia). apply firstn_skipn. }
    rewrite Hcat.
    replace (st + i - len)%nat with (st + (i - len))%nat by lia.
    assert (He : e = (st + (i - len) + length (skipn (i - len) s))%nat) by (unfold e; rewrite skipn_length; lia).
    rewrite He. apply ipv4A_refines. apply skipn_buf. lia. }
  assert (Hnext : exists n, nth_error buf (S (st + i)) = Some n /\ code n = hd_code (skipn (S i) s ++ rest)).
  { replace (S (st + i)) with (st + S i)%nat by lia. apply next_byte. lia. }
  destruct (N.eqb_spec (code b) 58) as [E58|N58].
  { destruct Hnext as (n & En & Hn). cbv zeta.
    assert (Hk2 : (if (7 <? field + 1)%Z then NO else
                   LocalA.rd buf (S (st + i)) (fun n0 => if code n0 =? 58
                      then (if (0 <? nf)%Z then NO else ip6A buf e fuel (S (st + i)) (field + 1)%Z (field + 1)%Z 0)
                      else ip6A buf e fuel (S (st + i)) (field + 1)%Z nf 0)) =
                  retb (if (7 <? field + 1)%Z then false
                        else if match skipn (S i) s ++ rest with n0 :: _ => code n0 =? 58 | [] => false end
                             then (if (0 <? nf)%Z then false else ip6 (field + 1) (field + 1) [] (skipn (S i) s) rest)
                             else ip6 (field + 1) nf [] (skipn (S i) s) rest)).
    { destruct (7 <? field + 1)%Z; [reflexivity|]. unfold LocalA.rd. rewrite En.
      assert (Hc : match skipn (S i) s ++ rest with n0 :: _ => code n0 =? 58 | [] => false end = (code n =? 58)).
      { rewrite Hn. unfold hd_code. destruct (skipn (S i) s ++ rest); reflexivity. }
      rewrite Hc. replace (S (st + i)) with (st + S i)%nat by lia.
      destruct (code n =? 58).
      - destruct (0 <? nf)%Z; [reflexivity|].
        rewrite (IH (S i) (field + 1)%Z (field + 1)%Z 0%nat) by (lia || (intros Hx; lia)). reflexivity.
      - rewrite (IH (S i) (field + 1)%Z nf 0%nat) by (lia || (intros Hx; lia)). reflexivity. }
    rewrite run_empty by assumption.
    unfold LocalA.rd in Hk2. rewrite En in Hk2.
    destruct ((field =? 0)%Z && Nat.eqb len 0)%bool; cbn [andb].
    - rewrite En.
      change (match skipn (S i) s ++ rest with [] => 0 | n0 :: _ => code n0 end) with (hd_code (skipn (S i) s ++ rest)).
      rewrite <- Hn. destruct (is_alnum (code n)); [reflexivity|]. exact Hk2.
    - rewrite En. exact Hk2. }
  (* default: strspn over the hexadecimal digits *)
  pose proof (skipn_buf i Hi) as Hsb.
  pose proof (span_app_stop is_hex (skipn i s) (rest ++ [NUL]) tail_nonhex) as Hsp.
  assert (Hlt2 : (span is_hex (skipn i s ++ rest ++ [NUL]) < length (skipn i s ++ rest ++ [NUL]))%nat).
  { rewrite app_assoc. apply span_lt. reflexivity. }
  pose proof (buf_len buf st s rest Hbuf) as Hbl.
  rewrite (spanA_spec buf is_hex _ (S (length buf)) (st + i) _ Hsb Hlt2).
  2:{ rewrite !app_length, skipn_length in Hlt2. cbn [length] in Hlt2. lia. }
  rewrite Hsp. cbv zeta.
  replace (st + i + span is_hex (skipn i s) - (st + i))%nat with (span is_hex (skipn i s)) by lia.
  rewrite Esk.
  destruct (span_split is_hex (b :: skipn (S i) s)) as (Hall & Hlen & Hhd).
  set (k := span is_hex (b :: skipn (S i) s)) in *.
  destruct (is_hex (code b)) eqn:Eh.
  - (* a group of k >= 1 digits; the previous group, if any, ended at a non-digit, so len = 0 *)
    assert (Hlen0 : len = 0%nat).
    { destruct len as [|l']; [reflexivity|]. exfalso. specialize (Hstop ltac:(lia)). rewrite Esk in Hstop. congruence. }
    subst len. cbn [firstn rev].
    assert (Hk1 : (1 <= k)%nat) by (subst k; cbn [span]; rewrite Eh; lia).
    assert (Hg : b :: skipn (S i) s = firstn k (b :: skipn (S i) s) ++ skipn k (b :: skipn (S i) s)) by (symmetry; apply firstn_skipn).
    assert (Hne : firstn k (b :: skipn (S i) s) <> []).
    { destruct k; [lia|]. discriminate. }
    assert (Hhex : Forall hexdigit (firstn k (b :: skipn (S i) s))) by exact Hall.
    assert (Hfold : ip6 field nf [] (b :: skipn (S i) s) rest =
                    (if Nat.ltb 4 (S (length (@nil byte))) then false else ip6 field nf [b] (skipn (S i) s) rest)).
    { cbn [ip6]. destruct (N.eqb_spec (code b) 0); [contradiction|]. destruct (N.eqb_spec (code b) 46); [contradiction|].
      destruct (N.eqb_spec (code b) 58); [contradiction|]. rewrite Eh. reflexivity. }
    rewrite <- Hfold.
    destruct (Nat.ltb_spec 4 k) as [H4|H4].
    + assert (Hfalse : ip6 field nf [] (b :: skipn (S i) s) rest = false).
      { rewrite Hg. apply too_many_hex; [exact Hhex|cbn [length]; lia|exact Hne]. }
      rewrite Hfalse. reflexivity.
    + destruct (Nat.eqb_spec k 0) as [Ek|_]; [lia|].
      assert (Hfwd : ip6 field nf [] (b :: skipn (S i) s) rest = ip6 field nf (rev (firstn k (b :: skipn (S i) s)) ++ []) (skipn k (b :: skipn (S i) s)) rest).
      { rewrite Hg at 1. apply fwd_hex; [exact Hhex|cbn [length]; lia]. }
      rewrite Hfwd. rewrite app_nil_r.
      replace (st + i + k)%nat with (st + (i + k))%nat by lia.
      assert (Hik : (i + k <= length s)%nat).
      { assert (H : (k <= length (skipn i s))%nat) by (rewrite Esk; rewrite <- Hlen at 1; rewrite firstn_length; lia). rewrite skipn_length in H. lia. }
      rewrite (IH (i + k)%nat field nf k) by (lia || (intros _; rewrite <- skipn_skipn', Esk; exact Hhd)).
      replace (i + k - k)%nat with i by lia. rewrite <- (skipn_skipn' s k i), Esk. reflexivity.
  - (* not a digit: len = strspn = 0 *)
    assert (Hk0 : k = 0%nat) by (subst k; cbn [span]; rewrite Eh; reflexivity).
    rewrite Hk0. reflexivity.
Qed.

Theorem ipv6A_refines : ipv6A buf st e = retb (ipv6 s rest).
Proof.
  unfold ipv6A, ipv6. pose proof (buf_len buf st s rest Hbuf) as Hbl.
  assert (H : ip6A buf e (S (length buf)) (st + 0) 0%Z 0%Z 0 = retb (ip6 0 0 (rev (firstn 0 (skipn (0 - 0) s))) (skipn 0 s) rest)).
  { apply ip6A_refines; try lia. intros Hx. lia. }
  rewrite Nat.add_0_r in H. exact H.
Qed.
End Refine6.

(* the whole string is the argument (start = first byte, length = strlen): no read outside [first byte, terminator] *)
Corollary ipv4A_reads_within_string s rest :
  ipv4A (s ++ rest ++ [NUL]) 0 (length s) = retb (ipv4 s rest).
Proof. apply (ipv4A_refines (s ++ rest ++ [NUL]) 0 s rest). reflexivity. Qed.
Corollary ipv6A_reads_within_string s rest :
  match rest with [] => True | n :: _ => is_hex (code n) = false end ->
  ipv6A (s ++ rest ++ [NUL]) 0 (length s) = retb (ipv6 s rest).
Proof. intros H. apply (ipv6A_refines (s ++ rest ++ [NUL]) 0 s rest); [reflexivity|exact H]. Qed.

(* ---------------------------------------------------------------- is_ipaddr *)
Lemma span_stop_out inset l : forall z, nth_error l (span inset l) = Some z -> inset (code z) = false.
Proof.
  induction l as [|b r IH]; intros z H; cbn [span] in H; [discriminate|].
  destruct (inset (code b)) eqn:Ei; [apply IH; exact H|]. inversion H; subst. exact Ei.
Qed.

Lemma colon_cstr l : forallb (fun b => is_nc (code b)) (cstr l) = negb (memb COLON (cstr l)).
Proof.
  induction l as [|b r IH]; [reflexivity|]. cbn [cstr]. destruct (N.eqb_spec (code b) 0) as [E0|N0]; [reflexivity|].
  cbn [forallb]. unfold memb. cbn [existsb]. fold (memb COLON (cstr r)). rewrite IH. unfold is_nc, beqb.
  change (code COLON) with 58. rewrite (N.eqb_sym 58 (code b)).
  destruct (N.eqb_spec (code b) 0); [contradiction|]. destruct (code b =? 58); reflexivity.
Qed.

Section RefineP.
Variable buf : list byte.
Variable st : nat.
Variable s rest : list byte.
Hypothesis Hbuf : skipn st buf = s ++ rest ++ [NUL].
Hypothesis Hnh : match rest with [] => True | n :: _ => is_hex (code n) = false end.

Theorem ipaddrA_refines : ipaddrA buf st (st + length s) = retb (ipaddr s rest).
Proof.
  unfold ipaddrA, ipaddr. pose proof (buf_len buf st s rest Hbuf) as Hbl.
  assert (Hlt : (span is_nc (s ++ rest ++ [NUL]) < length (s ++ rest ++ [NUL]))%nat) by (rewrite app_assoc; apply span_lt; reflexivity).
  rewrite (spanA_spec buf is_nc (s ++ rest ++ [NUL]) (S (length buf)) st _ Hbuf Hlt).
  2:{ rewrite !app_length in Hlt. cbn [length] in Hlt. lia. }
  destruct (span_stop is_nc (s ++ rest) eq_refl) as (z & Hz & Hc). rewrite <- app_assoc in Hz.
  pose proof (span_stop_out is_nc _ z Hz) as Hout.
  unfold LocalA.rd. rewrite <- nth_error_skipn, Hbuf, Hz.
  rewrite colon_cstr in Hc.
  assert (H58 : (code z =? 58) = memb COLON (cstr (s ++ rest))).
  { unfold is_nc in Hout. destruct (memb COLON (cstr (s ++ rest))); cbn [negb] in Hc.
    - rewrite Hc in Hout. cbn [negb andb] in Hout. rewrite andb_true_r in Hout. apply negb_false_iff in Hout. exact Hout.
    - apply N.eqb_eq in Hc. rewrite Hc. reflexivity. }
  rewrite H58. destruct (memb COLON (cstr (s ++ rest))).
  - apply ipv6A_refines; assumption.
  - apply ipv4A_refines; assumption.
Qed.
End RefineP.
