(* Domain.v — B model of is_ascii_domain (src/is_ascii_domain.c).
   [rest] = bytes from [end] to the terminator ([] in every call the library itself makes). *)
From Coq Require Import List NArith ZArith Bool Arith.
From Coq Require Import Strings.Byte.
Require Import Bytes Codes.
Import ListNotations.
Local Open Scope N_scope.

Definition ldh_alnum (us : bool) (c : N) : bool := is_alnum c || (us && (c =? 95)).

Definition nul_or_dot (l : list byte) : bool :=
  match l with [] => true | n :: _ => (code n =? 0) || (code n =? 46) end.

Definition dfinal (ll : nat) (nn : bool) : Z :=
  if Nat.eqb ll 0 then E_DELIM else if nn then 0%Z else E_NUMERIC.

(* ll = label_length, nn = non_numeric; [after] = what follows the scanned range in memory *)
Fixpoint dscan (us : bool) (ll : nat) (nn : bool) (l after : list byte) : Z :=
  match l with
  | [] => dfinal ll nn
  | b :: r =>
    let c := code b in
    if c =? 0 then dfinal ll nn else
    if ldh_alnum us c then
      if Nat.ltb 63 (S ll) then E_LABEL_LONG
      else dscan us (S ll) (nn || negb (is_digit c)) r after
    else if c =? 46 then
      if Nat.eqb ll 0 then E_DELIM else dscan us 0 nn r after
    else if c =? 45 then
      if Nat.eqb (S ll) 1 || nul_or_dot (r ++ after) then E_HYPHEN
      else dscan us (S ll) true r after
    else E_DCHAR
  end.

Definition last_is_dot (s : list byte) : bool := code (last s NUL) =? 46.

Definition ascii_domain (us : bool) (s rest : list byte) : Z :=
  match s with
  | [] => E_DOMAIN_EMPTY
  | _ =>
    let n := length s in
    if Nat.leb 255 n || (Nat.eqb n 254 && negb (last_is_dot s)) then E_DOMAIN_LONG
    else if Nat.leb 2 n && last_is_dot s then dscan us 0 false (removelast s) (DOT :: rest)
    else dscan us 0 false s rest
  end.
