(* Bytes.v — bytes, the 256-way sweep, C-locale <ctype.h> and <string.h> helpers. *)
From Coq Require Import List NArith ZArith Lia Bool.
From Coq Require Import Strings.Byte.
Import ListNotations.
Local Open Scope N_scope.

Definition code (b : byte) : N := Byte.to_N b.

Definition all_bytes : list byte :=
  map (fun n => match Byte.of_N n with Some b => b | None => x00 end) (map N.of_nat (seq 0 256)).

Lemma all_bytes_spec (P : byte -> bool) : forallb P all_bytes = true -> forall b, P b = true.
Proof.
  intros H b. rewrite forallb_forall in H. apply H. unfold all_bytes.
  apply in_map_iff. exists (Byte.to_N b). rewrite Byte.of_to_N. split; [reflexivity|].
  apply in_map_iff. exists (N.to_nat (Byte.to_N b)). rewrite N2Nat.id. split; [reflexivity|].
  apply in_seq. pose proof (Byte.to_N_bounded b). lia.
Qed.
Lemma all_bytes_in b : In b all_bytes.
Proof.
  unfold all_bytes. apply in_map_iff. exists (Byte.to_N b). rewrite Byte.of_to_N. split; [reflexivity|].
  apply in_map_iff. exists (N.to_nat (Byte.to_N b)). rewrite N2Nat.id. split; [reflexivity|].
  apply in_seq. pose proof (Byte.to_N_bounded b). lia.
Qed.
Lemma all_bytes2_spec (P : byte -> byte -> bool) :
  forallb (fun a => forallb (P a) all_bytes) all_bytes = true -> forall a b, P a b = true.
Proof. intros H a b. apply all_bytes_spec. apply (all_bytes_spec (fun a => forallb (P a) all_bytes)). exact H. Qed.
Lemma all_bytes3_spec (P : byte -> byte -> byte -> bool) :
  forallb (fun a => forallb (fun b => forallb (P a b) all_bytes) all_bytes) all_bytes = true ->
  forall a b c, P a b c = true.
Proof. intros H a b c. apply all_bytes_spec. apply (all_bytes2_spec (fun a b => forallb (P a b) all_bytes)). exact H. Qed.

Lemma code_inj a b : code a = code b -> a = b.
Proof. unfold code. intro H. apply (f_equal Byte.of_N) in H. rewrite !Byte.of_to_N in H. congruence. Qed.
Lemma code_lt256 b : code b < 256.
Proof. unfold code. pose proof (Byte.to_N_bounded b). lia. Qed.

(* named bytes *)
Definition NUL := x00. Definition HT := x09. Definition LF := x0a. Definition CR := x0d.
Definition SP := x20. Definition DQ := x22. Definition HYP := x2d. Definition DOT := x2e.
Definition COLON := x3a. Definition AT := x40. Definition LBR := x5b. Definition BS := x5c.
Definition RBR := x5d. Definition USC := x5f.

(* <ctype.h>, C locale, behind the library's ISASCII guard *)
Definition is_cntrl (c : N) : bool := (c <? 32) || (c =? 127).
Definition is_digit (c : N) : bool := (48 <=? c) && (c <=? 57).
Definition is_upper (c : N) : bool := (65 <=? c) && (c <=? 90).
Definition is_lower (c : N) : bool := (97 <=? c) && (c <=? 122).
Definition is_alpha (c : N) : bool := is_upper c || is_lower c.
Definition is_alnum (c : N) : bool := is_digit c || is_alpha c.
Definition is_hex (c : N) : bool :=
  is_digit c || ((65 <=? c) && (c <=? 70)) || ((97 <=? c) && (c <=? 102)).
Definition tolower (c : N) : N := if is_upper c then c + 32 else c.

Definition beqb (a b : byte) : bool := code a =? code b.
Lemma beqb_eq a b : beqb a b = true <-> a = b.
Proof. unfold beqb. rewrite N.eqb_eq. split; [apply code_inj | congruence]. Qed.

Definition nulfree (l : list byte) : Prop := Forall (fun b => code b <> 0) l.
Definition nulfreeb (l : list byte) : bool := forallb (fun b => negb (code b =? 0)) l.
Lemma nulfreeb_spec l : nulfreeb l = true <-> nulfree l.
Proof.
  unfold nulfreeb, nulfree. rewrite forallb_forall, Forall_forall.
  split; intros H x Hx; specialize (H x Hx).
  - apply negb_true_iff in H. apply N.eqb_neq in H. exact H.
  - apply negb_true_iff. apply N.eqb_neq. exact H.
Qed.

(* the C string beginning at a list: bytes up to (not including) the first NUL *)
Fixpoint cstr (l : list byte) : list byte :=
  match l with
  | [] => []
  | b :: r => if code b =? 0 then [] else b :: cstr r
  end.
Lemma cstr_nulfree l : nulfree l -> cstr l = l.
Proof.
  induction 1 as [|b r Hb _ IH]; [reflexivity|]. cbn [cstr].
  destruct (N.eqb_spec (code b) 0); [contradiction|]. rewrite IH. reflexivity.
Qed.

(* strncasecmp(a, b, n) == 0 on C strings (lists without NUL; the end of the list is the terminator) *)
Fixpoint strncaseeq (a b : list byte) (n : nat) : bool :=
  match n with
  | O => true
  | S n' =>
    match a, b with
    | [], [] => true
    | x :: a', y :: b' => (tolower (code x) =? tolower (code y)) && strncaseeq a' b' n'
    | _, _ => false
    end
  end.

(* case-insensitive equality of whole strings *)
Fixpoint ci_eqb (a b : list byte) : bool :=
  match a, b with
  | [], [] => true
  | x :: a', y :: b' => (tolower (code x) =? tolower (code y)) && ci_eqb a' b'
  | _, _ => false
  end.

Lemma strncaseeq_full a b n : (length a < n)%nat -> strncaseeq a b n = ci_eqb a b.
Proof.
  revert b n. induction a as [|x a IH]; intros b n Hn.
  - destruct n; [inversion Hn|]. destruct b; reflexivity.
  - destruct n; [inversion Hn|]. destruct b as [|y b]; [reflexivity|].
    cbn [strncaseeq ci_eqb]. rewrite IH by (cbn [length] in Hn; lia). reflexivity.
Qed.

(* strchr / strrchr as splits *)
Fixpoint split_first (c : byte) (l : list byte) : option (list byte * list byte) :=
  match l with
  | [] => None
  | b :: r => if beqb b c then Some ([], r)
              else match split_first c r with
                   | Some (p, s) => Some (b :: p, s)
                   | None => None
                   end
  end.
Fixpoint split_last (c : byte) (l : list byte) : option (list byte * list byte) :=
  match l with
  | [] => None
  | b :: r => match split_last c r with
              | Some (p, s) => Some (b :: p, s)
              | None => if beqb b c then Some ([], r) else None
              end
  end.
Definition memb (c : byte) (l : list byte) : bool := existsb (beqb c) l.

Lemma split_first_spec c l p s : split_first c l = Some (p, s) -> l = p ++ c :: s /\ ~ In c p.
Proof.
  revert p s. induction l as [|b r IH]; intros p s H; [discriminate|]. cbn [split_first] in H.
  destruct (beqb b c) eqn:E.
  - inversion H; subst. apply beqb_eq in E. subst. split; [reflexivity|intros []].
  - destruct (split_first c r) as [[p' s']|]; [|discriminate]. inversion H; subst.
    destruct (IH p' s eq_refl) as (-> & Hn). split; [reflexivity|].
    intros [->|Hi]; [|auto]. assert (beqb c c = true) by (apply beqb_eq; reflexivity). congruence.
Qed.
Lemma split_first_none c l : split_first c l = None -> ~ In c l.
Proof.
  induction l as [|b r IH]; intros H; [intros []|]. cbn [split_first] in H.
  destruct (beqb b c) eqn:E; [discriminate|].
  destruct (split_first c r) as [[p' s']|]; [discriminate|].
  intros [->|Hi]; [|apply IH; auto]. assert (beqb c c = true) by (apply beqb_eq; reflexivity). congruence.
Qed.
Lemma split_last_none c l : split_last c l = None -> ~ In c l.
Proof.
  induction l as [|b r IH]; intros H; [intros []|]. cbn [split_last] in H.
  destruct (split_last c r) as [[? ?]|]; [discriminate|].
  destruct (beqb b c) eqn:Eb; [discriminate|].
  intros [->|Hi]; [|apply IH; auto]. assert (beqb c c = true) by (apply beqb_eq; reflexivity). congruence.
Qed.
Lemma split_last_spec c l p s : split_last c l = Some (p, s) -> l = p ++ c :: s /\ ~ In c s.
Proof.
  revert p s. induction l as [|b r IH]; intros p s H; [discriminate|]. cbn [split_last] in H.
  destruct (split_last c r) as [[p' s']|] eqn:E.
  - inversion H; subst. destruct (IH p' s eq_refl) as (-> & Hn). split; [reflexivity|exact Hn].
  - destruct (beqb b c) eqn:Eb; [|discriminate]. apply split_last_none in E.
    inversion H; subst. apply beqb_eq in Eb. subst. split; [reflexivity|exact E].
Qed.
Lemma split_last_app c p s : ~ In c s -> split_last c (p ++ c :: s) = Some (p, s).
Proof.
  intros Hn. assert (Hs : split_last c s = None).
  { induction s as [|x s IH]; [reflexivity|]. cbn [split_last]. rewrite IH by (intros Hi; apply Hn; right; exact Hi).
    destruct (beqb x c) eqn:E; [|reflexivity]. apply beqb_eq in E. subst. exfalso. apply Hn. left. reflexivity. }
  induction p as [|b p IH]; cbn [app split_last].
  - rewrite Hs. assert (beqb c c = true) as -> by (apply beqb_eq; reflexivity). reflexivity.
  - rewrite IH. reflexivity.
Qed.
