(* Utf8Spec.v — layer S for C03: the RFC 3629 table of well-formed UTF-8 byte sequences. *)
From Coq Require Import List NArith Bool.
From Coq Require Import Strings.Byte.
Require Import Bytes.
Import ListNotations.
Local Open Scope N_scope.

Definition rng (lo hi : N) (b : byte) : bool := (lo <=? code b) && (code b <=? hi).

(* C2..DF 80..BF *)
Definition wf2b (b0 b1 : byte) : bool := rng 194 223 b0 && rng 128 191 b1.
(* E0 A0..BF 80..BF | E1..EC 80..BF 80..BF | ED 80..9F 80..BF | EE..EF 80..BF 80..BF *)
Definition wf3b (b0 b1 b2 : byte) : bool :=
  ((rng 224 224 b0 && rng 160 191 b1) || (rng 225 236 b0 && rng 128 191 b1) ||
   (rng 237 237 b0 && rng 128 159 b1) || (rng 238 239 b0 && rng 128 191 b1)) && rng 128 191 b2.
(* F0 90..BF 80..BF 80..BF | F1..F3 80..BF 80..BF 80..BF | F4 80..8F 80..BF 80..BF *)
Definition wf4b (b0 b1 b2 b3 : byte) : bool :=
  ((rng 240 240 b0 && rng 144 191 b1) || (rng 241 243 b0 && rng 128 191 b1) ||
   (rng 244 244 b0 && rng 128 143 b1)) && rng 128 191 b2 && rng 128 191 b3.

(* the encoding of one non-ASCII character: no overlong form, no surrogate, nothing above U+10FFFF,
   exactly the right number of continuation bytes *)
Inductive wf_nonascii : list byte -> Prop :=
| wf_2 a b : wf2b a b = true -> wf_nonascii [a; b]
| wf_3 a b c : wf3b a b c = true -> wf_nonascii [a; b; c]
| wf_4 a b c d : wf4b a b c d = true -> wf_nonascii [a; b; c; d].

(* well-formed UTF-8 text *)
Inductive wf_utf8 : list byte -> Prop :=
| wfu_nil : wf_utf8 []
| wfu_ascii b r : code b < 128 -> wf_utf8 r -> wf_utf8 (b :: r)
| wfu_multi e r : wf_nonascii e -> wf_utf8 r -> wf_utf8 (e ++ r).

(* the scalar value the table assigns *)
Definition scalar2 (a b : byte) : N := (code a - 192) * 64 + (code b - 128).
Definition scalar3 (a b c : byte) : N := (code a - 224) * 4096 + (code b - 128) * 64 + (code c - 128).
Definition scalar4 (a b c d : byte) : N :=
  (code a - 240) * 262144 + (code b - 128) * 4096 + (code c - 128) * 64 + (code d - 128).
