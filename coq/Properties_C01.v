(* Properties_C01.v — C01: address decision = split at the last @, 1-64 octet local part, both halves valid. *)
From Coq Require Import List NArith ZArith Lia Bool.
From Coq Require Import Strings.Byte.
Require Import Bytes Codes Hex Local Local6531 LocalSpec LocalProofs Utf8Spec Local6531Spec Local6531Proofs Domain DomainSpec DomainProofs Ip Special SpecialProofs Email EmailProofs Api ApiProofs TldProofs EnumTie.
Import ListNotations.
From Coq Require Strings.String.
Import Strings.String.StringSyntax.
Local Open Scope string_scope.

(* decision in terms of the library's own per-part verdicts (TLD checking off) *)
Theorem C01_decision_composes_parts :
  forall idn g tbl m a,
    rc (email idn g tbl m false a) = 0%Z <->
    exists l d, a = l ++ AT :: d /\ ~ In AT d /\ (1 <= length l <= 64)%nat /\
                local_ok g m l (AT :: d) /\ domain_ok idn g tbl m d.
Proof. exact email_decision. Qed.
Print Assumptions C01_decision_composes_parts.

(* the same with the grammars of C02 / C03 / C04 in place of the per-part models (ASCII modes) *)
Theorem C01_decision_ascii_modes :
  forall idn g tbl am a, nulfree a ->
    (rc (email idn g tbl (MA am) false a) = 0%Z <->
     exists l d, a = l ++ AT :: d /\ ~ In AT d /\ (1 <= length l <= 64)%nat /\ LocalSpec am l /\
                 ((hd NUL d <> LBR /\ HostnameSpec (uscore g) d) \/ (hd NUL d = LBR /\ fst (check_ip d) = 0%Z))).
Proof.
  intros idn g tbl am a Hn. rewrite email_decision. split.
  - intros (l & d & -> & Hat & Hlen & Hl & Hd). exists l, d. repeat split; auto; try lia.
    + apply nulfree_app in Hn as (Hnl & _). apply (local_correct am (AT :: d) l Hnl). exact Hl.
    + unfold domain_ok in Hd. destruct d as [|d0 d']; [contradiction|]. cbn [hd].
      apply nulfree_app in Hn as (_ & Hnd). apply nulfree_cons in Hnd as (_ & Hnd).
      destruct (beqb d0 LBR) eqn:E.
      * right. apply beqb_eq in E. split; [exact E|exact Hd].
      * left. split; [intros ->; assert (beqb LBR LBR = true) by (apply beqb_eq; reflexivity); congruence|].
        apply ascii_domain_correct; [exact Hnd|exact Hd].
  - intros (l & d & -> & Hat & Hlen & Hl & Hd). exists l, d. repeat split; auto; try lia.
    + apply nulfree_app in Hn as (Hnl & _). unfold local_ok. cbn [local_of]. apply (local_correct am (AT :: d) l Hnl). exact Hl.
    + apply nulfree_app in Hn as (_ & Hnd). apply nulfree_cons in Hnd as (_ & Hnd).
      unfold domain_ok. destruct d as [|d0 d']; [destruct Hd as [(_ & (h & [E|E] & Hl' & _))|(Hh & _)];
        [subst h; apply labels_nonempty in Hl'; congruence|destruct h; discriminate|cbn in Hh; discriminate]|].
      cbn [hd] in Hd. destruct Hd as [(Hh & Hs)|(-> & Hc)].
      * assert (beqb d0 LBR = false) as -> by (destruct (beqb d0 LBR) eqn:E; [apply beqb_eq in E; congruence|reflexivity]).
        apply ascii_domain_correct; [exact Hnd|exact Hs].
      * assert (beqb LBR LBR = true) as -> by (apply beqb_eq; reflexivity). exact Hc.
Qed.
Print Assumptions C01_decision_ascii_modes.

(* the empty string, a missing @, an empty domain, an empty local part: always rejected, with these codes *)
Theorem C01_always_rejected :
  forall idn g tbl m t,
    rc (email idn g tbl m t []) = E_EMAIL_EMPTY /\
    (forall a, a <> [] -> ~ In AT a -> rc (email idn g tbl m t a) = E_DOMAIN_EMPTY) /\
    (forall l, rc (email idn g tbl m t (l ++ [AT])) = E_DOMAIN_EMPTY) /\
    (forall d, d <> [] -> ~ In AT d -> rc (email idn g tbl m t (AT :: d)) = E_LPART_EMPTY).
Proof. exact email_always_rejected. Qed.
Print Assumptions C01_always_rejected.

(* composition: the result record of the high-level call is the composition of the per-part models *)
Theorem C01_composition :
  forall idn g tbl m t l d, ~ In AT d ->
  email idn g tbl m t (l ++ AT :: d) =
  match d with
  | [] => res_rc E_DOMAIN_EMPTY
  | d0 :: _ =>
    if Nat.ltb 64 (length l) then res_rc E_LPART_TOO_LONG else
    let r := local_of g m l (AT :: d) in
    if negb (r =? 0)%Z then res_rc r else
    if beqb d0 LBR then ip_result l d else
    match m with
    | MA _ =>
      let r := ascii_domain (uscore g) d [] in
      if negb (r =? 0)%Z then res_rc r
      else mkres (if t then tld_verdict tbl d else 0%Z) 0 false false true (Some l) (Some d)
    | M6531 =>
      let '(r, ir) := utf8_domain idn g tbl t d in
      if (0 <=? r)%Z then mkres r ir false false true (Some l) (Some d)
      else mkres r ir false false false None None
    end
  end.
Proof. exact email_split. Qed.
Print Assumptions C01_composition.

(* mode wiring: after eav_init and any operations, eav_is_email applies the mode confirmed by the last
   successful eav_setup with the current tld_check / allow_tld *)
Theorem C01_mode_wiring :
  forall idn g tbl, table_ok tbl -> forall s0 ops a m,
  let c := settings_of settings_init ops in
  let s := fst (run idn g tbl s0 (Init :: ops)) in
  st_mode c = Some m ->
  observable (is_email idn g tbl s a) =
  observable (judge (mkeav 0 (st_mask c) (st_tld c) false 0 None false false None None 0) (email idn g tbl m (st_tld c) a)).
Proof. exact outcome_function_of_settings. Qed.
Print Assumptions C01_mode_wiring.

Example C01_example :
  let idn := fun d => IdnOk d in
  rc (email idn cfg0 [] (MA M5321) false (bs """a@b""@c.d")) = 0%Z /\
  rc (email idn cfg0 [] (MA M822) false (bs "a@b@c.d")) <> 0%Z /\
  rc (email idn cfg0 [] M6531 false (bs "x@[IPv6:::1]")) = 0%Z.
Proof. cbv zeta. repeat split; vm_compute; try reflexivity; discriminate. Qed.
