(* Properties_C02.v — C02: ASCII local part is exactly word *("." word) under each RFC's rules.
   Only statements, each closed by a lemma proved elsewhere, with its assumptions printed. *)
From Coq Require Import List NArith ZArith Lia.
From Coq Require Import Strings.Byte.
Require Import Bytes Codes Local LocalSpec LocalProofs Special.
Import ListNotations.
From Coq Require Strings.String.
Import Strings.String.StringSyntax.
Local Open Scope string_scope.

(* the three ASCII scanners accept exactly the grammar, whatever follows the end pointer *)
Theorem C02_local_part_grammar :
  forall (m : amode) (rest s : list byte), nulfree s -> (local m s rest = 0%Z <-> LocalSpec m s).
Proof. intros m rest s H. exact (local_correct m rest s H). Qed.
Print Assumptions C02_local_part_grammar.

(* the negative clauses of the statement, as consequences of the grammar *)
Theorem C02_no_high_byte :
  forall m s, LocalSpec m s -> Forall (fun b => (code b <= 127)%N) s.
Proof. exact spec_ascii. Qed.
Print Assumptions C02_no_high_byte.

Theorem C02_dots :
  forall m s, LocalSpec m s ->
    s <> [] /\ hd DOT s <> DOT /\ last s DOT <> DOT.
Proof. exact spec_dots. Qed.
Print Assumptions C02_dots.

(* non-vacuity: a concrete non-trivial local part meets the hypotheses and both sides hold *)
Example C02_example_accept :
  let s := bs "a.""b c\@"".d" in
  nulfree s /\ local M5321 s [AT] = 0%Z /\ local M822 s [] = 0%Z /\ local M5322 (bs "a."" b\ c "".d") [] = 0%Z.
Proof. cbv zeta. split; [apply nulfreeb_spec; reflexivity|]. repeat split; vm_compute; reflexivity. Qed.
Example C02_example_reject :
  local M5321 (bs """a""b") [] <> 0%Z /\ local M822 (bs "a..b") [] <> 0%Z /\ local M5322 (bs """a b""") [] <> 0%Z.
Proof. repeat split; vm_compute; discriminate. Qed.
