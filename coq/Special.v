(* Special.v — B models of is_special_domain (src/is_special_domain.c) and is_tld (src/is_tld.c).
   Both are modelled for [end] = the terminator, which is how the library calls them. *)
From Coq Require Import List NArith ZArith Bool Arith.
From Coq Require Import Strings.Byte.
From Coq Require Strings.String.
Import Strings.String.StringSyntax.
Require Import Bytes Codes.
Import ListNotations.

Local Open Scope string_scope.
Definition bs (s : String.string) : list byte := String.list_byte_of_string s.

Definition reserved_names : list (list byte) :=
  [bs "test"; bs "example"; bs "invalid"; bs "localhost"; bs "onion"].
Definition example_tlds : list (list byte) := [bs "com"; bs "net"; bs "org"].

Definition example_name : list byte := bs "example".
Local Close Scope string_scope.

(* CHECK(a, d): strncasecmp(d, a[i].domain, a[i].length) with length = strlen + 1 *)
Definition check_in (names : list (list byte)) (d : list byte) : bool :=
  existsb (fun n => strncaseeq d n (S (length n))) names.

Definition bad_len (n : nat) : bool :=
  Nat.ltb n 4 || Nat.ltb 9 n || Nat.eqb n 6 || Nat.eqb n 8.

Definition count_dots (l : list byte) : nat := length (filter (fun b => beqb b DOT) l).

(* cp = strchr(cp, '.') + 1, k times *)
Fixpoint skip_labels (k : nat) (l : list byte) : list byte :=
  match k with
  | O => l
  | S k' => match split_first DOT l with Some (_, s) => skip_labels k' s | None => [] end
  end.

Definition first_label (l : list byte) : list byte :=
  match split_first DOT l with Some (p, _) => p | None => l end.

Definition special_domain (s : list byte) : bool :=
  let count := count_dots s in
  if Nat.eqb count 0 then
    if bad_len (length s) then false else check_in reserved_names s
  else
    let count' := if beqb (last s NUL) DOT then count - 1 else count in
    let cp := skip_labels (count' - 1) s in
    match split_first DOT cp with
    | None => false
    | Some (l1, after) =>
      let l2 := first_label after in
      (Nat.eqb (length l1) 7 && ci_eqb example_name l1 && Nat.eqb (length l2) 3 && check_in example_tlds l2)
      || (negb (bad_len (length l2)) && check_in reserved_names l2)
    end.

(* one row of tld_list[]: name, the length field, the type field *)
Definition tld_row := (list byte * nat * Z)%type.

Definition tld_lookup (tbl : list tld_row) (l : list byte) : Z :=
  match l with
  | [] => E_TLD_INVALID
  | _ => match find (fun r => match r with (n, len, _) => strncaseeq n l len end) tbl with
         | Some (_, _, t) => t
         | None => E_TLD_INVALID
         end
  end.
