(* StrA.v — layer A: the libc string functions the library calls (strchr, strrchr, strncasecmp, strncmp, memchr, the
   reads of memcpy), each as the byte-by-byte scan over the bounds-checked buffer that it is, with a characterising
   lemma: when the bytes from index i on are  t ++ [NUL]  with t free of NUL, the scan never faults and hands its
   continuation the value the functional models use (split_first, split_last, strncaseeq, starts_with, memb, firstn). *)
From Coq Require Import List NArith ZArith Bool Arith Lia.
From Coq Require Import Strings.Byte.
Require Import Bytes Codes Local Ip LocalA IpA.
Import ListNotations.
Local Open Scope N_scope.

Section A.
Variable buf : list byte.
Let rd := LocalA.rd buf.

(* strchr (buf + i, c), c <> 0 *)
Definition not_c_nul (c : byte) (x : N) : bool := negb (x =? code c) && negb (x =? 0).
Definition strchrA (c : byte) (i : nat) (k : option nat -> resA) : resA :=
  spanA buf (not_c_nul c) (S (length buf)) i (fun j => rd j (fun z => if code z =? code c then k (Some j) else k None)).

(* strrchr (buf + i, c): walks to the terminator, remembering the last occurrence *)
Fixpoint strrchr_loop (c : byte) (fuel j : nat) (last : option nat) (k : option nat -> resA) : resA :=
  match fuel with
  | O => FuelA
  | S f => rd j (fun z => if code z =? 0 then k last
                          else strrchr_loop c f (S j) (if code z =? code c then Some j else last) k)
  end.
Definition strrchrA (c : byte) (i : nat) (k : option nat -> resA) : resA :=
  strrchr_loop c (S (length buf)) i None k.

(* strncasecmp (buf + i, name, n) == 0, name a literal (NUL-terminated, NUL-free) *)
Fixpoint strncaseA (i : nat) (name : list byte) (n : nat) (k : bool -> resA) : resA :=
  match n with
  | O => k true
  | S n' =>
    rd i (fun b =>
      let c1 := tolower (code b) in
      let c2 := tolower (hd_code name) in
      if negb (c1 =? c2) then k false
      else if c1 =? 0 then k true
      else strncaseA (S i) (tl name) n' k)
  end.

(* strncmp (buf + i, lit, n) == 0 *)
Fixpoint strncmpA (i : nat) (lit : list byte) (n : nat) (k : bool -> resA) : resA :=
  match n with
  | O => k true
  | S n' =>
    rd i (fun b =>
      if negb (code b =? hd_code lit) then k false
      else if code b =? 0 then k true
      else strncmpA (S i) (tl lit) n' k)
  end.

(* memchr (buf + i, c, n) != NULL: exactly n bytes unless found earlier, no stop at NUL *)
Fixpoint memchrA (c : byte) (i n : nat) (k : bool -> resA) : resA :=
  match n with
  | O => k false
  | S n' => rd i (fun b => if code b =? code c then k true else memchrA c (S i) n' k)
  end.

(* the reads of memcpy (dst, buf + i, n) *)
Fixpoint readnA (i n : nat) (k : list byte -> resA) : resA :=
  match n with
  | O => k []
  | S n' => rd i (fun b => readnA (S i) n' (fun l => k (b :: l)))
  end.
End A.

(* ---------------------------------------------------------------- characterisations *)
Lemma nulfree_cons b l : nulfree (b :: l) -> code b <> 0 /\ nulfree l.
Proof. intros H. inversion H; subst. split; assumption. Qed.

Section Spec.
Variable buf : list byte.

Lemma suffix_len i t : skipn i buf = t ++ [NUL] -> (i + length t < length buf)%nat.
Proof.
  intros H. assert (Hl : length (skipn i buf) = length (t ++ [NUL])) by (rewrite H; reflexivity).
  rewrite skipn_length, app_length in Hl. cbn [length] in Hl. lia.
Qed.

Lemma suffix_step i b t : skipn i buf = (b :: t) ++ [NUL] -> nth_error buf i = Some b /\ skipn (S i) buf = t ++ [NUL].
Proof. intros H. apply (skipn_nth buf i b (t ++ [NUL])). exact H. Qed.

Lemma suffix_end i : skipn i buf = [] ++ [NUL] -> nth_error buf i = Some NUL.
Proof. intros H. apply (skipn_nth buf i NUL []). exact H. Qed.

Lemma strchrA_spec c : code c <> 0 -> forall t i k, skipn i buf = t ++ [NUL] -> nulfree t ->
  strchrA buf c i k = k (match split_first c t with Some (p, _) => Some (i + length p)%nat | None => None end).
Proof.
  intros Hc t i k Hs Hn. unfold strchrA.
  assert (Hlt : (span (not_c_nul c) (t ++ [NUL]) < length (t ++ [NUL]))%nat).
  { apply span_lt. unfold not_c_nul. rewrite andb_false_r. reflexivity. }
  pose proof (suffix_len i t Hs) as Hbl.
  rewrite (spanA_spec buf (not_c_nul c) (t ++ [NUL]) (S (length buf)) i _ Hs Hlt).
  2:{ rewrite app_length in Hlt. cbn [length] in Hlt. lia. }
  (* where the span stops *)
  assert (Hstop : forall t0, nulfree t0 ->
            exists z, nth_error (t0 ++ [NUL]) (span (not_c_nul c) (t0 ++ [NUL])) = Some z /\
                      (code z =? code c) = match split_first c t0 with Some _ => true | None => false end /\
                      match split_first c t0 with Some (p, _) => span (not_c_nul c) (t0 ++ [NUL]) = length p | None => True end).
  { induction t0 as [|b r IH]; intros Hn0.
    - exists NUL. cbn. unfold not_c_nul. change (code NUL) with 0. rewrite andb_false_r. cbn.
      split; [reflexivity|]. split; [|exact I]. destruct (code c); [congruence|reflexivity].
    - destruct (nulfree_cons _ _ Hn0) as (Hb & Hr). cbn [app span split_first]. unfold not_c_nul at 1 3. unfold beqb.
      destruct (N.eqb_spec (code b) (code c)) as [E|E]; cbn [negb andb].
      + exists b. cbn [nth_error]. split; [reflexivity|]. split; [apply N.eqb_eq; exact E|reflexivity].
      + destruct (N.eqb_spec (code b) 0); [contradiction|]. cbn [negb].
        destruct (IH Hr) as (z & Hz & Hc1 & Hc2). exists z. cbn [nth_error]. split; [exact Hz|].
        destruct (split_first c r) as [[p s']|]; split; try assumption; try exact I. cbn [length]. f_equal. exact Hc2. }
  destruct (Hstop t Hn) as (z & Hz & Hc1 & Hc2).
  unfold LocalA.rd. rewrite <- nth_error_skipn, Hs, Hz, Hc1.
  destruct (split_first c t) as [[p s']|]; [rewrite Hc2; reflexivity|reflexivity].
Qed.

Lemma strrchr_loop_spec c : code c <> 0 -> forall t fuel j last k, skipn j buf = t ++ [NUL] -> nulfree t -> (length t < fuel)%nat ->
  strrchr_loop buf c fuel j last k =
  k (match split_last c t with Some (p, _) => Some (j + length p)%nat | None => last end).
Proof.
  intros Hc. induction t as [|b r IH]; intros fuel j last k Hs Hn Hf.
  - destruct fuel; [cbn in Hf; lia|]. cbn [strrchr_loop]. unfold LocalA.rd. rewrite (suffix_end j Hs). reflexivity.
  - destruct fuel; [cbn in Hf; lia|]. destruct (suffix_step j b r Hs) as (Hb & Hr). destruct (nulfree_cons _ _ Hn) as (Hb0 & Hnr).
    cbn [strrchr_loop]. unfold LocalA.rd. rewrite Hb. destruct (N.eqb_spec (code b) 0); [contradiction|].
    rewrite (IH fuel (S j) _ k Hr Hnr) by (cbn [length] in Hf; lia). cbn [split_last].
    destruct (split_last c r) as [[p s']|]; [cbn [length]; f_equal; f_equal; lia|].
    unfold beqb. destruct (code b =? code c); [cbn [length]; f_equal; f_equal; lia|reflexivity].
Qed.

Lemma strrchrA_spec c : code c <> 0 -> forall t i k, skipn i buf = t ++ [NUL] -> nulfree t ->
  strrchrA buf c i k = k (match split_last c t with Some (p, _) => Some (i + length p)%nat | None => None end).
Proof.
  intros Hc t i k Hs Hn. unfold strrchrA. pose proof (suffix_len i t Hs). apply strrchr_loop_spec; try assumption. lia.
Qed.

(* strncasecmp against a literal: the functional model's strncaseeq (lists stand for NUL-terminated strings) *)
Lemma strncaseA_spec : forall n t name i k, skipn i buf = t ++ [NUL] -> nulfree t -> nulfree name ->
  strncaseA buf i name n k = k (strncaseeq t name n).
Proof.
  induction n as [|n IH]; intros t name i k Hs Hn Hnm; [destruct t; reflexivity|].
  cbn [strncaseA]. unfold LocalA.rd. destruct t as [|b r]; cbn [strncaseeq].
  - rewrite (suffix_end i Hs). change (code NUL) with 0. change (tolower 0) with 0.
    destruct name as [|y name']; cbn [hd_code]; [reflexivity|].
    destruct (nulfree_cons _ _ Hnm) as (Hy & _).
    assert (tolower (code y) <> 0). { unfold tolower. destruct (is_upper (code y)); lia. }
    destruct (N.eqb_spec 0 (tolower (code y))); [congruence|reflexivity].
  - destruct (suffix_step i b r Hs) as (Hb & Hr). rewrite Hb. destruct (nulfree_cons _ _ Hn) as (Hb0 & Hnr).
    assert (Hl : tolower (code b) <> 0). { unfold tolower. destruct (is_upper (code b)); lia. }
    destruct name as [|y name']; cbn [hd_code tl].
    + change (tolower 0) with 0. destruct (N.eqb_spec (tolower (code b)) 0); [contradiction|reflexivity].
    + destruct (nulfree_cons _ _ Hnm) as (_ & Hnm').
      destruct (N.eqb_spec (tolower (code b)) (tolower (code y))); cbn [negb andb]; [|reflexivity].
      destruct (N.eqb_spec (tolower (code b)) 0); [contradiction|]. apply IH; assumption.
Qed.

(* strncmp against a NUL-free literal of length n: prefix test *)
Lemma strncmpA_spec : forall lit t i k, skipn i buf = t ++ [NUL] -> nulfree t -> nulfree lit ->
  strncmpA buf i lit (length lit) k = k (starts_with lit t).
Proof.
  induction lit as [|y lit IH]; intros t i k Hs Hn Hl; [reflexivity|].
  cbn [length strncmpA starts_with hd_code tl]. unfold LocalA.rd. destruct (nulfree_cons _ _ Hl) as (Hy & Hl').
  destruct t as [|b r].
  - rewrite (suffix_end i Hs). change (code NUL) with 0. destruct (N.eqb_spec 0 (code y)); [congruence|reflexivity].
  - destruct (suffix_step i b r Hs) as (Hb & Hr). rewrite Hb. destruct (nulfree_cons _ _ Hn) as (Hb0 & Hnr).
    unfold beqb. rewrite (N.eqb_sym (code y) (code b)).
    destruct (N.eqb_spec (code b) (code y)); cbn [negb andb]; [|reflexivity].
    destruct (N.eqb_spec (code b) 0); [contradiction|]. apply IH; assumption.
Qed.

Lemma memchrA_spec c : forall n t i k, skipn i buf = t ++ [NUL] -> (n <= length t)%nat ->
  memchrA buf c i n k = k (memb c (firstn n t)).
Proof.
  induction n as [|n IH]; intros t i k Hs Hl; [reflexivity|].
  destruct t as [|b r]; [cbn in Hl; lia|]. destruct (suffix_step i b r Hs) as (Hb & Hr).
  cbn [memchrA firstn]. unfold LocalA.rd. rewrite Hb. unfold memb. cbn [existsb]. unfold beqb. rewrite (N.eqb_sym (code c) (code b)).
  destruct (code b =? code c); [reflexivity|]. cbn [orb]. apply IH; [exact Hr|cbn [length] in Hl; lia].
Qed.

Lemma readnA_spec : forall n t i k, skipn i buf = t ++ [NUL] -> (n <= length t)%nat ->
  readnA buf i n k = k (firstn n t).
Proof.
  induction n as [|n IH]; intros t i k Hs Hl; [reflexivity|].
  destruct t as [|b r]; [cbn in Hl; lia|]. destruct (suffix_step i b r Hs) as (Hb & Hr).
  cbn [readnA firstn]. unfold LocalA.rd. rewrite Hb. rewrite (IH r (S i) _ Hr) by (cbn [length] in Hl; lia). reflexivity.
Qed.
End Spec.
