#!/bin/bash
# try_seed.sh <seed-id> <check-id>...   apply seeded/<seed-id>/patch.diff to /repo, run the checks, undo.
sid=$1; shift
cd /verif
git -C /repo apply /verif/seeded/$sid/patch.diff || { echo "cannot apply"; exit 2; }
trap 'git -C /repo checkout -- . ; git -C /repo status --short | head -3' EXIT
for c in "$@"; do
  echo "== seed $sid / check $c"
  python3 tools/vcheck.py $c 2>&1 | tail -4
  echo "exit=$?"
done
