#!/bin/bash
# try_seed.sh <seed-id> <check-id>...   run checks against a scratch copy of /repo's HEAD with seeded/<seed-id>/patch.diff applied
# (VERIF_REPO points the checks at the copy; /repo itself is not touched), then regenerate coq/Gen from /repo.
sid=$1; shift
cd /verif
work=$(mktemp -d -p /dev/shm tryseed.XXXXXX)
trap 'rm -rf "$work"; python3 /verif/tools/gen.py >/dev/null 2>&1' EXIT
git -C /repo archive HEAD | tar -x -C "$work"
( cd "$work" && git init -q . && git apply /verif/seeded/$sid/patch.diff ) || { echo "cannot apply"; exit 2; }
for c in "$@"; do
  echo "== seed $sid / check $c"
  VERIF_REPO=$work python3 tools/vcheck.py $c 2>&1 | tail -4
done
