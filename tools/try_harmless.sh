#!/bin/bash
# try_harmless.sh [diff...] — apply behaviour-preserving rewrites of /repo (harmless/*.diff) to a scratch copy of HEAD and run
# every registered check against it: none may print VIOLATION.  /repo itself is not touched.
V=$(cd "$(dirname "$0")/.." && pwd); R=${VP_RUN_REPO:-/repo}
cd $V
[ -x build/model_drv ] || VERIF_REPO=$R bash tools/setup.sh >/dev/null 2>&1
diffs=${@:-$(ls harmless/*.diff)}
rc=0
for d in $diffs; do
  work=$(mktemp -d -p /dev/shm harmless.XXXXXX)
  git -C $R archive HEAD | tar -x -C $work
  ( cd $work && git init -q . && git apply $V/$d ) || { echo "$d: does not apply"; rm -rf $work; rc=2; continue; }
  for c in $(python3 -c "import json; print(' '.join(c['property_id'] for c in json.load(open('MANIFEST.json'))['checks']))"); do
    out=$(VERIF_REPO=$work python3 tools/vcheck.py $c 2>&1); r=$?
    if [ $r -ne 0 ] || echo "$out" | grep -q '^VIOLATION'; then echo "$d $c ALARM(rc=$r)"; echo "$out" | grep '^VIOLATION' | head -3; rc=1; else echo "$d $c quiet"; fi
  done
  rm -rf $work
done
VERIF_REPO=$R python3 tools/gen.py >/dev/null; git checkout evidence/ 2>/dev/null
exit $rc
