#!/bin/bash
# MANIFEST.setup_cmd: build the Coq development (full .vo build), extract the model, build the drivers.
set -e
cd "$(dirname "$0")/.."
export LC_ALL=C
mkdir -p build evidence
python3 tools/gen.py            # regenerate coq/Gen/*.v from /repo's current tree
cd coq
coq_makefile -f _CoqProject -o Makefile >/dev/null
timeout 3000 make -j16 2>&1 | tail -40
cd ..
python3 -c "import sys; sys.path.insert(0,'tools'); import vlib; vlib.build_model_drv()"
echo setup-ok
