#!/bin/bash
# usage: repo_test.sh [src-dir (default /repo)] [extra make vars...]
# Copies the working tree to scratch, builds from clean, runs `make check`,
# prints the sorted PASS:/FAIL: lines on stdout and the make exit status last.
src=${1:-/repo}; shift
scratch=$(mktemp -d -p /dev/shm rt.XXXXXX 2>/dev/null || mktemp -d)
trap 'rm -rf "$scratch"' EXIT
rsync -a --exclude .git "$src"/ "$scratch"/
cd "$scratch" || exit 2
make clean "$@" >/dev/null 2>&1
make -j8 "$@" >build.log 2>&1 || { cat build.log; echo "BUILD-FAILED"; exit 2; }
make check "$@" >check.log 2>&1; st=$?
grep -a -E '^(PASS|FAIL|ok|not ok)|pass(ed)? *=|\.bin' check.log
echo "make-check-exit=$st"
exit $st
