"""cbmc_c06.py — bounded model checking of /repo's C sources for C06 (a supporting run, not a proof): cbmc 6.11 explores EVERY
NUL-terminated string of at most N bytes (every byte value; for the scanners every end pointer inside the string) through the
real source of each scanner, of is_special_domain and, in the thorough tier, of the three ASCII composers with TLD checking off,
with pointer, array-bounds, signed-overflow, unwinding and (composers) memory-leak assertions.  libc: cbmc's own models plus
harness/cbmc/libc_stub.c (the C-locale ctype table of this glibc, strspn)."""
import os, re, subprocess, time
from concurrent.futures import ThreadPoolExecutor

HERE = os.path.dirname(os.path.abspath(__file__))
HARN = os.path.join(os.path.dirname(HERE), 'harness', 'cbmc')

def configs(thorough):
    S = lambda fn, n, files, whole=0: ('scan', fn, n, files, whole)
    E = lambda fn, n, loc: ('email', fn, n, [fn + '.c', loc + '.c', 'is_ascii_domain.c', 'is_ipv4_ipv6.c', 'is_special_domain.c', 'eav.c'], 1)
    if not thorough:
        return [S('is_822_local', 8, ['is_822_local.c']), S('is_5321_local', 8, ['is_5321_local.c']), S('is_5322_local', 8, ['is_5322_local.c']),
                S('is_6531_local', 7, ['is_6531_local.c', 'utf8_decode.c']), S('is_ascii_domain', 8, ['is_ascii_domain.c']),
                S('is_ipv4', 7, ['is_ipv4_ipv6.c']), S('is_ipv6', 4, ['is_ipv4_ipv6.c']), S('is_ipaddr', 4, ['is_ipv4_ipv6.c']),
                S('is_special_domain', 8, ['is_special_domain.c'], 1)]
    return [S('is_822_local', 14, ['is_822_local.c']), S('is_5321_local', 14, ['is_5321_local.c']), S('is_5322_local', 14, ['is_5322_local.c']),
            S('is_6531_local', 10, ['is_6531_local.c', 'utf8_decode.c']), S('is_ascii_domain', 14, ['is_ascii_domain.c']),
            S('is_ipv4', 10, ['is_ipv4_ipv6.c']), S('is_ipv6', 7, ['is_ipv4_ipv6.c']), S('is_ipaddr', 7, ['is_ipv4_ipv6.c']),
            S('is_special_domain', 12, ['is_special_domain.c'], 1),
            E('is_822_email', 6, 'is_822_local'), E('is_5321_email', 6, 'is_5321_local'), E('is_5322_email', 6, 'is_5322_local')]

def prepare(work):
    """the ctype table of the host glibc in the C locale"""
    os.makedirs(work, exist_ok=True)
    exe = os.path.join(work, 'gen_ctype')
    subprocess.run(['gcc', os.path.join(HARN, 'gen_ctype.c'), '-o', exe], check=True)
    out = subprocess.run([exe], stdout=subprocess.PIPE, env=dict(os.environ, LC_ALL='C'), check=True).stdout
    open(os.path.join(work, 'ctab.h'), 'wb').write(out)
    for f in ('libc_stub.c', 'scan_harness.c', 'email_harness.c'):
        open(os.path.join(work, f), 'w').write(open(os.path.join(HARN, f)).read())

def run_one(args):
    work, src, cfg, extra_defs = args
    kind, fn, n, files, whole = cfg
    harness = 'scan_harness.c' if kind == 'scan' else 'email_harness.c'
    cmd = ['cbmc', os.path.join(work, harness), os.path.join(work, 'libc_stub.c')] + [os.path.join(src, 'src', f) for f in files] + \
          ['-I' + os.path.join(src, 'include'), '-I' + src, '-I' + os.path.join(src, 'src'), '-I' + work, '-DHAVE_LIBIDN2', '-D_DEFAULT_SOURCE', '-D_XOPEN_SOURCE=700',
           '-DFN=' + fn, '-DN=%d' % n, '-DWHOLE=%d' % whole] + list(extra_defs) + \
          ['--pointer-check', '--bounds-check', '--signed-overflow-check', '--unwindset', 'strspn.0:26,strspn.1:26', '--unwind', str(n + 4), '--unwinding-assertions']
    if kind == 'email':
        cmd += ['--no-malloc-may-fail', '--memory-leak-check']
    t0 = time.time()
    try:
        p = subprocess.run(cmd, stdout=subprocess.PIPE, stderr=subprocess.STDOUT, timeout=3000)
        out = p.stdout.decode('utf-8', 'replace')
    except subprocess.TimeoutExpired:
        return cfg, 'timeout', '', time.time() - t0, cmd
    fails = [l for l in out.splitlines() if l.rstrip().endswith('FAILURE')]
    m = re.search(r'\*\* (\d+) of (\d+) failed', out)
    nprops = int(m.group(2)) if m else 0
    if 'VERIFICATION SUCCESSFUL' in out:
        return cfg, 'ok', '%d assertions' % nprops, time.time() - t0, cmd
    if 'VERIFICATION FAILED' in out:
        # a libc function cbmc has no body for returns arbitrary values, and a loop longer than the unwinding bound is not explored:
        # neither says anything about the code; only a memory-safety assertion that fails with every callee modelled and every
        # loop unwound counts
        nobody = [l for l in fails if 'no-body' in l or 'no body for' in l]
        real = [l for l in fails if '.unwind.' not in l and 'no-body' not in l and 'no body for' not in l and 'recursion' not in l]
        if nobody or not real:
            return cfg, 'inconclusive', 'cbmc cannot model the current source: ' + '; '.join((nobody or fails)[:3]), time.time() - t0, cmd
        # counterexample
        try:
            t = subprocess.run(cmd + ['--trace', '--stop-on-fail'], stdout=subprocess.PIPE, stderr=subprocess.STDOUT, timeout=3000).stdout.decode('utf-8', 'replace')
        except subprocess.TimeoutExpired:
            t = ''
        vals = re.findall(r'^\s*(buf\[\d+l?\]|n|e)=(-?\d+|\'.*?\')', t, flags=re.M)
        return cfg, 'failed', {'failed_assertions': fails[:6], 'assignments': vals[-40:], 'trace_tail': t[-1500:]}, time.time() - t0, cmd
    return cfg, 'error', out[-1500:], time.time() - t0, cmd

def run(work, src, thorough, extra_defs=()):
    prepare(work)
    jobs = [(work, src, c, extra_defs) for c in configs(thorough)]
    with ThreadPoolExecutor(max_workers=min(16, len(jobs))) as ex:
        return list(ex.map(run_one, jobs))
