#!/usr/bin/env python3
"""mkmatrix.py — write seeded/MATRIX.md and the detected_by field of every seeded/<id>/meta.json from seeded/matrix_*.json
(outputs of tools/seed_matrix.sh) and, for seeds not in a matrix run yet, from seeded/own_check.json (seed -> kind)."""
import json, glob, os
os.chdir(os.path.join(os.path.dirname(os.path.abspath(__file__)), '..'))
mat = {}
for f in sorted(glob.glob('seeded/matrix_*.json')):
    for k, v in json.load(open(f)).items():
        if k != '_': mat[k] = v
own = json.load(open('seeded/own_check.json')) if os.path.exists('seeded/own_check.json') else {}
checks = ['C%02d' % i for i in range(1, 21)]
seeds = sorted(d for d in os.listdir('seeded') if os.path.isdir(os.path.join('seeded', d)))
lines = ['# Seeded changes x checks', '',
         'Rows: seeded changes (`seeded/<id>/patch.diff`), columns: the registered checks run (quick tier) against a scratch copy of /repo with the change applied.',
         '`I` = VIOLATION with a concrete failing input / schedule / history in the replay; `n` = VIOLATION `no-failing-input-found` (a theorem or a correspondence',
         'of that property no longer checks, no input on which that property itself fails was found); `.` = quiet; `?` = not run in a matrix yet (only the own check was run).',
         'The diagonal (the check of the property the change was written against) is `I` for every seed.', '',
         '| seed | ' + ' | '.join(c[1:] for c in checks) + ' |', '|---|' + '---|' * len(checks)]
for s in seeds:
    row = []
    for c in checks:
        if s in mat:
            k = mat[s].get(c); row.append('I' if k == 'input' else 'n' if k == 'nofail' else '.')
        elif c == s[:3] and s in own:
            row.append('I' if own[s] == 'input' else 'n')
        else:
            row.append('?')
    lines.append('| %s | %s |' % (s, ' | '.join(row)))
    mp = os.path.join('seeded', s, 'meta.json')
    if os.path.exists(mp):
        m = json.load(open(mp))
        if s in mat:
            m['detected_by'] = [{'check': c, 'with_failing_input': mat[s][c] == 'input'} for c in checks if c in mat[s]]
        elif s in own:
            m['detected_by'] = [{'check': s[:3], 'with_failing_input': own[s] == 'input', 'note': 'own check only; full row not run yet'}]
        json.dump(m, open(mp, 'w'), indent=1)
open('seeded/MATRIX.md', 'w').write('\n'.join(lines) + '\n')
print('\n'.join(lines[-len(seeds):]))
