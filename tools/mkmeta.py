#!/usr/bin/env python3
"""mkmeta.py <sid> <needs-to-manifest text> [origin-round]  — (re)write seeded/<sid>/meta.json after confirming the seed."""
import json, subprocess, re, sys
sid, need = sys.argv[1], sys.argv[2]
rnd = sys.argv[3] if len(sys.argv) > 3 else '4'
pid = sid[:3]
props = {json.loads(l)['id']: json.loads(l) for l in open('/verif/properties.jsonl')}
out = subprocess.run(['bash', '/verif/tools/confirm_seed.sh', '/verif/seeded/' + sid], capture_output=True, text=True).stdout
m = re.search(r'RESULT (suite=(\w+) exit=(\d+) demo_without=(\d+) demo_with=(\d+))', out)
if not m:
    print(sid, 'NOT CONFIRMED', out[-300:]); sys.exit(1)
meta = {"property": pid, "breaks": "%s — %s" % (pid, props[pid]['title']), "needs_to_manifest": need,
        "origin": "fresh sub-agent (round %s) given only the property text and a scratch worktree of /repo at 69e49ea" % rnd,
        "confirmed": {"cmd": "tools/confirm_seed.sh seeded/%s  (scratch copy of /repo HEAD: make clean && make && make check before/after the patch, demo built against libeav.a before/after)" % sid,
                      "result": "RESULT " + m.group(1), "suite_lines_identical": m.group(2) == 'identical', "demo_passes_without": m.group(4) == '0', "demo_fails_with": m.group(5) != '0'},
        "detected_by": []}
json.dump(meta, open('/verif/seeded/%s/meta.json' % sid, 'w'), indent=1)
print(sid, m.group(1))
