"""gens.py - case generators of the correspondence checks (DESIGN.md section 4).
Every generator returns a list of case lines for harness/drv.c and harness/model_drv.ml."""
import itertools, random
from vlib import hx

# ------------------------------------------------------------------ local parts
LOCAL_ALPHA = [b'a', b'.', b'"', b'\\', b' ', b'\t', b'\r', b'\n', b'(', b'\x01', b'\x7f', b'#',
               b'\xc3\xa9', b'\xe4\xb8\xad', b'\xf0\x9f\x98\x80', b'\xc0', b'\x80']

def all_strings(alpha, n):
    for k in range(0, n + 1):
        for t in itertools.product(alpha, repeat=k):
            yield b''.join(t)

def local_class(n, alpha=LOCAL_ALPHA):
    return ['L %s -' % hx(s) for s in all_strings(alpha, n)]

LOCAL_PRE = [b'', b'a', b'a.', b'"a"', b'"a".', b'"', b'"a', b'"\\', b'"\r', b'"\r\n', b'" ', b'"a ', b'"\\ ',
             b'\xd0\xb0', b'\xd0\xb0.', b'"\xd0\xb0', b'"\\a']
LOCAL_POST = [b'', b'b', b'.b', b'"', b'".b', b' "', b'\n "', b'\n\tx"', b'\\"', b'.', b'..b', b'"b', b'\xd0\xb1', b'\xd0\xb1"']

def local_sweep():
    out = []
    for pre in LOCAL_PRE:
        for post in LOCAL_POST:
            for c in range(1, 256):
                out.append('L %s -' % hx(pre + bytes([c]) + post))
    # two-byte holes: every byte next to each structural character, both orders
    for pre in (b'', b'a', b'"', b'"a'):
        for post in (b'', b'"', b'b"'):
            for c in range(1, 256):
                for d in (b'.', b'"', b'\\', b' ', b'\r', b'\n', b'\t', b'a'):
                    out.append('L %s -' % hx(pre + bytes([c]) + d + post))
                    out.append('L %s -' % hx(pre + d + bytes([c]) + post))
    return out

def local_rest():
    out = []
    alpha = [b'a', b'.', b'"', b'\\', b' ', b'\r', b'\n', b'\t']
    for s in all_strings(alpha, 4):
        for rest in (b'@d', b' ', b'\t', b'\n', b'.', b'"', b'a'):
            out.append('L %s %s' % (hx(s), hx(rest)))
    return out

ATEXT = b"abcxyzABC0189!#$%&'*+-/=?^_`{|}~"
def rand_word(rnd, mode_bias):
    if rnd.random() < 0.6:
        return bytes(rnd.choice(ATEXT) for _ in range(rnd.randint(1, 6)))
    q = b''
    for _ in range(rnd.randint(0, 6)):
        r = rnd.random()
        if r < 0.5: q += bytes([rnd.choice(ATEXT)])
        elif r < 0.6: q += b'\\' + bytes([rnd.randint(1, 127)])
        elif r < 0.7: q += rnd.choice([b' ', b'\t', b'\r\n ', b'\r\n\t', b'  ', b'\n', b'\r'])
        elif r < 0.8: q += bytes([rnd.randint(1, 31)])
        elif r < 0.9: q += rnd.choice(['é', 'ж', '中', '😀']).encode()
        else: q += rnd.choice([b'@', b'(', b'.', b'..', b',', b';'])
    return b'"' + q + b'"'

def mutate(rnd, s):
    if not s: return s
    r = rnd.random()
    i = rnd.randrange(len(s))
    if r < 0.3: return s[:i] + bytes([rnd.randint(1, 255)]) + s[i + 1:]
    if r < 0.55: return s[:i] + s[i + 1:]
    if r < 0.8: return s[:i] + rnd.choice([b'.', b'"', b'\\', b' ', b'\r', b'\n', b'@', b'\x80', b'\xc3']) + s[i:]
    return s[:i] + s[i:i + 1] + s[i:]

def local_random(rnd, n):
    out = []
    for _ in range(n):
        s = b'.'.join(rand_word(rnd, 0) for _ in range(rnd.randint(1, 4)))
        for _ in range(rnd.choice([0, 0, 1, 1, 2])):
            s = mutate(rnd, s)
        out.append('L %s -' % hx(s))
    # long ones
    for _ in range(max(4, n // 1000)):
        s = b'.'.join(rand_word(rnd, 0) for _ in range(rnd.randint(50, 400)))
        if rnd.random() < 0.5: s = mutate(rnd, s)
        out.append('L %s -' % hx(s))
    return out
