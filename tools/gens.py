"""gens.py - case generators of the correspondence checks (DESIGN.md section 4).
Every generator returns a list of case lines for harness/drv.c and harness/model_drv.ml."""
import itertools, random
from vlib import hx

# ------------------------------------------------------------------ local parts
LOCAL_ALPHA = [b'a', b'.', b'"', b'\\', b' ', b'\t', b'\r', b'\n', b'(', b'\x01', b'\x7f', b'#',
               b'\xc3\xa9', b'\xe4\xb8\xad', b'\xf0\x9f\x98\x80', b'\xc0', b'\x80']

def all_strings(alpha, n):
    for k in range(0, n + 1):
        for t in itertools.product(alpha, repeat=k):
            yield b''.join(t)

def local_class(n, alpha=LOCAL_ALPHA):
    return ['L %s -' % hx(s) for s in all_strings(alpha, n)]

LOCAL_TOKENS = [b'a', b'.', b'"', b'\\', b' ', b'\t', b'\r\n ', b'\r\n\t', b'\r\n', b'\n ', b'\r', b'\n', b'\x80', b'\xd0\xb0', b'\\"', b'(', b'\x01']

def local_tokens(n, tokens=LOCAL_TOKENS):
    """all sequences of at most n *tokens* — the structural characters plus multi-byte units (a complete folding CRLF SP / CRLF HT,
    its fragments CRLF, LF SP, CR, LF, an escaped quote, a non-ASCII character, a lone high byte) — bare and wrapped in a pair of
    quotes: what a scanner does after it has consumed a multi-byte unit is out of reach of short strings over single characters."""
    out = []
    for s in all_strings(tokens, n):
        out.append('L %s -' % hx(s))
        out.append('L %s -' % hx(b'"' + s + b'"'))
    return out

LOCAL_PRE = [b'', b'a', b'a.', b'"a"', b'"a".', b'"', b'"a', b'"\\', b'"\r', b'"\r\n', b'" ', b'"a ', b'"\\ ',
             b'\xd0\xb0', b'\xd0\xb0.', b'"\xd0\xb0', b'"\\a']
LOCAL_POST = [b'', b'b', b'.b', b'"', b'".b', b' "', b'\n "', b'\n\tx"', b'\\"', b'.', b'..b', b'"b', b'\xd0\xb1', b'\xd0\xb1"']

def local_sweep():
    out = []
    # words of 63-1025 octets (a counter kept in a narrow type wraps at 256) before / after each structural character
    for n in (63, 64, 65, 127, 128, 129, 254, 255, 256, 257, 511, 512, 513, 1024, 1025):
        w = b'a' * n
        for v in (w + b'"b"', w + b'.b', b'a.' + w + b'"c"', b'"' + w + b'"', w + b'..b', w + b'.', b'"' + w + b'"x', w + b'\\', b'"' + w, w + b' ', w + b'\xd0\xb0"b"', b'"a".' + w + b'"b"'):
            out.append('L %s -' % hx(v))
    for pre in LOCAL_PRE:
        for post in LOCAL_POST:
            for c in range(1, 256):
                out.append('L %s -' % hx(pre + bytes([c]) + post))
    # two-byte holes: every byte next to each structural character, both orders
    for pre in (b'', b'a', b'"', b'"a'):
        for post in (b'', b'"', b'b"'):
            for c in range(1, 256):
                for d in (b'.', b'"', b'\\', b' ', b'\r', b'\n', b'\t', b'a'):
                    out.append('L %s -' % hx(pre + bytes([c]) + d + post))
                    out.append('L %s -' % hx(pre + d + bytes([c]) + post))
    return out

def local_rest():
    out = []
    alpha = [b'a', b'.', b'"', b'\\', b' ', b'\r', b'\n', b'\t']
    for s in all_strings(alpha, 4):
        for rest in (b'@d', b' ', b'\t', b'\n', b'.', b'"', b'a'):
            out.append('L %s %s' % (hx(s), hx(rest)))
    return out

ATEXT = b"abcxyzABC0189!#$%&'*+-/=?^_`{|}~"
def rand_word(rnd, mode_bias):
    if rnd.random() < 0.6:
        return bytes(rnd.choice(ATEXT) for _ in range(rnd.randint(1, 6)))
    q = b''
    for _ in range(rnd.randint(0, 6)):
        r = rnd.random()
        if r < 0.5: q += bytes([rnd.choice(ATEXT)])
        elif r < 0.6: q += b'\\' + bytes([rnd.randint(1, 127)])
        elif r < 0.7: q += rnd.choice([b' ', b'\t', b'\r\n ', b'\r\n\t', b'  ', b'\n', b'\r'])
        elif r < 0.8: q += bytes([rnd.randint(1, 31)])
        elif r < 0.9: q += rnd.choice(['é', 'ж', '中', '😀']).encode()
        else: q += rnd.choice([b'@', b'(', b'.', b'..', b',', b';'])
    return b'"' + q + b'"'

def mutate(rnd, s):
    if not s: return s
    r = rnd.random()
    i = rnd.randrange(len(s))
    if r < 0.3: return s[:i] + bytes([rnd.randint(1, 255)]) + s[i + 1:]
    if r < 0.55: return s[:i] + s[i + 1:]
    if r < 0.8: return s[:i] + rnd.choice([b'.', b'"', b'\\', b' ', b'\r', b'\n', b'@', b'\x80', b'\xc3']) + s[i:]
    return s[:i] + s[i:i + 1] + s[i:]

def local_random(rnd, n):
    out = []
    for _ in range(n):
        s = b'.'.join(rand_word(rnd, 0) for _ in range(rnd.randint(1, 4)))
        for _ in range(rnd.choice([0, 0, 1, 1, 2])):
            s = mutate(rnd, s)
        out.append('L %s -' % hx(s))
    # long ones
    for _ in range(max(4, n // 1000)):
        s = b'.'.join(rand_word(rnd, 0) for _ in range(rnd.randint(50, 400)))
        if rnd.random() < 0.5: s = mutate(rnd, s)
        out.append('L %s -' % hx(s))
    return out

# ------------------------------------------------------------------ domains
DOM_ALPHA = [b'a', b'1', b'-', b'.', b'_', b'!', b'\xc3', b'A']

def dom_class(n, alpha=DOM_ALPHA):
    return [s for s in all_strings(alpha, n)]

def dom_boundary(chars=(b'x', b'7', b'-')):
    out = []
    for n in range(0, 71):
        labs = set()
        for ch in chars:
            labs.add(b'a' + ch * (n - 2) + b'b' if n >= 2 else b'a' * n)   # ch in the interior
            labs.add(ch * n)                                               # ch everywhere
            labs.add(b'a' * (n - 1) + ch if n >= 1 else b'')               # ch last
            labs.add(ch + b'a' * (n - 1) if n >= 1 else b'')               # ch first
            if n >= 4:
                labs.add(b'a' * (n - 3) + ch * 3)                          # ch in the last three places
        for lab in sorted(labs):
            for pre in (b'', b'a.', b'a.b.'):
                for suf in (b'', b'.', b'.c', b'.c.', b'.c.d'):
                    out.append(pre + lab + suf)
    lab50 = b'a' * 49
    for n in range(236, 262):
        base = (lab50 + b'.') * 6
        for filler in (b'b', b'1'):
            d = (base + filler * 60 + b'.' + filler * 60)[:n]
            for suf in (b'', b'.', b'..'):
                out.append(d + suf)
    # numeric / mixed
    for d in (b'1', b'1.2', b'1.2.3.4', b'1a', b'1.a', b'1-2', b'0.', b'123.456.', b'1.2.3.4.5x'):
        out.append(d)
    # all-numeric names of 1-9 labels, digit runs of 1-4 and of 63, with and without the root dot; the same with one letter / hyphen somewhere
    for k in range(1, 10):
        for w in (b'1', b'12', b'255', b'0001', b'9' * 63):
            d = b'.'.join([w] * k)
            out += [d, d + b'.', d + b'.a', b'a.' + d, d[:-1] + b'a', d.replace(b'.', b'-', 1)]
    out += long_name_shapes()
    return out

def long_idn_domains(nums=()):
    """domains of 500-4200 octets (every size the sources mention as a number, the powers of two, +-2) that the IDNA mapping shrinks to a short
    name — a short ASCII name followed by code points mapped to nothing — ending in nothing, in an ill-formed octet, in a disallowed code
    point, in a hyphen: a fixed-size copy or a length cap in front of the conversion shows only beyond its size"""
    sizes = sorted(set([n + d for n in list(nums) + [512, 1000, 1024, 2048, 4096] if 300 <= n <= 4200 for d in (-2, -1, 0, 1, 2, 3)]))
    out = []
    for n in sizes:
        for fill in ('\u00ad', '\u200b'):
            k = max((n - 8) // len(fill.encode()), 1)
            body = b'gnu.org' + fill.encode() * k
            body += b'a' * max(n - len(body) - 1, 0)
            for tail in (b'', b'\xff', '\u2603'.encode(), b'-', b'.'):
                out.append(body[:max(n - len(tail), 1)] + tail)
    return out

def row_bitflips(names, bits=(0x20, 0x80, 0x40, 0x10)):
    """every table row with one bit of one octet flipped (0x20: what a home-made case folding or-s / and-s away; 0x80: a high bit a 7-bit compare
    drops; 0x40, 0x10: neighbours) — kept when the result is not the same name in another letter case"""
    out = []
    for r in names:
        for i in range(len(r)):
            for b in bits:
                c = r[i] ^ b
                if c == 0: continue
                v = r[:i] + bytes([c]) + r[i + 1:]
                if v.lower() != r.lower(): out.append(v)
    return out

def name_of_length(p, short=False):
    """a valid host name (no root dot) of exactly p octets: 63-octet labels, or 1-octet labels when short"""
    if p <= 0: return b''
    if short:
        return (b'a.' * (p // 2 + 1))[:p - 1] + (b'a' if p % 2 else b'bb'[:1]) if p % 2 else (b'a.' * (p // 2 - 1)) + b'bb'
    labs = []; left = p; k = 0
    while left > 0:
        if labs: left -= 1
        n = min(63, left)
        if left - n == 1: n -= 1          # do not leave room for a lone dot
        labs.append(bytes([97 + k % 26]) * n); left -= n; k += 1
    return b'.'.join(labs)

def long_name_shapes():
    """names around the 253 / 254 / 255 limits with a dot at every position 247-258 and every kind of tail — a listed TLD, a reserved
    name, nothing, a root dot — built from 63-octet and from 1-octet labels: limits that count the root dot, a truncating copy,
    a test one octet off show only where a dot or a reserved name sits exactly on the limit"""
    out = []
    tails = (b'com', b'c', b'de', b'test', b'onion', b'example.com', b'example.org', b'invalid', b'localhost', b'zz', b'')
    for p in range(247, 259):
        for short in (False, True):
            head = name_of_length(p, short)
            for t in tails:
                out.append(head + b'.' + t)
                if t: out.append(head + b'.' + t + b'.')
    # reserved / listed endings with the whole name at exactly T octets, with and without the root dot
    for T in range(249, 258):
        for t in (b'test', b'example.com', b'example.net', b'invalid', b'localhost', b'onion', b'com', b'arpa', b'museum'):
            for short in (False, True):
                head = name_of_length(T - len(t) - 1, short)
                if head:
                    out.append(head + b'.' + t); out.append(head + b'.' + t + b'.')
    return out

def dom_sweep():
    out = []
    for pre in (b'', b'a', b'a.', b'a-', b'a.b', b'1', b'1.'):
        for post in (b'', b'b', b'.b', b'-b', b'.', b'.b.'):
            for c in range(1, 256):
                out.append(pre + bytes([c]) + post)
    return out

def dom_lines(doms, rests=(b'',)):
    return ['D %s %s' % (hx(d), hx(r)) for d in doms for r in rests]

def rand_label(rnd, maxlen=12):
    n = rnd.randint(1, maxlen)
    s = bytes(rnd.choice(b'abcxyz0123456789-ABC') for _ in range(n))
    return s

def dom_random(rnd, n):
    out = []
    for _ in range(n):
        k = rnd.randint(1, 5)
        d = b'.'.join(rand_label(rnd, rnd.choice([3, 8, 20, 63, 64])) for _ in range(k))
        if rnd.random() < 0.2: d += b'.'
        for _ in range(rnd.choice([0, 0, 1, 2])):
            d = mutate(rnd, d)
        out.append(d)
    return out

def e_lines(addrs, oracle, modes=(0, 1, 2, 3), tlds=(0, 1)):
    """E lines for the given addresses; oracle: dict domain -> (rc, ascii)."""
    out = []
    for a in addrs:
        i = a.rfind(b'@')
        d = a[i + 1:] if i >= 0 else b''
        rc, asc = oracle.get(d, (0, b''))
        for m in modes:
            for t in tlds:
                out.append('E %d %d %s %d %s 0' % (m, t, hx(a), rc, hx(asc)))
    return out

def u_lines(doms, oracle, tlds=(0, 1)):
    out = []
    for d in doms:
        rc, asc = oracle.get(d, (0, b''))
        for t in tlds:
            out.append('U %d %s %d %s 0' % (t, hx(d), rc, hx(asc)))
    return out

# ------------------------------------------------------------------ UTF-8 candidates
EDGE = [0x00, 0x01, 0x2e, 0x22, 0x5c, 0x7f, 0x80, 0x8f, 0x90, 0x9f, 0xa0, 0xbf, 0xc0, 0xc1, 0xc2, 0xdf, 0xe0, 0xed, 0xef, 0xf0, 0xf4, 0xf5, 0xf7, 0xf8, 0xff]

def utf8_candidates(thorough=False):
    """byte sequences to be tried as one 'character': all 1- and 2-byte sequences, a boundary cover of
    3- and 4-byte sequences (all 3-byte sequences in thorough mode)."""
    out = []
    for a in range(1, 256):
        out.append(bytes([a]))
    for a in range(0x80, 256):
        for b in range(1, 256):
            out.append(bytes([a, b]))
    cover = [0x01, 0x2e, 0x7f, 0x80, 0x8f, 0x90, 0x9f, 0xa0, 0xbf, 0xc0, 0xff]
    if thorough:
        for a in range(0xe0, 0xf0):
            for b in range(0x80, 0xc0):
                for c in range(1, 256):
                    out.append(bytes([a, b, c]))
    for a in list(range(0xe0, 0xf0)) + [0xdf, 0xf0]:
        for b in cover:
            for c in cover:
                out.append(bytes([a, b, c]))
    for a in range(0xf0, 0x100):
        for b in cover:
            for c in cover:
                for d in cover:
                    out.append(bytes([a, b, c, d]))
    return out

UTF8_CONTEXTS = [(b'', b''), (b'a', b'b'), (b'a.', b'.b'), (b'"', b'"'), (b'"\\', b'"'), (b'"a', b'".b'),
                 (b'', b'"q"'), (b'a.', b'"q"'), (b'"q"', b''), (b'.', b''), (b'', b'.'), (b'\xd0\xb0', b'\xd0\xb1'),
                 (b'"\\\\', b'"')]

def low_byte_twins():
    """non-ASCII characters whose code point has, as its low byte, an ASCII character the scanners treat specially (. " \\ @ SP # ^ ` { | } ~ ( ) ...):
    a decoded value squeezed into a char, or compared after masking, takes them for that character.  Four planes each: U+01xx, U+04xx, U+4Exx, U+1F6xx."""
    out = []
    for c in b'."\\@ #^`{|}~()<>[]:;,-_!%&*+/=?\'$\t\r\n\x01\x7f0aA':
        for base in (0x100, 0x400, 0x4e00, 0x1f600, 0xff00, 0x10000, 0x20000, 0xf0000, 0x100000):      # low 8 bits, and low 16 bits, equal to the character
            cp = base + c
            if 0xd800 <= cp <= 0xdfff: continue
            out.append(chr(cp).encode('utf-8'))
    return out

def low_byte_twin_lines():
    out = []
    for u in low_byte_twins():
        for pre, post in UTF8_CONTEXTS:
            out.append('L %s -' % hx(pre + u + post))
        for pre, post in ((b'a', b'"b"'), (b'"a', b' b"'), (b'"a ', b'b"'), (b'a.', b'"b"'), (b'', b'.'), (b'.', b'')):
            out.append('L %s -' % hx(pre + u + post))
    return out

def utf8_lines(thorough=False):
    out = low_byte_twin_lines()
    for u in utf8_candidates(thorough):
        if 0 in u:
            continue
        for pre, post in UTF8_CONTEXTS:
            out.append('L %s -' % hx(pre + u + post))
    # truncated sequences at the very end (missing continuation bytes)
    for pre in (b'', b'a', b'"'):
        for u in (b'\xc3', b'\xe2', b'\xe2\x82', b'\xf0', b'\xf0\x9f', b'\xf0\x9f\x98'):
            out.append('L %s -' % hx(pre + u))
    return out

def decoder_lines(rnd, thorough=False, n_random=3000):
    """W cases: byte strings given to the decoder alone (embedded NUL included: the decoder is driven by a length).
    Every candidate of utf8_candidates on its own and between ASCII letters; every scalar value at and around the
    encoding-length and surrogate boundaries; 4-byte characters with every single payload bit set; random
    concatenations of well-formed characters with one malformed piece spliced in."""
    out = []
    for u in utf8_candidates(thorough):
        out.append('W %s' % hx(u)); out.append('W %s' % hx(b'a' + u + b'b'))
    cps = set()
    for b in (0, 1, 0x7f, 0x80, 0x7ff, 0x800, 0xfff, 0x1000, 0xd7ff, 0xe000, 0xfffd, 0xffff, 0x10000, 0x3ffff, 0x40000, 0xfffff, 0x100000, 0x10ffff):
        cps.update(c for c in (b - 1, b, b + 1) if 0 <= c <= 0x10ffff and not 0xd800 <= c <= 0xdfff)
    for k in range(21):
        cps.add(1 << k); cps.add((1 << k) | 0x10000); cps.add(0x10ffff & ~(1 << k) if k < 16 else 0x10000 | (1 << k) % 0x100000)
    cps = sorted(c for c in cps if 0 <= c <= 0x10ffff and not 0xd800 <= c <= 0xdfff)
    for c in cps:
        out.append('W %s' % hx(chr(c).encode('utf-8')))
    out.append('W %s' % hx(''.join(chr(c) for c in cps).encode('utf-8')))
    bad = [b'\x80', b'\xbf', b'\xc0\x80', b'\xc1\xbf', b'\xe0\x9f\xbf', b'\xed\xa0\x80', b'\xed\xbf\xbf', b'\xf0\x8f\xbf\xbf', b'\xf4\x90\x80\x80',
           b'\xf5\x80\x80\x80', b'\xf8\x88\x80\x80\x80', b'\xfe', b'\xff', b'\xc3', b'\xe2\x82', b'\xf0\x9f\x98', b'\xe2\x28\xa1', b'\xf0\x28\x8c\xbc', b'\xf0\x90\x28\xbc']
    for x in bad:
        out.append('W %s' % hx(x)); out.append('W %s' % hx('é€'.encode() + x)); out.append('W %s' % hx(x + b'a'))
    for _ in range(n_random):
        k = rnd.randint(1, 12)
        piece = []
        for _ in range(k):
            r = rnd.random()
            if r < 0.25: c = rnd.randint(0, 0x7f)
            elif r < 0.5: c = rnd.randint(0x80, 0x7ff)
            elif r < 0.75:
                c = rnd.randint(0x800, 0xffff)
                if 0xd800 <= c <= 0xdfff: c = 0xe000
            else: c = rnd.randint(0x10000, 0x10ffff)
            piece.append(chr(c).encode('utf-8'))
        if rnd.random() < 0.3:
            piece.insert(rnd.randint(0, len(piece)), rnd.choice(bad))
        out.append('W %s' % hx(b''.join(piece)))
    return out

# ------------------------------------------------------------------ whole addresses
ADDR_ALPHA = [b'a', b'1', b'.', b'@', b'[', b']', b'-', b':', b' ', b'(', b'#', b'A']
ADDR_ALPHA_Q = [b'a', b'.', b'@', b'"', b'\\', b' ', b'[', b']', b'1', b'\xd0\xb0']

def addr_class(n, alpha=ADDR_ALPHA):
    return list(all_strings(alpha, n))

def domains_of(addrs):
    out = set()
    for a in addrs:
        i = a.rfind(b'@')
        if i >= 0:
            out.add(a[i + 1:])
    return out

GOOD_DOMAINS = [b'b.com', b'B.Org', b'test', b'a.test', b'x.example.com', b'abarth', b'nic.abarth', b'b.int', b'b.biz', b'b.arpa',
                b'b.museum', b'[1.2.3.4]', b'[IPv6:::1]', b'[IPv6:1:2:3:4:5:6:7:8]', b'[1:2::3]', b'b', b'b.', b'b.com.', b'1.2',
                b'xn--p1ai', b'b.xn--p1ai', 'почта.рф'.encode(), b'-b.com', b'b-.com', b'b..com', b'[1.2.3.4]x', b'b.invalid-tld-zz']
GOOD_LOCALS = [b'a', b'a.b', b'"a"', b'"a b".c', b'a.', b'.a', b'a..b', b'"a', b'a"b', b'a b', b'\xd0\xb0', b'a.\xd0\xb0.b', b'"\\a"', b'"\r\n "',
               b'a#b', b'"\x01"', b'"a"b', b'(a)', b'a@b']

def addr_boundary():
    """local parts of 62..67 octets in every word shape, with and without further '@' inside quotes."""
    out = []
    for n in range(61, 68):
        shapes = [b'a' * n, b'a.' * (n // 2) + b'a' * (n % 2), b'"' + b'a' * (n - 2) + b'"', b'"@' + b'a' * (n - 3) + b'"',
                  b'"a@' + b'b' * (n - 4) + b'"', b'a' * (n - 4) + b'."@"', b'a' * (n - 2) + b'@a', b'a@' + b'b' * (n - 2),
                  'а'.encode() * (n // 2) + b'a' * (n % 2)]
        for l in shapes:
            for d in (b'b.com', b'b', b'[1.2.3.4]', b'c@b.com', b''):
                out.append(l + b'@' + d)
    # both halves at their limits at once: local parts of 62-66 octets in front of names of 250-256 octets, with and without the root dot
    # (the longest valid address is 64 + 1 + 254 = 319 octets; a limit on the whole that forgets the '@' or the root dot shows only here)
    for n in (62, 63, 64, 65, 66):
        for l in (b'u' * n, b'"' + b'u' * (n - 2) + b'"'):
            for T in range(249, 257):
                for short in (False, True):
                    for tail in (b'', b'example.com', b'de'):
                        head = name_of_length(T - (len(tail) + 1 if tail else 0), short)
                        d = head + (b'.' + tail if tail else b'')
                        out.append(l + b'@' + d); out.append(l + b'@' + d + b'.')
    return out

def addr_structured():
    return [l + b'@' + d for l in GOOD_LOCALS for d in GOOD_DOMAINS]

# ------------------------------------------------------------------ TLD table / reserved names
def case_variants(s):
    out = {s, s.upper()}
    out.add(bytes(c ^ 0x20 if (i % 2 == 0 and 97 <= c <= 122) else c for i, c in enumerate(s)))
    out.add(s[:-1] + s[-1:].upper())
    return sorted(out)

def tld_labels(table, rnd, full=False):
    """labels to look up: every row in several case patterns, every proper prefix, one-character
    extensions, single substitutions, neighbours in table order, random unlisted labels."""
    names = [bytes.fromhex(n) for n, l, t in table]
    out = []
    for i, n in enumerate(names):
        out.extend(case_variants(n))
        for k in range(1, len(n)):
            out.append(n[:k])
        for c in (b'a', b'z', b'-', b'0', b'.') + ((b'A', b'x') if full else ()):
            out.append(n + c); out.append(c + n)
        pos = range(len(n)) if full else sorted(set([0, len(n) // 2, len(n) - 1]))
        for k in pos:
            for c in (b'a', b'z', b'q'):
                if n[k:k + 1] != c:
                    out.append(n[:k] + c + n[k + 1:])
        if i + 1 < len(names):
            out.append(n + names[i + 1]); out.append(names[i + 1][:1] + n)
    for _ in range(5000):
        out.append(bytes(rnd.choice(b'abcdefghijklmnopqrstuvwxyz0123456789-') for _ in range(rnd.randint(1, 12))))
    return out

RESERVED = [b'test', b'example', b'invalid', b'localhost', b'onion', b'example.com', b'example.net', b'example.org']
def one_edit(s):
    out = set()
    for i in range(len(s) + 1):
        for c in (b'a', b'x', b's', b'.'):
            out.add(s[:i] + c + s[i:])
    for i in range(len(s)):
        out.add(s[:i] + s[i + 1:])
        for c in (b'a', b'x'):
            out.add(s[:i] + c + s[i + 1:])
    out.discard(s)
    return sorted(out)

def last_two_label_lengths():
    """every length 1-63 of the last label behind second-level labels of the lengths the code distinguishes (7 = 'example') and a few others,
    with and without the root dot: sums like 7 + 1 + 56 = 64 sit on no single-label boundary"""
    out = []
    for l1 in (1, 2, 6, 7, 8, 9, 10, 56, 57, 62, 63):
        for l2 in range(1, 64):
            d = b'a' * l1 + b'.' + b'b' * l2
            out += [d, d + b'.', b'x.' + d]
    # the public is_special_domain takes any string: last labels longer than a host name admits, behind the words the code compares with
    for l2 in list(range(1, 72)) + [126, 127, 128, 129, 254, 255, 256, 257, 300]:
        out += [b'example.' + b'c' * l2, b'samples.' + b'c' * l2, b'EXAMPLE.' + b'C' * l2 + b'.', b'x.Example.' + b'c' * l2, b'example.' + b'c' * l2 + b'.']
        if l2 > 63: out += [b'a' * 7 + b'.' + b'b' * l2, b'test.' + b'c' * l2, b'c' * l2 + b'.example.com', b'c' * l2 + b'.test']
    return out

def reserved_suffixes():
    """each reserved name, its case variants, one-edit neighbours, stretched / cut / hyphen-glued forms (no further labels in front)"""
    sufs = []
    for r in RESERVED:
        sufs.extend(case_variants(r))
        sufs.extend(one_edit(r))
    sufs += [b'com', b'net', b'org', b'co', b'exampl', b'tests', b'example.co', b'example.comm', b'xexample.com']
    # every reserved name stretched and cut to every label length the length filter lets through (4, 5, 7, 9) and its neighbours:
    # a compare length that is one short turns a whole-label match into a prefix match only for such labels
    for r in RESERVED:
        last = r.split(b'.')[-1]; head = r[:len(r) - len(last)]
        for L in (3, 4, 5, 6, 7, 8, 9, 10):
            if L > len(last): sufs.append(head + last + b'xyzwvutsrq'[:L - len(last)])
            elif L < len(last): sufs.append(head + last[:L])
            sufs.append(head + b'x' * max(L - len(last), 0) + last[-L:])            # same, on the left
    # reserved names glued to further characters by a hyphen (a legal label character that is neither a letter nor a digit)
    for r in RESERVED:
        last = r.split(b'.')[-1]; head = r[:len(r) - len(last)]
        sufs += [head + last + b'-1', head + last + b'-x', head + b'x-' + last, head + last + b'--a', head + last + b'-' + last, head + last[:2] + b'-' + last[2:]]
    for t in (b'com', b'net', b'org'):
        sufs += [b'example-x.' + t, b'x-example.' + t, b'example.' + t + b'-x', b'example.x-' + t]
    for t in (b'com', b'net', b'org'):
        sufs += [b'example.' + t + b'x', b'example.' + t[:2], b'examplex.' + t, b'exampl.' + t, b'xexampl.' + t, b'example.x' + t[1:]]
    return list(dict.fromkeys(sufs))

def reserved_domains(full=False):
    """0-3 labels of every length 1-63 (length 7 and the word 'example' in particular) before each reserved
    suffix and before its one-edit neighbours, in several case patterns."""
    sufs = reserved_suffixes()
    pres = [b'']
    lens = range(1, 64) if full else list(range(1, 12)) + [62, 63]
    for n in lens:
        pres.append(b'a' * n + b'.')
    for w in (b'example', b'EXAMPLE', b'mailbox', b'test', b'com', b'examples', b'exampl', b'localhost', b'x.example', b'example.example',
              b'a.b', b'a.b.c', b'example.com', b'test.example', b'abcdefg.abcdefg'):
        pres.append(w + b'.')
    out = []
    for p in pres:
        for s in sufs:
            out.append(p + s)
    for s in sufs[:40]:
        out.append(s + b'.')       # root dot forms (outside the property, still compared with the model)
    # every reserved name in every letter-case pattern with the root dot, bare and behind labels (absolute names take their own path in the code)
    for r in RESERVED:
        for v in case_variants(r) + [r.upper(), r.title(), r[:-1] + r[-1:].upper()]:
            out += [v + b'.', b'b.' + v + b'.', b'mail.b.' + v + b'.']
    return out

# ------------------------------------------------------------------ facade histories
def enc_e(a, oracle, fault=None, buf=0):
    i = a.rfind(b'@')
    d = a[i + 1:] if i >= 0 else b''
    rc, asc = oracle.get(d, (0, d))
    if fault is not None:
        rc, asc = fault, b''
    return 'e%s/%d/%s/%d' % (hx(a), rc, hx(asc), buf)

HIST_POOL = [b'a@b.com', b'a@test', b'bad', b'a@[1.2.3.4]', 'и@почта.рф'.encode(), b'a@xn--zz.com', b'a@abarth', b'a@b', b'"a"b@c.org', b'a@b.biz']

def hist_exhaustive(oracle, maxlen):
    """all legal sequences up to maxlen over a small pool of operations, each followed by an eav_errstr."""
    ops = ['r0', 'r3', 'r7', 't0', 'm0', 's', 'x'] + [enc_e(a, oracle) for a in HIST_POOL[:5]] + [enc_e(HIST_POOL[0], oracle, fault=-100)]
    out = []
    for n in range(1, maxlen + 1):
        for seq in itertools.product(ops, repeat=n):
            out.append('A i s ' + ' '.join(seq) + ' x f')
    return out

def hist_random(rnd, oracle, n, length=40, codes=(-100, -304, -202, -205, 7)):
    ops = ['r0', 'r1', 'r2', 'r3', 'r7', 'r-1', 'r4', 't0', 't1', 'm0', 'm760', 'm2040', 'm8', 'm-1', 's', 's', 'x', 'x']
    out = []
    for _ in range(n):
        seq = ['i', 's']
        for _ in range(rnd.randint(1, length)):
            r = rnd.random()
            if r < 0.45:
                a = rnd.choice(HIST_POOL)
                if rnd.random() < 0.15:
                    seq.append(enc_e(a, oracle, fault=rnd.choice(codes), buf=rnd.randint(0, 1)))
                else:
                    seq.append(enc_e(a, oracle))
            elif r < 0.5:
                seq += ['f', 'i', 's']
            else:
                seq.append(rnd.choice(ops))
        seq += ['x', 'f']
        out.append('A ' + ' '.join(seq))
    return out

# ------------------------------------------------------------------ address-literal contents
def ip_contents():
    out = []
    octs = ['0', '1', '9', '10', '99', '100', '199', '200', '249', '250', '255', '256', '259', '260', '300', '999', '00', '01', '001', '0255', '']
    for i, o in enumerate(octs):
        for pos in range(4):
            q = ['1', '2', '3', '4']; q[pos] = o
            out.append('.'.join(q))
    # octets whose value only fits a wider integer, or wraps a 16-, 32- or 64-bit one onto 0-255; long runs of zeros
    big = ['1000', '65535', '65536', '65537', '65791', '99999', '2147483647', '2147483648', '2147483649', '4294967295', '4294967296', '4294967297', '4294967551', '4294967552',
           '9999999999', '18446744073709551615', '18446744073709551616', '18446744073709551617', '18446744073709551871', '0000000000', '0000000001', '00000000000000000255', '1' * 40, '25' + '0' * 30]
    for o in big:
        for pos in range(4):
            q = ['1', '2', '3', '4']; q[pos] = o
            out.append('.'.join(q)); out.append('IPv6:::ffff:' + '.'.join(q)); out.append('::' + '.'.join(q))
    # accepted literals that are longer than the canonical 15 / 45 characters: zero-padded octets of every width
    for k in list(range(1, 14)) + [20, 31, 32, 40, 63, 64, 100, 250]:
        z = '0' * k
        out += ['1.2.3.' + z + '4', z + '1.2.3.4', '1.' + z + '2.3.4', 'IPv6:::ffff:1.2.3.' + z + '4', 'IPv6:1:2:3:4:5:6:' + z + '1.2.3.4', '::' + z + '1.2.3.4',
                '.'.join([z + '255'] * 4), '.'.join([z + '0'] * 4)]
    out += ['1.2.3', '1.2.3.4.5', '1..2.3', '.1.2.3', '1.2.3.4.', '1.2.3.4 ', ' 1.2.3.4', '1.2.3.a', '0.0.0.0', '0.1.2.3', '00.1.2.3', '1.2.3.4]', '[1.2.3.4', '1.2.3.4]x']
    groups = ['1', 'ab', 'ABC', 'ffff', '0', '12345', 'g', '']
    for tag in ('IPv6:', 'ipv6:', 'IPv5:', 'IPV6:', 'x:', '', 'IPv6', 'IPv6::'):
        for before in range(0, 9):
            for after in range(0, 9):
                for sep in ('::', ':'):
                    if sep == ':' and (before == 0 or after == 0): continue
                    a = ':'.join(['1'] * before) + sep + ':'.join(['2'] * after)
                    out.append(tag + a)
                    if after >= 1:
                        out.append(tag + ':'.join(['1'] * before) + sep + ':'.join(['2'] * (after - 1) + ['1.2.3.4']))
        for gq in groups:
            out.append(tag + '1:2:3:4:5:6:7:' + gq)
            out.append(tag + gq + '::1')
            out.append(tag + '1::' + gq)
        out += [tag + '::', tag + ':::', tag + '1:::2', tag + '::1::', tag + '1::2::3', tag + ':1:2:3:4:5:6:7', tag + '1:2:3:4:5:6:7:', tag + '1:2:3:4:5:6:7::',
                tag + '::ffff:1.2.3.4', tag + '::ffff:0.2.3.4', tag + '::1.2.3.256', tag + '1:2:3:4:5:6:1.2.3.4', tag + '1:2:3:4:5:1.2.3.4', tag + '1:2:3:4:5:6:7:1.2.3.4',
                tag + '1.2.3.4', tag + '::1.2.3', tag + '::1.2.3.4.5', tag + '1:2:3:4:5:6:7:8:9', tag + '::12345', tag + '::1 ', tag + ' ::1']
    # group widths 1-4 in every shape, with and without a dotted-quad tail of every octet width (text lengths up to 45)
    for w in (1, 2, 3, 4):
        g = 'abcd'[:w] if w > 1 else '7'
        for ow in (1, 2, 3):
            q = '.'.join(['1' * ow] * 4)
            out += ['IPv6:' + ':'.join([g] * 8), ':'.join([g] * 8), 'IPv6:' + ':'.join([g] * 6) + ':' + q, ':'.join([g] * 6) + ':' + q,
                    'IPv6:' + ':'.join([g] * 3) + '::' + ':'.join([g] * 3), 'IPv6:' + ':'.join([g] * 2) + '::' + ':'.join([g] * 2) + ':' + q,
                    'IPv6:::' + ':'.join([g] * 4) + ':' + q, 'IPv6:' + ':'.join([g] * 4) + '::' + q, 'IPv6:' + ':'.join([g] * 5) + ':' + q, 'IPv6:' + ':'.join([g] * 7) + ':' + q]
    # spellings of a number that library parsers (strtol / strtoul / sscanf / atoi) take and the RFC grammar does not: prefixes, signs, blanks,
    # exponents, separators, suffixes, other digits — as an octet in every position and as a group at the start, in the middle, at the end,
    # next to '::' and in the dotted tail
    for sp in ('0x1', '0X1', '0x1f', '0xa', '0x', 'x1', '1x', '+1', '-1', '+0', '-0', ' 1', '1 ', '\t1', '1e1', '1E0', '0b1', '0o7', '1_0', '1,0', '1l', '1u', '1L',
               '0x01', '00x1', '1.', '1f', '０', '１', '١', '1\x0b', '\n1', '1h', '0x00ff', '0Xff'):
        for pos in range(4):
            q = ['1', '2', '3', '4']; q[pos] = sp
            out.append('.'.join(q)); out.append('IPv6:::ffff:' + '.'.join(q))
        for tag in ('IPv6:', ''):
            out += [tag + sp + '::', tag + '::' + sp, tag + sp + '::1', tag + '1::' + sp, tag + '1:' + sp + '::2', tag + '1:2:3:4:5:6:7:' + sp, tag + sp + ':2:3:4:5:6:7:8',
                    tag + '1:2:3:' + sp + ':5:6:7:8', tag + '1::' + sp + ':1.2.3.4']
    out += ['IPv6:ffff:ffff:ffff:ffff:ffff:ffff:255.255.255.255', 'IPv6:1111:2222:3333:4444:5555:6666:10.10.10.1', 'IPv6:1111:2222:3333:4444:5555:6666:10.10.1.1',
            'IPv6:ffff:ffff:ffff:ffff:ffff:ffff:ffff:ffff', 'IPv6:0000:0000:0000:0000:0000:0000:0000:0000', 'IPv6:00000::1', 'IPv6:ffff:ffff:ffff:ffff:ffff:ffff:255.255.255.2555']
    return [c.encode() for c in out]

# ------------------------------------------------------------------ IDN labels
SCRIPTS = {
    'cyrillic': 'абвгдежзийклмнопрстуфхцчшщъыьэюяё', 'greek': 'αβγδεζηθικλμνξοπρστυφχψω', 'han': '中文网络域名测试例子公司',
    'hangul': '한국도메인테스트삼성', 'arabic': 'ابتثجحخدذرزسشصضطظعغفقكلمنهوي', 'hebrew': 'אבגדהוזחטיכלמנסעפצקרשת',
    'devanagari': 'कखगघचछजझटठडढणतथदधनपफबभमयरलवशषसह', 'latin1': 'àáâãäåæçèéêëìíîïñòóôõöøùúûüýþÿ', 'ascii': 'abcxyz019', 'digits': '0123456789',
}
def idn_labels(rnd, n):
    out = []
    names = list(SCRIPTS)
    for _ in range(n):
        sc = rnd.choice(names)
        k = rnd.choice([1, 2, 3, 5, 8, 15, 30])
        lab = ''.join(rnd.choice(SCRIPTS[sc]) for _ in range(k))
        r = rnd.random()
        if r < 0.08: lab = '-' + lab
        elif r < 0.16: lab = lab + '-'
        elif r < 0.22: lab = lab[:2] + '--' + lab[2:]
        elif r < 0.28: lab = lab + rnd.choice(['!', '_', ' ', '‍', '­', '☕', 'ß', 'ς', 'A', 'Ä'])
        elif r < 0.32: lab = 'xn--' + lab
        out.append(lab)
    return out

def idn_domains(rnd, n):
    labs = idn_labels(rnd, n * 2)
    tlds = ['рф', 'com', 'xn--p1ai', '中国', 'في', 'test', 'example', 'εε', 'zz-nosuch', '한국']
    out = []
    for i in range(n):
        k = rnd.choice([1, 1, 2, 3])
        parts = [rnd.choice(labs) for _ in range(k)] + ([rnd.choice(tlds)] if rnd.random() < 0.8 else [])
        out.append('.'.join(parts).encode('utf-8'))
    # long U-label spellings whose A-label form is short: total UTF-8 length around the 253/255 limits
    for total in range(118, 132):
        a, b = total // 3, total - 2 * (total // 3)
        for ch in ('я', 'ж', 'α'):
            out.append((ch * a + '.' + ch * a + '.' + ch * b + '.рф').encode())
            out.append((ch * a + '.' + ch * a + '.' + ch * b + '.com').encode())
    # malformed UTF-8 and over-long labels
    # a refused (or merely unusual) A-label next to U-labels in the same name, in every position: what is checked must not depend on the other labels' spelling
    for al in ('xn--7a', 'xn--ls8h', 'xn--n3h', 'xn--a', 'xn--i-7iq', 'xn--', 'xn--0', 'XN--7A', 'xn--80akhbyknj4f', 'xn--nxasmq6b', 'ab--c', 'xn--p1ai'):
        for pat in ('%s.рф', 'é.%s.com', '%s.中国', 'я.%s', '%s.é.de', 'б.%s.рф', '%s.xn--p1ai', 'é.%s.xn--p1ai', '%s.com'):
            out.append((pat % al).encode('utf-8'))
    out += [b'\xc3.com', b'a\xff.com', b'\xed\xa0\x80.com', b'\xf4\x90\x80\x80.com', b'\xc0\xaf.com', ('я' * 70 + '.рф').encode(), ('я' * 57 + '.рф').encode(),
            ('日' * 60 + '.com').encode(), b'xn--zz.com', b'xn--a.com', b'xn---abc.com', b'ab--c.com', b'-a.com', b'a-.com', b'xn--80akhbyknj4f.xn--p1ai']
    return out


# ------------------------------------------------------------------ NUL inside the range (direct calls with end beyond a terminator)
def with_nul(strings, limit=4000):
    out = []
    for s in strings[:limit]:
        for i in range(len(s) + 1):
            out.append(s[:i] + b'\x00' + s[i:])
    return out

# ------------------------------------------------------------------ inputs built from the literals of the current sources
def source_dictionary(src_root):
    """String, character and integer literals of the C sources, headers and tool of the tree under check (comments removed):
    a change that compares against a particular word, length, value or position has to spell it somewhere."""
    import os, re
    words, nums = set(), set()
    for sub in ('src', 'include', 'include/eav', 'partial/idn2', 'partial/idn', 'partial/idnkit', 'bin'):
        d = os.path.join(src_root, sub)
        if not os.path.isdir(d): continue
        for fn in sorted(os.listdir(d)):
            if not fn.endswith(('.c', '.h')) or fn == 'auto_tld.c': continue
            try: txt = open(os.path.join(d, fn), encoding='utf-8', errors='replace').read()
            except OSError: continue
            txt = re.sub(r'/\*.*?\*/', ' ', txt, flags=re.S); txt = re.sub(r'//[^\n]*', ' ', txt)
            for m in re.finditer(r'"((?:[^"\\\n]|\\.)*)"', txt):
                w = m.group(1)
                try: b = bytes(w, 'latin-1').decode('unicode_escape').encode('latin-1')
                except Exception: continue
                if 1 <= len(b) <= 40 and 0 not in b and b'%' not in b: words.add(b)
            for m in re.finditer(r"'((?:[^'\\\n]|\\.))'", txt):
                try: b = bytes(m.group(1), 'latin-1').decode('unicode_escape').encode('latin-1')
                except Exception: continue
                if len(b) == 1 and b[0] != 0: words.add(b)
            for m in re.finditer(r'(?<![\w.])(0[xX][0-9a-fA-F]+|\d+)(?![\w.])', txt):
                try: v = int(m.group(1), 0)
                except ValueError: continue
                if 0 <= v <= 70000: nums.add(v)
    return sorted(words), sorted(nums)

def source_addresses(src_root, max_words=400, max_nums=160):
    """addresses, local parts and domains assembled around those literals"""
    words, nums = source_dictionary(src_root)
    words = [w for w in words if not w.endswith(b'.h')][:max_words]
    out = []
    for w in words:
        vs = {w, w.lower(), w.upper()}
        for v in vs:
            out += [v + b'@b.com', b'a.' + v + b'@b.com', v + b'.a@b.com', b'"' + v + b'"@b.com', b'a@' + v, b'a@' + v + b'.com', b'a@b.' + v, b'a@' + v + b'.example.com',
                    b'a@x' + v + b'.com', b'a@' + v + b'x.com', b'a@[' + v + b']', b'a@[IPv6:' + v + b']', v + b'@' + v, b'a' + v + b'b@c' + v + b'd.org']
    small = [k for k in nums if k <= 300][:max_nums]
    for k in small:
        for d in (-1, 0, 1):
            n = k + d
            if n < 1: continue
            out += [b'a' * n + b'@b.com', b'a.' * (n // 2) + b'a@b.com', b'"' + b'a' * max(n - 2, 0) + b'"@b.com', b'a' * max(n - 1, 0) + b'.@b.com', b'a' * max(n - 1, 0) + b'"@b.com',
                    b'a@' + b'b' * n + b'.com', b'a@b.' + b'c' * n, b'a@' + b'b' * min(n, 63) + b'.' + b'c' * min(n, 63) + b'.com', b'a@' + (b'b.' * n)[:250] + b'com',
                    b'a@' + b'b' * max(n - 1, 0) + b'-.com', b'a@' + b'b' * max(n - 1, 0) + b'-c.com', b'a@' + b'1' * n + b'.com']
            if n <= 255 + 1:
                o = str(n).encode()
                out += [b'a@[' + o + b'.1.1.1]', b'a@[1.' + o + b'.1.1]', b'a@[1.1.1.' + o + b']', b'a@[IPv6:' + b'%x' % n + b'::1]', b'a@[IPv6:1::' + b'%x' % n + b']', b'a@[IPv6:::' + o + b'.1.1.1]',
                        b'a@[' + b':'.join([b'1'] * min(n, 12)) + b']', b'a@[IPv6:' + b':'.join([b'1'] * min(n, 12)) + b']']
            if n <= 255:
                c = bytes([n])
                if n != 0:
                    out += [c + b'@b.com', b'a' + c + b'@b.com', b'"' + c + b'"@b.com', b'"\\' + c + b'"@b.com', b'a@' + c + b'.com', b'a@b' + c + b'.com', b'a' * 20 + c + b'a' * 20 + b'@b.com']
    for k in [k for k in nums if 300 < k <= 70000][:12]:
        out += [b'a' * k + b'@b.com', b'a@' + b'b' * k, b'a@' + (b'b.' * k)[:k], b'"' + b'\\"' * (k // 2) + b'"@b.com']
    return sorted(set(a for a in out if 0 not in a))

# ------------------------------------------------------------------ spellings that only become ASCII names through the IDNA mapping step
def mapped_variants(names=None):
    """UTF-8 spellings which IDNA2008 + UTS#46 mapping (what idn2_to_ascii_8z applies) turns into the given ASCII names: full-width letters,
    ideographic / full-width / half-width full stops as label separators, a soft hyphen or zero-width joiner inside a label, upper-case
    non-ASCII forms.  The reserved names and a few listed TLDs by default."""
    if names is None:
        names = ['test', 'a.test', 'example', 'b.example', 'invalid', 'localhost', 'onion', 'b.onion', 'example.com', 'a.example.org', 'example.net',
                 'b.com', 'b.org', 'b.de', 'b.museum', 'b.adac', 'b.biz', 'b.zz']
    fw = lambda s: ''.join(chr(ord(c) + 0xFEE0) if 'a' <= c <= 'z' or 'A' <= c <= 'Z' or '0' <= c <= '9' else c for c in s)
    out = []
    for n in names:
        vs = {fw(n), fw(n.upper()), n.replace('.', '。'), n.replace('.', '．'), n.replace('.', '｡'), fw(n).replace('.', '。'),
              n[:2] + '­' + n[2:], n[:1] + '‍' + n[1:], n + '。', '­' + n, n.replace('e', 'ｅ', 1), n.replace('t', 'Ｔ', 1),
              n.replace('s', 'ſ', 1), n.upper().replace('.', '。')}
        for v in vs:
            if v != n: out.append(v.encode('utf-8'))
    # names, labels and whole domains that the mapping makes vanish (code points mapped to nothing) or reduces to bare separators
    for i in ('\u00ad', '\u200b', '\u2060', '\ufeff', '\u034f', '\u180b', '\ufe0f', '\U000e0100'):
        for v in (i, i + i, i + '.com', 'b.' + i, i + '.' + i, 'b.' + i + '.com', i + '\u3002com', i + 'b' + i + '.com', 'b.com.' + i, i + '.', i + 'test', 'test' + i,
                  i + '.test', 'b.' + i + 'com' + i):
            out.append(v.encode('utf-8'))
    for v in ('\u3002', '\uff0e', '\uff61', '\u3002\u3002', 'b\u3002', '\u3002b', 'b\u3002\u3002com', '\u3002com'):
        out.append(v.encode('utf-8'))
    return sorted(set(out))
