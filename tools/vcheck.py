#!/usr/bin/env python3
"""vcheck.py <Cxx> [--tier quick|thorough]   |   vcheck.py replay <file>

Decides one property of /verif/properties.jsonl for /repo's current working tree:
  1. snapshot + build of the library (scratch, removed on exit), regeneration of coq/Gen/*.v
  2. the property's theorems are re-checked by coqc (Print Assumptions read back)
  3. correspondence: model (extracted from Coq) vs implementation on generated cases,
     compared through the property's own projection
  4. decision, evidence/<Cxx>.json, VIOLATION / KNOWN-FINDING lines, exit status."""
import os, sys, json, time, random, itertools, re
sys.path.insert(0, os.path.dirname(os.path.abspath(__file__)))
import vlib, gen, gens
from vlib import hx

class Ctx:
    def __init__(self, pid, tier, seed):
        self.pid, self.tier, self.seed = pid, tier, seed
        self.rep = vlib.Report(pid, tier, seed)
        self.rnd = random.Random(seed * 1000003 + int(pid[1:]))
        self.snap = None
        self.proof_ok = True
        self.mismatch_budget = 5
        self.known = load_known(pid)
    def thorough(self):
        return self.tier == 'thorough'

def load_known(pid):
    out = []
    p = os.path.join(vlib.VERIF, 'known-findings.txt')
    if os.path.exists(p):
        for ln in open(p):
            ln = ln.strip()
            if ln.startswith('finding:') and ('property=%s ' % pid) in ln + ' ':
                out.append(ln)
    return out

# ------------------------------------------------------------------ common steps
def step_build(ctx):
    try:
        ctx.snap, changed = gen.gen_all()
        ctx.rep.notes.append('Gen files changed on this run: %s' % (changed or 'none'))
        ctx.snap.lib()
        return True
    except vlib.BuildError as e:
        ctx.rep.violation({'kind': 'build-failure', 'detail': str(e)[-3000:]}, found_input=False)
        return False

def step_proof(ctx, extra_files=()):
    """Theorems of Properties_<pid>.v must all be discharged and axiom-free."""
    bad = vlib.scan_sources()
    if bad:
        ctx.rep.notes.append('forbidden commands in sources: %s' % bad[:10])
    names, done, axioms, log = vlib.check_properties_file(ctx.pid)
    ctx.rep.obligations, ctx.rep.discharged, ctx.rep.axioms = names, done, axioms
    ctx.failed_theorems = [n for n in names if n not in done]
    if bad:
        ctx.failed_theorems = names
        ctx.rep.discharged = []
    ctx.proof_log = log
    ctx.proof_ok = not ctx.failed_theorems and bool(names)
    return ctx.proof_ok

def proof_failure_violation(ctx):
    """Called when no concrete failing input was found but an obligation does not check."""
    tail = '\n'.join(ctx.proof_log.splitlines()[-40:])
    ctx.rep.violation({'kind': 'proof-obligation-fails',
                       'theorems_not_checked': ctx.failed_theorems or ['(no theorem found in Properties_%s.v)' % ctx.pid],
                       'coq_log_tail': tail,
                       'replay': 'cd coq && make Properties_%s.vo' % ctx.pid}, found_input=False)

def lvl_email(keep=(), fields=(2,)):
    """what a property about decisions / classes / flags sees of an E-line result: the class (rc >= 0), or 'rejected' for a negative code
    unless the property names that code (keep), plus the chosen further fields (2 = flags, 3 = lpart, 4 = domain)"""
    def f(ln, o):
        t = o.split(' ')
        if not t or not t[0].lstrip('-').isdigit(): return o
        rc = int(t[0])
        return (rc if (rc >= 0 or rc in keep) else 'rejected',) + tuple(t[i] for i in fields if i < len(t))
    return f
def lvl_facade(ln, o):
    """what a property about decisions sees of a facade history: the return values (and crashes)"""
    if 'CRASH' in o or 'ABORT' in o or 'FAULT' in o: return 'CRASH'
    return tuple(t.split(':')[0] for t in o.split(' ') if t[:1] == 'R')

def corr(ctx, gname, lines, project, lib=None, nontrivial=None, exhaustive=False, note='', describe=None,
         chunk=2000000, genuine=True, level=None):
    """Run one generator's cases through both drivers, compare under [project]
    (a function (case_line, output_line) -> comparable value).  Returns list of mismatches."""
    lib = lib or ctx.snap.lib()
    nontrivial = nontrivial or (lambda ln, o: not o.startswith(('-16', '-3 ')))
    mism = []
    total = 0
    if not isinstance(lines, list):
        lines = list(lines)
    for off in range(0, max(1, len(lines)), chunk):
        part = lines[off:off + chunk]
        c_out, m_out = vlib.run_both(lib, ctx.snap, part)
        for ln, a, b in zip(part, c_out, m_out):
            if a != b:
                pa, pb = project(ln, a), project(ln, b)
                if pa != pb:
                    mism.append((ln, a, b, pa, pb))
        ctx.rep.add_cases(gname, part, c_out, nontrivial, exhaustive=exhaustive, note=note)
        total += len(part)
    def is_genuine(t):
        ln, a, b = t[0], t[1], t[2]
        g = genuine(ln, a, b) if callable(genuine) else genuine
        return bool(g and not (level is not None and level(ln, a) == level(ln, b)))
    # counterexamples to the property first (shortest first), then mere divergences from the model
    mism.sort(key=lambda t: (not is_genuine(t), len(t[0])))
    for ln, a, b, pa, pb in mism[:ctx.mismatch_budget]:
        obj = {'kind': 'correspondence', 'correspondence': 'corr:%s/%s' % (ctx.pid, gname), 'case': ln,
               'build': dict(zip(('rfc20', 'f5322', 'uscore', 'extra', 'san'), lib.cfg)),
               'implementation': a, 'model': b, 'projected_implementation': pa, 'projected_model': pb}
        if describe:
            obj['explanation'] = describe(ln, a, b)
        g = genuine(ln, a, b) if callable(genuine) else genuine
        if g and level is not None and level(ln, a) == level(ln, b):
            # the outputs differ from the model's only in something this property does not speak about (e.g. which error code
            # a rejected input gets): the model no longer describes the code, but this case is no counterexample to the property
            g = False
        if not g:
            obj['note'] = ('the implementation no longer behaves as the model the theorems are about; the relation the property states was evaluated on the '
                           'implementation outputs separately and is reported on its own if it fails')
        ctx.rep.violation(obj, found_input=bool(g))
    return mism

def finish(ctx, rule, level='proof', extra_trusted=(), assumptions=(), extra_cov=None):
    if not ctx.proof_ok and not ctx.rep.violations:
        proof_failure_violation(ctx)
    return ctx.rep.finish(level=level, rule=rule, trusted=vlib.TRUSTED_COMMON + list(extra_trusted),
                          assumptions=list(assumptions),
                          checker_cmd='cd coq && make -k Properties_%s.vo && coqc -R . Eav Properties_%s.v   (Print Assumptions under every theorem)' % (ctx.pid, ctx.pid),
                          extra_cov=extra_cov)

def dec(x):
    return x == '0'

# ------------------------------------------------------------------ C02
def check_C02(ctx):
    step_proof(ctx)
    def project(ln, o):
        f = o.split(' ')
        return tuple(dec(x) for x in f[:3]) if len(f) >= 3 else o
    def describe(ln, a, b):
        return ('decision of is_822_local/is_5321_local/is_5322_local (0 = accept) differs from the model, which theorem '
                'C02_local_part_grammar proves equal to the grammar word *("." word): implementation rc %s, grammar %s' % (a, b))
    n = 6 if ctx.thorough() else 5
    corr(ctx, 'G-class(len<=%d)' % n, gens.local_class(n), project, exhaustive=True, describe=describe,
         note='all strings over 17 class representatives')
    corr(ctx, 'G-sweep', gens.local_sweep(), project, exhaustive=True, describe=describe,
         note='every byte 0x01-0xff at and around the hole of every scanner-state context')
    corr(ctx, 'G-tokens(<=%d)' % (n - 1), gens.local_tokens(n - 1), project, exhaustive=True, describe=describe,
         note='all sequences of 17 tokens (structural characters, complete and broken foldings, escaped quote, non-ASCII), bare and inside a pair of quotes')
    corr(ctx, 'G-rest', gens.local_rest(), project, exhaustive=True, describe=describe,
         note='end pointer inside a longer string (rest = @d, SP, HT, LF, dot)')
    corr(ctx, 'G-random-long', gens.local_random(ctx.rnd, 40000 if not ctx.thorough() else 400000), project, describe=describe)
    corr(ctx, 'G-nul', ['L %s -' % hx(x) for x in gens.with_nul(list(gens.all_strings([b'a', b'.', b'"', b'\\', b' '], 3)))], project, describe=describe, exhaustive=True,
         note='a NUL inside the range (outside the property: the scanners stop there; compared with the model all the same)')
    # the same grammar seen through the e-mail composers and the facade: <local>@ok.com / @[1.2.3.4] in the three ASCII modes is
    # accepted iff the local part is (the domain is valid, TLD checking off), in particular with '@' inside quoted words
    locs = [bytes.fromhex(l.split()[1]) if l.split()[1] != '-' else b'' for l in gens.local_class(4)]
    locs += [b'a."@"', b'a."b@c"', b'a."@".b', b'"@"', b'"a@b".c', b'"@".a', b'a."\\@"', b'"a"."@"."b"', b'a.b."c@d".e', b'a@b', b'a."@', b'a"@"']
    locs += [a[:a.rfind(b'@')] for a in src_addrs(ctx) if a.endswith(b'@b.com')]
    locs = sorted(set(l for l in locs if 0 not in l and len(l) <= 64))
    addrs = [l + b'@' + d for l in locs for d in (b'ok.com', b'[1.2.3.4]')]
    el = gens.e_lines(addrs, {}, modes=(0, 1, 2), tlds=(0,))
    corr(ctx, 'local@domain(composers)', el, lambda ln, o: dec(o.split(' ')[0]), describe=lambda ln, a, b: 'is_<mode>_email on <local>@<valid domain> decides differently from the model (whose local-part half is the grammar of C02_local_part_grammar): %s vs %s' % (a, b),
         nontrivial=nontriv_addr, note='every class string of length <= 4 and quoted-@ shapes as the local part of an address with a valid domain, modes 822/5321/5322')
    # relation on the implementation alone: composer decision == scanner decision on the local part (domain valid, local part has no unquoted '@' by construction of the split)
    lib = ctx.snap.lib()
    c_e, _ = vlib.run_both(lib, ctx.snap, el)
    ll = ['L %s %s' % (hx(l), hx(b'@ok.com')) for l in locs]
    c_l, _ = vlib.run_both(lib, ctx.snap, ll)
    ldec = {l: o.split(' ') for l, o in zip(locs, c_l)}
    nb = 0
    for ln, o in zip(el, c_e):
        f = ln.split(' '); a = bytes.fromhex(f[3]); m = int(f[1]); l = a[:a.rfind(b'@')]
        if l in ldec and len(ldec[l]) == 4 and len(l) <= 64 and l:
            if dec(ldec[l][m]) != dec(o.split(' ')[0]) and nb < 3:
                nb += 1; relation_violation(ctx, 'C02_grammar_through_the_composers', {'case': ln, 'is_email': o, 'scanner_on_local_part': ldec[l],
                                            'explanation': 'a local part accepted (rejected) by the mode\'s scanner is rejected (accepted) by the mode\'s e-mail validator although the domain is valid'})
    fl = facade_lines(addrs[::3], {}, modes=(0, 1, 2), tlds=(0,))
    corr(ctx, 'local@domain(facade)', fl, facade_decision, nontrivial=lambda ln, o: True, describe=lambda ln, a, b: 'eav_is_email decision differs from the model: %s vs %s' % (a, b))
    return finish(ctx, rule='L cases: is_{822,5321,5322,6531}_local on (s, rest); projection = accept/reject of the three ASCII scanners; E/A cases: the same local parts through is_*_email and eav_is_email; '
                  'non-trivial = not rejected as empty; distinct by case line')


# ------------------------------------------------------------------ C04
def check_C04(ctx):
    step_proof(ctx)
    dproj = lambda ln, o: dec(o.split(' ')[0])
    def describe(ln, a, b):
        return ('accept/reject of the host-name domain differs from the model, which theorem C04_ascii_domain proves equal to '
                'HostnameSpec (LDH labels 1-63, total <= 253 without root dot, not all-numeric): implementation %s, specification %s' % (a, b))
    nontriv = lambda ln, o: not o.startswith('-16')
    n = 8 if ctx.thorough() else 6
    doms = gens.dom_class(n)
    corr(ctx, 'G-class(len<=%d)' % n, gens.dom_lines(doms), dproj, exhaustive=True, describe=describe, nontrivial=nontriv,
         note='all strings over {a,1,-,.,_,!,0xC3,A}')
    bnd = gens.dom_boundary()
    corr(ctx, 'G-boundary', gens.dom_lines(bnd), dproj, exhaustive=True, describe=describe, nontrivial=nontriv,
         note='label lengths 0-70 in first/middle/last position, total lengths 236-261 with and without root dot')
    corr(ctx, 'G-sweep', gens.dom_lines(gens.dom_sweep()), dproj, exhaustive=True, describe=describe, nontrivial=nontriv)
    corr(ctx, 'G-rest', gens.dom_lines(gens.dom_class(4), rests=(b'x', b'.', b'-')), dproj, exhaustive=True, describe=describe, nontrivial=nontriv,
         note='end pointer inside a longer string')
    rnd = gens.dom_random(ctx.rnd, 30000 if not ctx.thorough() else 300000)
    corr(ctx, 'G-random', gens.dom_lines(rnd), dproj, describe=describe, nontrivial=nontriv)
    corr(ctx, 'G-nul', gens.dom_lines(gens.with_nul(gens.dom_class(3))), dproj, describe=describe, nontrivial=nontriv, exhaustive=True, note='a NUL inside the range')
    # underscore build
    lu = ctx.snap.lib(uscore=True)
    corr(ctx, 'uscore-build:G-class(len<=%d)' % (n - 1), gens.dom_lines(gens.dom_class(n - 1)), dproj, lib=lu, exhaustive=True, describe=describe, nontrivial=nontriv)
    corr(ctx, 'uscore-build:G-boundary', gens.dom_lines(gens.dom_boundary(chars=(b'_', b'x', b'-'))), dproj, lib=lu, exhaustive=True, describe=describe, nontrivial=nontriv)
    # the same domains through is_utf8_domain (real libidn2 as oracle) and through the four composers, TLD checking off
    sample = bnd + gens.dom_class(4) + rnd[:5000]
    orc = vlib.idn_oracle(sample)
    uproj = lambda ln, o: (int(o.split(' ')[0]) >= 0) if o and o[0] in '-0123456789' else o
    corr(ctx, 'is_utf8_domain(tld off)', gens.u_lines(sample, orc, tlds=(0,)), uproj, describe=describe, nontrivial=nontriv)
    eproj = lambda ln, o: dec(o.split(' ')[0])
    corr(ctx, 'email(tld off)', gens.e_lines([b'x@' + d for d in sample if b'@' not in d], orc, tlds=(0,)), eproj, describe=describe,
         nontrivial=lambda ln, o: not o.startswith(('-16', '-3 ')))
    # host names at their limit behind local parts at theirs (the whole address at 317-323 octets): the verdict on the name must not depend on the local part
    mx = [a for a in gens.addr_boundary() if len(a) > 300]
    corr(ctx, 'email(both halves at their limits)', gens.e_lines(mx, vlib.idn_oracle(gens.domains_of(mx))), eproj, describe=describe, nontrivial=lambda ln, o: True,
         note='local parts of 62-66 octets x names of 249-256 octets +- root dot, four modes, TLD checking off and on')
    # TLD checking on: the syntax verdict must not depend on what the last labels are (reserved, listed, unlisted): dots, hyphens and
    # empty labels around such names, through is_utf8_domain, the four composers and the facade
    bases = [b'a.test', b'test', b'example.com', b'a.example.org', b'localhost', b'b.onion', b'a.io', b'b.com', b'x.museum', b'a.zz', b'io', b'1.2', b'a.xn--p1ai']
    tails = [b''.join(t) for k in range(0, 4) for t in itertools.product([b'.', b'-', b'a', b'1'], repeat=k)]
    fam = sorted(set([b + t for b in bases for t in tails] + [t + b for b in bases for t in tails if len(t) <= 2] + [b.replace(b'.', b'..', 1) for b in bases] + [b.replace(b'.', b'.-', 1) for b in bases]))
    fam = sorted(set(fam + [a[a.rfind(b'@') + 1:] for a in src_addrs(ctx) if a.startswith(b'a@') and b'[' not in a and a.count(b'@') == 1]))
    orc2 = vlib.idn_oracle(fam)
    corr(ctx, 'is_utf8_domain(tld on, names + dots)', gens.u_lines(fam, orc2, tlds=(1, 0)), uproj, describe=describe, nontrivial=nontriv)
    corr(ctx, 'email(tld on, names + dots)', gens.e_lines([b'x@' + d for d in fam], orc2, tlds=(1,)), lambda ln, o: (int(o.split(' ')[0]) >= 0) if o and o[0] in '-0123456789' else o, describe=describe,
         nontrivial=lambda ln, o: not o.startswith(('-16', '-3 ')))
    corr(ctx, 'facade(tld on, names + dots)', facade_lines([b'x@' + d for d in fam][::2], orc2, tlds=(1,)), facade_decision, describe=describe, nontrivial=lambda ln, o: True)
    # relation on the implementation alone: with TLD checking on, nothing that is_ascii_domain rejects (on the A-label form) is accepted
    lib = ctx.snap.lib()
    c_u, _ = vlib.run_both(lib, ctx.snap, gens.u_lines(fam, orc2, tlds=(1,)))
    alab = [orc2.get(d, (1, b''))[1] if orc2.get(d, (1, b''))[0] == 0 else None for d in fam]
    c_d, _ = vlib.run_both(lib, ctx.snap, gens.dom_lines([a for a in alab if a]))
    dd = dict(zip([a for a in alab if a], c_d))
    nb = 0
    for d, a, o in zip(fam, alab, c_u):
        if a and a in dd and dd[a].split(' ')[0] != '0' and o.split(' ')[0].lstrip('-').isdigit() and int(o.split(' ')[0]) >= 0 and nb < 3:
            nb += 1; relation_violation(ctx, 'C04_utf8_domain_implies_hostname', {'domain': hx(d), 'a_label_form': hx(a), 'is_utf8_domain(tld on)': o, 'is_ascii_domain(A-label form)': dd[a],
                                        'explanation': 'mode 6531 accepts a domain whose A-label form is not a valid host name'})
    return finish(ctx, rule='D cases: is_ascii_domain on (s, rest); U cases: is_utf8_domain with libidn2 2.3.3 as oracle; E cases: x@domain in four modes, '
                  'tld_check off and on; default and LABELS_ALLOW_UNDERSCORE builds; projection = accept/reject; non-trivial = not rejected as empty',
                  extra_trusted=['libidn2 2.3.3 as IDN oracle (its answers are inputs of the model)'])

# ------------------------------------------------------------------ C03
def check_C03(ctx):
    step_proof(ctx)
    def project(ln, o):
        f = o.split(' ')
        return dec(f[3]) if len(f) >= 4 else o
    def describe(ln, a, b):
        return ('decision of is_6531_local (4th field, 0 = accept) differs from the model, which theorem C03_local_part_grammar proves equal to '
                'strict UTF-8 + the RFC 5321 grammar with non-ASCII characters as atom / quoted-text characters: implementation %s, model %s' % (a, b))
    nontriv = lambda ln, o: not o.endswith(' -4')
    n = 6 if ctx.thorough() else 5
    corr(ctx, 'G-class(len<=%d)' % n, gens.local_class(n), project, exhaustive=True, describe=describe, nontrivial=nontriv,
         note='all strings over 17 class representatives incl. 2/3/4-byte characters, an overlong lead and a stray continuation byte')
    corr(ctx, 'G-utf8', gens.utf8_lines(ctx.thorough()), project, exhaustive=True, describe=describe, nontrivial=nontriv,
         note='all 1- and 2-byte sequences, boundary cover of 3- and 4-byte sequences (all 3-byte sequences with a continuation second byte in thorough), '
              'each in 13 contexts: atom, next to dots, quoted, escaped, before and after quoted words')
    corr(ctx, 'G-sweep', gens.local_sweep(), project, exhaustive=True, describe=describe, nontrivial=nontriv)
    corr(ctx, 'G-tokens(<=%d)' % (n - 1), gens.local_tokens(n - 1), project, exhaustive=True, describe=describe, nontrivial=nontriv,
         note='all sequences of 17 tokens (structural characters, complete and broken foldings, escaped quote, non-ASCII), bare and inside a pair of quotes')
    corr(ctx, 'G-random-long', gens.local_random(ctx.rnd, 40000 if not ctx.thorough() else 400000), project, describe=describe, nontrivial=nontriv)
    # the end pointer inside a multi-byte character: the bytes that would complete it (or not) lie at and after `end`
    chars = ['\u00e9', '\u042e', '\u07ff', '\u0800', '\u20ac', '\ud7ff', '\ue000', '\uffff', '\U00010000', '\U0001f600', '\U0010ffff']
    cut = []
    for ch in chars:
        x = ch.encode()
        for k in range(1, len(x)):
            for pre in (b'', b'a', b'a.', b'"', b'"\\', b'x.y'):
                for suf in (b'', b'b', b'"', b'@d.e', b'.c'):
                    cut.append('L %s %s' % (hx(pre + x[:k]), hx(x[k:] + suf)))
                cut.append('L %s %s' % (hx(pre + x[:k]), hx(b'\x80' * (len(x) - k))))
                cut.append('L %s %s' % (hx(pre + x[:k]), hx(b'\xbf')))
    corr(ctx, 'G-cut(end inside a character)', cut, project, exhaustive=True, describe=describe, nontrivial=nontriv,
         note='2-, 3- and 4-byte characters cut at every position by the end pointer, the missing continuation bytes right behind it')
    # the decoder on its own (anchor src/utf8_decode.c): scalar values delivered, end / error, byte and character offsets
    wl = gens.decoder_lines(ctx.rnd, ctx.thorough(), 3000 if not ctx.thorough() else 60000)
    c_w, _ = vlib.run_both(ctx.snap.lib(), ctx.snap, wl[:3])
    if any(o.strip() == 'n/a' for o in c_w):
        ctx.rep.notes.append('utf8_decode_init / utf8_decode_next are not reachable from the driver on this tree (header or symbols gone): the decoder is tied only through is_6531_local')
    else:
        corr(ctx, 'W-decoder(scalar values, offsets)', wl, lambda ln, o: o, nontrivial=lambda ln, o: ',' in o,
             describe=lambda ln, a, b: 'utf8_decode_next over these bytes delivers "%s" (scalar values, E(nd) / X (error), utf8_decode_at_byte, utf8_decode_at_character); '
                                       'the model, whose values theorem C03_decoder_value proves to be the RFC 3629 scalar values, gives "%s"' % (a, b),
             level=lambda ln, o: 'E' if o.split(' ')[0].endswith('E') else 'X',
             note='decoder alone: all candidates of the UTF-8 cover, every boundary scalar value, every payload bit of a 4-byte character, random well-formed text with a malformed piece')
    # C03_ascii_agrees, on the implementation alone: modes 6531 and 5321 decide identically on pure ASCII
    lib = ctx.snap.lib()
    nonascii = [bytes.fromhex(l.split()[1]) for l in gens.local_class(5) + sub(ctx, gens.utf8_lines(False), 3) if l.split()[1] != '-']
    nonascii += [p + c.encode() + q for c in ('\u00fc', '\u042e', '\u20ac', '\U0001f600') for p in (b'', b'a', b'"', b'"a ', b'"a\t', b'a.', b'"a" ') for q in (b'', b'b', b'"', b'b"', b' b"', b'.b', b'"b')]
    homomorphism_check(ctx, lib, 'C03_non_ascii_as_one_more_character', nonascii, 1, 'mode 6531 on a well-formed non-ASCII local part = mode 5321 on its ASCII image; relation on implementation outputs')
    lines = [l for l in gens.local_class(5, alpha=[b'a', b'.', b'"', b'\\', b' ', b'\t', b'(', b'\x01', b'\x7f', b'#'])]
    c_out, _ = vlib.run_both(lib, ctx.snap, lines)
    bad = [(l, o) for l, o in zip(lines, c_out) if len(o.split(' ')) == 4 and dec(o.split(' ')[1]) != dec(o.split(' ')[3])]
    ctx.rep.add_cases('ascii-agreement(6531 vs 5321)', lines, c_out, nontriv, exhaustive=True,
                      note='relation checked on implementation outputs alone')
    for l, o in sorted(bad, key=lambda t: len(t[0]))[:3]:
        ctx.rep.violation({'kind': 'relation', 'relation': 'C03_ascii_agrees_with_5321', 'case': l, 'implementation': o,
                           'explanation': 'pure-ASCII local part decided differently by is_5321_local (2nd field) and is_6531_local (4th field)'})
    # mode 6531 as a whole: the same local parts in front of a host name and of address literals (no IDN conversion is involved for these domains)
    locs = [bytes.fromhex(l.split()[1]) for l in gens.local_class(4) if l.split()[1] != '-'] + [bytes.fromhex(l.split()[1]) for l in sub(ctx, gens.utf8_lines(False), 7) if l.split()[1] != '-']
    locs += ['é'.encode(), 'a.é.b'.encode(), '"é"'.encode(), 'Ю.Я'.encode(), '€'.encode(), '😀.a'.encode(), b'a.\xc3', b'\xff']
    locs += [a[:a.rfind(b'@')] for a in src_addrs(ctx) if a.endswith(b'@b.com')]
    locs = sorted(set(l for l in locs if 0 not in l and 0 < len(l) <= 64))
    doms = (b'b.com', b'[1.2.3.4]', b'[IPv6:::1]', b'[1::2:3:4]')
    addrs = [l + b'@' + d for l in locs for d in doms]
    orc6 = vlib.idn_oracle([b'b.com'])
    el = gens.e_lines(addrs, orc6, modes=(3,), tlds=(0,))
    corr(ctx, 'local@domain(is_6531_email)', el, lambda ln, o: dec(o.split(' ')[0]), nontrivial=nontriv_addr,
         describe=lambda ln, a, b: 'is_6531_email on <local>@<valid domain> decides differently from the model: %s vs %s' % (a, b),
         note='class strings <= 4 and UTF-8 candidates as the local part before a host name, an IPv4 literal, a tagged and an untagged IPv6 literal')
    c_e, _ = vlib.run_both(lib, ctx.snap, el)
    ll = ['L %s %s' % (hx(l), hx(b'@b.com')) for l in locs]
    c_l, _ = vlib.run_both(lib, ctx.snap, ll)
    ldec = {l: o.split(' ') for l, o in zip(locs, c_l)}
    nb = 0
    for ln, o in zip(el, c_e):
        a = bytes.fromhex(ln.split(' ')[3]); l = a[:a.rfind(b'@')]
        if l in ldec and len(ldec[l]) == 4 and dec(ldec[l][3]) != dec(o.split(' ')[0]) and nb < 3:
            nb += 1; relation_violation(ctx, 'C03_grammar_through_the_composer', {'case': ln, 'is_6531_email': o, 'is_6531_local': ldec[l][3],
                                        'explanation': 'mode 6531 judges this local part differently depending on the (valid) domain that follows it'})
    fl = facade_lines(addrs[::2], orc6, modes=(3,), tlds=(0,))
    corr(ctx, 'local@domain(facade)', fl, facade_decision, nontrivial=lambda ln, o: True, describe=lambda ln, a, b: 'eav_is_email (mode 6531) decision differs from the model: %s vs %s' % (a, b))
    return finish(ctx, rule='L cases: is_6531_local on byte strings; E/A cases: the same local parts through is_6531_email and eav_is_email before host-name and literal domains; projection = accept/reject in mode 6531; non-trivial = non-empty input; distinct by case line')

def ascii_image(lp):
    """a well-formed UTF-8 local part with every non-ASCII character replaced by the letter x (one more atom / quoted-text character);
    None if it is not well-formed UTF-8, has no non-ASCII character, or a non-ASCII character follows a backslash (mode 6531 refuses to escape those)"""
    try: t = lp.decode('utf-8', 'strict')
    except UnicodeDecodeError: return None
    if all(ord(c) < 128 for c in t) or '\x00' in t: return None
    out = []; esc = False
    for c in t:
        if ord(c) >= 128:
            if esc: return None
            out.append('x'); esc = False
        else:
            out.append(c); esc = (c == '\\' and not esc)
    return ''.join(out).encode()

def homomorphism_check(ctx, lib, relname, locals_, ascii_field, note):
    """mode 6531 judges a well-formed non-ASCII local part exactly as the ASCII mode `ascii_field` (1 = 5321, 2 = 5322) of the same build judges its
    ASCII image — evaluated on implementation outputs alone"""
    pairs = [(lp, ascii_image(lp)) for lp in locals_]
    pairs = [(a, b) for a, b in pairs if b is not None and len(a) <= 200]
    if not pairs: return
    la = ['L %s -' % hx(a) for a, b in pairs]; lb = ['L %s -' % hx(b) for a, b in pairs]
    ca, _ = vlib.run_both(lib, ctx.snap, la); cb, _ = vlib.run_both(lib, ctx.snap, lb)
    ctx.rep.add_cases(relname, la, ca, lambda ln, o: True, note=note)
    nb = 0
    for (a, b), oa, ob in zip(pairs, ca, cb):
        fa, fb = oa.split(' '), ob.split(' ')
        if len(fa) == 4 and len(fb) == 4 and dec(fa[3]) != dec(fb[ascii_field]) and nb < 3:
            nb += 1
            relation_violation(ctx, relname, {'local_part': hx(a), 'ascii_image': hx(b), 'mode_6531_on_local_part': fa[3], 'ascii_mode_on_image': fb[ascii_field],
                               'explanation': 'a well-formed non-ASCII local part is judged differently from its ASCII image (every non-ASCII character read as one more atom / quoted-text character)'})

# ------------------------------------------------------------------ C12
def is_plain_ascii(b):
    return all(1 <= c <= 127 and c not in (34, 92) for c in b)

def check_C12(ctx):
    step_proof(ctx)
    lib = ctx.snap.lib()
    nontriv = lambda ln, o: not o.startswith(('-16', '-3 ')) and not o.endswith(' -4')
    full = lambda ln, o: o
    # (1) plain local parts: four return codes equal -- relation on implementation outputs, and correspondence of all codes
    alpha = [b'a', b'.', b' ', b'\t', b'\r', b'\n', b'(', b'\x01', b'\x7f', b'#', b'@', b'~']
    n = 6 if ctx.thorough() else 5
    lines = gens.local_class(n, alpha=alpha)
    def rel_plain(ln, o):
        f = o.split(' ')
        return len(f) == 4 and len(set(f)) == 1
    m = corr(ctx, 'plain-local(len<=%d)' % n, lines, full, exhaustive=True, nontrivial=nontriv, genuine=False,
             describe=lambda ln, a, b: 'return codes of the four scanners on a plain ASCII local part differ from the model (theorem C12_plain_local_parts_agree is about the model): %s vs %s' % (a, b))
    c_out, _ = vlib.run_both(lib, ctx.snap, lines)
    for ln, o in sorted([(l, o) for l, o in zip(lines, c_out) if not rel_plain(l, o)], key=lambda t: len(t[0]))[:3]:
        ctx.rep.violation({'kind': 'relation', 'relation': 'C12_plain_local_parts_agree', 'case': ln, 'implementation': o,
                           'explanation': 'pure-ASCII local part without DQUOTE/backslash: the four scanners must return the same code (fields: 822 5321 5322 6531)'})
    # (2) inclusion 5321 in 822 over the full local alphabet
    lines2 = gens.local_class(5) + gens.local_sweep()
    m2 = corr(ctx, 'inclusion-5321-822', lines2, lambda ln, o: tuple(dec(x) for x in o.split(' ')[:2]), exhaustive=True, nontrivial=nontriv, genuine=False)
    c2, _ = vlib.run_both(lib, ctx.snap, lines2)
    for ln, o in sorted([(l, o) for l, o in zip(lines2, c2) if len(o.split(' ')) == 4 and dec(o.split(' ')[1]) and not dec(o.split(' ')[0])], key=lambda t: len(t[0]))[:3]:
        ctx.rep.violation({'kind': 'relation', 'relation': 'C12_5321_included_in_822', 'case': ln, 'implementation': o,
                           'explanation': 'accepted by is_5321_local (2nd field 0) but rejected by is_822_local (1st field)'})
    # (3) whole addresses: ASCII modes agree on plain local parts; mode 6531 agrees or reports an IDN error; same domain verdict
    addrs = gens.addr_class(5 if ctx.thorough() else 4) + gens.addr_structured() + gens.addr_boundary()
    # domains in every letter case: reserved names, listed TLDs of every class, near misses; with and without the root dot
    def cases(d):
        return {d, d.upper(), d.capitalize(), d.title(), bytes(c - 32 if 97 <= c <= 122 and i % 2 else c for i, c in enumerate(d))}
    byclass = {}
    for nme, l, t in ctx.snap.dump()['tld']:
        byclass.setdefault(t, bytes.fromhex(nme))
    cd = [d for d in sub(ctx, gens.reserved_domains(), 4) if b'@' not in d] + [b'b.' + v for v in byclass.values()] + [b'example.com', b'a.example.org', b'example.net', b'examples.com', b'xexample.com', b'test', b'a.test', b'localhost', b'b.onion', b'a.invalid', b'mail.example']
    for d in cd:
        for v in cases(d):
            addrs += [b'u@' + v, b'u@' + v + b'.']
    # names around the 253-255 limits with a dot / a listed or reserved ending exactly on the limit: every mode must see the same name
    addrs += [b'u@' + d for d in gens.long_name_shapes()]
    addrs = sorted(set(addrs + src_addrs(ctx)))
    orc = vlib.idn_oracle(gens.domains_of(addrs))
    elines = gens.e_lines(addrs, orc)
    corr(ctx, 'addresses', elines, lambda ln, o: ' '.join(o.split(' ')[:3]), nontrivial=nontriv, exhaustive=False, genuine=False,
         describe=lambda ln, a, b: 'result (rc, idn_rc, flags) of is_<mode>_email differs from the model the C12 theorems are about: %s vs %s' % (a, b))
    c3, _ = vlib.run_both(lib, ctx.snap, elines)
    by_addr = {}
    for ln, o in zip(elines, c3):
        f = ln.split(' ')
        by_addr.setdefault((f[3], f[2]), {})[int(f[1])] = o.split(' ')
    viol = 0
    for (ah, t), res in by_addr.items():
        if len(res) < 4 or viol >= 3: continue
        a = bytes.fromhex(ah) if ah != '-' else b''
        i = a.rfind(b'@')
        local = a[:i] if i >= 0 else a
        rcs = [res[m][0] for m in range(4)]
        ok_ascii = [m for m in range(3) if res[m][0] != '' and int(res[m][0]) >= 0 or (res[m][0].lstrip('-').isdigit() and int(res[m][0]) <= -16 and int(res[m][0]) != -16)]
        # domain verdict: among ASCII modes whose local part passed (rc not a local-part / basic code), rc and flags must be equal
        passed = [m for m in range(3) if res[m][0].lstrip('-').isdigit() and not (-16 <= int(res[m][0]) <= -3 and int(res[m][0]) != -16) ]
        passed = [m for m in range(3) if res[m][0].lstrip('-').isdigit() and int(res[m][0]) not in range(-15, -2)]
        vals = set((res[m][0], res[m][2]) for m in passed)
        if len(vals) > 1:
            viol += 1
            ctx.rep.violation({'kind': 'relation', 'relation': 'C12_domain_verdict_mode_independent', 'address': ah, 'tld_check': t,
                               'implementation': {str(m): ' '.join(res[m]) for m in range(4)},
                               'explanation': 'ASCII modes whose local-part scanner accepted report different domain verdict / class / flags'})
        # basic rejections (theorem C12_basic_rejections_mode_independent): the same record in all four modes
        if (len(a) == 0 or i < 0 or i == len(a) - 1 or i > 64) and len(set(tuple(res[m][:3]) for m in range(4))) > 1:
            viol += 1
            ctx.rep.violation({'kind': 'relation', 'relation': 'C12_basic_rejections_mode_independent', 'address': ah, 'tld_check': t,
                               'implementation': {str(m): ' '.join(res[m]) for m in range(4)},
                               'explanation': 'empty address / no AT / empty domain / local part over 64 bytes: the four modes must return the same code and flags'})
        # address-level inclusion (theorem C12_5321_addresses_included_in_822): a form flag from mode 5321 => the same record from mode 822
        if len(res[1]) >= 3 and '1' in res[1][2] and res[0][:3] != res[1][:3]:
            viol += 1
            ctx.rep.violation({'kind': 'relation', 'relation': 'C12_5321_addresses_included_in_822', 'address': ah, 'tld_check': t,
                               'implementation': {str(m): ' '.join(res[m]) for m in range(4)},
                               'explanation': 'mode 5321 took the address as far as a form flag, mode 822 returns another code / flags for it'})
        if is_plain_ascii(a) and is_plain_ascii(local) and all(c < 128 for c in a):
            if len(set((res[m][0], res[m][2]) for m in range(3))) > 1 or (res[3][0] != res[0][0] and res[3][0] != '-2'):
                viol += 1
                ctx.rep.violation({'kind': 'relation', 'relation': 'C12_plain_addresses_agree', 'address': ah, 'tld_check': t,
                                   'implementation': {str(m): ' '.join(res[m]) for m in range(4)},
                                   'explanation': 'pure-ASCII address without DQUOTE/backslash: the four modes must give the same code (mode 6531 may give the IDN error -2 instead)'})
    return finish(ctx, rule='L and E cases in all four modes; relations (equal codes on plain ASCII, 5321 within 822 for local parts and for whole addresses, mode-independent domain verdict) are evaluated on the '
                  'implementation outputs alone, and the outputs are compared with the model; non-trivial = not an empty part',
                  extra_trusted=['libidn2 2.3.3 as IDN oracle'])

# ------------------------------------------------------------------ helpers for e-mail level checks
def facade_lines(addrs, orc, modes=(0, 1, 2, 3), tlds=(0, 1)):
    """eav_init; rfc; tld_check; eav_setup; eav_is_email(addr); eav_errstr; eav_free — one history per (addr, mode, tld)"""
    return ['A i r%d t%d s %s x f' % (m, t, gens.enc_e(a, orc)) for a in addrs for m in modes for t in tlds]
def facade_decision(ln, o):
    """projection of a facade history onto the return value of eav_is_email (or the crash)"""
    if 'CRASH' in o or 'ABORT' in o or 'FAULT' in o: return 'CRASH'
    tok = o.split(' ')
    return tok[4].split(':')[0] if len(tok) > 4 else o

def src_addrs(ctx):
    """addresses built around the string / character / integer literals of the sources under check (gens.source_addresses)"""
    if not hasattr(ctx, '_src_addrs'):
        ctx._src_addrs = gens.source_addresses(ctx.snap.src)
        w, n = gens.source_dictionary(ctx.snap.src)
        ctx.rep.notes.append('source dictionary: %d string/char literals, %d integer literals -> %d addresses' % (len(w), len(n), len(ctx._src_addrs)))
    return ctx._src_addrs

def sub(ctx, lst, k):
    """every k-th element in the quick tier (the offset follows VERIF_SEED, so different seeds see different elements); everything in the thorough tier"""
    return lst if ctx.thorough() else lst[(ctx.seed % k)::k]

def first_fields(k):
    return lambda ln, o: ' '.join(o.split(' ')[:k])
def nontriv_addr(ln, o):
    return not o.startswith(('-16 ', '-3 '))
def relation_violation(ctx, relation, obj):
    o = {'kind': 'relation', 'relation': relation}; o.update(obj)
    ctx.rep.violation(o)

# ------------------------------------------------------------------ C01
def check_C01(ctx):
    step_proof(ctx)
    lib = ctx.snap.lib()
    n = 5 if ctx.thorough() else 4
    addrs = gens.addr_class(n + 1 if ctx.thorough() else n + 1, alpha=[b'a', b'.', b'@', b'[', b']', b'1', b':']) + \
            gens.addr_class(n) + gens.addr_class(n, alpha=gens.ADDR_ALPHA_Q) + gens.addr_structured() + gens.addr_boundary()
    # every address-literal shape (tagged / untagged IPv6 with and without an IPv4 tail, IPv4, junk) behind a plain and a quoted local part
    addrs += [l + b'@[' + c + b']' for c in gens.ip_contents() for l in (b'u', b'"a b"')][:: (1 if ctx.thorough() else 2)]
    addrs += [b'u@[' + c + b']' for c in gens.ip_contents()]
    # several '@', quoted '@' after an atom, and '@' inside the domain
    addrs += [l + b'@' + d for l in (b'a."@"', b'a."b@c"', b'a."@".b', b'"@"', b'"a@b".c', b'a@b', b'"a"@"b"', b'a.@', b'@') for d in (b'ok.com', b'[1.2.3.4]', b'b@c.com', b'test', b'')]
    addrs = sorted(set(addrs + src_addrs(ctx)))
    orc = vlib.idn_oracle(gens.domains_of(addrs))
    el = gens.e_lines(addrs, orc)
    desc = lambda ln, a, b: ('result code of is_<mode>_email (fields: mode tld address) differs from the model of theorems C01_decision_*/C01_composition: '
                             'implementation "%s", model "%s" (rc idn_rc flags)' % (a, b))
    corr(ctx, 'addresses(is_*_email)', el, first_fields(1), nontrivial=nontriv_addr, describe=desc, level=lvl_email(fields=()),
         note='all strings <= %d over 12 structural classes, <= %d over a quoted-string alphabet, <= %d over {a . @ [ ] 1 :}; 62-67 octet local parts in 9 word shapes with extra @; '
              'structured local x domain products; 4 modes x tld off/on' % (n, n, n + 1))
    # route 2: the same addresses through the public per-part validators, composed as the property describes (implementation only)
    kl = [l.replace('E ', 'K ', 1) for l in el]
    c_e, _ = vlib.run_both(lib, ctx.snap, el)
    c_k, m_k = vlib.run_both(lib, ctx.snap, kl)
    ctx.rep.add_cases('composition(per-part validators)', kl, c_k, nontriv_addr, note='relation on implementation outputs: is_*_email == composition of public validators')
    bad = [(l, a, b) for l, a, b in zip(el, c_e, c_k) if ' '.join(a.split(' ')[:3]) != b]
    for l, a, b in sorted(bad, key=lambda t: len(t[0]))[:3]:
        relation_violation(ctx, 'C01_composition', {'case': l, 'is_email': a, 'composition_of_public_validators': b,
                           'explanation': 'decision/error code/flags of the high-level validator differ from composing the public per-part validators on L and D'})
    # route 3: through the facade: the mode set before eav_setup is the one applied
    sample = [a for a in addrs if len(a) <= 4] + gens.addr_structured() + gens.addr_boundary()
    al = []
    for a in sample:
        for m in range(4):
            for t in (0, 1):
                al.append('A i r%d t%d s %s x f' % (m, t, gens.enc_e(a, orc)))
    corr(ctx, 'facade(eav_is_email)', al, lambda ln, o: o, nontrivial=lambda ln, o: ':-16' not in o and ':-3,' not in o, level=lvl_facade,
         describe=lambda ln, a, b: 'eav_init; rfc=m; tld_check=t; eav_setup; eav_is_email; eav_errstr; eav_free differs from the model: "%s" vs "%s"' % (a, b))
    # wiring relation on the implementation: facade result == direct call of the mode's validator
    c_a, _ = vlib.run_both(lib, ctx.snap, al)
    emap = {}
    for l, o in zip(el, c_e):
        f = l.split(' '); emap[(f[3], int(f[1]), int(f[2]))] = o.split(' ')
    nb = 0
    for l, o in zip(al, c_a):
        f = l.split(' ')
        m, t = int(f[2][1:]), int(f[3][1:]); ah = f[5][1:].split('/')[0]
        tok = o.split(' ')
        if len(tok) < 5 or ':' not in tok[4]: continue
        res = tok[4].split(':')[3].split(',') if tok[4].count(':') >= 3 else None
        ref = emap.get((ah, m, t))
        if res and ref and (res[0] != ref[0] or res[2] != ref[2]) and nb < 3:
            nb += 1
            relation_violation(ctx, 'C01_mode_wiring', {'case': l, 'facade': o, 'direct_validator': ' '.join(ref),
                               'explanation': 'eav_is_email after eav_setup with rfc=%d does not give the result of that mode\'s validator' % m})
    return finish(ctx, rule='E cases (direct validators), K cases (public per-part validators composed by the harness), A cases (facade); projection = result code '
                  '(decision and error code); non-trivial = neither empty address nor empty domain', extra_trusted=['libidn2 2.3.3 as IDN oracle'])

# ------------------------------------------------------------------ C07
def check_C07(ctx):
    step_proof(ctx)
    lib = ctx.snap.lib()
    tab = ctx.snap.dump()['tld']
    labels = gens.tld_labels(tab, ctx.rnd, full=ctx.thorough())
    labels += sub(ctx, gens.row_bitflips([bytes.fromhex(n) for n, l, t in tab]), 2)      # rows with one bit of one octet flipped (home-made case folding, 7-bit compares)
    labels += [b'xn--' + bytes.fromhex(n)[k:] for n, l, t in tab for k in (4,) if len(n) > 2 * k]      # the ACE prefix glued to the tail of every row
    desc = lambda ln, a, b: 'is_tld / e-mail TLD class differs from the model (C07_lookup_whole_label: first row ci-EQUAL to the whole label of the table dumped from this build): implementation %s, model %s' % (a, b)
    corr(ctx, 'is_tld(labels)', ['T %s' % hx(l) for l in labels], lambda ln, o: o, nontrivial=lambda ln, o: o != '-26' or len(ln) > 8,
         describe=desc, note='every table row in 4 case patterns, every proper prefix, one-character extensions, substitutions, neighbour concatenations, random labels')
    # e-mail level: rows x case x 1-4 preceding labels, four modes, TLD checking on
    doms = []
    names = [bytes.fromhex(n) for n, l, t in tab]
    pres = [b'b.', b'a.b.', b'x.y.z.', b'a-1.b2.c.d.']
    for i, nme in enumerate(names):
        for j, v in enumerate(gens.case_variants(nme)[:3]):
            doms.append(pres[(i + j) % 4] + v)
        doms.append(nme)                    # single label: not FQDN
        doms.append(b'b.' + nme[:-1])
        doms.append(b'b.' + nme + b'x')
        doms.append(nme + b'.' + b'zz-unlisted')
    # last labels made of a reserved name or a table row glued to more characters by a hyphen: unlisted, whatever they start or end with
    for r in [b'test', b'example', b'invalid', b'localhost', b'onion', b'com', b'org', b'museum', b'de', b'xn--p1ai']:
        doms += [b'b.' + r + b'-1', b'b.' + r + b'-x', b'b.x-' + r, b'a.b.' + r + b'-' + r, b'b.' + r + b'--a']
    doms += [a[a.rfind(b'@') + 1:] for a in src_addrs(ctx) if a.startswith(b'a@') and b'[' not in a and a.count(b'@') == 1]
    # listed TLDs behind second-level labels that are near misses of the reserved words (exabyte.net is generic, not special), and the near
    # misses of the reserved names themselves: the class must come from the table row of the last label
    near7 = [d for d in gens.reserved_suffixes() if b'@' not in d and b'..' not in d]
    doms += sub(ctx, near7, 2) + [b'x.' + d for d in sub(ctx, near7, 3)]
    # ... behind second-level labels of exactly 7 octets (the length of 'example'): whatever a scratch buffer still holds from that label must not complete the last one
    cuts = [r[:k] for r in (b'example', b'invalid', b'localhost', b'onion', b'test') for k in range(2, len(r) + 1)] + [b'com', b'co', b'org', b'ne', b'zz', b'exams']
    doms += [p + b'.' + c for p in (b'example', b'trample', b'squalid', b'invalid', b'Example', b'abcdefg') for c in cuts] + [b'www.example.' + c for c in cuts]
    for w in (b'exabyte', b'examine', b'exampla', b'exaaaaa', b'EXAmplx', b'exam', b'examples', b'xxample', b'exxmple', b'testing', b'invalix', b'onionx'):
        doms += [w + b'.' + t for t in (b'com', b'net', b'org', b'de', b'museum', b'arpa')] + [b'a.' + w + b'.com']
    orc = vlib.idn_oracle(doms)
    el = gens.e_lines([b'u@' + d for d in doms], orc, tlds=(1,))
    corr(ctx, 'email(tld on)', el, first_fields(1), nontrivial=nontriv_addr, describe=desc, level=lvl_email(keep=(-26, -23), fields=()))
    # U-label vs A-label: every IDN row of raw.csv in both spellings, through is_utf8_domain and the composers
    import csv
    raw = list(csv.reader(open(os.path.join(ctx.snap.src, 'data', 'raw.csv'), newline='', encoding='utf-8')))[1:]
    ul = [r[0].encode() for r in raw if any(ord(c) > 127 for c in r[0])]
    ud = [b'b.' + u for u in ul] + [u + b'.' + u for u in ul]
    orc2 = vlib.idn_oracle(ud)
    ad = [orc2[d][1] for d in ud if orc2[d][0] == 0]
    orc2.update(vlib.idn_oracle(ad))
    ulines = gens.u_lines(ud + ad, orc2, tlds=(1,))
    corr(ctx, 'U/A-label(is_utf8_domain)', ulines, first_fields(2), describe=desc, nontrivial=lambda ln, o: True)
    c_u, _ = vlib.run_both(lib, ctx.snap, ulines)
    res = {}
    for l, o in zip(ulines, c_u):
        res[l.split(' ')[2]] = o.split(' ')[0]
    nb = 0
    for d in ud:
        rc, a = orc2[d]
        if rc == 0 and res.get(hx(d)) != res.get(hx(a)) and nb < 3:
            nb += 1
            relation_violation(ctx, 'C07_U_and_A_label_agree', {'u_label': hx(d), 'a_label': hx(a), 'rc_u': res.get(hx(d)), 'rc_a': res.get(hx(a)),
                               'explanation': 'U-label and A-label spelling of the same domain classified differently in mode 6531'})
    # LABELS_ALLOW_UNDERSCORE build: where the last label begins must not depend on the option ('_' is a label character there, not a separator)
    lu = ctx.snap.lib(uscore=True)
    ud = [b'b.x_com', b'x_com', b'b._com', b'b.com_', b'b.c_om', b'a_b.com', b'b.x_test', b'x_test', b'b.x_museum', b'_com', b'b.x-com', b'b.xcom', b'b.x_c_om', b'b.co_m', b'b_.com', b'b._.com',
          b'x_example.com', b'example_.com', b'b.x_example.com', b'b.x_xn--p1ai', b'b_c.x_de', b'b.x_arpa', b'b.X_COM', b'a.b.c_org']
    corr(ctx, 'underscore build(last label)', gens.e_lines([b'u@' + d for d in ud], vlib.idn_oracle(ud), tlds=(1,)), first_fields(1), lib=lu, describe=desc, nontrivial=nontriv_addr,
         note='names with an underscore in and around the last label, four modes, TLD checking on, library built with LABELS_ALLOW_UNDERSCORE=ON')
    # time-boxed sweep of is_tld over ALL labels over [a-z0-9-], shortest first, one process per first character: an unlisted label that gets
    # a class (a look-up that no longer compares the whole name: hashing, a trie cut short) shows within the box exactly when the look-up is fast
    import subprocess
    from concurrent.futures import ThreadPoolExecutor
    secs = 2 if not ctx.thorough() else 20
    drv = ctx.snap.lib().drv()
    def zrun(c):
        try:
            p = subprocess.run([drv], input=('Z %s %d\n' % (c, secs)).encode(), stdout=subprocess.PIPE, stderr=subprocess.DEVNULL, timeout=secs * 4 + 60)
            return p.stdout.decode('utf-8', 'replace').strip()
        except subprocess.TimeoutExpired:
            return 'TIMEOUT'
    firsts = 'abcdefghijklmnopqrstuvwxyz0123456789-'
    with ThreadPoolExecutor(vlib.NCPU) as ex:
        zo = list(ex.map(zrun, firsts))
    zl = ['Z %s %d' % (c, secs) for c in firsts]
    ctx.rep.add_cases('Z-sweep(all short labels)', zl, zo, lambda ln, o: True,
                      note='is_tld on every label over [a-z0-9-] in order of length for %d s per first character; tried %d labels, every length <= %d completed; expected class from tld_list[] by whole-name lookup'
                           % (secs, sum(int(o.split(' ')[0]) for o in zo if o and o.split(' ')[0].isdigit()), min([int(o.split(' ')[1]) for o in zo if len(o.split(' ')) > 1 and o.split(' ')[1].isdigit()] or [0])))
    nb = 0
    for l, o in zip(zl, zo):
        for tok in o.split(' ')[2:]:
            if '=' in tok and nb < 3:
                nb += 1; lab, gw = tok.split('=')
                relation_violation(ctx, 'C07_lookup_whole_label', {'case': 'T %s' % hx(lab.encode()), 'label': lab, 'is_tld': gw.split('/')[0], 'expected_from_tld_list': gw.split('/')[1],
                                   'explanation': 'is_tld gives this label a class / verdict other than the one of the row of tld_list[] with exactly this name (-26 = no such row: invalid TLD)'})
    return finish(ctx, rule='T cases: is_tld on labels; E/U cases with TLD checking on; Z cases: time-boxed exhaustive sweep of short labels; table = tld_list[] dumped from the library built on this run; projection = result code',
                  extra_trusted=['libidn2 2.3.3 as IDN oracle'])

# ------------------------------------------------------------------ C09
def check_C09(ctx):
    step_proof(ctx)
    doms = gens.reserved_domains(full=ctx.thorough())
    desc = lambda ln, a, b: 'is_special_domain / class of a reserved-looking domain differs from the model (C09_reserved_exactly: special iff last label in {test,example,invalid,localhost,onion} or last two labels example.{com,net,org}): implementation %s, model %s' % (a, b)
    doms += [p + b'x' * n for n in range(0, 70) for p in (b'', b'a.', b'example.', b'a.b.')] + [d for d in sub(ctx, gens.dom_boundary(), 5)]
    corr(ctx, 'is_special_domain', ['S %s' % hx(d) for d in doms], lambda ln, o: o, exhaustive=True, describe=desc,
         nontrivial=lambda ln, o: True, note='0-3 labels of lengths 1-63 and the words example/mailbox/test/com... before each reserved suffix and its one-edit neighbours, several case patterns')
    doms = doms + [a[a.rfind(b'@') + 1:] for a in src_addrs(ctx) if a.startswith(b'a@') and b'[' not in a and a.count(b'@') == 1] + gens.mapped_variants()
    valid = [d for d in doms if not d.endswith(b'.') and b'..' not in d and not d.startswith(b'.')]
    orc = vlib.idn_oracle(valid)
    corr(ctx, 'email(tld on)', gens.e_lines([b'u@' + d for d in valid], orc, tlds=(1,)), first_fields(1), describe=desc, nontrivial=nontriv_addr, level=lvl_email(fields=()))
    return finish(ctx, rule='S cases: is_special_domain; E cases: u@domain with TLD checking on in four modes; projection = verdict / result code',
                  extra_trusted=['libidn2 2.3.3 as IDN oracle'])

# ------------------------------------------------------------------ C08
def check_C08(ctx):
    step_proof(ctx)
    lib = ctx.snap.lib()
    jl = ['J %d %d %d %d' % (m, mask, t, rc) for m in range(4) for mask in range(2048) for t in (0, 1) for rc in list(range(-35, 10))]
    desc = lambda ln, a, b: 'eav_is_email over a callback returning the given code (fields: mode mask tld_check code) gives (ret errcode) %s, the model of theorem C08_policy gives %s' % (a, b)
    corr(ctx, 'policy(stub callback)', jl, lambda ln, o: o, exhaustive=True, describe=desc, nontrivial=lambda ln, o: not ln.endswith(' 0'),
         note='all 2^11 masks x every code -35..9 x 4 modes x tld_check off/on')
    # real addresses of every class the table holds + reserved + literals, selected masks, through the facade
    tab = ctx.snap.dump()['tld']
    byclass = {}
    for nme, l, t in tab:
        byclass.setdefault(t, bytes.fromhex(nme))
    addrs = [b'a@b.' + v for v in byclass.values()] + [b'a@test', b'a@x.example.com', b'a@[1.2.3.4]', b'a@[IPv6:::1]', b'a@b', b'a@b.zz-unlisted', b'a@localhost',
             'a@б.рф'.encode(), b'bad', b'a@-b.com']
    # reserved and listed names spelt so that only the IDNA mapping turns them into ASCII (full-width letters, ideographic full stop, soft hyphen)
    addrs += [b'a@' + d for d in sub(ctx, gens.mapped_variants(), 3)]
    # near misses of the reserved names (cut, stretched, glued, one edit away), bare and behind one label: unlisted TLD / not fully qualified whatever the mask
    near = [d for d in gens.reserved_suffixes() if b'@' not in d]
    addrs += [b'a@' + p + d for d in sub(ctx, near, 2) for p in (b'', b'x.')]
    # reserved and listed endings of names that sit exactly on the 253 / 254 (root dot) limits
    addrs += [b'a@' + d for d in gens.long_name_shapes() if d.rstrip(b'.').endswith((b'test', b'example.com', b'example.net', b'example.org', b'invalid', b'localhost', b'onion', b'arpa', b'museum'))]
    orc = vlib.idn_oracle(gens.domains_of(addrs))
    masks = sorted(set([0, 2047, 760, -1] + [1 << k for k in range(12)] + [2047 ^ (1 << k) for k in range(11)]))
    al = ['A i r%d t%d m%d s %s x f' % (m, t, mk, gens.enc_e(a, orc)) for a in addrs for m in range(4) for t in (0, 1) for mk in masks]
    corr(ctx, 'policy(real addresses)', al, lambda ln, o: o, describe=lambda ln, a, b: 'facade outcome differs from the model: %s vs %s' % (a, b),
         nontrivial=lambda ln, o: True, level=lvl_facade)
    # relations on implementation outputs: tld_check off => mask irrelevant; literal => mask and tld_check irrelevant
    c_a, _ = vlib.run_both(lib, ctx.snap, al)
    grp = {}
    for l, o in zip(al, c_a):
        f = l.split(' '); tok = o.split(' ')
        key = (f[6], f[2]); t = f[3]; mk = f[4]
        ret = tok[4].split(':')[0] if len(tok) > 4 else '?'
        grp.setdefault(key, {})[(t, mk)] = ret
    nb = 0
    for (ae, m), d in grp.items():
        off = set(v for (t, mk), v in d.items() if t == 't0')
        a = bytes.fromhex(ae[1:].split('/')[0])
        if len(off) > 1 and nb < 3:
            nb += 1; relation_violation(ctx, 'C08_tld_check_off', {'address': ae, 'mode': m, 'returns_by_(tld,mask)': {'%s,%s' % k: v for k, v in d.items() if k[0] == 't0'},
                                        'explanation': 'with tld_check off the decision must not depend on allow_tld'})
        if b'@[' in a and len(set(d.values())) > 1 and nb < 3:
            nb += 1; relation_violation(ctx, 'C08_literals_outside_policy', {'address': ae, 'mode': m, 'explanation': 'decision for an address literal depends on allow_tld / tld_check'})
    return finish(ctx, rule='J cases enumerate the finite policy space completely; A cases run real addresses of every class in the table through eav_init/eav_setup/eav_is_email; '
                  'projection = (return value, error code, message)', extra_trusted=['libidn2 2.3.3 as IDN oracle'])

# ------------------------------------------------------------------ C11
TYPE_NAMES = {'generic': 3, 'country-code': 2, 'generic-restricted': 4, 'infrastructure': 5, 'test': 7, 'sponsored': 6}
def csv_rows(path):
    import csv
    with open(path, newline='', encoding='utf-8') as fh:
        return list(csv.reader(fh))[1:]

def run_perl_generators(ctx, srcdir, puny_csv=None, raw_csv=None):
    """Run the repository's two generators (unmodified, with the Text::CSV stand-in) in a scratch copy.
    Returns (rows [(name,len,type-name)], header text, domain lines) or raises BuildError."""
    work = os.path.join(ctx.snap.root, 'gen%d' % ctx.rnd.randrange(10**9))
    vlib.sh(['rsync', '-a', srcdir + '/', work + '/'])
    if puny_csv is not None:
        open(os.path.join(work, 'data', 'punycode.csv'), 'w', encoding='utf-8', newline='').write(puny_csv)
    if raw_csv is not None:
        open(os.path.join(work, 'data', 'raw.csv'), 'w', encoding='utf-8', newline='').write(raw_csv)
    env = {'PERL5LIB': os.path.join(vlib.HARN, 'perl-shim')}
    rc1, o1 = vlib.sh(['perl', 'util/gentld.pl', 'include/eav/auto_tld.h', 'src/auto_tld.c', 'data/punycode.csv'], cwd=work, env=env)
    rc2, o2 = vlib.sh(['perl', 'util/gen_utf8_pass_test.pl', 'data/tld-domains.txt', 'data/raw.csv'], cwd=work, env=env)
    res = {'rc1': rc1, 'rc2': rc2, 'out1': o1[-500:], 'out2': o2[-500:]}
    if rc1 == 0:
        c = open(os.path.join(work, 'src', 'auto_tld.c'), encoding='utf-8', errors='replace').read()
        res['c'] = c
        res['rows'] = re.findall(r'\{ "((?:[^"\\\\]|\\\\.)*)", (\d+), (TLD_TYPE_\w+) \}', c)
        res['h'] = open(os.path.join(work, 'include', 'eav', 'auto_tld.h')).read()
    if rc2 == 0:
        res['txt'] = open(os.path.join(work, 'data', 'tld-domains.txt'), 'rb').read()
    import shutil; shutil.rmtree(work, ignore_errors=True)
    return res

def check_C11(ctx):
    ok = step_proof(ctx)
    lib = ctx.snap.lib()
    src = ctx.snap.src
    tab = ctx.snap.dump()['tld']
    enum = ctx.snap.dump()['enum']
    tname = {v: k for k, v in enum.items() if k.startswith('TLD_TYPE_')}
    puny = csv_rows(os.path.join(src, 'data', 'punycode.csv'))
    # (a) what the CSV dictates vs what the built library answers, row by row and for near misses
    expect = {}
    for d, ty, mgr in puny:
        cls = 1 if mgr.lower().startswith('not assigned') else 9 if mgr.lower().startswith('retired') else TYPE_NAMES.get(ty)
        expect[d.encode()] = cls
    labels = list(expect.keys()) + [n.upper() for n in expect] + [bytes.fromhex(n) for n, l, t in tab]
    # near misses of EVERY row: one- and two-character extensions, a hyphenated extension, every row minus its last character, upper-cased extensions
    labels += [n + b'x' for n in expect] + [n + b'xy' for n in expect] + [n + b'-shop' for n in list(expect)[::3]] + [n[:-1] for n in expect if len(n) > 1] + [(n + b'a').upper() for n in list(expect)[::2]]
    labels += [b'x' + n for n in list(expect)[::2]] + [n + n for n in list(expect)[::5]]
    labels += gens.row_bitflips(list(expect))        # one bit of one octet of every row flipped: found only if the comparison folds more than letter case
    labels += [b'xn--' + n[k:] for n in expect for k in (1, 3, 4, 5) if len(n) > k] + [n[:4] + b'--' + n[4:] for n in list(expect)[::3] if len(n) > 4] + [b'XN--' + n[4:].upper() for n in list(expect)[::7] if len(n) > 4]
    tl = ['T %s' % hx(l) for l in labels]
    corr(ctx, 'lookup(all rows + near misses)', tl, lambda ln, o: o, exhaustive=True, nontrivial=lambda ln, o: True,
         describe=lambda ln, a, b: 'is_tld differs from the lookup model over the dumped table: %s vs %s' % (a, b))
    c_t, _ = vlib.run_both(lib, ctx.snap, tl)
    nb = 0
    for l, o in zip(labels, c_t):
        want = expect.get(l.lower(), -26)
        if str(want) != o and nb < 3:
            nb += 1
            relation_violation(ctx, 'C11_table_is_generated_from_csv', {'label': hx(l), 'label_text': l.decode('latin-1'), 'library_answers': o,
                               'punycode_csv_dictates': want, 'explanation': 'is_tld() of the built library disagrees with data/punycode.csv (class per generator rules; -26 = not in the CSV)'})
    # (b) the repository's generators, run unmodified on the shipped CSVs, must reproduce the shipped files
    g = run_perl_generators(ctx, src)
    def strip_ts(c):
        return '\n'.join(l for l in c.splitlines() if 'auto-generated at' not in l)
    progs = 0
    if g['rc1'] != 0 or g['rc2'] != 0:
        ctx.rep.violation({'kind': 'generator-failure', 'detail': g['out1'] + g['out2']}, found_input=False)
    else:
        progs += 2
        shipped_c = open(os.path.join(src, 'src', 'auto_tld.c'), encoding='utf-8', errors='replace').read()
        if strip_ts(g['c']) != strip_ts(shipped_c):
            a, b = strip_ts(g['c']).splitlines(), strip_ts(shipped_c).splitlines()
            diff = [(i, x, y) for i, (x, y) in enumerate(zip(a, b)) if x != y][:3]
            relation_violation(ctx, 'C11_regeneration', {'file': 'src/auto_tld.c', 'first_differences(line, regenerated, shipped)': diff, 'line_counts': [len(a), len(b)],
                               'explanation': 'util/gentld.pl run on the shipped data/punycode.csv does not reproduce the shipped table'})
        if g['h'] != open(os.path.join(src, 'include', 'eav', 'auto_tld.h')).read():
            relation_violation(ctx, 'C11_regeneration', {'file': 'include/eav/auto_tld.h', 'explanation': 'regenerated header differs from the shipped one'})
        if g['txt'] != open(os.path.join(src, 'data', 'tld-domains.txt'), 'rb').read():
            relation_violation(ctx, 'C11_regeneration', {'file': 'data/tld-domains.txt', 'explanation': 'util/gen_utf8_pass_test.pl run on data/raw.csv does not reproduce the shipped list'})
    # (c) the generator model (Coq gen_row / gen_domain_line, extracted) against the Perl programs on generated CSVs
    mgrs = ['ACME, Inc.', 'Not assigned', 'not assigned', 'NOT ASSIGNED (was X)', 'Retired', 'retired 2019', 'RETIRED', 'Internet Assigned Numbers Authority',
            'Notassigned', ' Not assigned', 'Unassigned', 'He said "hi", twice', 'Retire', '', 'Société à mission']
    ncsv = 12 if not ctx.thorough() else 120
    glines, perl_rows = [], []
    for k in range(ncsv):
        rows = []
        for i in range(ctx.rnd.randint(1, 40)):
            d = ''.join(ctx.rnd.choice('abcdefghijklmnopqrstuvwxyz0123456789-') for _ in range(ctx.rnd.randint(1, 14)))
            rows.append((d, ctx.rnd.choice(list(TYPE_NAMES)), ctx.rnd.choice(mgrs)))
        text = '"Domain","Type","TLD Manager"\n' + ''.join('"%s","%s","%s"\n' % (d, t, m.replace('"', '""')) for d, t, m in rows)
        r = run_perl_generators(ctx, src, puny_csv=text, raw_csv=text)
        progs += 2
        if r['rc1'] != 0 or r['rc2'] != 0:
            ctx.rep.violation({'kind': 'generator-failure', 'csv': text[:400], 'detail': r['out1'] + r['out2']}, found_input=False); continue
        dl = r['txt'].split(b'\n')
        for (d, t, m), pr, line in zip(rows, r['rows'], dl):
            glines.append('G %s %s %s' % (hx(d), hx(t), hx(m.encode()[:12])))
            perl_rows.append('%s %s %d %s' % (hx(pr[0]), pr[1], enum.get(pr[2], -999), hx(line)))
    if glines:
        p = __import__('subprocess').run([vlib.model_drv(), ctx.snap.table_file, '0', '0', '0', '0'], input=('\n'.join(glines) + '\n').encode(), stdout=__import__('subprocess').PIPE)
        mo = p.stdout.decode().splitlines()
        ctx.rep.add_cases('generator-model vs perl', glines, perl_rows, lambda ln, o: True, note='util/gentld.pl and util/gen_utf8_pass_test.pl run unmodified on %d generated CSV files' % ncsv)
        bad = [(l, a, b) for l, a, b in zip(glines, perl_rows, mo) if a != b]
        for l, a, b in bad[:3]:
            ctx.rep.violation({'kind': 'correspondence', 'correspondence': 'corr:C11/generator-model', 'case': l, 'perl_generators': a, 'model': b,
                               'explanation': 'row printed by the repository generators differs from gen_row/gen_domain_line (the model theorem C11_table_is_generated_from_csv uses)'})
    # (d) every domain of tld-domains.txt and raw.csv resolves in the built library (mode 6531, TLD checking on)
    raw = csv_rows(os.path.join(src, 'data', 'raw.csv'))
    doms = [l for l in open(os.path.join(src, 'data', 'tld-domains.txt'), 'rb').read().split(b'\n') if l] + [(r[0] + '.' + r[0]).encode() for r in raw]
    orc = vlib.idn_oracle(doms)
    ul = gens.u_lines(sorted(set(doms)), orc, tlds=(1,))
    corr(ctx, 'tld-domains.txt + raw.csv', ul, first_fields(2), exhaustive=True, nontrivial=lambda ln, o: True)
    c_u, _ = vlib.run_both(lib, ctx.snap, ul)
    nb = 0
    for l, o in zip(ul, c_u):
        if not (o.split(' ')[0].isdigit() and int(o.split(' ')[0]) >= 1) and nb < 3:
            nb += 1
            relation_violation(ctx, 'C11_same_tld_set', {'case': l, 'implementation': o, 'explanation': 'a domain listed in data/tld-domains.txt / data/raw.csv is not classified by the library'})
    # (e) raw.csv (U-labels) names exactly the rows of punycode.csv / the table: convert every raw row with libidn2 and compare as multisets
    orc_r = vlib.idn_oracle([r[0].encode() for r in raw])
    conv = [(r[0], orc_r.get(r[0].encode(), (1, b''))) for r in raw]
    from collections import Counter
    named = Counter(a for _, (rc, a) in conv if rc == 0)
    table = Counter(bytes.fromhex(n) for n, l, t in tab)
    nb = 0
    for a in sorted(set(named) | set(table)):
        if named.get(a, 0) != table.get(a, 0) and nb < 3:
            nb += 1
            relation_violation(ctx, 'C11_same_tld_set', {'a_label': a.decode('latin-1'), 'times_named_by_raw_csv': named.get(a, 0), 'times_in_table': table.get(a, 0),
                               'raw_rows': [u for u, (rc, x) in conv if x == a][:3],
                               'explanation': 'data/raw.csv (and data/tld-domains.txt generated from it) does not name the same TLD set as the compiled table: this A-label is named %d time(s) but is in the table %d time(s)' % (named.get(a, 0), table.get(a, 0))})
    # ... and the list the test suite iterates over (data/tld-domains.txt, one "<tld>.<tld>" per line) names each row of raw.csv exactly once
    listed = Counter()
    for ln_ in open(os.path.join(src, 'data', 'tld-domains.txt'), 'rb').read().split(b'\n'):
        ln_ = ln_.strip()
        if ln_: listed[ln_.decode('utf-8', 'replace')] += 1
    want = Counter((r[0] + '.' + r[0]) for r in raw)
    for dname in sorted(set(listed) | set(want)):
        if listed.get(dname, 0) != want.get(dname, 0) and nb < 3:
            nb += 1
            relation_violation(ctx, 'C11_same_tld_set', {'line': dname, 'times_in_tld_domains_txt': listed.get(dname, 0), 'rows_of_raw_csv_naming_it': want.get(dname, 0),
                               'explanation': 'data/tld-domains.txt, the list the test suite iterates over, does not name the TLD set of data/raw.csv: this name occurs %d time(s) in the list and %d time(s) in raw.csv' % (listed.get(dname, 0), want.get(dname, 0))})
    for u, (rc, a) in conv:
        if rc != 0 and nb < 4:
            nb += 1; relation_violation(ctx, 'C11_same_tld_set', {'raw_row': u, 'idn_rc': rc, 'explanation': 'a domain of data/raw.csv has no A-label form'})
    # proof obligations failing with no mismatch found above is handled by finish()
    return finish(ctx, rule='T cases: every CSV row and table row looked up in the built library and compared with what punycode.csv dictates; the two Perl generators are run '
                  'unmodified (Text::CSV stand-in) on the shipped and on generated CSVs; U cases: every listed domain resolves', level='proof',
                  extra_trusted=['harness/perl-shim/Text/CSV.pm (Text::CSV is not installed)', 'perl 5', 'Python csv module (translator for Gen/GenCsv.v)', 'libidn2 2.3.3 as IDN oracle'],
                  extra_cov={'programs': progs})

# ------------------------------------------------------------------ C13
def check_C13(ctx):
    step_proof(ctx)
    lib = ctx.snap.lib()
    orc = vlib.idn_oracle(gens.domains_of(gens.HIST_POOL))
    desc = lambda ln, a, b: 'per-operation outcome (ret:errcode:live[:rc,idn_rc,flags,idn-calls,arg-ok]) of the history differs from the state-machine model of theorems C13_*: %s vs %s' % (a, b)
    def errstr_first(ln, a, b):
        # a history whose FIRST divergence from the model is what eav_errstr returns (every validation before it agreed, code and all): the
        # message does not describe the most recent eav_is_email call — C13's own clause, and the history is the failing input
        ops = ln.split(' ')[1:]; ta, tb = a.split(' '), b.split(' ')
        for op, x, y in zip(ops, ta, tb):
            if x != y:
                return op == 'x' and x.split(':')[1:] == y.split(':')[1:]
        return False
    ex = gens.hist_exhaustive(orc, 4 if ctx.thorough() else 3)
    corr(ctx, 'G-hist(exhaustive)', ex, lambda ln, o: o, exhaustive=True, describe=desc, nontrivial=lambda ln, o: ' R' in o, genuine=errstr_first,
         note='all sequences over 13 operations (mode changes incl. an invalid one, tld/mask changes, setup, errstr, 5 addresses, one IDN fault), between eav_init;eav_setup and eav_errstr;eav_free')
    rnd = gens.hist_random(ctx.rnd, orc, 3000 if not ctx.thorough() else 30000, length=40 if not ctx.thorough() else 200)
    corr(ctx, 'G-hist(random)', rnd, lambda ln, o: o, describe=desc, nontrivial=lambda ln, o: ' R' in o, genuine=errstr_first)
    # relation on the implementation alone: the last validation of a long history == the same validation on a fresh object
    pairs, fresh = [], []
    for h in rnd[:1500]:
        ops = h.split(' ')[1:]
        rfc, t, mk, conf = 3, 1, 760, None
        for o in ops:
            if o == 'i': rfc, t, mk, conf = 3, 1, 760, None
            elif o[0] == 'r': rfc = int(o[1:])
            elif o[0] == 't': t = int(o[1:])
            elif o[0] == 'm': mk = int(o[1:])
            elif o == 's' and rfc in (0, 1, 2, 3): conf = rfc
        es = [o for o in ops if o[0] == 'e']
        if not es or conf is None: continue
        pairs.append(h + ' i r%d t%d m%d s %s x f' % (conf, t, mk, es[-1]))
        # replay: append the same address again at the end of the history (before the final x f), compare with a fresh object
        pairs[-1] = 'A ' + ' '.join(ops[:-2] + [es[-1], 'x', 'f'])
        fresh.append('A i r%d t%d m%d s %s x f' % (conf, t, mk, es[-1]))
    # ordered pairs of addresses on one object against the second one on a fresh object: every class of outcome, and TLDs
    # that are prefixes / extensions / neighbours of each other in the table (a remembered look-up would show here)
    names = sorted(bytes.fromhex(n) for n, l, t in ctx.snap.dump()['tld'])
    nset = set(names)
    rel = [(a, a[:k]) for a in names for k in range(2, len(a)) if a[:k] in nset]
    rel = rel[::max(1, len(rel) // 60)][:60] + [(names[i], names[i + 1]) for i in range(0, len(names) - 1, max(1, len(names) // 20))]
    pool2 = [b'a@b.com', b'a@b.blog', b'a@b.bl', b'a@test', b'a@b.zzz', b'a@[1.2.3.4]', b'a@[IPv6:::1]', b'bad', b'a..b@c.de', 'я@почта.рф'.encode(), b'a@xn--a', b'a@b', b'"q"@b.org', b'a@B.COM', b'a@b.adac', b'a@example.com']
    # one address of every class the table of this tree holds (a class with a single row, such as infrastructure = arpa, is in no other pool)
    byclass13 = {}
    for nme, l, t in ctx.snap.dump()['tld']:
        byclass13.setdefault(t, bytes.fromhex(nme))
    pool2 += [b'a@b.' + v for v in byclass13.values() if b'a@b.' + v not in pool2]
    # inputs that drive library parsers to their limits (a digit run beyond long / unsigned long, a number only a wider integer holds): whatever
    # state they leave behind in libc (errno, a conversion state) must not reach the next validation
    pool2 += [b'a@[9223372036854775808]', b'a@[1.2.3.99999999999999999999]', b'a@[IPv6:::1.2.3.18446744073709551616]', b'a@[4294967296.1.1.1]', b'a@[IPv6:' + b'f' * 40 + b'::1]',
              b'a@b.c' + b'9' * 30, 'a@\u0660\u0661.com'.encode()]
    seqs = [(b'a@b.' + x, b'a@b.' + y) for x, y in rel] + [(b'a@b.' + y, b'a@b.' + x) for x, y in rel] + [(x, y) for x in pool2 for y in pool2]
    orc2 = vlib.idn_oracle(gens.domains_of([a for p2 in seqs for a in p2]))
    for x, y in seqs:
        for m in ((3, 1) if not ctx.thorough() else (0, 1, 2, 3)):
            pairs.append('A i r%d s %s %s x f' % (m, gens.enc_e(x, orc2), gens.enc_e(y, orc2)))
            fresh.append('A i r%d s %s x f' % (m, gens.enc_e(y, orc2)))
    # long homogeneous and alternating runs: the N-th validation on one object must be what the first one on a fresh object is, for every N
    # that the sources mention as a number, and for the usual suspects (a counter, a cache that fills up, a buffer reused every k calls)
    _, nums = gens.source_dictionary(ctx.snap.src)
    runs_n = sorted(set([n for n in nums if 2 <= n <= 300] + list(range(2, 34)) + [63, 64, 65, 100, 127, 128, 129, 255, 256, 257, 1000]))
    for n in runs_n:
        for (x, y, m) in ((b'a@b.com', b'a@b.adac', 3), (b'a@xn--a', b'a@b.com', 3), (b'a@[1.2.3.4]', b'bad', 1), ('я@почта.рф'.encode(), b'a@test', 3)):
            body = ' '.join([gens.enc_e(x, orc2)] * (n - 1))
            pairs.append('A i r%d s %s %s x f' % (m, body, gens.enc_e(y, orc2)))
            fresh.append('A i r%d s %s x f' % (m, gens.enc_e(y, orc2)))
    # long addresses (every length the sources mention as a number, and the usual suspects) right after ordinary ones: whatever the
    # library does with an oversized input, it must record that outcome, not keep the previous one
    for k in sorted(set([n for n in nums if 65 <= n <= 5000] + [65, 128, 254, 255, 256, 257, 320, 321, 512, 1000, 1024, 4096])):
        for d in (-1, 0, 1, 2):
            n = k + d
            ys = [b'a' * 10 + b'@' + ((b'b' * 60 + b'.') * (n // 61 + 1))[:max(n - 15, 1)] + b'.com', b'a@[' + b'1.2.3.' + b'0' * max(n - 10, 1) + b'4]', b'"' + b'a' * max(n - 9, 1) + b'"@b.com']
            for y in ys:
                for (x, m) in ((b'a@[1.2.3.4]', 1), (b'a@-a.org', 3), (b'a@b.com', 3)):
                    pairs.append('A i r%d s %s %s x f' % (m, gens.enc_e(x, orc2), gens.enc_e(y, {})))
                    fresh.append('A i r%d s %s x f' % (m, gens.enc_e(y, {})))
    # the missing address: eav_is_email (e, NULL, 0) — answered by the library itself ("email is empty") because the length is
    # tested first; where the tree under check does so on a fresh object, the call must behave as every other one does
    probe, _ = vlib.run_both(lib, ctx.snap, ['A i s n x f'])
    if probe and ' R' in probe[0] and 'CRASH' not in probe[0]:
        nl = []
        for m in range(4):
            for x in pool2:
                nl.append('A i r%d s %s n x f' % (m, gens.enc_e(x, orc2)))
                nl.append('A i r%d s n %s x n x f' % (m, gens.enc_e(x, orc2)))
            nl += ['A i r%d s n x f' % m, 'A i r%d s n n x f' % m, 'A i r%d s n x s n x f' % m]
            for x in pool2:       # relation on the tree's own outputs: after any address == on a fresh object
                pairs.append('A i r%d s %s n x f' % (m, gens.enc_e(x, orc2))); fresh.append('A i r%d s n x f' % m)
        if 'NORESULT' not in probe[0]:
            corr(ctx, 'G-hist(missing address)', nl, lambda ln, o: o, exhaustive=True, describe=desc, nontrivial=lambda ln, o: ' R' in o,
                 note='eav_is_email (e, NULL, 0) before / after / between validations of 16 addresses of every outcome class, all four modes')
        else:
            ctx.rep.notes.append('eav_is_email (e, NULL, 0) leaves no result record on a fresh object on this tree: compared with itself after other addresses, not with the model')
    else:
        ctx.rep.notes.append('eav_is_email (e, NULL, 0) on a fresh object does not return on this tree (%s): histories with a missing address are skipped' % (probe[0] if probe else 'no output'))
    c_p, _ = vlib.run_both(lib, ctx.snap, pairs)
    c_f, _ = vlib.run_both(lib, ctx.snap, fresh)
    ctx.rep.add_cases('reused-vs-fresh', pairs, c_p, lambda ln, o: True, note='relation on implementation outputs: last eav_is_email + eav_errstr of a history == same call on a fresh object with the same settings')
    nb = 0
    for hp, hf, a, b in zip(pairs, fresh, c_p, c_f):
        ta, tb = a.split(' '), b.split(' ')
        if len(ta) < 3 or len(tb) < 3: continue
        ea, eb = ta[-3].split(':'), tb[-3].split(':')
        xa, xb = ta[-2].split(':')[0], tb[-2].split(':')[0]
        # compare ret, errcode, result fields (not the live counter position) and the message
        if (ea[0], ea[1], ea[3:] ) != (eb[0], eb[1], eb[3:]) or xa != xb:
            if nb < 3:
                nb += 1
                relation_violation(ctx, 'C13_history_independence', {'history': hp, 'fresh': hf, 'reused_outcome': ' '.join(ta[-3:-1]), 'fresh_outcome': ' '.join(tb[-3:-1]),
                                   'explanation': 'same settings, same address: outcome on a reused object differs from the outcome on a fresh one'})
        if ta[-1].split(':')[-1] != '0' and nb < 3:
            nb += 1
            relation_violation(ctx, 'C13_free_releases_everything', {'history': hp, 'live_allocations_after_eav_free': ta[-1], 'explanation': 'allocations still live after eav_free'})
    return finish(ctx, rule='A cases: operation sequences on one eav_t; every operation prints (return, errcode, live allocations, result fields, message); compared with the model '
                  'and, for the last validation, with a fresh object; non-trivial = contains a validation', extra_trusted=['libidn2 2.3.3 as IDN oracle', '--wrap=malloc/free/strndup allocation counters'])

# ------------------------------------------------------------------ C15
SPECIALS = b'()<>@,;:\\[] '
def code_truth(rc, mode, tld, a, orc_rc, alabel, tldset):
    """None, or why the reported reason does NOT hold of the input: for every result code a condition the input must meet for
    the code to be truthful, read off the documented meaning of the code (independent of the model and of the scanners' order of tests)."""
    if not rc.lstrip('-').isdigit() or int(rc) >= 0: return None
    rc = int(rc)
    i = a.rfind(b'@'); L, D = (a[:i], a[i + 1:]) if i >= 0 else (a, None)
    Dx = alabel if (mode == 3 and orc_rc == 0 and D is not None and not D.startswith(b'[')) else (D or b'')
    labels = Dx.split(b'.')
    if len(labels) > 1 and labels[-1] == b'': labels = labels[:-1]          # one root dot
    def utf8_ok(x):
        try: x.decode('utf-8', 'strict'); return True
        except UnicodeDecodeError: return False
    if rc == -2 and not (mode == 3 and orc_rc != 0): return '"idn internal error" but the IDN library converted the domain (or the mode is not 6531)'
    if rc == -3 and a != b'': return '"empty email address" for a non-empty input'
    if rc == -4 and L != b'': return '"local-part is empty" but there are bytes before the last @'
    if rc == -5 and len(L) <= 64: return '"too long" but the local part has at most 64 octets'
    if rc == -6 and all(c < 128 for c in L): return '"non-ascii" but the local part is pure ASCII'
    if rc == -7 and not any(c in SPECIALS + b'#^`{|}~' for c in L): return '"special characters" but the local part has none of ()<>@,;:\\[] SP # ^ ` { | } ~'
    if rc == -8 and not any(c < 32 or c == 127 for c in L): return '"control characters" but the local part has none'
    if rc in (-9, -10) and b'"' not in L: return 'a quote complaint but the local part has no DQUOTE'
    if rc == -11 and b'..' not in L: return '"too many dots" but the local part has no ".."'
    if rc == -12 and not (L.startswith(b'.') or L.endswith(b'.')): return '"misplaced dot" but the local part neither starts nor ends with a dot'
    if rc == -13 and not any(c in b' \t\r\n' for c in L): return '"unquoted white space" but the local part has no SP/HT/CR/LF'
    if rc == -14 and b'\r' not in L: return '"invalid folding" but the local part has no CR'
    if rc == -15 and utf8_ok(L): return '"invalid UTF-8" but the local part is well-formed UTF-8'
    if rc == -16 and D: return '"domain is empty" but there are bytes after the last @'
    if D is None or D == b'': return None
    if rc == -17 and not any(len(x) > 63 for x in labels): return '"label too long" but no label of the (A-label form of the) domain exceeds 63 octets'
    if rc == -18 and not any(x.startswith(b'-') or x.endswith(b'-') for x in labels if x): return '"misplaced hyphen" but no label starts or ends with a hyphen'
    if rc == -19 and not any(x == b'' for x in labels): return '"misplaced delimiter" but the domain has no empty label'
    if rc == -20 and all(48 <= c <= 57 or 65 <= c <= 90 or 97 <= c <= 122 or c in b'-.' for c in Dx): return '"invalid characters" but the domain consists of letters, digits, hyphens and dots only'
    if rc == -21 and len(Dx) < 254: return '"domain too long" but it has fewer than 254 octets'
    if rc == -22 and not all(48 <= c <= 57 or c == 46 for c in Dx): return '"numeric domain" but the domain has a byte other than digits and dots'
    if rc == -23 and b'.' in Dx: return '"not FQDN" but the domain contains a dot'
    if rc in (-24, -25) and not D.startswith(b'['): return 'an address-literal complaint but the domain does not start with ['
    if rc == -25 and b']' in D: return '"bracket unpaired" but the domain contains ]'
    if rc == -24 and D.endswith(b']') and D.count(b'[') == 1 and D.count(b']') == 1:
        # "ip-addr is incorrect": untrue when the text between the brackets is a canonical-form address by an independent parser (Python's ipaddress:
        # it refuses leading zeros, scopes, anything but plain IPv4 / IPv6 text, so it only ever contradicts the code on well-formed literals)
        import ipaddress
        body = D[1:-1]
        try:
            txt = body.decode('ascii')
            quad = txt.rsplit(':', 1)[-1]
            if '.' in quad and quad.split('.')[0].strip('0') == '': raise ValueError('first octet 0: the library refuses "this network" addresses; no claim')
            if txt[:5] == 'IPv6:':
                body6 = txt[5:]
                ng = sum(2 if '.' in g else 1 for g in body6.replace('::', ':').split(':') if g)
                # RFC 5321 4.1.3: with '::' no more than 6 groups (4 before an IPv4 tail) may be present; without it exactly 8 (6 + tail)
                if '%' not in body6 and (('::' in body6 and ng <= 6) or ('::' not in body6 and ng == 8)): ipaddress.IPv6Address(body6); return '"ip-addr is incorrect" but the tagged literal is a well-formed IPv6 address'
            if ':' not in txt:       # (an untagged IPv6 literal IS incorrect by RFC 5321 4.1.3, whatever the library makes of it: no claim there)
                ipaddress.IPv4Address(txt); return '"ip-addr is incorrect" but the literal is a well-formed IPv4 address'
        except (ValueError, UnicodeDecodeError):
            pass
    if rc == -26 and labels and labels[-1].lower() in tldset and b'.' in Dx and not Dx.endswith(b'.'): return '"invalid TLD" but the last label is in the table'
    return None

def check_C15(ctx):
    step_proof(ctx)
    lib = ctx.snap.lib()
    tab = ctx.snap.dump()
    # the message table of this build vs the documented one is Theorem C15_message_table (regenerated GenEnums.v)
    addrs = sorted(set(gens.addr_class(4) + gens.addr_class(4, alpha=gens.ADDR_ALPHA_Q) + gens.addr_structured() + gens.addr_boundary() +
                       [b'u@' + d for d in sub(ctx, gens.dom_boundary(), 7)] + [b'u@' + d for d in sub(ctx, gens.reserved_domains(), 5) if b'@' not in d] + src_addrs(ctx)))
    byclass = {}
    for nme, l, t in tab['tld']:
        byclass.setdefault(t, bytes.fromhex(nme))
    addrs += [b'a@b.' + v for v in byclass.values()]
    for inner in (b'1', b'::1', b'1.2.3.4', b'a', b'IPv6:::1', b''):
        for k in range(0, 13):
            addrs += [b'a@[' + inner + b']' + b'23456789abcdef'[:k], b'a@[' + inner + b']' + b'x' * k + b']', b'a@[' + inner + b'x' * k]
    for q in (b'":"', b'"["', b'"]"', b'"a:b"', b'"@["', b'"IPv6:"'):
        addrs += [q + b'@[1.2.3.4]', q + b'@[IPv6:::1]', q + b'@[1::2:3:4]', q + b'@[1.2.3]', q + b'@b.com']
    # address literals: every content shape of the C05 family, among them both letter cases of the hexadecimal digits
    addrs += [b'u@[' + c + b']' for c in sub(ctx, gens.ip_contents(), 3)] + [b'u@[' + c + b']' for c in (b'A::1:2:3', b'IPv6:A::1', b'IPv6:2001:DB8::1', b'IPv6:aBcD:EF01::', b'::FFFF:1.2.3.4', b'IPv6:F::', b'fe80::A')]
    # non-ASCII characters next to the structural characters of a local part (among them code points whose low byte is '.', '"', '@', '\\')
    for ch in ['\u00e9', '\u012e', '\u042e', '\u062e', '\u4e2e', '\U0001f62e', '\u0122', '\u0422', '\u0140', '\u045c', '\u20ac', '\U0001f600']:
        x = ch.encode()
        addrs += [x + b'.a@b.ru', b'a.' + x + b'.b@b.ru', x + b'"a"@b.ru', b'"' + x + b'"@b.ru', b'a' + x + b'@b.ru', x + b'..a@b.ru', b'.' + x + b'@b.ru', x + b'.@b.ru', b'"a' + x + b'@b.ru', b'"\\' + x + b'"@b.ru']
    addrs += [bytes.fromhex(l.split()[1]) + b'@b.ru' for l in sub(ctx, gens.utf8_lines(False), 11) if l.split()[1] != '-' and b'\x00' not in bytes.fromhex(l.split()[1])]
    addrs = sorted(set(addrs))
    orc = vlib.idn_oracle(gens.domains_of(addrs))
    el = gens.e_lines(addrs, orc)
    desc = lambda ln, a, b: 'error code differs from the model the C15 theorems are about: implementation %s, model %s' % (a, b)
    corr(ctx, 'codes(is_*_email)', el, first_fields(2), nontrivial=nontriv_addr, describe=desc, genuine=False)
    # facade: (ret, errcode, message) for every address in every mode with default mask, a zero mask, and invalid rfc values
    al = []
    for a in addrs[::3]:
        for m in range(4):
            al.append('A i r%d s %s x m0 %s x f' % (m, gens.enc_e(a, orc), gens.enc_e(a, orc)))
    for z in (-2147483648, -1, 4, 5, 99, 2147483647):
        al.append('A i s %s x r%d s x %s x r1 s x f' % (gens.enc_e(b'a@b.com', orc), z, gens.enc_e(b'bad', orc)))
        al.append('A i r%d s x f' % z)
        al.append('A i s %s x r%d s x %s x f' % (gens.enc_e(b'a@b.org', orc, fault=-304), z, gens.enc_e(b'a@b.org', orc)))
        al.append('A i s %s r%d s x r0 s x f' % (gens.enc_e(b'a@xn--a.ru', orc, fault=-312, buf=1), z))
    corr(ctx, 'facade(ret, errcode, message)', al, lambda ln, o: o, describe=lambda ln, a, b: 'facade outcome differs from model: %s vs %s' % (a, b),
         nontrivial=lambda ln, o: ' R0' in o, genuine=False)
    # truth predicates evaluated on implementation outputs alone (a few that need no model)
    c_e, _ = vlib.run_both(lib, ctx.snap, el)
    hist = {}
    nb = 0
    tldset = set(bytes.fromhex(n) for n, l_, t_ in tab['tld'])
    for l, o in zip(el, c_e):
        f = l.split(' '); rc = o.split(' ')[0]
        hist[rc] = hist.get(rc, 0) + 1
        a = bytes.fromhex(f[3]) if f[3] != '-' else b''
        i = a.rfind(b'@'); L = a[:i] if i >= 0 else a
        bad = code_truth(rc, int(f[1]), f[2] == '1', a, int(f[4]), bytes.fromhex(f[5]) if f[5] != '-' else b'', tldset)
        if bad and nb < 3:
            nb += 1
            relation_violation(ctx, 'C15_truth', {'case': l, 'implementation': o, 'explanation': bad})
    # the same truth predicates in the option builds (each option alone): a reason must hold of the input whatever the build accepts or refuses
    oaddrs = sorted(set([b'u@' + d for d in gens.dom_class(5 if ctx.thorough() else 4)] + [b'u@' + d for d in sub(ctx, gens.dom_boundary(chars=(b'_', b'x', b'-', b'7')), 5)] +
                        [bytes.fromhex(l.split()[1]) + b'@b.ru' for l in gens.local_class(4, alpha=gens.LOCAL_ALPHA + [b'~', b'{', b'_']) if l.split()[1] != '-'] +
                        [b'u@1_2', b'u@1_2.34', b'u@10_0_0_1', b'u@_', b'u@_._', b'u@a_.b', b'u@_a.b', b'u@1._', b'u@12._3', b'u@a.b_c', b'u@-_.a']))
    oel = gens.e_lines(oaddrs, vlib.idn_oracle(gens.domains_of(oaddrs)), modes=(1, 2, 3), tlds=(0, 1))
    for kw in ({'uscore': True}, {'rfc20': True}, {'f5322': True}):
        ol = ctx.snap.lib(**kw)
        c_o, _ = vlib.run_both(ol, ctx.snap, oel)
        ctx.rep.add_cases('truth(option build %s)' % ','.join(kw), oel, c_o, lambda ln, o: not o.startswith('0 '), note='code_truth on implementation outputs of the option build')
        nbo = 0
        for l, o in zip(oel, c_o):
            f = l.split(' '); rc = o.split(' ')[0]
            a = bytes.fromhex(f[3]) if f[3] != '-' else b''
            if f[1] == '3' and any(c > 0x7f for c in a[a.rfind(b'@') + 1:]): continue      # needs the IDN answer: not part of this family
            bad = code_truth(rc, int(f[1]), f[2] == '1', a, int(f[4]), bytes.fromhex(f[5]) if f[5] != '-' else b'', tldset)
            if bad and nbo < 2 and nb < 6:
                nbo += 1; nb += 1
                relation_violation(ctx, 'C15_truth', {'case': l, 'build': kw, 'implementation': o, 'explanation': bad})
    c_a, _ = vlib.run_both(lib, ctx.snap, al)
    for l, o in zip(al, c_a):
        ops = l.split(' ')[1:]
        for op, tok in zip(ops, o.split(' ')):
            p = tok.split(':')
            if p[0] in ('R0', 'R1') and len(p) >= 4 and ((p[0] == 'R1') != (p[1] == '0')) and nb < 3:
                nb += 1
                relation_violation(ctx, 'C15_return_iff_no_error', {'case': l, 'implementation': o, 'explanation': 'eav_is_email returned %s with errcode %s' % (p[0][1:], p[1])})
            # the recorded error is the validator's own code: -rc for a negative result, the class's error for a rejected class, 0 when accepted
            if op[:1] == 'e' and p[0] in ('R0', 'R1') and len(p) >= 4 and p[1].lstrip('-').isdigit():
                res = p[3].split(',')
                if res and res[0].lstrip('-').isdigit():
                    rc, err = int(res[0]), int(p[1])
                    want = 0 if p[0] == 'R1' else (-rc if rc < 0 else 26 + rc if rc > 0 else None)
                    if want is not None and err != want and nb < 3:
                        nb += 1
                        relation_violation(ctx, 'C15_errcode_is_the_validators_code', {'case': l, 'implementation': o, 'validator_result': rc, 'errcode': err, 'expected_errcode': want,
                                           'explanation': 'the error code recorded by eav_is_email is not the code of the validator result (negated code; EEAV_TLD_<class> for a rejected class; 0 when accepted)'})
            # eav_errstr describes the recorded error: the table message of that very code, or the IDN library's message exactly when the code is the IDN error
            if op == 'x' and len(p) >= 2 and p[0][:1] in 'TI' and p[1].lstrip('-').isdigit() and nb < 3:
                err = int(p[1])
                if (p[0][0] == 'T' and p[0][1:] != str(err)) or (p[0][0] == 'I' and err != 2) or (p[0][0] == 'T' and err == 2):
                    nb += 1
                    relation_violation(ctx, 'C15_message_is_for_the_recorded_error', {'case': l, 'implementation': o, 'message': p[0], 'errcode': err,
                                       'explanation': 'eav_errstr returned the message of another code (T<k> = table message k, I<k> = IDN library message for IDN code k) than the recorded error code'})
        if ('EMPTY' in o or ':N:' in o or ' N:' in o or '?' in o) and nb < 3:
            nb += 1
            relation_violation(ctx, 'C15_message', {'case': l, 'implementation': o, 'explanation': 'eav_errstr returned NULL, an empty string or a text that is neither a table message nor the IDN library message for the recorded IDN code'})
    codes_seen = sorted(int(k) for k in hist if k.lstrip('-').isdigit())
    return finish(ctx, rule='E cases: (rc, idn_rc) of the four validators; A cases: return value, error code and message id through the facade incl. invalid rfc values; '
                  'truth predicates for "too many dots", "too long", "non-ascii", "empty", "misplaced dot" are evaluated on implementation outputs', 
                  extra_trusted=['libidn2 2.3.3 as IDN oracle'], extra_cov={'result_codes_produced': codes_seen, 'result_code_histogram': hist})

# ------------------------------------------------------------------ C16
def check_C16(ctx):
    step_proof(ctx)
    addrs = sorted(set(gens.addr_class(4) + gens.addr_class(4, alpha=gens.ADDR_ALPHA_Q) + gens.addr_structured() + gens.addr_boundary() +
                       [b'u@[' + c + b']' for c in gens.ip_contents()] + [b'u@' + d for d in sub(ctx, gens.reserved_domains(), 9) if b'@' not in d] + src_addrs(ctx)))
    orc = vlib.idn_oracle(gens.domains_of(addrs))
    el = gens.e_lines(addrs, orc)
    desc = lambda ln, a, b: 'result record (rc idn_rc is_ipv4/is_ipv6/is_domain lpart domain) differs from the model of theorem C16_result_shapes: %s vs %s' % (a, b)
    for name, lib in (('default-build', ctx.snap.lib()), ('EAV_EXTRA-build', ctx.snap.lib(extra=True))):
        corr(ctx, name, el, first_fields(5), lib=lib, nontrivial=nontriv_addr, describe=desc, level=lvl_email(fields=(2, 3, 4)))
        c_e, _ = vlib.run_both(lib, ctx.snap, el)
        nb = 0
        for l, o in zip(el, c_e):
            f = l.split(' '); r = o.split(' ')
            if len(r) < 5 or not r[0].lstrip('-').isdigit(): continue
            rc, fl = int(r[0]), r[2]
            a = bytes.fromhex(f[3]) if f[3] != '-' else b''
            i = a.rfind(b'@'); L, D = (a[:i], a[i + 1:]) if i >= 0 else (a, b'')
            bad = None
            if fl.count('1') > 1: bad = 'more than one of is_ipv4/is_ipv6/is_domain set'
            elif rc >= 0 and fl.count('1') != 1: bad = 'accepted but not exactly one flag'
            elif rc >= 0 and D.startswith(b'[') and fl[2] == '1': bad = 'address literal flagged as domain'
            elif rc >= 0 and not D.startswith(b'[') and fl != '001': bad = 'host name not flagged as domain'
            elif rc >= 0 and D.startswith(b'[') and ((b'.' in D and b':' not in D) != (fl == '100')): bad = 'family flag does not match the literal present'
            elif f[2] == '0' and rc > 0: bad = 'positive code without TLD checking'
            elif rc < 0 and rc not in (-23, -26) and fl != '000': bad = 'syntactically invalid address with a flag set'
            elif lib.extra and rc >= 0 and (r[3] != hx(L) or r[4] != hx(D[1:-1] if D.startswith(b'[') else D)): bad = 'lpart/domain do not reproduce the two halves'
            elif lib.extra and rc < 0 and rc not in (-23, -26) and (r[3] != '~' or r[4] != '~'): bad = 'lpart/domain not NULL for a syntactically invalid address'
            if bad and nb < 3:
                nb += 1
                relation_violation(ctx, 'C16_result_shapes', {'case': l, 'build': name, 'implementation': o, 'explanation': bad})
    return finish(ctx, rule='E cases in the default and the -DEAV_EXTRA build; projection = rc, idn_rc, three flags, lpart, domain; the C16 clauses are also evaluated directly on the '
                  'implementation outputs', extra_trusted=['libidn2 2.3.3 as IDN oracle'])

# ------------------------------------------------------------------ C19
def check_C19(ctx):
    step_proof(ctx)
    lib = ctx.snap.lib()
    codes = [int(x) for x in re.findall(r'\((-?\d+)\)%Z', open(os.path.join(vlib.COQ, 'Gen', 'GenIdnCodes.v')).read())]
    codes = sorted(set(c for c in codes if c != 0 and c < 0)) + [7, -1, -999]
    pool = [b'a@b.org', 'и@почта.рф'.encode(), b'a@test', b'"q"@x.y.zz', b'a@b']
    # names that already are (or contain) A-labels, well-formed and not, and names the real library refuses by itself
    pool += [b'ivan@xn--c1ad6a.xn--p1ai', b'a@xn--n3h.ws', b'a@XN--N3H.com', b'a@b.xn--p1ai', b'i@xn--i-7iq.ws', b'a@xn--a.de', 'a@ｂ。com'.encode(), 'a@☃.net'.encode()]
    orc = vlib.idn_oracle(gens.domains_of(pool))
    desc = lambda ln, a, b: 'outcome under an injected IDN failure (code/buffer in the case line) differs from the model of theorems C19_*: %s vs %s' % (a, b)
    lines = []
    for c in codes:
        for buf in (0, 1):
            for a in pool:
                for t in (0, 1):
                    d = a[a.rfind(b'@') + 1:]
                    lines.append('E 3 %d %s %d - %d' % (t, hx(a), c, buf))
                    lines.append('U %d %s %d - %d' % (t, hx(d), c, buf))
    corr(ctx, 'single-call faults', lines, lambda ln, o: o, exhaustive=True, describe=desc, nontrivial=lambda ln, o: True,
         note='every libidn2 return code (+ unknown codes) x with/without an output buffer x 13 addresses (plain, IDN, A-labels, mapped, refused by the real library) x tld off/on, direct validator and is_utf8_domain')
    _, nums19 = gens.source_dictionary(ctx.snap.src)
    longd = [b'u@' + d for d in sub(ctx, gens.long_idn_domains(nums19), 2)]
    orc.update(vlib.idn_oracle(gens.domains_of(longd)))
    # every fault code on names that sit on the 253 / 254 / 255 limits (with and without the root dot) and on over-long ones
    lim = [b'u@' + d for d in gens.long_name_shapes() if d.endswith((b'.com', b'.com.', b'.de', b'.de.')) and 250 <= len(d) <= 258] + longd[::40]
    orc.update(vlib.idn_oracle(gens.domains_of(lim)))
    for c in codes:
        for a in lim:
            lines.append('E 3 1 %s %d - %d' % (hx(a), c, c % 2))
    corr(ctx, 'faults on names at the length limits', lines[-len(codes) * len(lim):], lambda ln, o: o, exhaustive=True, describe=desc, nontrivial=lambda ln, o: True)
    nat = gens.e_lines(pool + longd, orc, modes=(3,), tlds=(0, 1)) + facade_lines(pool, orc, modes=(3,), tlds=(0, 1))
    corr(ctx, 'natural answers', nat, lambda ln, o: o, exhaustive=True, describe=desc, nontrivial=lambda ln, o: True, note='the same addresses with the answer the real libidn2 gives')
    # runs of 1..50 validations with a single fault at each position, and seeded multi-fault runs
    runs = []
    nrun = 12 if not ctx.thorough() else 50
    for n in sorted(set([1, 2, 3, 5, 8, 13, 21, 34, 50][:nrun] if not ctx.thorough() else range(1, 51))):
        for pos in range(n):
            c = codes[(n + pos) % len(codes)]; buf = (n + pos) % 2
            seq = ['i', 's']
            for k in range(n):
                a = pool[(k + n) % len(pool)]
                seq.append(gens.enc_e(a, orc, fault=c, buf=buf) if k == pos else gens.enc_e(a, orc))
                seq.append('x')
            seq.append('f')
            runs.append('A ' + ' '.join(seq))
    for _ in range(300 if not ctx.thorough() else 3000):
        seq = ['i', 's']
        for k in range(ctx.rnd.randint(1, 50)):
            a = ctx.rnd.choice(pool)
            seq.append(gens.enc_e(a, orc, fault=ctx.rnd.choice(codes), buf=ctx.rnd.randint(0, 1)) if ctx.rnd.random() < 0.3 else gens.enc_e(a, orc))
            if ctx.rnd.random() < 0.5: seq.append('x')
            if ctx.rnd.random() < 0.1: seq += [ctx.rnd.choice(['r0', 'r3', 'r1']), 's']
        seq.append('f')
        runs.append('A ' + ' '.join(seq))
    # two IDN failures with different codes, separated by a refused / repeated eav_setup and by validations that do not fail in the IDN library:
    # the message reported for the second must be the second's
    cs = codes[:: max(1, len(codes) // 6)][:6]
    for c1 in cs:
        for c2 in cs:
            if c1 == c2: continue
            for mid in (['r9', 's'], ['r9', 's', 'x'], ['r3', 's'], ['r9', 's', gens.enc_e(b'a@b.org', orc), 'x'], ['r0', 's', gens.enc_e(b'bad', orc), 'r3', 's'], [gens.enc_e(b'a@b.org', orc)], []):
                a1, a2 = pool[1], pool[5]
                runs.append('A ' + ' '.join(['i', 's', gens.enc_e(a1, orc, fault=c1, buf=0), 'x'] + mid + [gens.enc_e(a2, orc, fault=c2, buf=1), 'x', gens.enc_e(a1, orc), 'x', 'f']))
    corr(ctx, 'fault runs', runs, lambda ln, o: o, describe=desc, nontrivial=lambda ln, o: ':2:' in o)
    # implementation-only relations: rejected with code 2 + library message, no flag, balance 1 live record, nothing live after free
    c_r, _ = vlib.run_both(lib, ctx.snap, runs)
    nb = 0
    for l, o in zip(runs, c_r):
        ops = l.split(' ')[1:]; toks = o.split(' ')
        for op, tk in zip(ops, toks):
            if op[0] == 'e':
                orcv = int(op.split('/')[1]); p = tk.split(':')
                if orcv != 0 and len(p) >= 4 and p[3].split(',')[3] == '1':        # the conversion was reached and failed
                    r = p[3].split(',')
                    if not (p[0] == 'R0' and p[1] == '2' and r[0] == '-2' and r[1] == str(orcv) and r[2] == '000' and p[2] == '1') and nb < 3:
                        nb += 1
                        relation_violation(ctx, 'C19_failure_is_a_clean_rejection', {'history': l, 'operation': op, 'implementation': tk,
                                           'explanation': 'expected ret 0, errcode 2 (EEAV_IDN_ERROR), rc -2, idn_rc = injected code, no flag, one live allocation'})
        if toks and toks[-1].split(':')[-1] != '0' and nb < 3:
            nb += 1
            relation_violation(ctx, 'C19_no_leak', {'history': l, 'implementation_last': toks[-1], 'explanation': 'allocations live after eav_free (an IDN output buffer or a result record leaked)'})
    # ASan/LSan build over the same runs: leaks and double frees inside the library
    ls = ctx.snap.lib(san=True)
    ssub = lines[:600] + runs[:150]
    c_s, m_s = vlib.run_both(ls, ctx.snap, ssub)
    ctx.rep.add_cases('asan+ubsan build', ssub, c_s, lambda ln, o: True, note='same cases on a -fsanitize=address,undefined build (double free / use after free / leak at exit)')
    for l, a, b in [(l, a, b) for l, a, b in zip(ssub, c_s, m_s) if a != b][:3]:
        ctx.rep.violation({'kind': 'correspondence', 'correspondence': 'corr:C19/asan', 'case': l, 'implementation(asan build)': a, 'model': b})
    return finish(ctx, rule='fault injection: idn2_to_ascii_8z is interposed (-Wl,--wrap) and returns the code / buffer given in the case line; E, U cases single calls, A cases runs of 1-50 '
                  'validations with faults at chosen positions; allocation counters via --wrap=malloc/free/strndup; non-trivial = an IDN failure was recorded',
                  level='proof', extra_trusted=['--wrap interposers of harness/drv.c', 'gcc ASan/UBSan/LSan', 'libidn2 2.3.3 (idn2_strerror, real conversions for the non-faulted calls)'])

# ------------------------------------------------------------------ C17
def unquoted_bytes(s):
    """bytes met outside quoted strings (same quote tracking as OptionProofs.unquoted)."""
    out = []; st = 0
    for c in s:
        if st == 0:
            if c == 34: st = 1
            else: out.append(c)
        elif st == 1:
            if c == 34: st = 0
            elif c == 92: st = 2
        else: st = 1
    return out

def check_C17(ctx):
    step_proof(ctx)
    n = 5 if ctx.thorough() else 4
    alphaL = gens.LOCAL_ALPHA + [b'~', b'{', b'^']
    L = gens.local_class(n, alpha=alphaL) + sub(ctx, gens.local_sweep(), 3) + gens.local_random(ctx.rnd, 20000) + gens.low_byte_twin_lines()
    Dd = gens.dom_class(5) + gens.dom_boundary(chars=(b'_', b'x', b'-'))
    D = gens.dom_lines(Dd) + gens.dom_lines([d.replace(b'_', b'a') for d in Dd])
    addrs = gens.addr_structured() + [b'a#b@c.org', b'"a#b"@c.org', b'a@b_c.org', b'a_b@c_d.e_f', b'"a b"@c.org', b'a~b.{c}@d.com'] + gens.addr_class(3, alpha=[b'a', b'_', b'#', b'.', b'@', b'"', b' '])
    # an underscore in and around the last label, in front of listed and reserved names: where the last label begins must not depend on the option
    addrs += [b'a@' + d for d in (b'b.x_com', b'x_com', b'b._com', b'b.com_', b'b.c_om', b'a_b.com', b'b.x_test', b'x_test', b'b.x_museum', b'_com', b'b.x-com', b'b.xcom', b'b.x_c_om', b'b.co_m',
                                   b'b_.com', b'b._.com', b'x_example.com', b'example_.com', b'b.x_example.com', b'b.xn--p1ai_', b'b.x_xn--p1ai', b'b.com._', b'b_c.x_de')]
    addrs += [l + b'@' + d for l in [bytes([c]) for c in b'#^`{|}~'] + [b'a' + bytes([c]) + b'b' for c in b'#^`{|}~'] + [b'"' + bytes([c]) + b'"' for c in b'#^`{|}~'] + [b'"a b".#', '\u044e#b'.encode(), b'"a\tb"', b'" a"', b'"a "', b'"a\\ b"']
              for d in (b'a.io', b'example.com', b'[1.2.3.4]')]
    orc = vlib.idn_oracle(gens.domains_of(addrs))
    E = gens.e_lines(addrs, orc)
    combos = [(0, 0, 0), (1, 0, 0), (0, 1, 0), (0, 0, 1)] + ([(1, 1, 0), (1, 0, 1), (0, 1, 1), (1, 1, 1)] if ctx.thorough() else [(1, 1, 1), (1, 1, 0)])
    outs = {}
    for (r20, f53, us) in combos:
        lib = ctx.snap.lib(**{k: True for k, v in (('rfc20', r20), ('f5322', f53), ('uscore', us)) if v})
        name = 'build(rfc20=%d,follow5322=%d,underscore=%d)' % (r20, f53, us)
        desc = lambda ln, a, b, name=name: '%s: implementation %s, model under the same configuration %s' % (name, a, b)
        corr(ctx, name + ':local', L, lambda ln, o: o, lib=lib, describe=desc, genuine=False, nontrivial=lambda ln, o: not o.endswith(' -4'))
        corr(ctx, name + ':domain', D, lambda ln, o: o, lib=lib, describe=desc, genuine=False, nontrivial=lambda ln, o: not o.startswith('-16'))
        corr(ctx, name + ':email', E, first_fields(3), lib=lib, describe=desc, genuine=False, nontrivial=nontriv_addr)
        outs[(r20, f53, us)] = tuple(vlib.run_both(lib, ctx.snap, X)[0] for X in (L, D, E))
        if not r20 and not f53:      # (with FOLLOW_RFC5322 the code lets white space stand before a non-ASCII character, which mode 5322 does not do for a letter)
            nonascii = [bytes.fromhex(l.split()[1]) for l in L if l.split()[1] != '-']
            nonascii += [p + c.encode() + q for c in ('\u00fc', '\u042e', '\u20ac', '\U0001f600') for p in (b'', b'a', b'"', b'"a ', b'"a\t', b'"a\r\n ', b'a.', b'"a" ', b'" ') for q in (b'', b'b', b'"', b'b"', b' b"', b'.b', b'"b', b' "')]
            homomorphism_check(ctx, lib, 'C17_non_ascii_as_one_more_character(%s)' % name, nonascii, 2 if f53 else 1,
                               'mode 6531 on a well-formed non-ASCII local part = mode %s of the same build on its ASCII image' % ('5322' if f53 else '5321'))
    # the options given the other way the README documents — exported variables instead of make arguments, the options that are off
    # not mentioned at all: the build must be the same library
    for key, kw in (((1, 0, 0), {'rfc20': True}), ((0, 1, 0), {'f5322': True}), ((0, 0, 1), {'uscore': True})):
        le = ctx.snap.lib(via_env=True, **kw)
        got = tuple(vlib.run_both(le, ctx.snap, X)[0] for X in (L[:20000], D[:20000], E))
        ref = (outs[key][0][:20000], outs[key][1][:20000], outs[key][2])
        ctx.rep.add_cases('build(options through the environment: %s)' % ','.join(kw), E, got[2], lambda ln, o: True, note='same cases as the build with the option as a make argument; outputs must be identical')
        for X, g, r_ in zip((L[:20000], D[:20000], E), got, ref):
            bad = [(l, a, b) for l, a, b in zip(X, g, r_) if a != b]
            for l, a, b in bad[:2]:
                ctx.rep.violation({'kind': 'relation', 'relation': 'C17_option_independent_of_how_it_is_given', 'option': kw, 'case': l, 'built_with_exported_variable': a, 'built_with_make_argument': b,
                                   'explanation': 'the library built with %s=ON exported in the environment (other options unset) behaves differently from the one built with the option as a make argument' % list(kw)[0]})
    base = outs[(0, 0, 0)]
    nb = [0]
    def viol(rel, obj):
        if nb[0] < 4:
            nb[0] += 1; relation_violation(ctx, rel, obj)
    dmap = {ln.split(' ')[1]: o for ln, o in zip(D, base[1])}
    emode = {}
    for cfg, (oL, oD, oE) in outs.items():
        for ln, o in zip(E, oE):
            f = ln.split(' '); emode[(cfg, f[3], f[2], int(f[1]))] = o
    for cfg, (oL, oD, oE) in outs.items():
        r20, f53, us = cfg
        if cfg == (0, 0, 0): continue
        for ln, a, b in zip(L, oL, base[0]):
            fa, fb = a.split(' '), b.split(' ')
            if len(fa) != 4 or len(fb) != 4: continue
            if fa[:3] != fb[:3]:
                viol('C17_isolated', {'build': cfg, 'case': ln, 'default_build': b, 'option_build': a, 'explanation': 'an ASCII-mode local-part scanner changed with a build option'})
            sb = bytes.fromhex(ln.split(' ')[1]) if ln.split(' ')[1] != '-' else b''
            if not f53:
                want = dec(fb[3]) and not (r20 and any(c in (35, 94, 96, 126, 123, 125, 124) for c in unquoted_bytes(sb)))
                if dec(fa[3]) != want:
                    viol('C17_rfc20', {'build': cfg, 'case': ln, 'default_build': b, 'option_build': a,
                                       'explanation': 'mode 6531 must reject exactly the default-accepted local parts that have one of #^`{|}~ outside quotes'})
            elif not r20 and all(1 <= c <= 127 for c in sb) and fa[3] != fa[2]:
                viol('C17_follow_5322', {'build': cfg, 'case': ln, 'option_build': a, 'explanation': 'pure-ASCII local part: mode 6531 (4th field) must return what mode 5322 (3rd field) returns'})
        for ln, a, b in zip(D, oD, base[1]):
            h = ln.split(' ')[1]
            d = bytes.fromhex(h) if h != '-' else b''
            want = dmap.get(hx(d.replace(b'_', b'a')), None) if us else b
            if want is not None and a != want:
                viol('C17_underscore', {'build': cfg, 'case': ln, 'option_build': a, 'default_build_on_underscore_as_letter': want,
                                        'explanation': 'host name must be judged as the default build judges it with _ read as a letter' if us else 'host-name scanner changed without the underscore option'})
        for ln, a, b in zip(E, oE, base[2]):
            m = int(ln.split(' ')[1]); ah = ln.split(' ')[3]
            ab = bytes.fromhex(ah) if ah != '-' else b''
            if m < 3 and not (us and b'_' in ab) and a.split(' ')[:3] != b.split(' ')[:3]:
                viol('C17_isolated', {'build': cfg, 'case': ln, 'default_build': b, 'option_build': a, 'explanation': 'an ASCII-mode result changed with an option that does not concern it'})
            if m == 3 and not r20 and not f53 and not (us and b'_' in ab) and a.split(' ')[:3] != b.split(' ')[:3]:
                viol('C17_isolated', {'build': cfg, 'case': ln, 'default_build': b, 'option_build': a, 'explanation': 'mode 6531 changed although only LABELS_ALLOW_UNDERSCORE is on and the address has no underscore'})
            # mode 6531 at the e-mail level under RFC20 / FOLLOW_RFC5322 (and both): the documented effect and nothing else
            if m == 3 and (r20 or f53) and not (us and b'_' in ab) and b'@' in ab and a.split(' ')[0].lstrip('-').isdigit() and b.split(' ')[0].lstrip('-').isdigit():
                lp = ab[:ab.rfind(b'@')]
                islp = lambda r: -15 <= r <= -4
                r3, rb = int(a.split(' ')[0]), int(b.split(' ')[0])
                has20 = r20 and any(c in (35, 94, 96, 126, 123, 125, 124) for c in unquoted_bytes(lp))
                if not f53:
                    if has20 and not islp(rb) and rb not in (-3, -16):      # -3 / -16: the frame was rejected before the local part was looked at
                        if r3 != -7:
                            viol('C17_rfc20', {'build': cfg, 'case': ln, 'default_build': b, 'option_build': a, 'explanation': 'mode 6531 (e-mail level): a local part the default build accepts and that has one of #^`{|}~ outside quotes must be rejected as special'})
                    elif not has20 and a.split(' ')[:3] != b.split(' ')[:3]:
                        viol('C17_isolated', {'build': cfg, 'case': ln, 'default_build': b, 'option_build': a, 'explanation': 'mode 6531 (e-mail level) changed for an address without #^`{|}~ outside quotes'})
                elif all(1 <= c <= 127 for c in lp):
                    o2 = emode.get((cfg, ah, ln.split(' ')[2], 2))
                    if o2 and o2.split(' ')[0].lstrip('-').isdigit():
                        r2 = int(o2.split(' ')[0])
                        if has20 and not islp(r2) and r2 not in (-3, -16):
                            if r3 != -7:
                                viol('C17_rfc20', {'build': cfg, 'case': ln, 'mode_5322_same_build': o2, 'mode_6531': a, 'explanation': 'both options on: a pure-ASCII local part that mode 5322 accepts and that has one of #^`{|}~ outside quotes must be rejected as special in mode 6531'})
                        elif not has20 and (islp(r2) or islp(r3)) and r2 != r3:
                            viol('C17_follow_5322', {'build': cfg, 'case': ln, 'mode_5322_same_build': o2, 'mode_6531': a, 'explanation': 'pure-ASCII local part (e-mail level): mode 6531 must judge it as mode 5322 does in the same build'})
    return finish(ctx, rule='the library is built with the repository Makefile variables in %d configurations; L, D, E cases are compared with the model under the same configuration, and the '
                  'relations to the default build (rfc20: exactly the #^`{|}~-outside-quotes local parts; underscore: as default with _ as a letter; follow-5322: as mode 5322 on ASCII; everything else identical) '
                  'are evaluated on the implementation outputs' % len(combos), extra_trusted=['libidn2 2.3.3 as IDN oracle', 'GNU make + the repository Makefile'])

# ------------------------------------------------------------------ C05
HEX = b'0123456789abcdefABCDEF'
def is_octet(o):
    return len(o) >= 1 and all(48 <= c <= 57 for c in o) and int(o) <= 255
def ipv4_text(c):
    p = c.split(b'.')
    return len(p) == 4 and all(is_octet(o) for o in p)
def ipv4_lower(c):
    p = c.split(b'.')
    return len(p) == 4 and all(is_octet(o) and len(o) <= 3 for o in p) and int(p[0]) != 0
def is_group(g):
    return 1 <= len(g) <= 4 and all(ch in HEX for ch in g)
def split_v4_tail(a):
    """(groups part, v4 tail or None): the tail is the text after the last colon when it contains a dot."""
    i = a.rfind(b':')
    if b'.' in a[i + 1:]:
        return a[:i + 1], a[i + 1:]
    return a, None
def ipv6_text(a, lower=False):
    """RFC 4291 text form (upper bound) or the RFC 5321 section 4.1.3 grammar (lower=True)."""
    head, q = split_v4_tail(a)
    if q is not None:
        if not (ipv4_lower(q) if lower else ipv4_text(q)): return False
        if head.endswith(b'::'): body = head            # "...::" + quad
        elif head.endswith(b':'): body = head[:-1]
        else: return False
        extra = 2
    else:
        body, extra = a, 0
    if body.count(b'::') > 1 or b':::' in body: return False
    if b'::' in body:
        h, t = body.split(b'::')
        hs = h.split(b':') if h else []
        ts = t.split(b':') if t else []
        if not all(is_group(g) for g in hs + ts): return False
        n = len(hs) + len(ts)
        if lower: return n <= (4 if q is not None else 6)
        return n + extra <= 7
    gs = body.split(b':') if body else []
    return all(is_group(g) for g in gs) and len(gs) + extra == 8

def check_C05(ctx):
    step_proof(ctx)
    lib = ctx.snap.lib()
    contents = gens.ip_contents()
    alpha = [b'1', b'2', b'0', b'a', b'g', b':', b'.', b'9']
    small = [c for c in gens.all_strings(alpha, 6 if ctx.thorough() else 5)]
    desc = lambda ln, a, b: 'literal verdict differs from the model of theorems C05_*: implementation %s, model %s' % (a, b)
    pl = []
    for c in contents + small:
        for k in '46P':
            pl.append('%s %s %s' % (k, hx(c), hx(b']'))); pl.append('%s %s -' % (k, hx(c)))
    for c in gens.with_nul([x for x in contents if len(x) < 24][::4]):
        for k in '46P':
            pl.append('%s %s %s' % (k, hx(c), hx(b']'))); pl.append('%s %s -' % (k, hx(c)))
    corr(ctx, 'parsers(is_ipv4/is_ipv6/is_ipaddr)', pl, lambda ln, o: o, describe=desc, nontrivial=lambda ln, o: len(ln) > 8,
         note='octet values 0-300 in every position, leading zeros, dot/colon misplacements, every IPv6 shape (0-8 groups before/after ::, widths 0-5, v4 tail), tags; all strings <= 5 over {1,2,0,a,g,:,.,9}; end pointer at "]" and at the terminator')
    addrs = []
    for c in contents:
        addrs.append(b'u@[' + c + b']')
    for c in contents[::5]:
        for pre, post in ((b'', b'x'), (b'a', b''), (b' ', b''), (b'', b' '), (b'', b']'), (b'[', b'')):
            addrs.append(b'u@' + pre + b'[' + c + b']' + post)
    addrs += [a for a in src_addrs(ctx) if b'@[' in a]
    addrs += [b'u@[' + c + b']' for c in small[::3]] + [b'u@[', b'u@[]', b'u@[1.2.3.4', b'u@]1.2.3.4[', b'u@[[1.2.3.4]]', b'"u@["@[1.2.3.4]']
    # literals behind quoted local parts that contain what the composer searches the literal for (':', brackets, the tag, '@', a dot)
    for q in (b'":"', b'"["', b'"]"', b'"a:b"', b'"[1.2.3.4]"', b'"@["', b'"IPv6:"', b'"x]"', b'"::"', b'"a.b"', b'":"."]"'):
        for c in (b'1.2.3.4', b'IPv6:::1', b'IPv6:1:2:3:4:5:6:7:8', b'1::2:3:4', b'::1.2.3.4', b'IPv6:::ffff:1.2.3.4', b'1.2.3', b'IPv6:1.2.3.4', b'IPv6:', b'::', b'1:2:3:4:5:6:7:8'):
            addrs.append(q + b'@[' + c + b']')
    # junk of every length 0-12 behind the closing bracket, and a second bracket pair
    for inner in (b'1', b'::1', b'1.2.3.4', b'a', b'IPv6:::1', b''):
        for k in range(0, 13):
            addrs += [b'a@[' + inner + b']' + b'23456789abcdef'[:k], b'a@[' + inner + b']' + b'x' * k + b']', b'a@[' + inner + b'x' * k]
    el = gens.e_lines(addrs, {})
    corr(ctx, 'addresses', el, first_fields(3), describe=desc, nontrivial=nontriv_addr, level=lvl_email())
    # the property itself, on implementation outputs
    c_e, _ = vlib.run_both(lib, ctx.snap, el)
    nb = 0
    for l, o in zip(el, c_e):
        f = l.split(' '); r = o.split(' ')
        a = bytes.fromhex(f[3]); D = a[a.rfind(b'@') + 1:]
        if not D.startswith(b'[') or not r[0].lstrip('-').isdigit(): continue
        acc = int(r[0]) >= 0
        c = D[1:-1] if D.endswith(b']') and len(D) >= 2 else None
        wf4 = c is not None and ipv4_text(c)
        wf6 = c is not None and (ipv6_text(c[5:]) if c.startswith(b'IPv6:') else ipv6_text(c))
        lo = c is not None and (ipv4_lower(c) or (c.startswith(b'IPv6:') and ipv6_text(c[5:], lower=True)))
        bad = None
        if acc and not (wf4 or wf6): bad = 'accepted, but the domain is not "[" IPv4 "]" / "[" ["IPv6:"] RFC-4291-IPv6 "]"'
        elif lo and not acc: bad = 'rejected although it is a dotted quad with non-zero first octet / an IPv6:-tagged literal of the RFC 5321 grammar'
        elif acc and wf4 and r[2] != '100': bad = 'IPv4 literal accepted but is_ipv4 is not the (only) flag'
        elif acc and not wf4 and wf6 and r[2] != '010': bad = 'IPv6 literal accepted but is_ipv6 is not the (only) flag'
        if bad and nb < 4:
            nb += 1
            relation_violation(ctx, 'C05', {'case': l, 'implementation': o, 'explanation': bad})
    return finish(ctx, rule='4/6/P cases: is_ipv4, is_ipv6, is_ipaddr on (content, rest); E cases: u@[content] with junk before/after the brackets in four modes; the upper bound (RFC 4291 / dotted quad), '
                  'the lower bound (RFC 5321 4.1.3) and the family flag are also evaluated directly on the implementation outputs with an independent reading of the grammars')

# ------------------------------------------------------------------ C10
def check_C10(ctx):
    step_proof(ctx)
    lib = ctx.snap.lib()
    doms = gens.idn_domains(ctx.rnd, 3000 if not ctx.thorough() else 30000) + gens.mapped_variants()
    import csv
    raw = list(csv.reader(open(os.path.join(ctx.snap.src, 'data', 'raw.csv'), newline='', encoding='utf-8')))[1:]
    doms += [('mail.' + r[0]).encode() for r in raw if any(ord(ch) > 127 for ch in r[0])]
    # every IDN row stretched by repeating its last character (the longest row among them): beyond the table in both spellings
    doms += [('b.' + r[0] + r[0][-1]).encode() for r in raw if any(ord(ch) > 127 for ch in r[0])] + [('b.' + r[0] + x).encode() for r in raw if any(ord(ch) > 127 for ch in r[0]) for x in ('ü', 'ÿ', 'я')]
    asc = sub(ctx, gens.dom_class(5), 4) + sub(ctx, gens.dom_boundary(), 3) + [d for d in sub(ctx, gens.reserved_domains(), 11)] + [b'B.CoM', b'Example.ORG', b'TEST', b'b.MUSEUM', b'A-B.c-D.Int']
    orc = vlib.idn_oracle(doms + asc)
    alab = sorted(set(a for d in doms for (rc, a) in [orc[d]] if rc == 0 and a))
    orc.update(vlib.idn_oracle(alab))
    # oracle hypotheses of the theorems, checked on every generated input against the real libidn2
    hyp_bad = []
    for d in doms:
        rc, a = orc[d]
        if rc == 0 and a and orc.get(a, (1, b''))[0:2] != (0, a):
            hyp_bad.append(('idn(A-label) = A-label', d, a, orc.get(a)))
    for d in asc:
        rc, a = orc[d]
        if rc == 0 and a != d.lower():
            hyp_bad.append(('ASCII input is lower-cased', d, a, None))
    ctx.rep.notes.append('oracle hypotheses (idn a = a for produced A-labels; ASCII lower-cased) checked on %d conversions: %d exceptions %s' % (len(doms) + len(asc), len(hyp_bad), hyp_bad[:3]))
    desc = lambda ln, a, b: 'is_utf8_domain / mode-6531 result differs from the model of theorems C10_*: implementation %s, model %s' % (a, b)
    ul = gens.u_lines(doms + alab + asc, orc)
    corr(ctx, 'is_utf8_domain(U-, A-label, ASCII)', ul, first_fields(2), describe=desc, genuine=False, nontrivial=lambda ln, o: not o.startswith('-16'))
    tld_rows = [('mail.' + r[0]).encode() for r in raw if any(ord(ch) > 127 for ch in r[0])]
    tld_alab = [orc[d][1] for d in tld_rows if orc[d][0] == 0 and orc[d][1]]
    el = gens.e_lines([b'u@' + d for d in (doms[::2] + alab[::2] + asc[::2] + tld_rows + tld_alab) if b'@' not in d], orc)
    corr(ctx, 'addresses(4 modes)', el, first_fields(3), describe=desc, genuine=False, nontrivial=nontriv_addr)
    # the relations of the property on implementation outputs
    c_u, _ = vlib.run_both(lib, ctx.snap, ul)
    res = {}
    for l, o in zip(ul, c_u):
        f = l.split(' '); res[(f[2], f[1])] = o.split(' ')[:2]
    c_e, _ = vlib.run_both(lib, ctx.snap, el)
    eres = {}
    for l, o in zip(el, c_e):
        f = l.split(' '); eres[(f[3], int(f[1]), f[2])] = o.split(' ')[:3]
    nb = 0
    for d in doms:
        rc, a = orc[d]
        for t in ('0', '1'):
            ru = res.get((hx(d), t))
            if rc == 0 and a and (0, a) == orc.get(a, (1, b''))[0:2]:
                ra = res.get((hx(a), t))
                if ru and ra and ru != ra and nb < 4:
                    nb += 1; relation_violation(ctx, 'C10_U_and_A_label_identical', {'u_label': hx(d), 'a_label': hx(a), 'tld_check': t, 'u_result': ru, 'a_result': ra,
                                                'explanation': 'U-label and A-label spelling of the same domain get different result / IDN codes in mode 6531'})
                e6 = eres.get((hx(b'u@' + a), 3, t)); e1 = eres.get((hx(b'u@' + a), 1, t))
                if e6 and e1 and (e6[0] != e1[0] and not (int(e1[0]) < 0 and e1[0] in ('-23', '-26') and False)) and nb < 4:
                    nb += 1; relation_violation(ctx, 'C10_ascii_modes_on_the_A_label', {'a_label': hx(a), 'tld_check': t, 'mode_6531': e6, 'mode_5321': e1,
                                                'explanation': 'the ASCII modes give the A-label spelling another decision / class than mode 6531'})
            if rc != 0 and ru and ru[0] != '-2' and nb < 4:
                nb += 1; relation_violation(ctx, 'C10_idn_refusal_is_rejection', {'domain': hx(d), 'libidn2_rc': rc, 'implementation': ru,
                                            'explanation': 'the IDN library refuses this domain but is_utf8_domain does not report the IDN error'})
    for d in asc:
        if b'@' in d or not d: continue
        for t in ('0', '1'):
            e6 = eres.get((hx(b'u@' + d), 3, t)); e1 = eres.get((hx(b'u@' + d), 1, t))
            if e6 and e1 and e6[0] != e1[0] and e6[0] != '-2' and nb < 4:
                nb += 1; relation_violation(ctx, 'C10_all_ascii_domains', {'domain': hx(d), 'tld_check': t, 'mode_6531': e6, 'mode_5321': e1,
                                            'explanation': 'all-ASCII domain: mode 6531 differs from the ASCII modes and the reason is not an IDN-library error'})
    # the same relation through the facade, after the setup sequences a program may go through (mode confirmed once, twice, after an
    # ASCII mode, after a rejected setup): U-label and A-label spelling must get the same outcome, and the model's
    pairs_ua = [(d, orc[d][1]) for d in doms if orc[d][0] == 0 and orc[d][1] and (0, orc[d][1]) == orc.get(orc[d][1], (1, b''))[0:2]]
    pairs_ua = sub(ctx, pairs_ua, max(1, len(pairs_ua) // 120))[:160]
    seqs = ['i s', 'i s s', 'i r1 s r3 s', 'i r1 s r3 s s', 'i s r9 s', 'i s m8 s', 'i s t0 s', 'i r0 s r3 s r3 s']
    fl, fkey = [], []
    for u, a in pairs_ua:
        for sq in seqs:
            for sp, dd in (('U', u), ('A', a)):
                fl.append('A %s %s x f' % (sq, gens.enc_e(b'u@' + dd, orc))); fkey.append((u, sq, sp))
    corr(ctx, 'facade(U- and A-label after setup sequences)', fl, lambda ln, o: o, describe=desc, genuine=False, nontrivial=lambda ln, o: ' R' in o)
    c_f, _ = vlib.run_both(lib, ctx.snap, fl)
    last = {}
    for k, o in zip(fkey, c_f):
        tok = o.split(' ')
        e = [t for t in tok if t.startswith('R') and t.count(':') >= 3]
        # decision, error code, result code, flags of the validation; or the crash
        last[k] = ('CRASH' if 'CRASH' in o else (e[-1].split(':')[0], e[-1].split(':')[1], e[-1].split(':')[3].split(',')[0], e[-1].split(':')[3].split(',')[2]) if e else o)
    for (u, sq, sp), v in last.items():
        if sp == 'U' and nb < 6:
            va = last.get((u, sq, 'A'))
            if v == 'CRASH' or va == 'CRASH' or v != va:
                nb += 1; relation_violation(ctx, 'C10_U_and_A_label_identical', {'u_label': hx(u), 'history': 'A %s e<address> x f' % sq, 'u_outcome': v, 'a_outcome': va,
                                            'explanation': 'through eav_is_email after this setup sequence, the U-label and the A-label spelling of one domain get different outcomes (or the call crashes)'})
    return finish(ctx, rule='U cases: is_utf8_domain on domains of 1-4 labels from 8 scripts (with hyphen / disallowed-code-point / xn-- mutations), their A-label forms, every IDN TLD of raw.csv, '
                  'ASCII domains; E cases: the same as addresses in four modes; libidn2 2.3.3 is the oracle and the hypotheses the theorems make about it are checked on every conversion',
                  extra_trusted=['libidn2 2.3.3 (IDNA2008 conversion; its accept/reject decision for non-ASCII labels is taken as the definition of "IDNA2008-valid")'])

# ------------------------------------------------------------------ C20
def getlines(data):
    out = []; cur = b''
    for i in range(len(data)):
        cur += data[i:i + 1]
        if data[i] == 10:
            out.append(cur); cur = b''
    if cur: out.append(cur)
    return out

def cli_files(rnd, n, big):
    addr = gens.addr_structured()
    shapes = [b'', b' ', b'  ', b'\t', b' \t', b'#comment', b'# a@b.c', b' #notcomment@x.com', b'a@b.com', b' a@b.com', b'a@b.com ', b'a@b.com\t', b' a@b.com  ', b'\ta@b.com',
              b'bad\xff\xfe@x.com', b'\xe2\x82', b'\xc0\x80@x.y', b'\xed\xa0\x80', b'\xf4\x90\x80\x80z', b'a\x01b\x7f@c.d', b'a@b.com\r', b'a\rb@c.com', b'\r', b'a@b\x00c.com',
              '\u0438@\u043f\u043e\u0447\u0442\u0430.\u0440\u0444'.encode(), 'a@\u4e2d\u56fd.\u4e2d\u56fd'.encode(), b'x' * 3000 + b'@ok.com', b'a@' + b'b' * 2100 + b'.com', b'"' + b' ' * 5000 + b'"@x.org',
              ('\u00e9' * 1500).encode() + b'@y.com', b'\x01' * 700, b'\xff' * 900]
    files = []
    for k in range(n):
        parts = []
        for _ in range(rnd.randint(0, 25)):
            r = rnd.random()
            body = rnd.choice(shapes) if r < 0.6 else rnd.choice(addr) if r < 0.9 else bytes(rnd.randint(1, 255) for _ in range(rnd.randint(0, 40)))
            if big and rnd.random() < 0.1:
                body = bytes(rnd.choice(b'ab.@" \\\xd0\xb0') for _ in range(rnd.randint(2000, 8192)))
            body = body.replace(b'\n', b'')
            parts.append(body + rnd.choice([b'\n', b'\n', b'\r\n', b'\r\r\n']))
        data = b''.join(parts)
        if rnd.random() < 0.5 and data.endswith(b'\n'):
            data = data[:-1] if rnd.random() < 0.7 else data[:-1] + rnd.choice([b'\r', b' ', b'x@y.zz'])
        files.append(data)
    # lines whose failure message comes from libidn2, from the TLD policy, from the syntax, and passes — in every order of three,
    # so that a message left over from an earlier line shows
    pool = [b'a@xn--a', b'a@xn--.de', b'a@\xff.c', b'a@b.an', b'a@b.adac', b'a@b.zzz', b'a@b.com', b'a@[1.2.3.4]', b'a@b', b'a..b@c.de', 'я@почта.рф'.encode()]
    for tri in itertools.permutations(pool, 3):
        if any(x[:5] in (b'a@xn-', b'a@\xff') for x in tri[:2]):
            files.append(b'\n'.join(tri) + b'\n')
    # N lines, for N around every power of two and the round numbers (a counter, a buffer that fills, a table of fixed size in the tool)
    for k in list(range(1, 20)) + [31, 32, 33, 63, 64, 65, 100, 127, 128, 129, 255, 256, 257, 1000, 1023, 1024, 1025, 4096]:
        files.append(b'a@b.com\n' * k)
        files.append(b''.join((b'a@b.com\n', b'bad\n', b'#c\n', b' a@xn--a \n')[j % 4] for j in range(k)))
    # line lengths around the sizes a line buffer might have
    for k in (118, 119, 120, 126, 127, 128, 129, 254, 255, 256, 257, 510, 511, 512, 513, 1022, 1023, 1024, 1025, 4094, 4095, 4096, 4097):
        files.append(b'a' * k + b'\n' + b'a@b.com\n'); files.append(b'a@' + b'b' * k + b'\r\n' + b'x@y.org'); files.append(b' ' + b'\xd0\xb0' * (k // 2) + b'@b.com \n')
    # staircases: one file whose lines grow by one octet from 1 to N (and one that shrinks), of octets that are all escaped in the echo
    # (ill-formed UTF-8, a control character), all echoed as they are (a letter, a 2-octet character) — an echo / line buffer sized for the
    # longest line seen so far, or for the longest possible address, is filled exactly to its end at some step
    top = 2000 if big else 700
    for unit in (b'\xff', b'\x01', b'a', b'\xd0\xb0', b'\xf0\x9f\x98\x80'):
        files.append(b''.join(unit * k + b'\n' for k in range(1, top // len(unit) + 1)))
    files.append(b''.join(b'\xff' * k + b'\n' for k in range(top, 0, -1)))
    files.append(b'a@b.cc\n' + b''.join(b'\xff' * k + b'\r\n' for k in range(250, top, 7)) + b'\x01' * 321)
    # after one long line (a buffer grown for it, perhaps shrunk again afterwards) every shorter length, all octets escaped
    for L in (1023, 1024, 1025, 2048, 4096, 4097, 8192):
        for unit in (b'\x01', b'\xff'):
            files.append(b'a' * L + b'\n' + b''.join(unit * k + b'\n' for k in range(300, 0, -1)))
            files.append(unit * L + b'\n' + b''.join(unit * k + b'\n' for k in (1, 2, 255, 256, 257, 1, 512, 256, 1023, 1024, 256)))
    # the tool has its own copy of the UTF-8 decoder (bin/): the 3- and 4-octet candidates of the C03 cover, alone and inside an address
    cands = [u for u in gens.utf8_candidates(False) if len(u) >= 3 and b'\n' not in u and 0 not in u]
    if not big: cands = cands[::3] + [u for u in cands if u[0] in (0xe0, 0xed, 0xf0, 0xf4) and u[1] in (0x80, 0x8f, 0x90, 0x9f, 0xa0, 0xbf)]
    files.append(b''.join(u + b'\n' for u in cands))
    files.append(b''.join(b'a' + u + b'b@x.org\n' for u in cands))
    # every short local part over the structural alphabet as a line (the tool's copy of the decoder and its state sit under the library's scanner)
    files.append(b''.join(bytes.fromhex(l.split()[1]) + b'@b.io\n' for l in gens.local_class(3) if l.split()[1] != '-' and b'\n' not in bytes.fromhex(l.split()[1]) and 0 not in bytes.fromhex(l.split()[1])))
    files.append(b''.join(x + b'@b.io\n' for x in (b'"a".', b'"a".b', b'a."b"', b'"a"."b"', b'"a"..b', b'."a"', b'"a"b', b'"\xd0\xb0".', b'"a".\xd0\xb0', b'a.', b'"a" .b', b'"a\\"".', b'""', b'"".', b'"a".""')))
    # what only the very first octets of a file can be: byte-order marks, a shebang, a NUL — the first line is a line like every other
    for mark in (b'\xef\xbb\xbf', b'\xff\xfe', b'\xfe\xff', b'#!', b'\x00', b'\xef\xbb', b'\xef\xbb\xbf\xef\xbb\xbf', b' \xef\xbb\xbf'):
        for first in (b'', b'a@b.com', b'#comment', b' a@b.com ', b'bad', 'я@почта.рф'.encode(), b'a@xn--a'):
            files.append(mark + first + b'\n' + b'a@b.org\n'); files.append(mark + first)
            files.append(b'a@b.org\n' + mark + first + b'\n')
    files += [b'', b'\n', b'\n\n\n', b' \n', b'a@b.com', b'a@b.com\r', b'a@b.com\r\r\n', b'#\n', b'#', b' ', b'\x00\n', b'a@b.com\n\n \n#c\n good@xn--p1ai.com \n']
    return files

def check_C20(ctx):
    step_proof(ctx)
    lib = ctx.snap.lib(san=True)
    exe = lib.cli()
    import subprocess
    files = cli_files(ctx.rnd, 60 if not ctx.thorough() else 600, ctx.thorough())
    # the model: raw line -> SKIP | trimmed, sanitized
    raw = [ln for f in files for ln in getlines(f)]
    clines = ['C %s' % hx(ln) for ln in raw]
    p = subprocess.run([vlib.model_drv(), ctx.snap.dump() and ctx.snap.table_file, '0', '0', '0', '0'], input=('\n'.join(clines) + '\n').encode(), stdout=subprocess.PIPE)
    mo = p.stdout.decode().splitlines() if clines else []
    trimmed = {}
    for ln, o in zip(raw, mo):
        trimmed[ln] = None if o == 'SKIP' else tuple(bytes.fromhex(x) if x != '-' else b'' for x in o.split(' '))
    # the library's decision and message for every trimmed line (default settings), real libidn2 as oracle
    ts = sorted(set(t[0] for t in trimmed.values() if t is not None))
    orc = vlib.idn_oracle(gens.domains_of(ts))
    ml = []
    for t in ts:
        i = t.rfind(b'@'); d = t[i + 1:] if i >= 0 else b''
        rc, a = orc.get(d, (0, b''))
        ml.append('M %s %d %s 0' % (hx(t), rc, hx(a)))
    dl = ctx.snap.lib()
    c_m, _ = vlib.run_both(dl, ctx.snap, [l.replace('M ', 'E 3 1 ', 1) for l in ml])   # also compared with the model below
    pm = subprocess.run([dl.drv()], input=('\n'.join(ml) + '\n').encode(), stdout=subprocess.PIPE)
    libres = {}
    for t, o in zip(ts, pm.stdout.decode().splitlines()):
        f = o.split(' ')
        libres[t] = (f[0] == '1', bytes.fromhex(f[1]) if f[1] not in ('-', '~') else b'')
    nb = 0; evals = 0; outs = []
    env = dict(os.environ); env.update({'LC_ALL': 'C', 'ASAN_OPTIONS': 'detect_leaks=1:abort_on_error=0', 'UBSAN_OPTIONS': 'print_stacktrace=1:halt_on_error=1'})
    for k, data in enumerate(files):
        path = os.path.join(ctx.snap.root, 'cli_%d.txt' % k)
        open(path, 'wb').write(data)
        try:
            r = subprocess.run([exe, path], stdout=subprocess.PIPE, stderr=subprocess.PIPE, env=env, timeout=120)
        except subprocess.TimeoutExpired:
            nb += 1; ctx.rep.violation({'kind': 'cli', 'file_hex': data.hex()[:4000], 'explanation': 'bin/eav did not terminate within 120 s'}); continue
        exp = b''; npass = nfail = 0
        for ln in getlines(data):
            t = trimmed[ln]
            if t is None: continue
            ok, msg = libres[t[0]]
            if ok: exp += b'PASS: ' + t[1] + b'\n'; npass += 1
            else: exp += b'FAIL: ' + t[1] + b'\n      ' + msg + b'\n'; nfail += 1
        evals += len(getlines(data))
        outs.append('%d lines, exit %d' % (len(getlines(data)), r.returncode))
        bad = None
        if r.returncode != 0: bad = 'exit status %d; stderr: %s' % (r.returncode, r.stderr.decode('utf-8', 'replace')[-600:])
        elif r.stdout != exp:
            a, b = r.stdout.split(b'\n'), exp.split(b'\n')
            i = next((i for i, (x, y) in enumerate(zip(a, b)) if x != y), min(len(a), len(b)))
            bad = 'stdout differs from (model trimming + library decision) at output line %d: tool %r, expected %r; %d vs %d output lines' % (i, a[i][:120] if i < len(a) else None, b[i][:120] if i < len(b) else None, len(a), len(b))
        elif ('pass = %d fail = %d' % (npass, nfail)).encode() not in r.stderr: bad = 'summary line does not say pass = %d fail = %d: %r' % (npass, nfail, r.stderr[-200:])
        if bad and nb < 4:
            nb += 1
            ctx.rep.violation({'kind': 'cli', 'file_hex': data.hex() if len(data) < 3000 else data.hex()[:3000] + '...', 'file_len': len(data), 'explanation': bad,
                               'replay': 'write the bytes to a file and run bin/eav (ASan build) on it'})
    # several files in one run (state the tool keeps between files: buffers sized for the previous file, counters): the output must be the
    # concatenation of what the tool prints for each file alone, in the order the tool processes its arguments (either order is taken)
    def solo(d):
        pth = os.path.join(ctx.snap.root, 'cli_solo.txt'); open(pth, 'wb').write(d)
        return subprocess.run([exe, pth], stdout=subprocess.PIPE, stderr=subprocess.PIPE, env=env, timeout=120)
    short = [b'a@b.c\n', b'bad\n#c\n a@b.org \n', b'\xff\xfe\n', b'']
    longs = [b'a' * n + b'\n' for n in (120, 1000, 4000, 4095, 4096, 4097, 8192, 20000)] + [b'\x01' * 5000 + b'\na@b.c\n', ('é' * 3000).encode() + b'@b.com\n']
    combos = [(x, y) for x in short[:3] for y in longs] + [(y, x) for x in short[:3] for y in longs] + [(longs[4], longs[1]), (short[0], longs[4], short[1]), (longs[6], short[3], short[0])]
    for cb in combos:
        paths = []
        for j, d in enumerate(cb):
            pth = os.path.join(ctx.snap.root, 'cli_multi_%d.txt' % j); open(pth, 'wb').write(d); paths.append(pth)
        try:
            r = subprocess.run([exe] + paths, stdout=subprocess.PIPE, stderr=subprocess.PIPE, env=env, timeout=120)
            singles = [solo(d) for d in cb]
        except subprocess.TimeoutExpired:
            nb += 1; ctx.rep.violation({'kind': 'cli', 'files_hex': [d.hex()[:200] for d in cb], 'explanation': 'bin/eav did not terminate within 120 s on several files'}); continue
        evals += sum(len(getlines(d)) for d in cb)
        fw = b''.join(x.stdout for x in singles); bw = b''.join(x.stdout for x in reversed(singles))
        bad = None
        if any(x.returncode != 0 for x in singles): continue          # reported by the single-file runs above
        if r.returncode != 0: bad = 'exit status %d on several files that are each processed with exit status 0; stderr: %s' % (r.returncode, r.stderr.decode('utf-8', 'replace')[-500:])
        elif r.stdout != fw and r.stdout != bw: bad = 'output for several files is not the concatenation of the outputs for each file alone (either order)'
        if bad and nb < 5:
            nb += 1
            ctx.rep.violation({'kind': 'cli', 'files_len': [len(d) for d in cb], 'files_hex': [d.hex() if len(d) < 400 else d.hex()[:400] + '...' for d in cb], 'explanation': bad,
                               'replay': 'write each byte string to its own file and run bin/eav (ASan build) with the files as arguments in this order'})
    ctx.rep.evals += evals
    import hashlib
    for ln in raw:
        ctx.rep.nontrivial.add(hashlib.blake2b(ln, digest_size=8).digest())
    ctx.rep.samples += [{'generator': 'cli-files', 'case': f[:80].hex(), 'implementation': o} for f, o in list(zip(files, outs))[:4]]
    ctx.rep.gens.append({'generator': 'cli-files', 'cases': len(files), 'lines': len(raw), 'exhaustive': False,
                         'note': 'files assembled from line shapes {empty, blanks, comment, addresses, 0-8 KiB, ill-formed UTF-8, control bytes, embedded CR/NUL} x {LF, CRLF, CR CR LF} x final newline present/absent/CR'})
    ctx.rep.exhaustive = False
    return finish(ctx, rule='each generated file is given to bin/eav (built from /repo/bin with ASan+UBSan+LSan); its stdout must equal, byte for byte, the lines predicted from the model\'s trimming and '
                  'sanitising of every input line and the library\'s own decision/message for the trimmed line (default settings); exit status 0, no sanitizer report; evaluations = input lines',
                  extra_trusted=['gcc ASan/UBSan/LSan for the runtime half (memory errors, aborts)', 'libidn2 2.3.3', 'locale C (the tool calls setlocale(LC_ALL, ""))'])

# ------------------------------------------------------------------ C14
def check_C14(ctx):
    step_proof(ctx)
    import subprocess
    # library and harness both built with -fsanitize=thread from the snapshot
    root = os.path.join(ctx.snap.root, 'tsan')
    import shutil; shutil.copytree(ctx.snap.src, root, symlinks=True)
    cflags = '-O1 -g -std=c99 -fsanitize=thread -fno-omit-frame-pointer -D%s' % vlib.GUARD
    rc, out = vlib.sh(['make', '-j%d' % vlib.NCPU, 'static', 'FORCE_IDN=idn2', 'CFLAGS=' + cflags], cwd=root, timeout=600)
    if rc != 0:
        raise vlib.BuildError('TSan build of the library failed:\n' + out[-2000:])
    exe = os.path.join(root, 'threads.bin')
    rc, out = vlib.sh(['gcc', '-O1', '-g', '-fsanitize=thread', '-I' + os.path.join(root, 'include'), os.path.join(vlib.HARN, 'threads.c'), os.path.join(root, 'libeav.a'), '-lidn2', '-lpthread', '-o', exe])
    if rc != 0:
        raise vlib.BuildError('building harness/threads.c failed:\n' + out[-2000:])
    pool = gens.addr_structured() + ['u@%s' % d for d in ()] + [('user%d@' % i).encode() + d for i, d in enumerate(gens.idn_domains(ctx.rnd, 150)[:150]) if b'@' not in d] + \
           [b'a@\xc3\xbc.de', b'd@\xc3\xb1.x', 'и@почта.рф'.encode(), 'я@яндекс.рф'.encode(), b'a@b.com', b'x@[IPv6:::1]'] + \
           [b'a@b.It', b'a@b.IQ', b'a@host.BIZ', b'a@host.INFO', b'a@b.IQX', b'a@b.COM', b'a@B.Org', b'a@b.TEST', b'a@b.Test.', b'a@example.ORG.', b'a@b.test.', b'a@b.info.'] + \
           [b'a@[0.0.0.0]', b'a@[0.1.2.3]', b'a@[::0.0.0.0]', b'a@[IPv6:::0.1.2.3]', b'a@[00.0.0.0]', b'a@[1.2.3.4]', b'a@[255.255.255.255]', b'a@[IPv6:1:2:3:4:5:6:7:8]', b'a@[IPv6:::]', b'a@[1::2:3:4]',
            b'a@[IPv6:FFFF::1.2.3.4]', b'a@[1.2.3.256]', b'a@[IPv6:1::2::3]']        # every path through the literal parsers
    pool = [a for a in pool if 0 not in a][:1500]
    inp = ('\n'.join(hx(a) for a in pool) + '\n').encode()
    # rounds == 0: cold start (no library call before the threads are released together)
    runs = [(2, 0), (8, 0), (16, 0), (2, 3), (4, 2), (8, 1), (16, 1)] if not ctx.thorough() else [(2, 0), (3, 0), (8, 0), (16, 0), (16, 0), (2, 20), (3, 10), (4, 10), (8, 6), (16, 4), (16, 8)]
    total = 0; nb = 0
    env = dict(os.environ); env.update({'TSAN_OPTIONS': 'halt_on_error=0:exitcode=66:report_signal_unsafe=0:second_deadlock_stack=1', 'LC_ALL': 'C'})
    for k, (nt, rounds) in enumerate(runs):
        env.pop('THREADS_COLD', None)
        if rounds == 0:
            env['THREADS_COLD'] = '1'
        try:
            r = subprocess.run([exe, str(nt), str(max(rounds, 1)), str(ctx.seed + k)], input=inp, stdout=subprocess.PIPE, stderr=subprocess.PIPE, env=env, timeout=900)
        except subprocess.TimeoutExpired:
            ctx.rep.violation({'kind': 'threads', 'threads': nt, 'explanation': 'thread harness did not finish in 900 s'}); continue
        so, se = r.stdout.decode('utf-8', 'replace'), r.stderr.decode('utf-8', 'replace')
        m = re.search(r'validations=(\d+)', so)
        total += int(m.group(1)) if m else 0
        ctx.rep.samples.append({'generator': 'threads', 'case': '%d threads x %d rounds x 8 settings x %d addresses' % (nt, rounds, len(pool)), 'implementation': so.strip().splitlines()[-1] if so.strip() else 'no output'})
        if r.returncode != 0 and nb < 3:
            nb += 1
            races = re.findall(r'WARNING: ThreadSanitizer: data race.*?(?=\n\n|\Z)', se, flags=re.S)
            ctx.rep.violation({'kind': 'threads', 'threads': nt, 'rounds': rounds, 'seed': ctx.seed + k, 'exit_status': r.returncode,
                               'mismatches': [l for l in so.splitlines() if l.startswith('MISMATCH')][:5], 'tsan_report': (races[0][:2500] if races else se[-1500:]),
                               'addresses_hex': [hx(a) for a in pool[:50]],
                               'explanation': 'concurrent validation differs from sequential validation and/or ThreadSanitizer reports an unsynchronised access to shared memory inside the library',
                               'replay': 'harness/threads.c built with -fsanitize=thread against a TSan build of /repo: %sthreads %d %d %d < addresses' % ('THREADS_COLD=1 ' if rounds == 0 else '', nt, max(rounds, 1), ctx.seed + k)})
    # hammering: an uninstrumented build, 16 threads, a few addresses that take every path through the domain classification (reserved names
    # with and without the root dot, listed / unlisted TLDs, IDN, literals), many times: shared state inside libc is invisible to TSan
    hexe = os.path.join(ctx.snap.root, 'threads_plain.bin')
    ld = ctx.snap.lib()
    rc, out = vlib.sh(['gcc', '-O2', '-g', '-I' + os.path.join(ctx.snap.src, 'include'), os.path.join(vlib.HARN, 'threads.c'), os.path.join(ld.dir, 'libeav.a'), '-lidn2', '-lpthread', '-o', hexe])
    if rc != 0:
        raise vlib.BuildError('building harness/threads.c (plain) failed:\n' + out[-2000:])
    hpool = [b'a@example.com.', b'x@example.biz.', b'a@EXAMPLE.ORG.', b'a@a.b.example.net', b'a@b.test', b'a@b.info', b'a@b.onion.', b'a@localhost', b'a@b.com', b'a@b.zz', b'a@b.adac',
             b'a@xn--p1ai.xn--p1ai', 'я@почта.рф'.encode(), 'a@b.中国'.encode(), b'a@[1.2.3.4]', b'a@[IPv6:::1]', b'"a b"@c.org', b'a@b', b'a..b@c.de', b'a@-b.com', b'a@b.c-d', b'a@invalid.',
             b'a@b.It', b'a@b.IQ', b'a@host.BIZ', b'a@host.INFO', b'a@b.IQX', b'a@b.COM', b'a@B.Org', b'a@b.Museum', b'a@b.TEST', b'a@b.Test.', b'a@EXAMPLE.Com', b'a@b.XN--P1AI']     # letter case: folded copies
    hin = ('\n'.join(hx(a) for a in hpool) + '\n').encode()
    iters = 1500 if not ctx.thorough() else 20000
    env2 = dict(os.environ); env2.update({'THREADS_HAMMER': str(iters), 'LC_ALL': 'C'})
    try:
        r = subprocess.run([hexe, '16', '1', str(ctx.seed)], input=hin, stdout=subprocess.PIPE, stderr=subprocess.PIPE, env=env2, timeout=900)
        so = r.stdout.decode('utf-8', 'replace')
        m = re.search(r'validations=(\d+)', so); total += int(m.group(1)) if m else 0
        ctx.rep.samples.append({'generator': 'threads(hammer)', 'case': '16 threads x %d iterations x %d addresses, uninstrumented build' % (iters, len(hpool)), 'implementation': so.strip().splitlines()[-1] if so.strip() else 'no output'})
        if r.returncode != 0:
            ctx.rep.violation({'kind': 'threads', 'threads': 16, 'iterations': iters, 'exit_status': r.returncode, 'mismatches': [l for l in so.splitlines() if l.startswith('MISMATCH')][:5],
                               'addresses_hex': [hx(a) for a in hpool], 'explanation': 'a thread obtained an outcome that a single thread never obtains for that address (16 threads validating the same addresses concurrently, uninstrumented build)',
                               'replay': 'harness/threads.c built against /repo: THREADS_HAMMER=%d threads 16 1 %d < addresses' % (iters, ctx.seed)})
    except subprocess.TimeoutExpired:
        ctx.rep.violation({'kind': 'threads', 'explanation': 'hammer run did not finish in 900 s'})
    ctx.rep.evals += total
    import hashlib
    for a in pool: ctx.rep.nontrivial.add(hashlib.blake2b(a, digest_size=8).digest())
    ctx.rep.gens.append({'generator': 'threads(TSan)', 'cases': len(runs), 'validations': total, 'exhaustive': False,
                         'note': '2-16 threads, each with its own eav_t, every mode x tld_check, ASCII and non-ASCII domains, sched_yield at seeded points; per-thread outcomes compared with a sequential pass'})
    ctx.rep.exhaustive = False
    shutil.rmtree(root, ignore_errors=True)
    # when the footprint theorem no longer checks and TSan found nothing, finish() reports no-failing-input-found
    return finish(ctx, rule='schedules are explored by ThreadSanitizer (flags conflicting access pairs whatever the schedule taken) plus seeded sched_yield perturbation; evaluations = validations '
                  'performed concurrently; the inventory of writable static objects is regenerated from the built libeav.a (objdump) for theorem C14_no_writable_static_storage',
                  extra_trusted=['gcc ThreadSanitizer', 'objdump section inventory (tools/gen.py)', 'partial: races inside libidn2/glibc and weak-memory effects are outside the model'])

# ------------------------------------------------------------------ C18
def check_C18(ctx):
    step_proof(ctx)
    addrs = sorted(set(gens.addr_structured() + gens.addr_class(3) + sub(ctx, gens.addr_boundary(), 3) + [b'u@' + d for d in sub(ctx, gens.reserved_domains(), 13) if b'@' not in d] + [b'u@' + d for d in gens.mapped_variants()] +
                       [b'u@' + d for d in gens.idn_domains(ctx.rnd, 300) if b'@' not in d] +
                       [b'u@b.' + bytes.fromhex(n) for n, l, t in ctx.snap.dump()['tld'] if len(n) >= 2 * 18 or n.startswith('786e2d2d')]))      # every long row and every xn-- row
    orc = vlib.idn_oracle(gens.domains_of(addrs) | gens.domains_of(gens.HIST_POOL))
    el = gens.e_lines(addrs, orc)
    ul = gens.u_lines(sorted(gens.domains_of(addrs)), orc)
    hl = gens.hist_exhaustive(orc, 3 if ctx.thorough() else 2) + gens.hist_random(ctx.rnd, orc, 2000 if not ctx.thorough() else 20000)
    # mode changes back and forth: the idnkit context must be created / destroyed exactly once each time
    for seq in itertools.product(['r0', 'r3', 'r1', 'r9', 's', gens.enc_e(b'a@b.com', orc)], repeat=4):
        hl.append('A i s ' + ' '.join(seq) + ' s f')
        hl.append('A i ' + ' '.join(seq) + ' f i s f')
    hl = [h for h in hl if legal_history(h)]
    # every mode through each back end's own copy of eav_setup / eav_is_email, on addresses the four modes judge differently
    # (controls, folding, white space and escapes in quoted strings, RFC 20 characters, non-ASCII local parts and domains, literals)
    disc = [b'"a\x01b"@c.org', b'"a\r\n b"@c.org', b'"a\rb"@c.org', b'"a b"@c.org', b'"a\tb"@c.org', b'" a"@c.org', b'"\\\x7f"@c.org', b'"\\\x01"@c.org', b'a\x7fb@c.org',
            b'"a\nb"@c.org', b'a#b@c.org', b'a.b@c.org', b'a..b@c.org', '\u00e9@b.com'.encode(), 'a@\u043f\u043e\u0447\u0442\u0430.\u0440\u0444'.encode(), b'a@[1.2.3.4]', b'a@[IPv6:::1]',
            b'a@b.com', b'a@test', b'a@b.adac', b'a@b', b'"a"."b"@c.org', b'"a""b"@c.org', b'a@b_c.org']
    orc.update(vlib.idn_oracle(gens.domains_of(disc)))
    hl += facade_lines(disc, orc) + ['A i r%d s %s r%d s %s x f' % (m1, gens.enc_e(a, orc), m2, gens.enc_e(a, orc)) for a in disc[:10] for m1 in range(4) for m2 in range(4) if m1 != m2]
    # the TLD policy of each back end's own copy of the facade: every class code x masks (each single bit, each single bit missing, none, all) x modes
    masks = [0, 2047] + [1 << b for b in range(11)] + [2047 ^ (1 << b) for b in range(11)] + [760, 6, 10, 24]
    jl = ['J %d %d %d %d' % (m, mk, t, rc) for m in range(4) for mk in masks for t in (0, 1) for rc in list(range(-3, 10))]
    outs = {}
    for be in ('idn2', 'idn', 'idnkit'):
        lib = ctx.snap.lib(backend=be)
        desc = lambda ln, a, b, be=be: 'back end %s: implementation %s, the single facade model %s' % (be, a, b)
        corr(ctx, be + ':addresses', el, first_fields(3), lib=lib, describe=desc, genuine=False, nontrivial=nontriv_addr)
        corr(ctx, be + ':is_utf8_domain', ul, first_fields(2), lib=lib, describe=desc, genuine=False, nontrivial=lambda ln, o: not o.startswith('-16'))
        corr(ctx, be + ':histories', hl, lambda ln, o: o, lib=lib, describe=desc, genuine=(lambda ln, a, b: ' K' in a and a.split(' K')[1] != b.split(' K')[-1]) if be == 'idnkit' else False,
             nontrivial=lambda ln, o: ' R' in o)
        outs[be] = tuple(vlib.run_both(lib, ctx.snap, X)[0] for X in (el, ul, hl, jl))
        # the same composers built with -DEAV_EXTRA (each back end has its own copy of is_6531_email): lpart / domain strings and allocation counts
        libx = ctx.snap.lib(backend=be, extra=True)
        elx = sub(ctx, el, 3)
        corr(ctx, be + ':addresses(EAV_EXTRA)', elx, lambda ln, o: o, lib=libx, describe=desc, genuine=False, nontrivial=nontriv_addr)
        outs[be] = outs[be] + (vlib.run_both(libx, ctx.snap, elx)[0],)
        corr(ctx, be + ':policy', jl, lambda ln, o: o, lib=lib, describe=desc, genuine=False, nontrivial=lambda ln, o: True, exhaustive=True)
    nb = 0
    strip = lambda o: o.split(' K')[0]
    for be in ('idn', 'idnkit'):
        for X, a, b in ((el, outs['idn2'][0], outs[be][0]), (ul, outs['idn2'][1], outs[be][1]), (hl, outs['idn2'][2], outs[be][2]), (jl, outs['idn2'][3], outs[be][3]),
                        (sub(ctx, el, 3), outs['idn2'][4], outs[be][4])):
            for ln, x, y in zip(X, a, b):
                if strip(x) != strip(y) and nb < 4:
                    nb += 1
                    relation_violation(ctx, 'C18_backends_agree', {'case': ln, 'libidn2_build': x, be + '_build': y,
                                       'explanation': 'same input, same IDN conversion (adapter onto libidn2): the %s build decides / reports differently from the libidn2 build' % be})
    for ln, o in zip(hl, outs['idnkit'][2]):
        k = o.split(' K')[-1].split(',') if ' K' in o else None
        if k and (k[0] != k[1] or k[2] != '0' or k[3] != '0') and nb < 6:
            nb += 1
            relation_violation(ctx, 'C18_idnkit_released_exactly_once', {'history': ln, 'created,destroyed,destroy_of_dead,use_after_destroy': k,
                               'explanation': 'idnkit context not released exactly once by the end of the history (or destroyed while dead / used after destroy)'})
    return finish(ctx, rule='partial/idn and partial/idnkit are compiled with the repository Makefile (FORCE_IDN) against stub headers and harness/adapter.c, which maps their IDN entry points onto '
                  'libidn2 and counts idnkit context creations/destructions; E, U and A cases run against the three builds and the single facade model; the builds are also compared with each other',
                  extra_trusted=['harness/stubs/idna.h, harness/stubs/idn/api.h, harness/adapter.c (libidn and idnkit are not installed: their real behaviour is not exercised)', 'libidn2 2.3.3'])

def legal_history(h):
    """eav_is_email only after a successful eav_setup since the last eav_init; after eav_free only eav_init."""
    ok = False; freed = False; rfc = 3
    for o in h.split(' ')[1:]:
        if o == 'i': ok = False; freed = False; rfc = 3; continue
        if freed: return False
        if o[0] == 'r': rfc = int(o[1:])
        elif o == 's' and rfc in (0, 1, 2, 3): ok = True
        elif o[0] == 'e' and not ok: return False
        elif o == 'f': freed = True
    return True

# ------------------------------------------------------------------ C06
def c06_corpus(ctx):
    rnd = ctx.rnd
    L = gens.local_class(4) + sub(ctx, gens.local_sweep(), 2) + sub(ctx, gens.utf8_lines(False), 5) + gens.local_random(rnd, 5000)
    # truncated multi-byte sequences and look-ahead triggers right at the terminator
    for pre in (b'', b'a', b'"', b'a.', b'"\\'):
        for u in (b'\xc3', b'\xe2', b'\xe2\x82', b'\xf0', b'\xf0\x9f', b'\xf0\x9f\x98', b'\r', b'\r\n', b'.', b'"', b'\\', b' ', b'-'):
            L.append('L %s -' % hx(pre + u))
    D = gens.dom_lines(gens.dom_class(5) + gens.dom_boundary() + sub(ctx, gens.dom_sweep(), 3)) + gens.dom_lines(gens.dom_class(3), rests=(b'x', b'.'))
    I = []
    for c in gens.ip_contents():
        for k in '46P':
            I.append('%s %s %s' % (k, hx(c), hx(b']'))); I.append('%s %s -' % (k, hx(c)))
    S = ['S %s' % hx(d) for d in gens.reserved_domains()] + ['T %s' % hx(d) for d in sub(ctx, gens.reserved_domains(), 3)] + ['S %s' % hx(d) for d in gens.dom_class(4)]
    S += ['S %s' % hx(d) for d in gens.last_two_label_lengths()]
    S += ['S %s' % hx(d) for d in gens.dom_boundary()] + ['T %s' % hx(d) for d in sub(ctx, gens.dom_boundary(), 4)] + ['S %s' % hx(b'b.' + b'x' * n) for n in range(0, 300)]
    addrs = gens.addr_class(4) + gens.addr_structured() + gens.addr_boundary() + [b'u@[' + c + b']' for c in sub(ctx, gens.ip_contents(), 2)]
    addrs += [b'u@' + d for d in sub(ctx, gens.dom_boundary(), 2)] + [b'u@b.' + b'x' * n for n in range(1, 80)] + [b'u@' + d for d in gens.last_two_label_lengths()]
    # EVERY domain length 1-2100 (1-octet steps: a fixed-size copy anywhere on the way — stack buffer, IDN input, result copy — is filled to its
    # very end at one of them), as an ASCII name of 40-octet labels and as a name that the IDN mapping shrinks
    lab40 = b'abcdefghij' * 4
    for n in range(1, 2101):
        addrs.append(b'u@' + ((lab40 + b'.') * (n // 41 + 1))[:n - 1] + b'c')
        if n % 3 == 0 or 1000 <= n <= 1040 or 250 <= n <= 260 or 505 <= n <= 520:
            addrs.append(b'u@b.com' + '\u00ad'.encode() * ((n - 5) // 2) + (b'' if n % 2 else b'a'))
    # every byte value at the structural positions of an address
    for c in range(1, 256):
        ch = bytes([c])
        addrs += [ch + b'a@b.com', b'a' + ch + b'@b.com', b'a@' + ch + b'b.com', b'a@b.com' + ch, b'a@b' + ch + b'.com', b'a@[' + ch + b'1.2.3.4]', b'a@[1.2.3.4' + ch + b']', b'a@[1.2.3.4]' + ch,
                  b'"' + ch + b'"@b.com', b'"a"' + ch + b'@b.com', b'a.' + ch + b'.b@c.d']
    # long inputs up to 64 KiB
    for n in (255, 256, 1000, 4096, 65000):
        for shape in (b'a' * n + b'@b.com', b'a@' + b'b' * n, b'a@' + (b'b.' * (n // 2)), b'.' * n, b'@' * n, b'a@[' + b':' * n + b']', b'a@[' + b'1.' * (n // 2) + b']', b'"' + b'\\"' * (n // 2) + b'"@x.y',
                      ('я' * (n // 2)).encode() + b'@b.com', b'a@' + ('я' * (n // 2)).encode() + b'.com', b'"' * n, b'a@' + b'-' * n):
            addrs.append(shape)
    addrs = [a for a in addrs if 0 not in a]
    return L, D, I, S, sorted(set(addrs))

def check_C06(ctx):
    step_proof(ctx)
    L, D, I, S, addrs = c06_corpus(ctx)
    orc = vlib.idn_oracle(gens.domains_of(addrs) | gens.domains_of(gens.HIST_POOL))
    E = gens.e_lines(addrs, orc)
    U = gens.u_lines(sorted(gens.domains_of(addrs))[::3], orc)
    H = gens.hist_exhaustive(orc, 2) + gens.hist_random(ctx.rnd, orc, 1500, length=30)
    F = facade_lines([a for a in addrs if len(a) <= 300], orc, tlds=(1,)) + facade_lines([a for a in addrs if len(a) > 300], orc, modes=(3, 1), tlds=(1,))
    cases = L + D + I + S + E + U + F
    desc = lambda ln, a, b: 'memory-safety run: the implementation crashed / was stopped by a sanitizer or a guard page, or answered differently from the model: %s vs %s' % (a, b)
    # (a) ASan + UBSan + LSan, every input in an exact-size heap block
    ls = ctx.snap.lib(san=True)
    def leaked(ln, a):      # E / U lines end with the number of allocations still live after eav_result_free; A lines with the count after the last operation (eav_free)
        f = a.split(' ')
        return ln[0] in 'EU' and len(f) >= 5 and f[-1].lstrip('-').isdigit() and f[-1] != '0'
    def crashed(ln, a, b): return 'CRASH' in a or 'ABORT' in b or 'FAULT' in b or leaked(ln, a)
    lsx = ctx.snap.lib(san=True, extra=True)     # -DEAV_EXTRA: lpart / domain copies, released by eav_result_free
    for name, lib, env, lines in (('asan+ubsan(tight heap blocks)', ls, {'DRV_PLACE': 'tight'}, cases), ('asan+ubsan(histories)', ls, {}, H),
                                  ('asan+ubsan(EAV_EXTRA build)', lsx, {'DRV_PLACE': 'tight'}, sub(ctx, E, 2))):
        c_out, m_out = vlib.run_both(lib, ctx.snap, lines, env=env)
        ctx.rep.add_cases(name, lines, c_out, lambda ln, o: True, note='gcc -fsanitize=address,undefined -fno-sanitize-recover=all; leaks checked at exit')
        bad = [(l, a, b) for l, a, b in zip(lines, c_out, m_out) if a != b]
        for l, a, b in sorted(bad, key=lambda t: (not crashed(*t), len(t[0])))[:3]:
            ctx.rep.violation({'kind': 'memory-safety', 'run': name, 'case': l[:600], 'implementation': a[:800], 'model': b[:200], 'explanation': desc(l, a[:300], b[:100])}, found_input=crashed(l, a, b))
    # (b) guard pages, default -O2 build: terminator at the end of a page / first byte at the start of a page
    ld = ctx.snap.lib()
    for pm in ('guard_end', 'guard_start'):
        c_out, m_out = vlib.run_both(ld, ctx.snap, cases, env={'DRV_PLACE': pm})
        ctx.rep.add_cases('guard-pages(%s)' % pm, cases, c_out, lambda ln, o: True, note='PROT_NONE page right after the terminator / right before the first byte; default -O2 build')
        bad = [(l, a, b) for l, a, b in zip(cases, c_out, m_out) if a != b]
        for l, a, b in sorted(bad, key=lambda t: (not crashed(*t), len(t[0])))[:3]:
            ctx.rep.violation({'kind': 'memory-safety', 'run': 'guard-pages(%s)' % pm, 'case': l[:600], 'implementation': a[:300], 'model': b[:200],
                               'explanation': 'a byte outside [first byte, terminator] was read (SIGSEGV on the guard page)' if crashed(l, a, b) else desc(l, a, b)}, found_input=crashed(l, a, b))
    # (c) valgrind memcheck: eav_t on uninitialised heap memory, uninitialised reads are errors
    vsub = H[:120 if not ctx.thorough() else 1500] + E[:300]
    c_out, m_out = vlib.run_both(ld, ctx.snap, vsub, shards=8, env={'DRV_NOPOISON': '1', 'DRV_LINEBUF': '1'}, wrapper=['valgrind', '-q', '--error-exitcode=99', '--exit-on-first-error=yes', '--track-origins=no'])
    ctx.rep.add_cases('valgrind(uninitialised eav_t)', vsub, c_out, lambda ln, o: True, note='eav_t malloc()ed and left uninitialised before eav_init; memcheck')
    bad = [(l, a, b) for l, a, b in zip(vsub, c_out, m_out) if a != b]
    for l, a, b in bad[:2]:
        ctx.rep.violation({'kind': 'memory-safety', 'run': 'valgrind', 'case': l[:600], 'implementation': a[:600], 'model': b[:200],
                           'explanation': 'valgrind memcheck stopped the run (uninitialised read / invalid access) or the outcome differs from the model'}, found_input='CRASH' in a)
    # (e) layer A tie: the read extent of each scanner call (1 + highest index read, found by moving a PROT_NONE page
    #     through the string; under-read flag) equals the read extent of the access model (LocalA / Local6531A / DomainA)
    Hx = []
    for ln in L:
        f = ln.split()
        if (len(f[1]) + len(f[2] if len(f) > 2 else '')) // 2 <= 160:
            for fn in '8123':
                Hx.append('H %s %s %s' % (fn, f[1], f[2] if len(f) > 2 else '-'))
    for ln in D:
        f = ln.split()
        if (len(f[1]) + len(f[2] if len(f) > 2 else '')) // 2 <= 300:
            Hx.append('H D %s %s' % (f[1], f[2] if len(f) > 2 else '-'))
    if not ctx.thorough():
        Hx = Hx[::3]
    for ln in I:
        f = ln.split()
        if (len(f[1]) + len(f[2] if len(f) > 2 else '')) // 2 <= 200:
            Hx.append('H %s %s %s' % (f[0], f[1], f[2] if len(f) > 2 else '-'))
            Hx.append('H %s %s %s' % (f[0], f[1], '31' if f[0] != '4' else '2e30'))     # the end pointer inside a longer string
    for ln in S:
        f = ln.split()
        if f[0] == 'S' and len(f[1]) // 2 <= 120 and f[1] != '-':
            Hx.append('H S %s -' % f[1])
    for a in addrs:
        if len(a) <= 90:
            for fn in 'abc':
                Hx.append('H %s %s -' % (fn, hx(a)))
    for lb, nm in ((ld, 'default'), (ctx.snap.lib(rfc20=True, f5322=True, uscore=True), 'rfc20+f5322+uscore')):
        hl = Hx if nm == 'default' else [h for h in Hx if h[2] in '3D46abc']
        c_out, m_out = vlib.run_both(lb, ctx.snap, hl)
        ctx.rep.add_cases('read-extent(%s)' % nm, hl, c_out, lambda ln, o: not o.startswith('0 '), note='output: 1+highest index read, under-read flag, return code; compared with the access model')
        def further(a, b):      # the code reads further than the access model says, reads before the first byte, or returns another code
            fa, fb = a.split(), b.split()
            if len(fa) != 3 or len(fb) != 3: return True
            return int(fa[0]) > int(fb[0]) or fa[1] != fb[1] or fa[2] != fb[2]
        bad = [(l, a, b) for l, a, b in zip(hl, c_out, m_out) if a != b and further(a, b)]
        ctx.rep.notes.append('read-extent(%s): %d cases, %d with exactly the model\'s extent, %d where the code reads less than the model allows' % (nm, len(hl), sum(1 for a, b in zip(c_out, m_out) if a == b), sum(1 for a, b in zip(c_out, m_out) if a != b and not further(a, b))))
        def beyond(a): return 'BEYOND' in a or 'CRASH' in a or (len(a.split()) == 3 and a.split()[1] == '1')
        for l, a, b in sorted(bad, key=lambda t: (not beyond(t[1]), len(t[0])))[:3]:
            ctx.rep.violation({'kind': 'read-extent', 'run': 'read-extent(%s)' % nm, 'case': l[:600], 'implementation': a[:200], 'model': b[:200], 'theorem': 'C06_*_access_model (LocalA.v, Local6531A.v, DomainA.v, IpA.v, SpecialA.v, EmailA.v)',
                               'explanation': 'the scanner reads outside [first byte, terminator]' if beyond(a) else
                               'the scanner reads further than the access model says (or returns another code): the index-level model no longer bounds what the code reads, so its no-out-of-range-read theorems no longer cover it'},
                              found_input=beyond(a))
    # (f) bounded model checking of the C sources themselves (cbmc): every string of at most N bytes, every byte value, every end pointer
    import cbmc_c06
    if not os.environ.get('VERIF_NO_CBMC'):
        res = cbmc_c06.run(os.path.join(ctx.snap.root, 'cbmc'), ctx.snap.src, ctx.thorough())
        for cfg, status, detail, secs, cmd in res:
            kind, fn, n, files, whole = cfg
            ctx.rep.gens.append({'generator': 'cbmc(%s, all strings of at most %d bytes%s)' % (fn, n, ', end = terminator' if whole else ', every end pointer'), 'cases': 1, 'exhaustive': True,
                                 'note': '%s in %.0f s: %s' % (status, secs, detail if isinstance(detail, str) else 'counterexample')})
            if status == 'failed':
                ctx.rep.violation({'kind': 'cbmc', 'function': fn, 'bound': n, 'detail': detail, 'command': ' '.join(cmd),
                                   'explanation': 'cbmc found a string of at most %d bytes on which %s violates a pointer / bounds / overflow / unwinding / leak assertion; the assignments give the input' % (n, fn)})
            elif status == 'inconclusive':
                ctx.rep.notes.append('cbmc(%s): %s — the bounded run says nothing about this source; not a violation' % (fn, detail))
            elif status in ('error', 'timeout'):
                ctx.rep.notes.append('cbmc(%s): %s (%s) — the bounded run is not available for this source; not a violation (the sanitizer, guard-page and read-extent runs do not depend on it)' % (fn, status, str(detail)[-200:].replace('\n', ' ')))
        ctx.rep.notes.append('cbmc 6.11 bounded runs: ' + '; '.join('%s N=%d %s %.0fs' % (c[1], c[2], st, sec) for c, st, d, sec, cmd in res))
    # (d) linear work: instruction counts (callgrind) on adversarial shapes at n, 2n, 4n
    import subprocess
    E1 = lambda a: gens.e_lines([a], {}) * 3
    shapes = {'all-dots': lambda n: E1(b'.' * n), 'all-at': lambda n: E1(b'@' * n), 'long-local': lambda n: E1(b'a' * n + b'@b.com'), 'many-labels': lambda n: E1(b'a@' + b'b.' * (n // 2) + b'c'),
              'one-label': lambda n: E1(b'a@' + b'b' * n), 'colons': lambda n: E1(b'a@[' + b':' * n + b']'), 'quoted-pairs': lambda n: E1(b'"' + b'\\"' * (n // 2) + b'"@x.y'), 'utf8': lambda n: E1(('\u044f' * (n // 2)).encode() + b'@b.com'),
              # the public per-part validators on long inputs (through the e-mail functions the scanners never see more than 64 / 254 bytes)
              'L-atoms': lambda n: ['L %s -' % hx(b'ab.' * (n // 3) + b'c')] * 3, 'L-quoted': lambda n: ['L %s -' % hx(b'"' + b'\\" ' * (n // 3) + b'"')] * 3,
              'L-utf8': lambda n: ['L %s -' % hx(('\u20ac' * (n // 3)).encode())] * 3, 'L-folds': lambda n: ['L %s -' % hx(b'"' + b'a\r\n ' * (n // 4) + b'"')] * 3,
              'S-labels': lambda n: ['S %s' % hx(b'ab.' * (n // 3) + b'example.com')] * 3, 'S-one-label': lambda n: ['S %s' % hx(b'a.' + b'b' * n)] * 3,
              '6-groups': lambda n: ['6 %s -' % hx(b'1:' * (n // 2))] * 3, '4-digits': lambda n: ['4 %s -' % hx(b'0.' * (n // 2))] * 3, 'P-dots': lambda n: ['P %s -' % hx(b'0.0.' * (n // 4) + b':')] * 3}
    if not ctx.thorough():
        shapes = {k: shapes[k] for k in ('all-dots', 'many-labels', 'quoted-pairs', 'utf8', 'L-atoms', 'L-quoted', 'L-utf8', 'S-labels', '4-digits')}
    base_n = 4000
    lin = {}
    for name, f in shapes.items():
        irs = []
        for n in (base_n, 2 * base_n, 4 * base_n):
            lines = f(n)
            p = subprocess.run(['valgrind', '--tool=callgrind', '--callgrind-out-file=/dev/null', ld.drv()], input=('\n'.join(lines) + '\n').encode(), stdout=subprocess.PIPE, stderr=subprocess.PIPE)
            m = re.search(r'Collected : (\d+)', p.stderr.decode())
            irs.append(int(m.group(1)) if m else -1)
        lin[name] = irs
        # subtract the fixed start-up cost by differencing: (Ir(4n)-Ir(2n)) <= 2.3 * (Ir(2n)-Ir(n)) + slack
        if min(irs) > 0:
            d1, d2 = irs[1] - irs[0], irs[2] - irs[1]
            if d2 > 2.3 * d1 + 200000:
                ctx.rep.violation({'kind': 'super-linear', 'shape': name, 'n': [base_n, 2 * base_n, 4 * base_n], 'instructions': irs,
                                   'explanation': 'work grows faster than linearly in the input length (callgrind instruction counts, deterministic)'})
    ctx.rep.notes.append('callgrind instruction counts at n, 2n, 4n (n = %d): %s' % (base_n, lin))
    return finish(ctx, rule='every generated case runs (a) on an ASan+UBSan+LSan build with the input in an exact-size heap block, (b) on the default build with PROT_NONE pages right after the terminator '
                  'and right before the first byte, (c) under valgrind memcheck with eav_t on uninitialised heap memory, and (d) callgrind instruction counts at n/2n/4n for adversarial shapes; '
                  'outputs are also compared with the model; a crash / sanitizer stop is a concrete failing input',
                  extra_trusted=['gcc ASan/UBSan/LSan, valgrind 3.19 memcheck and callgrind', 'cbmc 6.11 (bounded model checking of the C sources: supports the tie, replaces no theorem) with harness/cbmc/libc_stub.c', 'partial: compiler-level UB that sanitizers do not see, libc/libidn2 internals, inputs >= 2 GiB are outside what is shown'],
                  extra_cov={'callgrind_instruction_counts': lin})

CHECKS = {'C06': check_C06, 'C18': check_C18, 'C14': check_C14, 'C20': check_C20, 'C10': check_C10, 'C05': check_C05, 'C17': check_C17, 'C11': check_C11, 'C13': check_C13, 'C15': check_C15, 'C16': check_C16, 'C19': check_C19, 'C01': check_C01, 'C07': check_C07, 'C08': check_C08, 'C09': check_C09, 'C12': check_C12, 'C03': check_C03, 'C02': check_C02, 'C04': check_C04}

def main():
    if len(sys.argv) >= 3 and sys.argv[1] == 'replay':
        return replay(sys.argv[2])
    pid = sys.argv[1]
    tier = os.environ.get('VERIF_TIER', 'quick')
    if '--tier' in sys.argv:
        tier = sys.argv[sys.argv.index('--tier') + 1]
    seed = int(os.environ.get('VERIF_SEED', '1'))
    ctx = Ctx(pid, tier, seed)
    if pid not in CHECKS:
        print('unknown property', pid); return 2
    if not step_build(ctx):
        return finish(ctx, rule='build failed')
    try:
        return CHECKS[pid](ctx)
    except vlib.BuildError as e:
        ctx.rep.violation({'kind': 'build-failure', 'detail': str(e)[-3000:]}, found_input=False)
        return finish(ctx, rule='build failed')

def replay(path):
    obj = json.load(open(path))
    print(json.dumps(obj, indent=1))
    if obj.get('kind') == 'correspondence':
        snap, _ = gen.gen_all()
        b = obj.get('build', {})
        lib = snap.lib(**{k: v for k, v in b.items() if v})
        c, m = vlib.run_both(lib, snap, [obj['case']])
        print('implementation now:', c[0]); print('model now         :', m[0])
        return 0 if c[0] == m[0] else 1
    return 0

if __name__ == '__main__':
    sys.exit(main())
