#!/usr/bin/env python3
"""vcheck.py <Cxx> [--tier quick|thorough]   |   vcheck.py replay <file>

Decides one property of /verif/properties.jsonl for /repo's current working tree:
  1. snapshot + build of the library (scratch, removed on exit), regeneration of coq/Gen/*.v
  2. the property's theorems are re-checked by coqc (Print Assumptions read back)
  3. correspondence: model (extracted from Coq) vs implementation on generated cases,
     compared through the property's own projection
  4. decision, evidence/<Cxx>.json, VIOLATION / KNOWN-FINDING lines, exit status."""
import os, sys, json, time, random, itertools, re
sys.path.insert(0, os.path.dirname(os.path.abspath(__file__)))
import vlib, gen, gens
from vlib import hx

class Ctx:
    def __init__(self, pid, tier, seed):
        self.pid, self.tier, self.seed = pid, tier, seed
        self.rep = vlib.Report(pid, tier, seed)
        self.rnd = random.Random(seed * 1000003 + int(pid[1:]))
        self.snap = None
        self.proof_ok = True
        self.mismatch_budget = 5
        self.known = load_known(pid)
    def thorough(self):
        return self.tier == 'thorough'

def load_known(pid):
    out = []
    p = os.path.join(vlib.VERIF, 'known-findings.txt')
    if os.path.exists(p):
        for ln in open(p):
            ln = ln.strip()
            if ln.startswith('finding:') and ('property=%s ' % pid) in ln + ' ':
                out.append(ln)
    return out

# ------------------------------------------------------------------ common steps
def step_build(ctx):
    try:
        ctx.snap, changed = gen.gen_all()
        ctx.rep.notes.append('Gen files changed on this run: %s' % (changed or 'none'))
        ctx.snap.lib()
        return True
    except vlib.BuildError as e:
        ctx.rep.violation({'kind': 'build-failure', 'detail': str(e)[-3000:]}, found_input=False)
        return False

def step_proof(ctx, extra_files=()):
    """Theorems of Properties_<pid>.v must all be discharged and axiom-free."""
    bad = vlib.scan_sources()
    if bad:
        ctx.rep.notes.append('forbidden commands in sources: %s' % bad[:10])
    names, done, axioms, log = vlib.check_properties_file(ctx.pid)
    ctx.rep.obligations, ctx.rep.discharged, ctx.rep.axioms = names, done, axioms
    ctx.failed_theorems = [n for n in names if n not in done]
    if bad:
        ctx.failed_theorems = names
        ctx.rep.discharged = []
    ctx.proof_log = log
    ctx.proof_ok = not ctx.failed_theorems and bool(names)
    return ctx.proof_ok

def proof_failure_violation(ctx):
    """Called when no concrete failing input was found but an obligation does not check."""
    tail = '\n'.join(ctx.proof_log.splitlines()[-40:])
    ctx.rep.violation({'kind': 'proof-obligation-fails',
                       'theorems_not_checked': ctx.failed_theorems or ['(no theorem found in Properties_%s.v)' % ctx.pid],
                       'coq_log_tail': tail,
                       'replay': 'cd coq && make Properties_%s.vo' % ctx.pid}, found_input=False)

def corr(ctx, gname, lines, project, lib=None, nontrivial=None, exhaustive=False, note='', describe=None,
         chunk=2000000):
    """Run one generator's cases through both drivers, compare under [project]
    (a function (case_line, output_line) -> comparable value).  Returns list of mismatches."""
    lib = lib or ctx.snap.lib()
    nontrivial = nontrivial or (lambda ln, o: not o.startswith(('-16', '-3 ')))
    mism = []
    total = 0
    if not isinstance(lines, list):
        lines = list(lines)
    for off in range(0, max(1, len(lines)), chunk):
        part = lines[off:off + chunk]
        c_out, m_out = vlib.run_both(lib, ctx.snap, part)
        for ln, a, b in zip(part, c_out, m_out):
            if a != b:
                pa, pb = project(ln, a), project(ln, b)
                if pa != pb:
                    mism.append((ln, a, b, pa, pb))
        ctx.rep.add_cases(gname, part, c_out, nontrivial, exhaustive=exhaustive, note=note)
        total += len(part)
    mism.sort(key=lambda t: len(t[0]))
    for ln, a, b, pa, pb in mism[:ctx.mismatch_budget]:
        obj = {'kind': 'correspondence', 'correspondence': 'corr:%s/%s' % (ctx.pid, gname), 'case': ln,
               'build': dict(zip(('rfc20', 'f5322', 'uscore', 'extra', 'san'), lib.cfg)),
               'implementation': a, 'model': b, 'projected_implementation': pa, 'projected_model': pb}
        if describe:
            obj['explanation'] = describe(ln, a, b)
        ctx.rep.violation(obj, found_input=True)
    return mism

def finish(ctx, rule, level='proof', extra_trusted=(), assumptions=(), extra_cov=None):
    if not ctx.proof_ok and not ctx.rep.violations:
        proof_failure_violation(ctx)
    return ctx.rep.finish(level=level, rule=rule, trusted=vlib.TRUSTED_COMMON + list(extra_trusted),
                          assumptions=list(assumptions),
                          checker_cmd='cd coq && make -k Properties_%s.vo && coqc -R . Eav Properties_%s.v   (Print Assumptions under every theorem)' % (ctx.pid, ctx.pid),
                          extra_cov=extra_cov)

def dec(x):
    return x == '0'

# ------------------------------------------------------------------ C02
def check_C02(ctx):
    step_proof(ctx)
    def project(ln, o):
        f = o.split(' ')
        return tuple(dec(x) for x in f[:3]) if len(f) >= 3 else o
    def describe(ln, a, b):
        return ('decision of is_822_local/is_5321_local/is_5322_local (0 = accept) differs from the model, which theorem '
                'C02_local_part_grammar proves equal to the grammar word *("." word): implementation rc %s, grammar %s' % (a, b))
    n = 6 if ctx.thorough() else 5
    corr(ctx, 'G-class(len<=%d)' % n, gens.local_class(n), project, exhaustive=True, describe=describe,
         note='all strings over 17 class representatives')
    corr(ctx, 'G-sweep', gens.local_sweep(), project, exhaustive=True, describe=describe,
         note='every byte 0x01-0xff at and around the hole of every scanner-state context')
    corr(ctx, 'G-rest', gens.local_rest(), project, exhaustive=True, describe=describe,
         note='end pointer inside a longer string (rest = @d, SP, HT, LF, dot)')
    corr(ctx, 'G-random-long', gens.local_random(ctx.rnd, 40000 if not ctx.thorough() else 400000), project, describe=describe)
    return finish(ctx, rule='L cases: is_{822,5321,5322,6531}_local on (s, rest); projection = accept/reject of the three ASCII scanners; '
                  'non-trivial = not rejected as empty; distinct by case line')


# ------------------------------------------------------------------ C04
def check_C04(ctx):
    step_proof(ctx)
    dproj = lambda ln, o: dec(o.split(' ')[0])
    def describe(ln, a, b):
        return ('accept/reject of the host-name domain differs from the model, which theorem C04_ascii_domain proves equal to '
                'HostnameSpec (LDH labels 1-63, total <= 253 without root dot, not all-numeric): implementation %s, specification %s' % (a, b))
    nontriv = lambda ln, o: not o.startswith('-16')
    n = 8 if ctx.thorough() else 6
    doms = gens.dom_class(n)
    corr(ctx, 'G-class(len<=%d)' % n, gens.dom_lines(doms), dproj, exhaustive=True, describe=describe, nontrivial=nontriv,
         note='all strings over {a,1,-,.,_,!,0xC3,A}')
    bnd = gens.dom_boundary()
    corr(ctx, 'G-boundary', gens.dom_lines(bnd), dproj, exhaustive=True, describe=describe, nontrivial=nontriv,
         note='label lengths 0-70 in first/middle/last position, total lengths 236-261 with and without root dot')
    corr(ctx, 'G-sweep', gens.dom_lines(gens.dom_sweep()), dproj, exhaustive=True, describe=describe, nontrivial=nontriv)
    corr(ctx, 'G-rest', gens.dom_lines(gens.dom_class(4), rests=(b'x', b'.', b'-')), dproj, exhaustive=True, describe=describe, nontrivial=nontriv,
         note='end pointer inside a longer string')
    rnd = gens.dom_random(ctx.rnd, 30000 if not ctx.thorough() else 300000)
    corr(ctx, 'G-random', gens.dom_lines(rnd), dproj, describe=describe, nontrivial=nontriv)
    # underscore build
    lu = ctx.snap.lib(uscore=True)
    corr(ctx, 'uscore-build:G-class(len<=%d)' % (n - 1), gens.dom_lines(gens.dom_class(n - 1)), dproj, lib=lu, exhaustive=True, describe=describe, nontrivial=nontriv)
    corr(ctx, 'uscore-build:G-boundary', gens.dom_lines(gens.dom_boundary(chars=(b'_', b'x', b'-'))), dproj, lib=lu, exhaustive=True, describe=describe, nontrivial=nontriv)
    # the same domains through is_utf8_domain (real libidn2 as oracle) and through the four composers, TLD checking off
    sample = bnd + gens.dom_class(4) + rnd[:5000]
    orc = vlib.idn_oracle(sample)
    uproj = lambda ln, o: (int(o.split(' ')[0]) >= 0) if o and o[0] in '-0123456789' else o
    corr(ctx, 'is_utf8_domain(tld off)', gens.u_lines(sample, orc, tlds=(0,)), uproj, describe=describe, nontrivial=nontriv)
    eproj = lambda ln, o: dec(o.split(' ')[0])
    corr(ctx, 'email(tld off)', gens.e_lines([b'x@' + d for d in sample if b'@' not in d], orc, tlds=(0,)), eproj, describe=describe,
         nontrivial=lambda ln, o: not o.startswith(('-16', '-3 ')))
    return finish(ctx, rule='D cases: is_ascii_domain on (s, rest); U cases: is_utf8_domain with libidn2 2.3.3 as oracle; E cases: x@domain in four modes, '
                  'tld_check off; default and LABELS_ALLOW_UNDERSCORE builds; projection = accept/reject; non-trivial = not rejected as empty',
                  extra_trusted=['libidn2 2.3.3 as IDN oracle (its answers are inputs of the model)'])

# ------------------------------------------------------------------ C03
def check_C03(ctx):
    step_proof(ctx)
    def project(ln, o):
        f = o.split(' ')
        return dec(f[3]) if len(f) >= 4 else o
    def describe(ln, a, b):
        return ('decision of is_6531_local (4th field, 0 = accept) differs from the model, which theorem C03_local_part_grammar proves equal to '
                'strict UTF-8 + the RFC 5321 grammar with non-ASCII characters as atom / quoted-text characters: implementation %s, model %s' % (a, b))
    nontriv = lambda ln, o: not o.endswith(' -4')
    n = 6 if ctx.thorough() else 5
    corr(ctx, 'G-class(len<=%d)' % n, gens.local_class(n), project, exhaustive=True, describe=describe, nontrivial=nontriv,
         note='all strings over 17 class representatives incl. 2/3/4-byte characters, an overlong lead and a stray continuation byte')
    corr(ctx, 'G-utf8', gens.utf8_lines(ctx.thorough()), project, exhaustive=True, describe=describe, nontrivial=nontriv,
         note='all 1- and 2-byte sequences, boundary cover of 3- and 4-byte sequences (all 3-byte sequences with a continuation second byte in thorough), '
              'each in 13 contexts: atom, next to dots, quoted, escaped, before and after quoted words')
    corr(ctx, 'G-sweep', gens.local_sweep(), project, exhaustive=True, describe=describe, nontrivial=nontriv)
    corr(ctx, 'G-random-long', gens.local_random(ctx.rnd, 40000 if not ctx.thorough() else 400000), project, describe=describe, nontrivial=nontriv)
    # C03_ascii_agrees, on the implementation alone: modes 6531 and 5321 decide identically on pure ASCII
    lib = ctx.snap.lib()
    lines = [l for l in gens.local_class(5, alpha=[b'a', b'.', b'"', b'\\', b' ', b'\t', b'(', b'\x01', b'\x7f', b'#'])]
    c_out, _ = vlib.run_both(lib, ctx.snap, lines)
    bad = [(l, o) for l, o in zip(lines, c_out) if len(o.split(' ')) == 4 and dec(o.split(' ')[1]) != dec(o.split(' ')[3])]
    ctx.rep.add_cases('ascii-agreement(6531 vs 5321)', lines, c_out, nontriv, exhaustive=True,
                      note='relation checked on implementation outputs alone')
    for l, o in sorted(bad, key=lambda t: len(t[0]))[:3]:
        ctx.rep.violation({'kind': 'relation', 'relation': 'C03_ascii_agrees_with_5321', 'case': l, 'implementation': o,
                           'explanation': 'pure-ASCII local part decided differently by is_5321_local (2nd field) and is_6531_local (4th field)'})
    return finish(ctx, rule='L cases: is_6531_local on byte strings; projection = accept/reject in mode 6531; non-trivial = non-empty input; distinct by case line')

# ------------------------------------------------------------------ C12
def is_plain_ascii(b):
    return all(1 <= c <= 127 and c not in (34, 92) for c in b)

def check_C12(ctx):
    step_proof(ctx)
    lib = ctx.snap.lib()
    nontriv = lambda ln, o: not o.startswith(('-16', '-3 ')) and not o.endswith(' -4')
    full = lambda ln, o: o
    # (1) plain local parts: four return codes equal -- relation on implementation outputs, and correspondence of all codes
    alpha = [b'a', b'.', b' ', b'\t', b'\r', b'\n', b'(', b'\x01', b'\x7f', b'#', b'@', b'~']
    n = 6 if ctx.thorough() else 5
    lines = gens.local_class(n, alpha=alpha)
    def rel_plain(ln, o):
        f = o.split(' ')
        return len(f) == 4 and len(set(f)) == 1
    m = corr(ctx, 'plain-local(len<=%d)' % n, lines, full, exhaustive=True, nontrivial=nontriv,
             describe=lambda ln, a, b: 'return codes of the four scanners on a plain ASCII local part differ from the model (theorem C12_plain_local_parts_agree is about the model): %s vs %s' % (a, b))
    c_out, _ = vlib.run_both(lib, ctx.snap, lines)
    for ln, o in sorted([(l, o) for l, o in zip(lines, c_out) if not rel_plain(l, o)], key=lambda t: len(t[0]))[:3]:
        ctx.rep.violation({'kind': 'relation', 'relation': 'C12_plain_local_parts_agree', 'case': ln, 'implementation': o,
                           'explanation': 'pure-ASCII local part without DQUOTE/backslash: the four scanners must return the same code (fields: 822 5321 5322 6531)'})
    # (2) inclusion 5321 in 822 over the full local alphabet
    lines2 = gens.local_class(5) + gens.local_sweep()
    m2 = corr(ctx, 'inclusion-5321-822', lines2, lambda ln, o: tuple(dec(x) for x in o.split(' ')[:2]), exhaustive=True, nontrivial=nontriv)
    c2, _ = vlib.run_both(lib, ctx.snap, lines2)
    for ln, o in sorted([(l, o) for l, o in zip(lines2, c2) if len(o.split(' ')) == 4 and dec(o.split(' ')[1]) and not dec(o.split(' ')[0])], key=lambda t: len(t[0]))[:3]:
        ctx.rep.violation({'kind': 'relation', 'relation': 'C12_5321_included_in_822', 'case': ln, 'implementation': o,
                           'explanation': 'accepted by is_5321_local (2nd field 0) but rejected by is_822_local (1st field)'})
    # (3) whole addresses: ASCII modes agree on plain local parts; mode 6531 agrees or reports an IDN error; same domain verdict
    addrs = gens.addr_class(5 if ctx.thorough() else 4) + gens.addr_structured() + gens.addr_boundary()
    orc = vlib.idn_oracle(gens.domains_of(addrs))
    elines = gens.e_lines(addrs, orc)
    corr(ctx, 'addresses', elines, lambda ln, o: ' '.join(o.split(' ')[:3]), nontrivial=nontriv, exhaustive=False,
         describe=lambda ln, a, b: 'result (rc, idn_rc, flags) of is_<mode>_email differs from the model the C12 theorems are about: %s vs %s' % (a, b))
    c3, _ = vlib.run_both(lib, ctx.snap, elines)
    by_addr = {}
    for ln, o in zip(elines, c3):
        f = ln.split(' ')
        by_addr.setdefault((f[3], f[2]), {})[int(f[1])] = o.split(' ')
    viol = 0
    for (ah, t), res in by_addr.items():
        if len(res) < 4 or viol >= 3: continue
        a = bytes.fromhex(ah) if ah != '-' else b''
        i = a.rfind(b'@')
        local = a[:i] if i >= 0 else a
        rcs = [res[m][0] for m in range(4)]
        ok_ascii = [m for m in range(3) if res[m][0] != '' and int(res[m][0]) >= 0 or (res[m][0].lstrip('-').isdigit() and int(res[m][0]) <= -16 and int(res[m][0]) != -16)]
        # domain verdict: among ASCII modes whose local part passed (rc not a local-part / basic code), rc and flags must be equal
        passed = [m for m in range(3) if res[m][0].lstrip('-').isdigit() and not (-16 <= int(res[m][0]) <= -3 and int(res[m][0]) != -16) ]
        passed = [m for m in range(3) if res[m][0].lstrip('-').isdigit() and int(res[m][0]) not in range(-15, -2)]
        vals = set((res[m][0], res[m][2]) for m in passed)
        if len(vals) > 1:
            viol += 1
            ctx.rep.violation({'kind': 'relation', 'relation': 'C12_domain_verdict_mode_independent', 'address': ah, 'tld_check': t,
                               'implementation': {str(m): ' '.join(res[m]) for m in range(4)},
                               'explanation': 'ASCII modes whose local-part scanner accepted report different domain verdict / class / flags'})
        if is_plain_ascii(a) and is_plain_ascii(local) and all(c < 128 for c in a):
            if len(set((res[m][0], res[m][2]) for m in range(3))) > 1 or (res[3][0] != res[0][0] and res[3][0] != '-2'):
                viol += 1
                ctx.rep.violation({'kind': 'relation', 'relation': 'C12_plain_addresses_agree', 'address': ah, 'tld_check': t,
                                   'implementation': {str(m): ' '.join(res[m]) for m in range(4)},
                                   'explanation': 'pure-ASCII address without DQUOTE/backslash: the four modes must give the same code (mode 6531 may give the IDN error -2 instead)'})
    return finish(ctx, rule='L and E cases in all four modes; relations (equal codes on plain ASCII, 5321 within 822, mode-independent domain verdict) are evaluated on the '
                  'implementation outputs alone, and the outputs are compared with the model; non-trivial = not an empty part',
                  extra_trusted=['libidn2 2.3.3 as IDN oracle'])

CHECKS = {'C12': check_C12, 'C03': check_C03, 'C02': check_C02, 'C04': check_C04}

def main():
    if len(sys.argv) >= 3 and sys.argv[1] == 'replay':
        return replay(sys.argv[2])
    pid = sys.argv[1]
    tier = os.environ.get('VERIF_TIER', 'quick')
    if '--tier' in sys.argv:
        tier = sys.argv[sys.argv.index('--tier') + 1]
    seed = int(os.environ.get('VERIF_SEED', '1'))
    ctx = Ctx(pid, tier, seed)
    if pid not in CHECKS:
        print('unknown property', pid); return 2
    if not step_build(ctx):
        return finish(ctx, rule='build failed')
    try:
        return CHECKS[pid](ctx)
    except vlib.BuildError as e:
        ctx.rep.violation({'kind': 'build-failure', 'detail': str(e)[-3000:]}, found_input=False)
        return finish(ctx, rule='build failed')

def replay(path):
    obj = json.load(open(path))
    print(json.dumps(obj, indent=1))
    if obj.get('kind') == 'correspondence':
        snap, _ = gen.gen_all()
        b = obj.get('build', {})
        lib = snap.lib(**{k: v for k, v in b.items() if v})
        c, m = vlib.run_both(lib, snap, [obj['case']])
        print('implementation now:', c[0]); print('model now         :', m[0])
        return 0 if c[0] == m[0] else 1
    return 0

if __name__ == '__main__':
    sys.exit(main())
