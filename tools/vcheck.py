#!/usr/bin/env python3
"""vcheck.py <Cxx> [--tier quick|thorough]   |   vcheck.py replay <file>

Decides one property of /verif/properties.jsonl for /repo's current working tree:
  1. snapshot + build of the library (scratch, removed on exit), regeneration of coq/Gen/*.v
  2. the property's theorems are re-checked by coqc (Print Assumptions read back)
  3. correspondence: model (extracted from Coq) vs implementation on generated cases,
     compared through the property's own projection
  4. decision, evidence/<Cxx>.json, VIOLATION / KNOWN-FINDING lines, exit status."""
import os, sys, json, time, random, itertools, re
sys.path.insert(0, os.path.dirname(os.path.abspath(__file__)))
import vlib, gen, gens
from vlib import hx

class Ctx:
    def __init__(self, pid, tier, seed):
        self.pid, self.tier, self.seed = pid, tier, seed
        self.rep = vlib.Report(pid, tier, seed)
        self.rnd = random.Random(seed * 1000003 + int(pid[1:]))
        self.snap = None
        self.proof_ok = True
        self.mismatch_budget = 5
        self.known = load_known(pid)
    def thorough(self):
        return self.tier == 'thorough'

def load_known(pid):
    out = []
    p = os.path.join(vlib.VERIF, 'known-findings.txt')
    if os.path.exists(p):
        for ln in open(p):
            ln = ln.strip()
            if ln.startswith('finding:') and ('property=%s ' % pid) in ln + ' ':
                out.append(ln)
    return out

# ------------------------------------------------------------------ common steps
def step_build(ctx):
    try:
        ctx.snap, changed = gen.gen_all()
        ctx.rep.notes.append('Gen files changed on this run: %s' % (changed or 'none'))
        ctx.snap.lib()
        return True
    except vlib.BuildError as e:
        ctx.rep.violation({'kind': 'build-failure', 'detail': str(e)[-3000:]}, found_input=False)
        return False

def step_proof(ctx, extra_files=()):
    """Theorems of Properties_<pid>.v must all be discharged and axiom-free."""
    bad = vlib.scan_sources()
    if bad:
        ctx.rep.notes.append('forbidden commands in sources: %s' % bad[:10])
    names, done, axioms, log = vlib.check_properties_file(ctx.pid)
    ctx.rep.obligations, ctx.rep.discharged, ctx.rep.axioms = names, done, axioms
    ctx.failed_theorems = [n for n in names if n not in done]
    if bad:
        ctx.failed_theorems = names
        ctx.rep.discharged = []
    ctx.proof_log = log
    ctx.proof_ok = not ctx.failed_theorems and bool(names)
    return ctx.proof_ok

def proof_failure_violation(ctx):
    """Called when no concrete failing input was found but an obligation does not check."""
    tail = '\n'.join(ctx.proof_log.splitlines()[-40:])
    ctx.rep.violation({'kind': 'proof-obligation-fails',
                       'theorems_not_checked': ctx.failed_theorems or ['(no theorem found in Properties_%s.v)' % ctx.pid],
                       'coq_log_tail': tail,
                       'replay': 'cd coq && make Properties_%s.vo' % ctx.pid}, found_input=False)

def corr(ctx, gname, lines, project, lib=None, nontrivial=None, exhaustive=False, note='', describe=None,
         chunk=2000000):
    """Run one generator's cases through both drivers, compare under [project]
    (a function (case_line, output_line) -> comparable value).  Returns list of mismatches."""
    lib = lib or ctx.snap.lib()
    nontrivial = nontrivial or (lambda ln, o: not o.startswith(('-16', '-3 ')))
    mism = []
    total = 0
    if not isinstance(lines, list):
        lines = list(lines)
    for off in range(0, max(1, len(lines)), chunk):
        part = lines[off:off + chunk]
        c_out, m_out = vlib.run_both(lib, ctx.snap, part)
        for ln, a, b in zip(part, c_out, m_out):
            if a != b:
                pa, pb = project(ln, a), project(ln, b)
                if pa != pb:
                    mism.append((ln, a, b, pa, pb))
        ctx.rep.add_cases(gname, part, c_out, nontrivial, exhaustive=exhaustive, note=note)
        total += len(part)
    mism.sort(key=lambda t: len(t[0]))
    for ln, a, b, pa, pb in mism[:ctx.mismatch_budget]:
        obj = {'kind': 'correspondence', 'correspondence': 'corr:%s/%s' % (ctx.pid, gname), 'case': ln,
               'build': dict(zip(('rfc20', 'f5322', 'uscore', 'extra', 'san'), lib.cfg)),
               'implementation': a, 'model': b, 'projected_implementation': pa, 'projected_model': pb}
        if describe:
            obj['explanation'] = describe(ln, a, b)
        ctx.rep.violation(obj, found_input=True)
    return mism

def finish(ctx, rule, level='proof', extra_trusted=(), assumptions=(), extra_cov=None):
    if not ctx.proof_ok and not ctx.rep.violations:
        proof_failure_violation(ctx)
    return ctx.rep.finish(level=level, rule=rule, trusted=vlib.TRUSTED_COMMON + list(extra_trusted),
                          assumptions=list(assumptions),
                          checker_cmd='cd coq && make -k Properties_%s.vo && coqc -R . Eav Properties_%s.v   (Print Assumptions under every theorem)' % (ctx.pid, ctx.pid),
                          extra_cov=extra_cov)

def dec(x):
    return x == '0'

# ------------------------------------------------------------------ C02
def check_C02(ctx):
    step_proof(ctx)
    def project(ln, o):
        f = o.split(' ')
        return tuple(dec(x) for x in f[:3]) if len(f) >= 3 else o
    def describe(ln, a, b):
        return ('decision of is_822_local/is_5321_local/is_5322_local (0 = accept) differs from the model, which theorem '
                'C02_local_part_grammar proves equal to the grammar word *("." word): implementation rc %s, grammar %s' % (a, b))
    n = 6 if ctx.thorough() else 5
    corr(ctx, 'G-class(len<=%d)' % n, gens.local_class(n), project, exhaustive=True, describe=describe,
         note='all strings over 17 class representatives')
    corr(ctx, 'G-sweep', gens.local_sweep(), project, exhaustive=True, describe=describe,
         note='every byte 0x01-0xff at and around the hole of every scanner-state context')
    corr(ctx, 'G-rest', gens.local_rest(), project, exhaustive=True, describe=describe,
         note='end pointer inside a longer string (rest = @d, SP, HT, LF, dot)')
    corr(ctx, 'G-random-long', gens.local_random(ctx.rnd, 40000 if not ctx.thorough() else 400000), project, describe=describe)
    return finish(ctx, rule='L cases: is_{822,5321,5322,6531}_local on (s, rest); projection = accept/reject of the three ASCII scanners; '
                  'non-trivial = not rejected as empty; distinct by case line')


# ------------------------------------------------------------------ C04
def check_C04(ctx):
    step_proof(ctx)
    dproj = lambda ln, o: dec(o.split(' ')[0])
    def describe(ln, a, b):
        return ('accept/reject of the host-name domain differs from the model, which theorem C04_ascii_domain proves equal to '
                'HostnameSpec (LDH labels 1-63, total <= 253 without root dot, not all-numeric): implementation %s, specification %s' % (a, b))
    nontriv = lambda ln, o: not o.startswith('-16')
    n = 8 if ctx.thorough() else 6
    doms = gens.dom_class(n)
    corr(ctx, 'G-class(len<=%d)' % n, gens.dom_lines(doms), dproj, exhaustive=True, describe=describe, nontrivial=nontriv,
         note='all strings over {a,1,-,.,_,!,0xC3,A}')
    bnd = gens.dom_boundary()
    corr(ctx, 'G-boundary', gens.dom_lines(bnd), dproj, exhaustive=True, describe=describe, nontrivial=nontriv,
         note='label lengths 0-70 in first/middle/last position, total lengths 236-261 with and without root dot')
    corr(ctx, 'G-sweep', gens.dom_lines(gens.dom_sweep()), dproj, exhaustive=True, describe=describe, nontrivial=nontriv)
    corr(ctx, 'G-rest', gens.dom_lines(gens.dom_class(4), rests=(b'x', b'.', b'-')), dproj, exhaustive=True, describe=describe, nontrivial=nontriv,
         note='end pointer inside a longer string')
    rnd = gens.dom_random(ctx.rnd, 30000 if not ctx.thorough() else 300000)
    corr(ctx, 'G-random', gens.dom_lines(rnd), dproj, describe=describe, nontrivial=nontriv)
    # underscore build
    lu = ctx.snap.lib(uscore=True)
    corr(ctx, 'uscore-build:G-class(len<=%d)' % (n - 1), gens.dom_lines(gens.dom_class(n - 1)), dproj, lib=lu, exhaustive=True, describe=describe, nontrivial=nontriv)
    corr(ctx, 'uscore-build:G-boundary', gens.dom_lines(gens.dom_boundary(chars=(b'_', b'x', b'-'))), dproj, lib=lu, exhaustive=True, describe=describe, nontrivial=nontriv)
    # the same domains through is_utf8_domain (real libidn2 as oracle) and through the four composers, TLD checking off
    sample = bnd + gens.dom_class(4) + rnd[:5000]
    orc = vlib.idn_oracle(sample)
    uproj = lambda ln, o: (int(o.split(' ')[0]) >= 0) if o and o[0] in '-0123456789' else o
    corr(ctx, 'is_utf8_domain(tld off)', gens.u_lines(sample, orc, tlds=(0,)), uproj, describe=describe, nontrivial=nontriv)
    eproj = lambda ln, o: dec(o.split(' ')[0])
    corr(ctx, 'email(tld off)', gens.e_lines([b'x@' + d for d in sample if b'@' not in d], orc, tlds=(0,)), eproj, describe=describe,
         nontrivial=lambda ln, o: not o.startswith(('-16', '-3 ')))
    return finish(ctx, rule='D cases: is_ascii_domain on (s, rest); U cases: is_utf8_domain with libidn2 2.3.3 as oracle; E cases: x@domain in four modes, '
                  'tld_check off; default and LABELS_ALLOW_UNDERSCORE builds; projection = accept/reject; non-trivial = not rejected as empty',
                  extra_trusted=['libidn2 2.3.3 as IDN oracle (its answers are inputs of the model)'])

CHECKS = {'C02': check_C02, 'C04': check_C04}

def main():
    if len(sys.argv) >= 3 and sys.argv[1] == 'replay':
        return replay(sys.argv[2])
    pid = sys.argv[1]
    tier = os.environ.get('VERIF_TIER', 'quick')
    if '--tier' in sys.argv:
        tier = sys.argv[sys.argv.index('--tier') + 1]
    seed = int(os.environ.get('VERIF_SEED', '1'))
    ctx = Ctx(pid, tier, seed)
    if pid not in CHECKS:
        print('unknown property', pid); return 2
    if not step_build(ctx):
        return finish(ctx, rule='build failed')
    try:
        return CHECKS[pid](ctx)
    except vlib.BuildError as e:
        ctx.rep.violation({'kind': 'build-failure', 'detail': str(e)[-3000:]}, found_input=False)
        return finish(ctx, rule='build failed')

def replay(path):
    obj = json.load(open(path))
    print(json.dumps(obj, indent=1))
    if obj.get('kind') == 'correspondence':
        snap, _ = gen.gen_all()
        b = obj.get('build', {})
        lib = snap.lib(**{k: v for k, v in b.items() if v})
        c, m = vlib.run_both(lib, snap, [obj['case']])
        print('implementation now:', c[0]); print('model now         :', m[0])
        return 0 if c[0] == m[0] else 1
    return 0

if __name__ == '__main__':
    sys.exit(main())
