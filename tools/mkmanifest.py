#!/usr/bin/env python3
"""mkmanifest.py - writes /verif/MANIFEST.json from the table below and from what tools/vcheck.py implements."""
import json, os, sys, re
sys.path.insert(0, os.path.dirname(os.path.abspath(__file__)))
V = os.path.dirname(os.path.dirname(os.path.abspath(__file__)))

src = open(os.path.join(V, 'tools', 'vcheck.py')).read()
implemented = sorted(set(re.findall(r"'(C\d\d)': check_", src)))

COMMON_NOTE = ('Trusted: Coq 8.16.1 kernel + vm_compute (no native_compute); no axioms (Print Assumptions under every property theorem is '
               'read back on every run and must say "Closed under the global context"); extraction with ExtrOcamlBasic only; '
               'translator tools/gen.py + harness/dump_tables.c; correspondence harness harness/drv.c, harness/model_drv.ml, tools/vlib.py. '
               'The C code is modelled, not verified: the tie is the differential correspondence run on every check plus regeneration of '
               'coq/Gen/*.v from the library built from /repo. ')

P = {
 'C01': ('proof', 'Theorems: the e-mail model accepts exactly L@D with D free of @, 1-64 octet L valid for the mode and D valid (C01_decision), '
         'the always-rejected forms with their codes, composition = the per-part models, mode wiring of the facade. Correspondence: whole addresses over a '
         'structural alphabet, 64/65 boundary in every word shape with several @, four modes, tld off/on, three routes (eav_is_email, is_*_email, per-part validators).',
         'Coq proof of the model + differential correspondence', '6/C01'),
 'C02': ('proof', 'Theorem C02_local_part_grammar: for every NUL-free string and every byte following the end pointer, each of the three ASCII scanners '
         'accepts iff the string is word *("." word) with the quoted-content rules of its RFC (induction over all strings). Correspondence ties the '
         'three C scanners to the model: all strings up to length 5 (6 thorough) over 17 class representatives, every byte value in every scanner state, end pointer inside longer strings, random long inputs.',
         'Coq proof (scanner <-> grammar) + differential correspondence', '6/C02'),
 'C03': ('proof', 'Theorems: the decoder model accepts exactly RFC 3629 well-formed UTF-8 (256^2 / 16x256^2 sweeps by vm_compute lifted to all bytes, arithmetic for 4-byte); '
         'the 6531 scanner accepts iff the byte string is well-formed UTF-8 whose scalar sequence satisfies the 5321 grammar with non-ASCII scalars as atext/qtext; '
         'agreement with mode 5321 on ASCII; the value delivered for a character is its RFC 3629 scalar value. Correspondence: exhaustive 1-2 byte, boundary 3-4 byte sequences in atom/quoted/escaped position, class strings with multi-byte symbols, '
         'token sequences with complete and broken foldings, the decoder alone (scalar values, end/error, offsets).',
         'Coq proof (decoder = RFC 3629 table; scanner <-> grammar) + differential correspondence', '6/C03'),
 'C04': ('proof', 'Theorem C04_ascii_domain: is_ascii_domain model accepts iff HostnameSpec (labels 1-63 LDH, no edge hyphen, <= 253 without the single optional root dot, not all digits/dots), '
         'for both settings of LABELS_ALLOW_UNDERSCORE; C04_utf8_domain: what mode 6531 accepts has an A-label form meeting the same spec. Correspondence: all strings <= 6 (8) over 8 classes, '
         'every label length 0-70 in each position with each character class first/last/interior, total lengths 236-261 +- root dot, byte sweep, default and underscore builds, is_utf8_domain and the four composers.',
         'Coq proof (scanner invariant <-> specification) + differential correspondence', '6/C04'),
}

P.update({
 'C07': ('proof', 'Theorems over the table dumped from the built library on every run: every length field is strlen+1, names lower-case A-labels, classes 1..9, no duplicate (vm_compute over all rows); '
         'C07_lookup_whole_label: lookup = the row ci-EQUAL to the whole label, else invalid TLD (no prefix/suffix can match); C07_email_classification: reserved -> special, single label -> not FQDN, '
         'else class of the text after the last dot; U-label and A-label go through the same A-label. Correspondence: every row in 4 case patterns, every proper prefix, extensions, substitutions, neighbours, '
         'e-mail level in 4 modes, all IDN rows of raw.csv in both spellings; time-boxed exhaustive sweep of is_tld over all short labels (every length <= 4 in the quick tier).', 'Coq proof over the regenerated table + differential correspondence', '6/C07'),
 'C08': ('proof', 'Theorems for an arbitrary integer mask: class k accepted iff Z.testbit mask (k+1); own bit only; negative codes and literals outside the policy; tld_check off makes table and mask irrelevant; '
         'eav_init defaults equal the values dumped from the built library. Correspondence is exhaustive over the finite policy space (2^11 masks x codes -35..9 x 4 modes x tld on/off via a stub callback) '
         'plus real addresses of every class through the facade.', 'Coq proof + exhaustive differential correspondence', '6/C08'),
 'C09': ('proof', 'Theorem C09_reserved_exactly: for every domain without root dot is_special_domain model = true iff last label in {test,example,invalid,localhost,onion} or last two labels example.{com,net,org}, '
         'case-insensitively on whole labels, whatever precedes. Correspondence: 0-3 labels of every length before each reserved suffix and its one-edit neighbours, 4 modes.', 'Coq proof + differential correspondence', '6/C09'),
 'C11': ('proof', 'Theorems decided by vm_compute over data regenerated on every run: map gen_row punycode.csv = tld_list of the built library (row for row), no duplicates, lower-case A-labels, nothing outside the CSV is found, '
         'tld-domains.txt = generator output on raw.csv, header enum order. The two Perl generators are run unmodified (Text::CSV stand-in) on the shipped and on generated CSVs and compared with the generator model and the shipped files; every row is looked up in the built library.',
         'Coq proof by computation over regenerated tables + translation validation of the generators', '6/C11'),
 'C12': ('proof', 'Theorems: the four scanners return the same code on plain ASCII without DQUOTE/backslash; the three ASCII composers return the same record on such addresses; 5321 accepted implies 822 accepted; '
         'domain verdict/class/flags independent of the ASCII mode. The relations are also evaluated directly on implementation outputs (bounded-exhaustive alphabets, whole addresses, four modes).', 'Coq proof + relational differential testing', '6/C12'),
 'C13': ('proof', 'Theorems by induction over operation lists: any two objects agreeing on (confirmed mode, tld_check, allow_tld) give the same observable outcome; these settings are a function of the operations since eav_init; '
         'errstr stable under later successful setup; allocation balance and release by eav_free. Correspondence: all operation sequences up to length 3 (4) over 13 operations, random histories up to 40 (200) operations, reused-vs-fresh relation on the implementation.',
         'Coq proof (invariant over histories) + differential correspondence', '6/C13'),
 'C15': ('proof', 'Theorems: return 1 iff errcode 0; errcode = negated validator code, message = table entry or IDN message; message table of the built library = documented texts; source of every result code; '
         'local-part codes only from the local-part scanner or length > 64; "too many dots" implies "..", "non-ascii" implies a byte >= 0x80, "invalid TLD" implies no row; setup codes. Truth predicates also evaluated on implementation outputs.',
         'Coq proof + differential correspondence on (ret, errcode, message)', '6/C15'),
 'C16': ('proof', 'Theorem C16_result_shapes: every result is (negative code, no flag, no strings) or (host name: only is_domain, halves reproduced) or (literal: code 0, flag of the family that parsed, domain without brackets); '
         'at most one flag; code 0 without TLD checking, class 1..9 or negative with it. Correspondence in the default and -DEAV_EXTRA builds with lpart/domain compared byte for byte.', 'Coq proof + differential correspondence', '6/C16'),
 'C19': ('proof', 'Theorems with the IDN conversion universally quantified: any error code with or without output buffer gives rc = IDN error, idn_rc = the code, no flag, message = the library message for that code, '
         'allocation balance kept, next call unaffected. Fault injection: every libidn2 code x buffer yes/no at every position of runs of 1-50 validations, allocation counters, ASan/LSan build.', 'Coq proof + fault-injection correspondence', '6/C19'),
})

P.update({
 'C05': ('proof', 'Theorems for every byte string: accepted bracketed domain = "[" c "]" with c four decimal octets 0-255 (family IPv4) or an RFC 4291 IPv6 text form, tagged IPv6: or untagged (family IPv6), nothing else '
         '(C05_accepted_literals, from the parser invariants C05_ipv4_parser_upper / C05_ipv6_parser_upper); every dotted quad with non-zero first octet and every IPv6:-tagged literal of the RFC 5321 4.1.3 grammar is accepted '
         'in every mode with the right flag (C05_*_literals_accepted). Correspondence + an independent reading of the grammars evaluated on implementation outputs: octet values 0-300 in every position, every IPv6 shape, tags, junk around brackets.',
         'Coq proof (parser invariants, both inclusions) + differential correspondence', '6/C05'),
 'C06': ('proof', 'PARTIAL. Proved on the model: abort() unreachable with the shipped table, no NULL callback after a successful setup, allocation balance, eav_init writes every field (regenerated), one-byte look-ahead discipline of the scanners, '
         'label-buffer bound; and index-level access models of all seven scanners (ASCII local parts, UTF-8 decoder + 6531 scanner, host name, IPv4, IPv6, is_ipaddr), of is_special_domain, is_tld and of the three ASCII e-mail composers with their macros (libc string functions as byte-by-byte scans) written with the C index arithmetic over a bounds-checked buffer: for every input they return the functional model\'s result, '
         'hence never read before the first byte or after the terminator, never use a NULL strchr result, never overflow label[64] and never exceed their loop bounds; the highest index each real scanner call reads is measured with a moving guard page and must not exceed the access model\'s. Runtime half on the real code: ASan+UBSan+LSan with inputs in exact-size heap blocks, PROT_NONE guard pages after the terminator / before the first byte on the default build, valgrind memcheck with eav_t on uninitialised memory, '
         'callgrind instruction counts at n/2n/4n, cbmc on the C sources for every string up to a small bound (supporting run). The model cannot exhibit compiler-level UB, allocator or libc/libidn2 internals; those are covered only as far as the sanitizers see them.',
         'Coq proof of the safety logic and of index-level access models (refinement to the functional model) + measured read extents, sanitizer / guard-page / valgrind runs', '6/C06'),
 'C10': ('proof', 'Theorems relative to the IDN conversion (a parameter; each needed fact is an explicit hypothesis checked against libidn2 on every generated conversion): U-label and A-label give identical results; the ASCII modes give the A-label the same verdict; '
         'the verdict of the ASCII machinery is invariant under case folding, hence all-ASCII domains get the ASCII-mode verdict or an IDN error; refusals are rejections. Correspondence and the relations on implementation outputs: labels from 8 scripts with hyphen/disallowed/xn-- mutations, long U-labels with short A-labels, every IDN TLD.',
         'Coq proof relative to an oracle + differential / relational testing against libidn2', '6/C10'),
 'C14': ('proof', 'PARTIAL. Theorems: the library has no writable static storage (inventory regenerated from the built libeav.a), and in the model any interleaving gives each thread the outcomes of running alone. '
         'Runtime half: ThreadSanitizer build, 2-16 threads with own eav_t over all modes, ASCII and IDN domains, seeded yields, per-thread outcomes compared with a sequential pass, plus cold starts (no library call before the threads are released together). Races inside libidn2/glibc and weak-memory effects are outside the model.',
         'Coq proof (frame property of the model, static-storage inventory) + ThreadSanitizer harness', '6/C14'),
 'C17': ('proof', 'Theorems: RFC20 option rejects exactly the default-accepted local parts with #^`{|}~ outside quotes; underscore option = default build on the name with _ read as a letter (same code); follow-5322 = mode 5322 on ASCII (same code); '
         'ASCII modes see only the underscore option, mode 6531 only the three options. The library is built with the repository Makefile in 5 (8) configurations, each compared with the model under that configuration, and the relations to the default build are evaluated on implementation outputs.',
         'Coq proof (lock-step simulations) + differential correspondence over build configurations', '6/C17'),
 'C18': ('proof', 'Theorems: the back end enters the facade only through the conversion function (equal conversions => equal histories); idnkit context invariant and release exactly once over all legal histories. '
         'partial/idn and partial/idnkit are built with the repository Makefile against stub headers + an adapter onto libidn2 (the real libraries are absent); the three builds run the same E/U/A cases against one model and against each other, with context accounting.',
         'Coq proof + differential correspondence of three builds via an adapter', '6/C18'),
 'C20': ('proof', 'Theorems on the tool model: one verdict per non-comment line, in order, equal to the library decision on the trimmed line; output shape; well-formed UTF-8 without controls echoed unchanged. '
         'Runtime: bin/eav built from /repo/bin with ASan+UBSan+LSan on generated files (all line shapes x terminators x final newline); stdout compared byte for byte with model trimming/sanitising + the library decision and message; exit status 0.',
         'Coq proof of the tool model + byte-exact comparison with the ASan-built tool', '6/C20'),
})

def entry(pid):
    cat, text, tech, ref = P[pid]
    return {
        'property_id': pid,
        'quick_cmd': 'python3 tools/vcheck.py %s --tier quick' % pid,
        'thorough_cmd': 'python3 tools/vcheck.py %s --tier thorough' % pid,
        'evidence_file': 'evidence/%s.json' % pid,
        'replay_cmd_template': 'python3 tools/vcheck.py replay {path}',
        'engine': 'coq+corr',
        'level_claimed': {'category': cat, 'text': text, 'design_ref': 'DESIGN.md section ' + ref},
        'level_note': COMMON_NOTE,
        'technique': tech,
    }

props = [json.loads(l)['id'] for l in open(os.path.join(V, 'properties.jsonl'))]
checks = [entry(p) for p in props if p in implemented and p in P]
na = [{'property_id': p, 'reason': 'check not built yet (work in progress; the design in DESIGN.md section 6 applies and nothing prevents the technique)'}
      for p in props if not (p in implemented and p in P)]
man = {
 'version': 1,
 'setup_cmd': 'bash tools/setup.sh',
 'hooks': {'guard': 'LIBEAV_VERIF',
           'enable': 'checks build a scratch copy of /repo with make CFLAGS="... -DLIBEAV_VERIF"; no source hook is needed: malloc/free/strndup and idn2_to_ascii_8z are interposed at link time with -Wl,--wrap, tables are exported symbols',
           'baseline_off_cmd': 'bash tools/repo_test.sh /repo',
           'source_commits': [], 'add_only': True},
 'engines': [{'name': 'coq+corr', 'path': 'tools/vcheck.py', 'serves_properties': [c['property_id'] for c in checks],
              'kind_free_text': 'Coq 8.16.1 development under coq/ (model, specifications, proofs; Properties_Cxx.v hold the property theorems) + extracted OCaml model vs the C library on generated cases'}],
 'checks': checks,
 'not_applicable': na,
 'notes': 'Defects found and repaired in /repo as fix: commits are listed in known-findings.txt. Seeded changes used to validate the checks are under seeded/.',
}
with open(os.path.join(V, 'MANIFEST.json'), 'w') as fh:
    json.dump(man, fh, indent=1)
    fh.write('\n')
print('MANIFEST.json: %d checks, %d not yet claimed' % (len(checks), len(na)))
