"""vlib.py - shared machinery of the libeav checks: scratch builds of /repo's working tree,
regeneration of coq/Gen/*.v, the Coq build, the two drivers, comparison, evidence."""
import os, sys, subprocess, tempfile, shutil, json, time, hashlib, fcntl, random, re, atexit
from concurrent.futures import ThreadPoolExecutor

VERIF = os.path.dirname(os.path.dirname(os.path.abspath(__file__)))
REPO = os.environ.get('VERIF_REPO', '/repo')
COQ = os.path.join(VERIF, 'coq')
BUILD = os.path.join(VERIF, 'build')
HARN = os.path.join(VERIF, 'harness')
NCPU = min(16, os.cpu_count() or 4)
os.environ['LC_ALL'] = 'C'
GUARD = 'LIBEAV_VERIF'

_scratch = []
def scratch_dir(prefix='vchk.'):
    base = '/dev/shm' if os.path.isdir('/dev/shm') and os.access('/dev/shm', os.W_OK) else None
    d = tempfile.mkdtemp(prefix=prefix, dir=base)
    _scratch.append(d)
    return d
def _cleanup():
    for d in _scratch:
        shutil.rmtree(d, ignore_errors=True)
atexit.register(_cleanup)

def sh(cmd, cwd=None, timeout=1800, env=None, inp=None):
    e = dict(os.environ); e.update(env or {})
    p = subprocess.run(cmd, shell=isinstance(cmd, str), cwd=cwd, timeout=timeout, env=e,
                       input=inp, stdout=subprocess.PIPE, stderr=subprocess.STDOUT)
    return p.returncode, p.stdout.decode('utf-8', 'replace')

# ---------------------------------------------------------------- scratch build of the library
class BuildError(Exception):
    pass

OPTS = ('RFC6531_FOLLOW_RFC20', 'RFC6531_FOLLOW_RFC5322', 'LABELS_ALLOW_UNDERSCORE')

class Lib:
    """One configuration of the library, built from a snapshot of /repo's working tree."""
    def __init__(self, snap, rfc20=False, f5322=False, uscore=False, extra=False, san=False, backend='idn2', via_env=False):
        self.cfg = (rfc20, f5322, uscore, extra, san)
        self.rfc20, self.f5322, self.uscore, self.extra, self.san = self.cfg
        self.backend = backend
        name = 'b_%d%d%d%d%d' % tuple(int(x) for x in self.cfg) + ('' if backend == 'idn2' else '_' + backend) + ('_env' if via_env else '')
        self.dir = os.path.join(snap.root, name)
        shutil.copytree(snap.src, self.dir, symlinks=True)
        stubs = os.path.join(HARN, 'stubs')
        mk = ['make', '-j%d' % NCPU, 'static', 'FORCE_IDN=' + backend,
              'RFC6531_FOLLOW_RFC20=' + ('ON' if rfc20 else 'OFF'),
              'RFC6531_FOLLOW_RFC5322=' + ('ON' if f5322 else 'OFF'),
              'LABELS_ALLOW_UNDERSCORE=' + ('ON' if uscore else 'OFF')]
        cflags = '-O2 -Wall -Wextra -std=c99 -pedantic -D%s' % GUARD
        self.drv_flags = ['-O1']
        if extra:
            cflags += ' -DEAV_EXTRA'; self.drv_flags.append('-DEAV_EXTRA')
        if san:
            cflags = cflags.replace('-O2', '-O1 -g') + ' -fsanitize=address,undefined -fno-sanitize-recover=all -fno-omit-frame-pointer'
            self.drv_flags += ['-g', '-fsanitize=address,undefined', '-fno-sanitize-recover=all']
        self.backend_flags = []
        if backend == 'idn':
            mk += ['DEFS=-DHAVE_LIBIDN -I' + stubs, 'LIBS=']; self.backend_flags = ['-DHAVE_LIBIDN', '-DIDN2_SKIP_LIBIDN_COMPAT', '-I' + stubs, os.path.join(HARN, 'adapter.c')]
        elif backend == 'idnkit':
            mk += ['DEFS=-DHAVE_IDNKIT -I' + stubs, 'LIBS=']; self.backend_flags = ['-DHAVE_IDNKIT', '-DIDN2_SKIP_LIBIDN_COMPAT', '-I' + stubs, os.path.join(HARN, 'adapter.c')]
        mk.append('CFLAGS=' + cflags)
        benv = None
        if via_env:
            # the README's other way of choosing the options: exported variables; an option that is off is not mentioned at all
            opts = [a for a in mk if a.startswith(('RFC6531_FOLLOW_RFC20=', 'RFC6531_FOLLOW_RFC5322=', 'LABELS_ALLOW_UNDERSCORE='))]
            mk = [a for a in mk if a not in opts]
            benv = dict(os.environ); benv.update(dict(a.split('=', 1) for a in opts if a.endswith('=ON')))
        rc, out = sh(mk, cwd=self.dir, timeout=600, env=benv)
        if rc != 0 or not os.path.exists(os.path.join(self.dir, 'libeav.a')):
            raise BuildError('library build failed (%s):\n%s' % (name, out[-3000:]))
        self._drv = None
    def compile(self, src, out, wrap=True, extra_flags=()):
        cmd = ['gcc', '-std=gnu99', '-D_GNU_SOURCE'] + self.drv_flags + list(extra_flags) + \
              ['-I' + os.path.join(self.dir, 'include'), '-I' + self.dir, src] + self.backend_flags + [os.path.join(self.dir, 'libeav.a'), '-lidn2', '-o', out]
        if wrap:
            cmd.append('-Wl,--wrap=idn2_to_ascii_8z,--wrap=malloc,--wrap=free,--wrap=strndup')
        rc, o = sh(cmd, timeout=300)
        if rc != 0:
            raise BuildError('compiling %s against the library failed:\n%s' % (src, o[-3000:]))
        return out
    def drv(self):
        if self._drv is None:
            try:
                self._drv = self.compile(os.path.join(HARN, 'drv.c'), os.path.join(self.dir, 'drv.bin'))
            except BuildError:
                # the decoder's internal interface (src/utf8_decode.h) is the one part of the driver that no public header fixes: without it
                # the W cases answer n/a and the decoder is tied through is_6531_local only
                self._drv = self.compile(os.path.join(HARN, 'drv.c'), os.path.join(self.dir, 'drv.bin'), extra_flags=['-DNO_DECODER'])
        return self._drv
    def cli(self):
        """bin/eav built from the snapshot's bin/ sources against this configuration's libeav.a."""
        out = os.path.join(self.dir, 'eav.bin')
        if not os.path.exists(out):
            cmd = ['gcc', '-std=c99', '-D_DEFAULT_SOURCE', '-D_XOPEN_SOURCE=700', '-D_SVID_SOURCE', '-D__EXTENSIONS__', '-DHAVE_LIBIDN2'] + self.drv_flags + \
                  ['-I' + os.path.join(self.dir, 'include'), os.path.join(self.dir, 'bin', 'main.c'), os.path.join(self.dir, 'bin', 'utf8_decode.c'),
                   os.path.join(self.dir, 'libeav.a'), '-lidn2', '-o', out]
            rc, o = sh(cmd, timeout=300)
            if rc != 0:
                raise BuildError('building bin/eav failed:\n' + o[-3000:])
        return out
    def model_args(self):
        return [str(int(self.rfc20)), str(int(self.f5322)), str(int(self.uscore)), str(int(self.extra))] + (['kit'] if self.backend == 'idnkit' else [])

class Snapshot:
    def __init__(self):
        self.root = scratch_dir()
        self.src = os.path.join(self.root, 'src')
        rc, out = sh(['rsync', '-a', '--exclude', '.git', '--exclude', '*.o', '--exclude', '*.a', '--exclude', '*.so',
                      '--exclude', '*.bin', '--exclude', 'bin/eav', REPO + '/', self.src + '/'])
        if rc != 0:
            raise BuildError('snapshot of %s failed: %s' % (REPO, out))
        self.libs = {}
        self.tables = None
    def lib(self, **kw):
        kw = {k: v for k, v in kw.items() if v and not (k == 'backend' and v == 'idn2')}
        key = tuple(sorted(kw.items()))
        if key not in self.libs:
            self.libs[key] = Lib(self, **kw)
        return self.libs[key]
    def dump(self):
        """Run dump_tables against the default build; parse."""
        if self.tables is None:
            L = self.lib()
            exe = L.compile(os.path.join(HARN, 'dump_tables.c'), os.path.join(L.dir, 'dump.bin'), wrap=False)
            rc, out = sh([exe])
            if rc != 0:
                raise BuildError('dump_tables failed: ' + out[-2000:])
            t = {'tld': [], 'enum': {}, 'msg': {}, 'init': {}}
            for ln in out.splitlines():
                f = ln.split(' ')
                if f[0] == 'tld': t['tld'].append((f[1], int(f[2]), int(f[3])))
                elif f[0] == 'enum': t['enum'][f[1]] = int(f[2])
                elif f[0] == 'msg': t['msg'][int(f[1])] = bytes.fromhex(f[2]).decode('latin-1') if len(f) > 2 else ''
                elif f[0] == 'init': t['init'][f[1]] = (int(f[2]), int(f[3]))
            self.tables = t
            self.table_file = os.path.join(self.root, 'tld_table.txt')
            with open(self.table_file, 'w') as fh:
                for n, l, ty in t['tld']:
                    fh.write('%s %d %d\n' % (n, l, ty))
        return self.tables

# ---------------------------------------------------------------- Coq side
class CoqLock:
    def __enter__(self):
        os.makedirs(BUILD, exist_ok=True)
        self.fh = open(os.path.join(BUILD, '.coq.lock'), 'w')
        fcntl.flock(self.fh, fcntl.LOCK_EX)
        return self
    def __exit__(self, *a):
        fcntl.flock(self.fh, fcntl.LOCK_UN); self.fh.close()

def write_if_changed(path, content):
    old = None
    if os.path.exists(path):
        old = open(path).read()
    if old != content:
        os.makedirs(os.path.dirname(path), exist_ok=True)
        with open(path, 'w') as fh:
            fh.write(content)
        return True
    return False

FORBIDDEN = re.compile(r'\b(Admitted|admit|Axiom|Axioms|Parameter|Parameters|Conjecture|Hypothesis|Hypotheses|Variables?)\b|Unset\s+Guard|bypass_check|Admit Obligations|type-in-type|impredicative-set')

def scan_sources():
    """No axiom-declaring command anywhere (Variable/Hypothesis are allowed inside a Section only)."""
    bad = []
    for root, _, files in os.walk(COQ):
        for f in files:
            if not f.endswith('.v'):
                continue
            depth = 0
            p = os.path.join(root, f)
            txt = re.sub(r'\(\*.*?\*\)', '', open(p).read(), flags=re.S)
            for i, ln in enumerate(txt.splitlines(), 1):
                if re.match(r'\s*Section\b', ln): depth += 1
                if re.match(r'\s*End\b', ln) and depth > 0: depth -= 1
                for m in FORBIDDEN.finditer(ln):
                    w = m.group(0)
                    if w.startswith(('Variable', 'Hypothes')) and depth > 0:
                        continue
                    bad.append('%s:%d: %s' % (os.path.relpath(p, VERIF), i, w))
    return bad

def coq_make(targets=(), timeout=3000):
    """Full .vo build of the listed targets (all when empty) under the lock."""
    with CoqLock():
        if not os.path.exists(os.path.join(COQ, 'Makefile')):
            sh('coq_makefile -f _CoqProject -o Makefile', cwd=COQ)
        return sh(['make', '-k', '-j%d' % NCPU] + list(targets), cwd=COQ, timeout=timeout)

def check_properties_file(pid, timeout=1200):
    """Re-compile Properties_<pid>.v and read the Print Assumptions output beneath each theorem.
    Returns (theorems:[name], discharged:[name], axioms:{name:[..]}, log)."""
    fn = 'Properties_%s.v' % pid
    path = os.path.join(COQ, fn)
    src = open(path).read()
    names = re.findall(r'^\s*Theorem\s+(\w+)', src, flags=re.M)
    with CoqLock():
        rc, log = sh(['make', '-k', '-j%d' % NCPU, fn + 'o'], cwd=COQ, timeout=timeout)   # dependencies
        vo = os.path.join(COQ, fn + 'o')
        rc2, out = sh(['coqc', '-R', '.', 'Eav', fn], cwd=COQ, timeout=timeout)
    log = log + '\n' + out
    discharged, axioms = [], {}
    if rc2 == 0:
        # output blocks: "Closed under the global context" or "Axioms:\n name : type ..." in order of Print Assumptions
        blocks = re.split(r'(?m)^(?=Closed under the global context|Axioms:)', out)
        blocks = [b for b in blocks if b.startswith(('Closed under', 'Axioms:'))]
        pa = re.findall(r'Print Assumptions\s+(\w+)', src)
        for nm, b in zip(pa, blocks):
            if b.startswith('Closed under'):
                axioms[nm] = []
            else:
                axioms[nm] = [l.split(':')[0].strip() for l in b.splitlines()[1:] if l and not l.startswith(' ')]
        for nm in names:
            if nm in axioms and all(ax in ALLOWED_AXIOMS for ax in axioms[nm]):
                discharged.append(nm)
    return names, discharged, axioms, log

ALLOWED_AXIOMS = set()   # the development is meant to be closed under the global context

# ---------------------------------------------------------------- drivers
def model_drv():
    exe = os.path.join(BUILD, 'model_drv')
    if not os.path.exists(exe):
        raise BuildError('build/model_drv missing: run MANIFEST.setup_cmd (tools/setup.sh)')
    return exe

def build_model_drv():
    os.makedirs(BUILD, exist_ok=True)
    with CoqLock():
        for f in ('model.ml', 'model.mli'):
            shutil.copy(os.path.join(COQ, f), BUILD)
        shutil.copy(os.path.join(HARN, 'model_drv.ml'), BUILD)
        rc, out = sh('ocamlfind ocamlopt -O3 -unboxed-types -w -a model.mli model.ml model_drv.ml -o model_drv 2>/dev/null || '
                     'ocamlfind ocamlopt -w -a model.mli model.ml model_drv.ml -o model_drv', cwd=BUILD)
        if rc != 0:
            raise BuildError('model driver build failed:\n' + out)
        rc, out = sh(['gcc', '-O1', os.path.join(HARN, 'idnq.c'), '-lidn2', '-o', os.path.join(BUILD, 'idnq')])
        if rc != 0:
            raise BuildError('idnq build failed:\n' + out)

def hx(b):
    if isinstance(b, str):
        b = b.encode('utf-8')
    return b.hex() if b else '-'

def idn_oracle(domains):
    """domains: iterable of bytes -> dict bytes -> (rc, ascii bytes)."""
    ds = sorted(set(domains))
    if not ds:
        return {}
    inp = ('\n'.join(hx(d) for d in ds) + '\n').encode()
    p = subprocess.run([os.path.join(BUILD, 'idnq')], input=inp, stdout=subprocess.PIPE, check=True)
    res = {}
    for d, ln in zip(ds, p.stdout.decode().splitlines()):
        rc, a = ln.split(' ')
        res[d] = (int(rc), b'' if a == '-' else bytes.fromhex(a))
    return res

def _run_shard(args):
    """Run one driver over one shard; a crash ends the process after a CRASH line for the case that
    caused it, so restart on the remaining cases (bounded number of restarts)."""
    cmd, lines, env = args
    outs = []
    restarts = 0
    while len(outs) < len(lines):
        data = ('\n'.join(lines[len(outs):]) + '\n').encode()
        e = dict(os.environ); e.update(env)
        try:
            p = subprocess.run(cmd, input=data, stdout=subprocess.PIPE, stderr=subprocess.PIPE, env=e, timeout=3600)
        except subprocess.TimeoutExpired as te:      # backstop; the driver itself ends a case after DRV_CASE_TIMEOUT seconds
            ls = (te.stdout or b'').decode('utf-8', 'replace').splitlines()
            outs.extend(ls[:len(lines) - len(outs)])
            if len(outs) < len(lines): outs.append('CRASH:timeout(driver did not finish)')
            restarts += 1
            if restarts > 40:
                outs.extend(['CRASH-SKIPPED'] * (len(lines) - len(outs))); break
            continue
        ls = p.stdout.decode('utf-8', 'replace').splitlines()
        need = len(lines) - len(outs)
        if p.returncode == 0 and len(ls) >= need:
            outs.extend(ls[:need]); break
        tail = p.stderr.decode('utf-8', 'replace')[-300:].replace('\n', ' | ')
        if not ls or not ls[-1].startswith('CRASH') and 'CRASH:' not in ls[-1]:
            ls.append('CRASH:rc=%d %s' % (p.returncode, tail))
        elif tail:
            ls[-1] += ' ' + tail
        outs.extend(ls[:need])
        restarts += 1
        if 'sig14' in ls[-1]:
            hangs = sum(1 for o in outs if 'CRASH:sig14' in o)
            if hangs >= 3:      # three cases of this shard did not return: enough to report, do not wait for every other one
                outs.extend(['CRASH-SKIPPED(after three cases that did not return)'] * (len(lines) - len(outs))); break
        if restarts > 40:
            outs.extend(['CRASH-SKIPPED'] * (len(lines) - len(outs))); break
    return outs

def run_both(lib, snap, lines, shards=NCPU, env=None, wrapper=None):
    """Run the C driver and the model driver on the same case lines; returns (c_out, m_out) lists."""
    snap.dump()
    n = len(lines)
    if n == 0:
        return [], []
    k = max(1, min(shards, n // 2000 + 1))
    chunks = [lines[i * n // k:(i + 1) * n // k] for i in range(k)]
    ccmd = [lib.drv()]
    cenv = {'DRV_LINEBUF': '1', 'DRV_CASE_TIMEOUT': '20', 'ASAN_OPTIONS': 'detect_leaks=1:abort_on_error=0:handle_abort=0', 'UBSAN_OPTIONS': 'print_stacktrace=1'} if lib.san else {}
    if env: cenv = dict(cenv, **env)
    if wrapper:
        ccmd = list(wrapper) + ccmd; cenv = dict(cenv, DRV_CASE_TIMEOUT='60')
    mcmd = [model_drv(), snap.table_file] + lib.model_args()
    jobs = [(ccmd, c, cenv) for c in chunks] + [(mcmd, c, {}) for c in chunks]
    with ThreadPoolExecutor(max_workers=NCPU) as ex:
        res = list(ex.map(_run_shard, jobs))
    c_out, m_out = [], []
    for i in range(k):
        c_out.extend(res[i]); m_out.extend(res[k + i])
    return c_out, m_out

# ---------------------------------------------------------------- evidence / reporting
class Report:
    def __init__(self, pid, tier, seed):
        self.pid, self.tier, self.seed = pid, tier, seed
        self.t0 = time.time()
        self.violations = []        # (replay path, tail)
        self.known = []
        self.evals = 0
        self.nontrivial = set()
        self.samples = []
        self.gens = []              # per-generator dicts
        self.obligations = []; self.discharged = []; self.axioms = {}
        self.notes = []
        self.exhaustive = True
    def add_cases(self, gen, lines, outs, nontrivial_pred, exhaustive=False, note=''):
        cnt = 0
        hist = {}
        for ln, o in zip(lines, outs):
            if nontrivial_pred(ln, o):
                h = hashlib.blake2b(ln.encode(), digest_size=8).digest()
                if h not in self.nontrivial:
                    self.nontrivial.add(h); cnt += 1
            key = o.split(' ')[0] if o else ''
            hist[key] = hist.get(key, 0) + 1
        self.evals += len(lines)
        if lines:
            rnd = random.Random(len(lines))
            for i in sorted(rnd.sample(range(len(lines)), min(3, len(lines)))):
                self.samples.append({'generator': gen, 'case': lines[i][:300], 'implementation': outs[i][:200]})
        top = dict(sorted(hist.items(), key=lambda kv: -kv[1])[:40])
        self.gens.append({'generator': gen, 'cases': len(lines), 'new_distinct_nontrivial': cnt,
                          'exhaustive': exhaustive, 'first_field_histogram': top, 'note': note})
        if not exhaustive:
            self.exhaustive = False
    def replay_file(self, obj):
        d = os.path.join(VERIF, 'evidence', 'replay')
        os.makedirs(d, exist_ok=True)
        blob = json.dumps(obj, sort_keys=True, indent=1)
        h = hashlib.sha1(blob.encode()).hexdigest()[:12]
        p = os.path.join(d, '%s-%s.json' % (self.pid, h))
        with open(p, 'w') as fh:
            fh.write(blob + '\n')
        return p
    def violation(self, obj, found_input=True):
        obj = dict(obj); obj['property'] = self.pid; obj['seed'] = self.seed; obj['tier'] = self.tier
        p = self.replay_file(obj)
        self.violations.append((p, '' if found_input else ' no-failing-input-found'))
    def finish(self, level='proof', rule='', trusted=(), assumptions=(), checker_cmd='', extra_cov=None):
        cov = {
            'evaluations': self.evals,
            'distinct_nontrivial': len(self.nontrivial),
            'rule': rule,
            'samples': self.samples[:24] if self.samples else [{'note': 'no correspondence cases in this run'}],
            'exhaustive': bool(self.gens) and self.exhaustive,
            'generators': self.gens,
            'obligations': len(self.obligations),
            'discharged': len(self.discharged),
            'theorems': self.obligations,
            'theorems_discharged': self.discharged,
            'assumptions_reported': self.axioms,
            'checker_cmd': checker_cmd,
            'trusted_base': list(trusted),
            'notes': self.notes,
        }
        if extra_cov:
            cov.update(extra_cov)
        ev = {'property_id': self.pid, 'tier': self.tier, 'seed': self.seed, 'level': level,
              'coverage': cov, 'assumptions': list(assumptions), 'wall_s': round(time.time() - self.t0, 2),
              'violations': len(self.violations)}
        os.makedirs(os.path.join(VERIF, 'evidence'), exist_ok=True)
        with open(os.path.join(VERIF, 'evidence', self.pid + '.json'), 'w') as fh:
            json.dump(ev, fh, indent=1)
            fh.write('\n')
        for k in self.known:
            print('KNOWN-FINDING: property=%s %s' % (self.pid, k))
        seen = set()
        self.violations.sort(key=lambda v: v[1] != '')
        for p, tail in self.violations[:5]:
            if p in seen: continue
            seen.add(p)
            print('VIOLATION property=%s replay=%s%s' % (self.pid, p, tail))
        sys.stdout.flush()
        return 1 if self.violations else 0

TRUSTED_COMMON = [
    'Coq 8.16.1 kernel and vm_compute (no native_compute)',
    'no axioms: every property theorem is reported "Closed under the global context" by Print Assumptions (checked on this run)',
    'extraction: ExtrOcamlBasic directives only (bool, option, unit, list, prod, sumbool, sumor, andb, orb); OCaml 4.13.1; harness/model_drv.ml',
    'translator: harness/dump_tables.c + tools/gen.py (tables, enum values, messages, eav_init defaults dumped from the library built from /repo)',
    'correspondence harness: harness/drv.c with --wrap interposers, tools/vlib.py comparison; gcc 12; glibc ctype/strncasecmp in the C locale',
    'modelled, not verified: the C code itself (tie is behavioural); libidn2 is an oracle whose answers are inputs of the model',
]
