#!/bin/bash
# run_all.sh [tier]  - runs every check registered in MANIFEST.json once, prints exit status and wall time.
cd "$(dirname "$0")/.."
tier=${1:-quick}
for id in $(python3 -c "import json; print(' '.join(c['property_id'] for c in json.load(open('MANIFEST.json'))['checks']))"); do
  s=$(date +%s.%N)
  out=$(python3 tools/vcheck.py $id --tier $tier 2>&1); rc=$?
  e=$(date +%s.%N)
  printf "%s exit=%d %.1fs %s\n" $id $rc $(echo "$e - $s" | bc) "$(echo "$out" | grep -E 'VIOLATION|KNOWN|Traceback|Error' | head -2 | tr '\n' ' ')"
done
