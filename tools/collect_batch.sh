#!/bin/bash
# collect_batch.sh <sid>...  — collect_seed.sh for each id, one summary line per seed: confirmation result, VIOLATION lines of the own check (total / without input)
cd "$(dirname "$0")/.."
for s in "$@"; do
  bash tools/collect_seed.sh $s 2>&1 | grep -v conda | awk -v s=$s '/RESULT/{r=$0} /^VIOLATION/{c++; if ($0 ~ /no-failing/) n++} END{print s, r, "violations", c+0, "nofail", n+0}'
done
