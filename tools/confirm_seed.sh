#!/bin/bash
# confirm_seed.sh <seed-dir containing patch.diff and demo.c|demo.sh>
# Confirms in a scratch copy of /repo HEAD: the patch applies, builds, the test suite output is
# identical to the unpatched tree, the demonstration passes without and fails with the patch.
sd=$(realpath "$1")
S=$(mktemp -d -p /dev/shm seedchk.XXXXXX); trap 'rm -rf "$S"' EXIT
git -C /repo archive HEAD | tar -x -C "$S"
cd "$S"
run_suite() { make clean >/dev/null 2>&1; make -j8 >build.log 2>&1 || { echo BUILD-FAILED; return 1; }; make check >check.log 2>&1; echo "exit=$?"; grep -a -E '^(PASS|FAIL)|pass *=|\.bin' check.log; }
# extra gcc flags / run arguments for the demonstration may be given in $sd/demo.flags / $sd/demo.args
demo() {
  rm -rf _seed; cp -r "$sd" _seed
  if [ -f _seed/demo.c ] && [ ! -f _seed/demo.sh ]; then gcc -Iinclude -I. _seed/demo.c libeav.a -lidn2 -lpthread $(cat _seed/demo.flags 2>/dev/null) -o _seed/demo.bin 2>demo.build || { echo "demo-build-failed"; cat demo.build | head; return 99; }; ./_seed/demo.bin $(cat _seed/demo.args 2>/dev/null) >demo.out 2>&1; return $?
  else sh _seed/demo.sh >demo.out 2>&1; return $?; fi; }
run_suite > base.txt; demo; d0=$?
git init -q . 2>/dev/null; git apply "$sd/patch.diff" || { echo "RESULT patch-does-not-apply"; exit 1; }
run_suite > mut.txt; demo; d1=$?
if cmp -s base.txt mut.txt; then same=identical; else same=DIFFERENT; fi
echo "RESULT suite=$same $(head -1 mut.txt) demo_without=$d0 demo_with=$d1"
tail -3 demo.out
