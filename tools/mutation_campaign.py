#!/usr/bin/env python3
"""mutation_campaign.py [--n N] [--seed S] [--files f1,f2,...] [--out mutants.json]

Validation of the checks by mechanical mutation of /repo's sources (never touches /repo: every mutant is applied to a
scratch copy of HEAD under /dev/shm and the checks are pointed at it with VERIF_REPO).

For every sampled single-site mutant:  build (skip if it does not compile)  ->  the repository's own `make check`
(skip if its PASS/FAIL lines differ from the unmutated tree: the suite already sees it)  ->  the registered checks,
in an order that puts the broad differential ones first, stopping at the first that prints VIOLATION.
Mutants that survive every check are listed for manual triage (equivalent mutant, outside every property, or a miss).
Meant for `vp run --with-repo -- python3 tools/mutation_campaign.py ...`.
"""
import os, re, sys, json, random, shutil, subprocess, tempfile, time

HERE = os.path.dirname(os.path.abspath(__file__))
VERIF = os.path.dirname(HERE)
BASE = os.environ.get('VP_RUN_REPO', '/repo')

FILES = ['src/is_822_local.c', 'src/is_5321_local.c', 'src/is_5322_local.c', 'src/is_6531_local.c', 'src/utf8_decode.c',
         'src/is_ascii_domain.c', 'src/is_ipv4_ipv6.c', 'src/is_special_domain.c', 'src/is_tld.c', 'src/eav.c',
         'src/is_822_email.c', 'src/is_5321_email.c', 'src/is_5322_email.c', 'include/eav/private_email.h',
         'partial/idn2/eav.c', 'partial/idn2/is_utf8_domain.c', 'partial/idn2/is_6531_email.c', 'bin/main.c']
ORDER = ['C15', 'C02', 'C03', 'C04', 'C05', 'C01', 'C09', 'C07', 'C08', 'C16', 'C13', 'C20', 'C12', 'C10', 'C19', 'C17', 'C18', 'C11', 'C06', 'C14']

REL = {'<=': '<', '>=': '>', '<': '<=', '>': '>=', '==': '!=', '!=': '=='}

def strip_comments_mask(src):
    """mask[i] = True where position i is inside a comment, string or char literal, or a preprocessor include line"""
    mask = [False] * len(src)
    i, n = 0, len(src)
    while i < n:
        if src.startswith('/*', i):
            j = src.find('*/', i + 2); j = n if j < 0 else j + 2
            for k in range(i, j): mask[k] = True
            i = j
        elif src.startswith('//', i):
            j = src.find('\n', i); j = n if j < 0 else j
            for k in range(i, j): mask[k] = True
            i = j
        elif src[i] == '"':
            j = i + 1
            while j < n and src[j] != '"':
                j += 2 if src[j] == '\\' else 1
            for k in range(i, min(j + 1, n)): mask[k] = True
            i = j + 1
        elif src[i] == "'":
            j = i + 1
            while j < n and src[j] != "'":
                j += 2 if src[j] == '\\' else 1
            # char literals are mutation sites themselves: leave them unmasked, but skip over them
            i = j + 1
        elif src[i] == '#' and (i == 0 or src[i - 1] == '\n') and re.match(r'#\s*include', src[i:i + 12]):
            j = src.find('\n', i); j = n if j < 0 else j
            for k in range(i, j): mask[k] = True
            i = j
        else:
            i += 1
    return mask

def sites(path, src):
    mask = strip_comments_mask(src)
    out = []
    for m in re.finditer(r'<=|>=|==|!=|(?<![<>\-=])<(?![<=])|(?<![<>\-=])>(?![>=])', src):
        if not mask[m.start()]:
            out.append((m.start(), m.end(), REL[m.group(0)], 'rel'))
    for m in re.finditer(r'&&|\|\|', src):
        if not mask[m.start()]:
            out.append((m.start(), m.end(), '||' if m.group(0) == '&&' else '&&', 'logic'))
    for m in re.finditer(r'(?<![\w.])(\d+)(?![\w.])', src):
        if not mask[m.start()] and not src[max(0, m.start() - 2):m.start()].endswith("'"):
            v = int(m.group(1))
            if src[max(0, m.start() - 1)] == "'":
                continue
            for nv in {v + 1, max(v - 1, 0)} - {v}:
                out.append((m.start(), m.end(), str(nv), 'const'))
    for m in re.finditer(r"'(\\?.)'", src):
        if not mask[m.start()]:
            c = m.group(1)
            rep = {"'.'": "','", "'\"'": "'\\''", "'@'": "'a'", "'\\\\'": "'/'", "'-'": "'_'", "':'": "';'", "'['": "'('", "']'": "')'", "' '": "'\\t'", "'0'": "'1'"}.get(m.group(0))
            if rep:
                out.append((m.start(), m.end(), rep, 'char'))
    for m in re.finditer(r'\bif\s*\(', src):
        if not mask[m.start()]:
            # negate the whole condition: find the matching parenthesis
            depth, j = 0, m.end() - 1
            while j < len(src):
                if src[j] == '(' and not mask[j]: depth += 1
                elif src[j] == ')' and not mask[j]:
                    depth -= 1
                    if depth == 0: break
                j += 1
            if j < len(src):
                out.append((m.end() - 1, j + 1, '(!(' + src[m.end():j] + '))', 'negate'))
    for m in re.finditer(r'\b(\w+)\s*(\+\+|--)\s*;', src):
        if not mask[m.start()]:
            out.append((m.start(2), m.end(2), '--' if m.group(2) == '++' else '++', 'incdec'))
    for m in re.finditer(r'\+ 1\b|- 1\b', src):
        if not mask[m.start()]:
            out.append((m.start(), m.end(), '+ 0', 'off-by-one'))
    for m in re.finditer(r'\bbreak;', src):
        if not mask[m.start()]:
            out.append((m.start(), m.end(), ';', 'drop-break'))
    return [(path,) + s for s in out]

def sh(cmd, cwd=None, timeout=1800, env=None):
    # own process group, so that a mutant that loops for ever is killed together with what it started
    p = subprocess.Popen(cmd, cwd=cwd, stdout=subprocess.PIPE, stderr=subprocess.STDOUT, env=env, shell=isinstance(cmd, str), start_new_session=True)
    try:
        out, _ = p.communicate(timeout=timeout)
        return p.returncode, out.decode('utf-8', 'replace')
    except subprocess.TimeoutExpired:
        import signal
        try: os.killpg(p.pid, signal.SIGKILL)
        except OSError: pass
        p.wait()
        return 124, 'TIMEOUT'

def suite(root):
    sh('make clean', cwd=root)
    rc, out = sh('make -j8', cwd=root, timeout=600)
    if rc != 0:
        return None
    rc, out = sh('make check', cwd=root, timeout=240)
    lines = [l for l in out.splitlines() if re.match(r'^(PASS|FAIL)|pass *=|.*\.bin', l)]
    return 'exit=%d\n' % rc + '\n'.join(lines)

def main():
    args = sys.argv[1:]
    def opt(name, default):
        return args[args.index(name) + 1] if name in args else default
    n = int(opt('--n', '200')); seed = int(opt('--seed', '1')); out_file = opt('--out', os.path.join(VERIF, 'mutants.json')); offset = int(opt('--offset', '0'))
    files = opt('--files', ','.join(FILES)).split(',')
    rnd = random.Random(seed)
    work = tempfile.mkdtemp(prefix='mut.', dir='/dev/shm')
    try:
        base = os.path.join(work, 'base'); os.makedirs(base)
        sh('git -C %s archive HEAD | tar -x -C %s' % (BASE, base))
        all_sites = []
        for f in files:
            p = os.path.join(base, f)
            if os.path.exists(p):
                all_sites += sites(f, open(p, encoding='utf-8', errors='replace').read())
        rnd.shuffle(all_sites)
        print('mutation sites: %d, sampling %d' % (len(all_sites), n), flush=True)
        base_suite = suite(base)
        if not os.path.exists(os.path.join(VERIF, 'build', 'model_drv')):
            sh('bash tools/setup.sh', cwd=VERIF, env=dict(os.environ, VERIF_REPO=BASE))
        results = []
        for k, (f, a, b, rep, kind) in enumerate(all_sites[offset:offset + n], start=offset):
            mroot = os.path.join(work, 'm'); shutil.rmtree(mroot, ignore_errors=True)
            shutil.copytree(base, mroot, symlinks=True)
            src = open(os.path.join(base, f), encoding='utf-8', errors='replace').read()
            line = src.count('\n', 0, a) + 1
            mutated = src[:a] + rep + src[b:]
            open(os.path.join(mroot, f), 'w', encoding='utf-8').write(mutated)
            rec = {'file': f, 'line': line, 'kind': kind, 'from': src[a:b][:60], 'to': rep[:60], 'context': src[src.rfind('\n', 0, a) + 1: src.find('\n', b)].strip()[:160]}
            t0 = time.time()
            s = suite(mroot)
            if s is None:
                rec['status'] = 'does-not-compile'
            elif s != base_suite:
                rec['status'] = 'killed-by-suite'
            else:
                rec['status'] = 'SURVIVED'
                order = (['C18'] + [c for c in ORDER if c != 'C18']) if f.startswith(('partial/idn/', 'partial/idnkit/')) else ORDER
                for c in order:
                    rc, out = sh([sys.executable, os.path.join(HERE, 'vcheck.py'), c], cwd=VERIF, env=dict(os.environ, VERIF_REPO=mroot), timeout=2400)
                    if 'VIOLATION' in out or rc != 0:
                        v = [l for l in out.splitlines() if l.startswith('VIOLATION')]
                        rec['status'] = 'detected'; rec['by'] = c
                        rec['with_input'] = any('no-failing-input-found' not in l for l in v) if v else False
                        if not v: rec['note'] = 'exit %d without VIOLATION line: %s' % (rc, out[-300:])
                        break
            rec['seconds'] = round(time.time() - t0, 1)
            results.append(rec)
            print('%3d %-18s %-28s:%-4d %-10s %s -> %s   [%s]' % (k, rec['status'] + ('/' + rec.get('by', '') if 'by' in rec else ''), f, line, kind, rec['from'], rec['to'], rec['context'][:70]), flush=True)
            json.dump(results, open(out_file, 'w'), indent=1)
        summ = {}
        for r in results: summ[r['status']] = summ.get(r['status'], 0) + 1
        print('SUMMARY', summ, flush=True)
        sh([sys.executable, os.path.join(HERE, 'gen.py')], cwd=VERIF, env=dict(os.environ, VERIF_REPO=BASE))
    finally:
        shutil.rmtree(work, ignore_errors=True)

if __name__ == '__main__':
    main()
