#!/bin/bash
# seed_matrix.sh [seed ids...] - for every seeded change: apply it to a scratch copy of /repo's HEAD and run every
# registered check against that copy (VERIF_REPO); prints one line per (seed, check) and writes seed_matrix.json.
# OWN=1: only the check of the property the seed was written against.
# Meant for `vp run --with-repo`: works in the snapshot's own /verif copy, never touches /repo or /verif.
cd "$(dirname "$0")/.."
export LC_ALL=C
base=${VP_RUN_REPO:-/repo}
[ -x build/model_drv ] || VERIF_REPO=$base bash tools/setup.sh >/dev/null 2>&1
seeds=${@:-$(ls seeded)}
checks=$(python3 -c "import json; print(' '.join(c['property_id'] for c in json.load(open('MANIFEST.json'))['checks']))")
echo "{" > seed_matrix.json
for sd in $seeds; do
  [ -f seeded/$sd/patch.diff ] || continue
  work=$(mktemp -d -p /dev/shm seedrepo.XXXXXX)
  git -C $base archive HEAD | tar -x -C $work
  ( cd $work && git init -q . && git apply $OLDPWD/seeded/$sd/patch.diff ) || { echo "$sd: patch does not apply"; rm -rf $work; continue; }
  det=""
  for c in $( [ -n "$OWN" ] && echo ${sd:0:3} || echo $checks ); do
    out=$(VERIF_REPO=$work timeout 1200 python3 tools/vcheck.py $c 2>&1); rc=$?
    v=$(echo "$out" | grep -c '^VIOLATION')
    nf=$(echo "$out" | grep '^VIOLATION' | grep -c 'no-failing-input-found')
    if [ "$v" -gt 0 ]; then kind=$([ "$nf" -lt "$v" ] && echo input || echo nofail); det="$det \"$c\":\"$kind\","; echo "$sd $c VIOLATION($kind)"; else echo "$sd $c ok(rc=$rc)"; fi
  done
  echo " \"$sd\": {${det%,}}," >> seed_matrix.json
  rm -rf $work
done
echo " \"_\": {}" >> seed_matrix.json; echo "}" >> seed_matrix.json
# leave Gen files as the unmodified tree has them
VERIF_REPO=$base python3 tools/gen.py >/dev/null
cat seed_matrix.json
