#!/bin/bash
# collect_seed.sh <sid>...  — take /tmp/seed_<sid>/_seed into seeded/<sid>, confirm it, run its own property's check, drop the worktree
cd /verif
for sid in "$@"; do
  pid=${sid:0:3}
  mkdir -p seeded/$sid
  cp -r /tmp/seed_$sid/_seed/* seeded/$sid/ 2>/dev/null
  rm -f seeded/$sid/demo seeded/$sid/demo.bin seeded/$sid/*.o
  sed -i "s|/tmp/seed_$sid|\${ROOT:-\$(pwd)}|g" seeded/$sid/demo.sh 2>/dev/null
  echo "== $sid: $(ls seeded/$sid | tr '\n' ' ')"
  bash tools/confirm_seed.sh seeded/$sid 2>&1 | grep RESULT
  bash tools/try_seed.sh $sid $pid 2>&1 | grep -v conda | cut -c1-140 | head -4
  git -C /repo worktree remove --force /tmp/seed_$sid 2>/dev/null
done
git checkout evidence/ 2>/dev/null
