#!/usr/bin/env python3
"""coverage.py - how much of the library's code the correspondence corpora execute (gcov line + branch coverage).
Builds a --coverage copy of /repo's tree in scratch, replays the case generators of all checks through
harness/drv.c, prints per-file coverage and the source lines never executed."""
import os, sys, re, subprocess, random
sys.path.insert(0, os.path.dirname(os.path.abspath(__file__)))
import vlib, gens
from vlib import hx

snap = vlib.Snapshot()
root = os.path.join(snap.root, 'cov')
import shutil; shutil.copytree(snap.src, root, symlinks=True)
cf = '-O0 -g --coverage -std=c99 -DEAV_EXTRA'
rc, out = vlib.sh(['make', '-j16', 'static', 'FORCE_IDN=idn2', 'CFLAGS=' + cf], cwd=root)
assert rc == 0, out[-2000:]
drv = os.path.join(root, 'drv.bin')
rc, out = vlib.sh(['gcc', '-std=gnu99', '-O0', '--coverage', '-DEAV_EXTRA', '-I' + os.path.join(root, 'include'), '-I' + root, os.path.join(vlib.HARN, 'drv.c'),
                   os.path.join(root, 'libeav.a'), '-lidn2', '-o', drv, '-Wl,--wrap=idn2_to_ascii_8z,--wrap=malloc,--wrap=free,--wrap=strndup'])
assert rc == 0, out[-2000:]
rnd = random.Random(1)
addrs = sorted(set(gens.addr_class(4) + gens.addr_class(4, alpha=gens.ADDR_ALPHA_Q) + gens.addr_structured() + gens.addr_boundary() +
                   [b'u@[' + c + b']' for c in gens.ip_contents()] + [b'u@' + d for d in gens.reserved_domains() if b'@' not in d] +
                   [b'u@' + d for d in gens.idn_domains(rnd, 500) if b'@' not in d and 0 not in d]))
orc = vlib.idn_oracle(gens.domains_of(addrs) | gens.domains_of(gens.HIST_POOL))
lines = gens.local_class(4) + gens.local_sweep() + gens.local_rest() + gens.utf8_lines()[::3] + gens.dom_lines(gens.dom_class(5) + gens.dom_boundary() + gens.dom_sweep())
for c in gens.ip_contents():
    for k in '46P':
        lines += ['%s %s %s' % (k, hx(c), hx(b']')), '%s %s -' % (k, hx(c))]
lines += ['S %s' % hx(d) for d in gens.reserved_domains()] + ['T %s' % hx(l) for l in gens.tld_labels(snap.dump()['tld'], rnd)[::5]]
lines += gens.e_lines(addrs, orc) + gens.u_lines(sorted(gens.domains_of(addrs)), orc)
lines += gens.hist_exhaustive(orc, 2) + gens.hist_random(rnd, orc, 1000)
lines += ['J %d %d %d %d' % (m, mk, t, c) for m in range(4) for mk in (0, 760, 2047) for t in (0, 1) for c in range(-35, 10)]
lines += ['E 3 1 %s -304 - %d' % (hx(b'a@b.org'), b) for b in (0, 1)] + ['M %s 0 %s 0' % (hx(b'a@b.org'), hx(b'b.org'))]
p = subprocess.run([drv], input=('\n'.join(lines) + '\n').encode(), stdout=subprocess.PIPE, stderr=subprocess.PIPE, cwd=root)
print('cases replayed:', len(lines), 'driver exit', p.returncode)
tot = [0, 0]
for d in ('src', 'partial/idn2'):
    for f in sorted(os.listdir(os.path.join(root, d))):
        if not f.endswith('.c') or f == 'auto_tld.c': continue
        rc, out = vlib.sh(['gcov', '-b', '-o', d, os.path.join(d, f)], cwd=root)
        g = os.path.join(root, f + '.gcov')
        if not os.path.exists(g): continue
        miss = []; n = k = 0
        for ln in open(g, errors='replace'):
            m = re.match(r'\s*([#\-=0-9*]+):\s*(\d+):(.*)', ln)
            if not m: continue
            cnt, no, txt = m.groups()
            if cnt == '-': continue
            n += 1
            if cnt.startswith(('#', '=')): miss.append((int(no), txt.strip()))
            else: k += 1
        tot[0] += n; tot[1] += k
        br = re.search(r'Taken at least once:([\d.]+)% of (\d+)', out)
        print('%-28s lines %3d/%3d  branches taken %s' % (d + '/' + f, k, n, (br.group(1) + '% of ' + br.group(2)) if br else '-'))
        for no, txt in miss: print('      never executed  %s:%d  %s' % (f, no, txt[:90]))
print('TOTAL lines executed %d/%d (%.1f%%)' % (tot[1], tot[0], 100.0 * tot[1] / max(1, tot[0])))
