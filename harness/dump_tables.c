/* dump_tables.c — prints the data the Coq development is regenerated from, as the *built*
   library has it: tld_list[], enum and macro values, the message table behind eav_errstr,
   the eav_t left by eav_init.  Compiled against /repo's headers, linked with the fresh libeav.a. */
#include <stdio.h>
#include <string.h>
#include <stdlib.h>
#include <idn2.h>
#include <eav.h>
#include <eav/auto_tld.h>
#include <eav/private.h>
#define P(x) printf ("enum " #x " %d\n", (int) (x))
int main (void)
{
    for (const tld_t *t = tld_list; t->domain != NULL; t++) {
        printf ("tld ");
        for (const char *p = t->domain; *p; p++) printf ("%02x", (unsigned char) *p);
        printf (" %zu %d\n", t->length, t->type);
    }
    P(EEAV_NO_ERROR); P(EEAV_INVALID_RFC); P(EEAV_IDN_ERROR); P(EEAV_EMAIL_EMPTY); P(EEAV_LPART_EMPTY);
    P(EEAV_LPART_TOO_LONG); P(EEAV_LPART_NOT_ASCII); P(EEAV_LPART_SPECIAL); P(EEAV_LPART_CTRL_CHAR);
    P(EEAV_LPART_MISPLACED_QUOTE); P(EEAV_LPART_UNQUOTED); P(EEAV_LPART_TOO_MANY_DOTS);
    P(EEAV_LPART_MISPLACED_DOT); P(EEAV_LPART_UNQUOTED_FWS); P(EEAV_LPART_INVALID_FOLDING);
    P(EEAV_LPART_INVALID_UTF8); P(EEAV_DOMAIN_EMPTY); P(EEAV_DOMAIN_LABEL_TOO_LONG);
    P(EEAV_DOMAIN_MISPLACED_HYPHEN); P(EEAV_DOMAIN_MISPLACED_DELIMITER); P(EEAV_DOMAIN_INVALID_CHAR);
    P(EEAV_DOMAIN_TOO_LONG); P(EEAV_DOMAIN_NUMERIC); P(EEAV_DOMAIN_NOT_FQDN); P(EEAV_IPADDR_INVALID);
    P(EEAV_IPADDR_BRACKET_UNPAIR); P(EEAV_TLD_INVALID); P(EEAV_TLD_NOT_ASSIGNED); P(EEAV_TLD_COUNTRY_CODE);
    P(EEAV_TLD_GENERIC); P(EEAV_TLD_GENERIC_RESTRICTED); P(EEAV_TLD_INFRASTRUCTURE); P(EEAV_TLD_SPONSORED);
    P(EEAV_TLD_TEST); P(EEAV_TLD_SPECIAL); P(EEAV_TLD_RETIRED); P(EEAV_MAX);
    P(TLD_TYPE_NOT_ASSIGNED); P(TLD_TYPE_COUNTRY_CODE); P(TLD_TYPE_GENERIC); P(TLD_TYPE_GENERIC_RESTRICTED);
    P(TLD_TYPE_INFRASTRUCTURE); P(TLD_TYPE_SPONSORED); P(TLD_TYPE_TEST); P(TLD_TYPE_SPECIAL); P(TLD_TYPE_RETIRED);
    P(EAV_TLD_INVALID); P(EAV_TLD_NOT_ASSIGNED); P(EAV_TLD_COUNTRY_CODE); P(EAV_TLD_GENERIC);
    P(EAV_TLD_GENERIC_RESTRICTED); P(EAV_TLD_INFRASTRUCTURE); P(EAV_TLD_SPONSORED); P(EAV_TLD_TEST);
    P(EAV_TLD_SPECIAL); P(EAV_TLD_RETIRED);
    P(EAV_RFC_822); P(EAV_RFC_5321); P(EAV_RFC_5322); P(EAV_RFC_6531);
    P(VALID_HOSTNAME_LEN); P(VALID_LABEL_LEN); P(VALID_LPART_LEN);
    {
        eav_t e; memset (&e, 0, sizeof e);
        for (int k = 0; k < EEAV_MAX; k++) {
            if (k == EEAV_IDN_ERROR) continue;
            e.errcode = k;
            const char *m = eav_errstr (&e);
            printf ("msg %d ", k);
            if (m) for (; *m; m++) printf ("%02x", (unsigned char) *m);
            printf ("\n");
        }
    }
    {   /* eav_init on two differently poisoned objects: a field that differs was not written */
        eav_t a, b; memset (&a, 0x00, sizeof a); memset (&b, 0xff, sizeof b);
        eav_init (&a); eav_init (&b);
        printf ("init rfc %d %d\n", (int) a.rfc, (int) b.rfc);
        printf ("init allow_tld %d %d\n", a.allow_tld, b.allow_tld);
        printf ("init tld_check %d %d\n", a.tld_check, *(unsigned char *) &b.tld_check);
        printf ("init utf8 %d %d\n", a.utf8, *(unsigned char *) &b.utf8);
        printf ("init errcode %d %d\n", a.errcode, b.errcode);
        printf ("init idnmsg %d %d\n", a.idnmsg != NULL, b.idnmsg != NULL);
        printf ("init initialized %d %d\n", a.initialized, *(unsigned char *) &b.initialized);
        printf ("init utf8_cb %d %d\n", a.utf8_cb != NULL, b.utf8_cb != NULL);
        printf ("init ascii_cb %d %d\n", a.ascii_cb != NULL, b.ascii_cb != NULL);
        printf ("init result %d %d\n", a.result != NULL, b.result != NULL);
    }
    return 0;
}
