/* cbmc harness: one scanner / per-part validator on every NUL-terminated string of at most N bytes, every byte value, and
   (unless WHOLE) every end pointer inside the string.  -DFN=<function> -DN=<bound> -DWHOLE=0|1 */
#include <stddef.h>
extern int FN (const char *start, const char *end);
unsigned nondet_uint (void); char nondet_char (void);
int main (void)
{
    char buf[N + 1];
    unsigned n = nondet_uint (), e = nondet_uint ();
    __CPROVER_assume (n <= N); __CPROVER_assume (e <= n);
    if (WHOLE) __CPROVER_assume (e == n);
    for (unsigned i = 0; i < N; i++) { buf[i] = nondet_char (); if (i < n) __CPROVER_assume (buf[i] != 0); }
    buf[n] = 0;
    FN (buf, buf + e);
    return 0;
}
