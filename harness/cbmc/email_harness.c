/* cbmc harness: one ASCII composer (TLD checking off: the 1591-row table walk is outside what cbmc can unwind) on every
   NUL-terminated string of at most N bytes; the result record is released; --memory-leak-check */
#include <stddef.h>
#include <stdbool.h>
#include <eav.h>
unsigned nondet_uint (void); char nondet_char (void);
int main (void)
{
    char buf[N + 1];
    unsigned n = nondet_uint ();
    __CPROVER_assume (n <= N);
    for (unsigned i = 0; i < N; i++) { buf[i] = nondet_char (); if (i < n) __CPROVER_assume (buf[i] != 0); }
    buf[n] = 0;
    eav_result_t *r = FN (buf, n, false);
    eav_result_free (r);
    return 0;
}
