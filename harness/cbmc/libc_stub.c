/* what cbmc needs from libc and has no model of: the C-locale <ctype.h> table of this glibc (generated, ctab.h) and strspn */
#include <stddef.h>
#include "ctab.h"
static const unsigned short *ctab_ptr = ctab + 128;
const unsigned short **__ctype_b_loc (void) { return &ctab_ptr; }
size_t strspn (const char *s, const char *accept)
{
    size_t n = 0;
    for (;; n++) {
        const char *a = accept; int hit = 0;
        if (s[n] == 0) return n;
        for (; *a; a++) if (*a == s[n]) { hit = 1; break; }
        if (!hit) return n;
    }
}
