#include <ctype.h>
#include <stdio.h>
int main(void){ const unsigned short *t = *__ctype_b_loc(); printf("static const unsigned short ctab[384] = {"); for (int i=-128;i<256;i++) printf("%u,", t[i]); printf("};\n"); return 0; }
