(* model_drv.ml — model side of the correspondence check: same case lines as drv.c,
   evaluated with the functions extracted from the Coq development (model.ml).
   usage: model_drv <tld_table.txt> <rfc20:0|1> <f5322:0|1> <uscore:0|1> <extra:0|1>  < cases > results *)
open Model

let rec pos_of_int n = if n = 1 then XH else if n land 1 = 0 then XO (pos_of_int (n lsr 1)) else XI (pos_of_int (n lsr 1))
let n_of_int n = if n = 0 then N0 else Npos (pos_of_int n)
let z_of_int n = if n = 0 then Z0 else if n > 0 then Zpos (pos_of_int n) else Zneg (pos_of_int (-n))
let rec int_of_pos = function XH -> 1 | XO p -> 2 * int_of_pos p | XI p -> 2 * int_of_pos p + 1
let int_of_z = function Z0 -> 0 | Zpos p -> int_of_pos p | Zneg p -> - (int_of_pos p)
let int_of_n = function N0 -> 0 | Npos p -> int_of_pos p
let rec nat_of_int n = if n = 0 then O else S (nat_of_int (n - 1))
let tbl = Array.init 256 (fun i -> match of_N (n_of_int i) with Some b -> b | None -> assert false)
let int_of_byte b = int_of_n (to_N b)
let hexv c = if c <= '9' then Char.code c - 48 else (Char.code c lor 32) - 87
let bytes_of_hex h =
  if h = "-" then [] else List.init (String.length h / 2) (fun k -> tbl.(hexv h.[2*k] * 16 + hexv h.[2*k+1]))
let hex_of_bytes l = if l = [] then "-" else String.concat "" (List.map (fun b -> Printf.sprintf "%02x" (int_of_byte b)) l)
let hex_opt = function None -> "~" | Some l -> hex_of_bytes l
let b01 b = if b then "1" else "0"

let load_table file =
  let ic = open_in file in
  let rows = ref [] in
  (try while true do
    let l = input_line ic in
    match String.split_on_char ' ' l with
    | [name; len; ty] -> rows := ((bytes_of_hex name, nat_of_int (int_of_string len)), z_of_int (int_of_string ty)) :: !rows
    | _ -> ()
  done with End_of_file -> ());
  close_in ic; List.rev !rows

let () =
  let table = load_table Sys.argv.(1) in
  let g = { rfc20 = Sys.argv.(2) = "1"; f5322 = Sys.argv.(3) = "1"; uscore = Sys.argv.(4) = "1" } in
  let extra = Sys.argv.(5) = "1" in
  let kitmode = Array.length Sys.argv > 6 && Sys.argv.(6) = "kit" in
  let calls = ref 0 and argok = ref true in
  let mk_idn expect orc oa ob =
    (fun d -> incr calls; if Some d <> expect then argok := false;
              if orc = 0 then IdnOk oa else IdnErr (z_of_int orc, ob)) in
  let mode_of_int = function 0 -> MA M822 | 1 -> MA M5321 | 2 -> MA M5322 | _ -> M6531 in
  let dom_of a = match split_last aT a with Some (_, d) -> Some d | None -> None in
  let flags r = b01 r.is_ipv4 ^ b01 r.is_ipv6 ^ b01 r.is_domain in
  let live_of r = if not extra then 1 else 1 + (if r.lpart = None then 0 else 1) + (if r.domain = None then 0 else 1) in
  let buf = Buffer.create 65536 in
  let out = Buffer.add_string buf in
  (try while true do
    let line = input_line stdin in
    let f = Array.of_list (List.filter (fun s -> s <> "") (String.split_on_char ' ' line)) in
    if Array.length f > 0 then begin
      (match f.(0) with
      | "L" ->
        let s = bytes_of_hex f.(1) and rest = bytes_of_hex (if Array.length f > 2 then f.(2) else "-") in
        out (Printf.sprintf "%d %d %d %d\n" (int_of_z (local M822 s rest)) (int_of_z (local M5321 s rest))
               (int_of_z (local M5322 s rest)) (int_of_z (local6531 g s)))
      | "D" ->
        let s = bytes_of_hex f.(1) and rest = bytes_of_hex (if Array.length f > 2 then f.(2) else "-") in
        out (Printf.sprintf "%d\n" (int_of_z (ascii_domain g.uscore s rest)))
      | "4" | "6" | "P" ->
        let s = bytes_of_hex f.(1) and rest = bytes_of_hex (if Array.length f > 2 then f.(2) else "-") in
        let r = (match f.(0) with "4" -> ipv4 s rest | "6" -> ipv6 s rest | _ -> ipaddr s rest) in
        out (b01 r ^ "\n")
      | "W" ->   (* the decoder alone: every scalar value, then End or error; the_byte / the_char bookkeeping is done here *)
        let s = bytes_of_hex f.(1) in
        let total = List.length s in
        let rec go l nch last =
          (match l with
           | [] -> out "E"; (last, nch)
           | _ -> let at = total - List.length l in
                  (match utf8_next l with
                   | Some (v, r) -> out (Printf.sprintf "%d," (int_of_n v)); go r (nch + 1) at
                   | None -> out "X"; (at, nch + 1))) in
        let (b, c) = go s 0 0 in
        out (Printf.sprintf " %d %d\n" b (if c > 0 then c - 1 else 0))
      | "H" ->   (* read extent of the access models (layer A): 1 + highest index read, under-read flag, code *)
        let s = bytes_of_hex f.(2) and rest = bytes_of_hex (if Array.length f > 3 then f.(3) else "-") in
        let full = s @ rest @ [tbl.(0)] in
        let e = nat_of_int (List.length s) in
        let rec int_of_nat = function O -> 0 | S k -> 1 + int_of_nat k in
        let rec firstn k l = if k = 0 then [] else (match l with [] -> [] | x :: r -> x :: firstn (k - 1) r) in
        let call b = (match f.(1) with
          | "8" -> localA M822 b e | "1" -> localA M5321 b e | "2" -> localA M5322 b e
          | "3" -> local6531A g b e
          | "4" -> ipv4A b O e | "6" -> ipv6A b O e | "P" -> ipaddrA b O e
          | "S" -> specialA b e
          | "a" -> emailA table g.uscore b M822 true e | "b" -> emailA table g.uscore b M5321 true e | "c" -> emailA table g.uscore b M5322 true e
          | _ -> ascii_domainA g.uscore b e) in
        let rec go k = (match call (firstn k full) with
          | FaultA i -> let i = int_of_nat i in if i + 1 > List.length full then out "BEYOND\n" else go (i + 1)
          | RetA z -> out (Printf.sprintf "%d 0 %d\n" k (int_of_z z))
          | UnderA -> out (Printf.sprintf "%d 1 0\n" k)
          | FuelA -> out "FUEL\n"
          | _ -> out "NULL-OR-OVERFLOW\n") in
        go 0
      | "S" -> out (b01 (special_domain (bytes_of_hex f.(1))) ^ "\n")
      | "T" -> out (Printf.sprintf "%d\n" (int_of_z (tld_lookup table (bytes_of_hex f.(1)))))
      | "U" ->
        let tld = f.(1) = "1" and s = bytes_of_hex f.(2) in
        calls := 0; argok := true;
        let idn = mk_idn (Some s) (int_of_string f.(3)) (bytes_of_hex f.(4)) (f.(5) = "1") in
        let (r, ir) = utf8_domain idn g table tld s in
        out (Printf.sprintf "%d %d %d %s 0\n" (int_of_z r) (int_of_z ir) !calls (b01 !argok))
      | "E" ->
        let m = int_of_string f.(1) and tld = f.(2) = "1" and s = bytes_of_hex f.(3) in
        calls := 0; argok := true;
        let idn = mk_idn (dom_of s) (int_of_string f.(4)) (bytes_of_hex f.(5)) (f.(6) = "1") in
        let r = email idn g table (mode_of_int m) tld s in
        out (Printf.sprintf "%d %d %s %s %s %d %s %d 0\n" (int_of_z r.rc) (int_of_z r.idn_rc) (flags r)
               (if extra then hex_opt r.lpart else "~") (if extra then hex_opt r.domain else "~")
               !calls (b01 !argok) (live_of r))
      | "K" ->
        let m = int_of_string f.(1) and tld = f.(2) = "1" and s = bytes_of_hex f.(3) in
        calls := 0; argok := true;
        let idn = mk_idn (dom_of s) (int_of_string f.(4)) (bytes_of_hex f.(5)) (f.(6) = "1") in
        let r = email idn g table (mode_of_int m) tld s in
        out (Printf.sprintf "%d %d %s\n" (int_of_z r.rc) (int_of_z r.idn_rc) (flags r))
      | "G" ->   (* generator model: domain type manager-prefix -> table row / domains-file line *)
        let d = bytes_of_hex f.(1) and t = bytes_of_hex f.(2) and mg = bytes_of_hex f.(3) in
        (match gen_row ((d, t), mg) with
         | Some ((n, l), ty) ->
           let rec int_of_nat = function O -> 0 | S k -> 1 + int_of_nat k in
           out (Printf.sprintf "%s %d %d" (hex_of_bytes n) (int_of_nat l) (int_of_z ty))
         | None -> out "DIE");
        (match gen_domain_line (d, t) with
         | Some l -> out (" " ^ hex_of_bytes l ^ "\n")
         | None -> out " DIE\n")
      | "C" ->   (* one raw input line of the eav tool (with its terminator) -> SKIP | trimmed sanitized *)
        (match trim_line (bytes_of_hex f.(1)) with
         | None -> out "SKIP\n"
         | Some t -> out (hex_of_bytes t ^ " " ^ hex_of_bytes (sanitize t) ^ "\n"))
      | "J" ->
        let m = int_of_string f.(1) and mask = int_of_string f.(2) and tldc = f.(3) = "1" and rc = int_of_string f.(4) in
        let idn = (fun _ -> IdnErr (Z0, false)) in
        let s0 = init_state Z0 in
        let s1 = { s0 with e_rfc = z_of_int m; e_allow = z_of_int mask; e_tldc = tldc } in
        let (s2, o) = step idn g table s1 Setup in
        (match o with
         | ORet Z0 ->
           let r = { rc = z_of_int rc; idn_rc = Z0; is_ipv4 = false; is_ipv6 = false; is_domain = false; lpart = None; domain = None } in
           let (s3, o3) = judge s2 r in
           (match o3 with
            | ORet z -> out (Printf.sprintf "%d %d\n" (int_of_z z) (int_of_z s3.e_errcode))
            | _ -> out "ABORT\n")
         | _ -> out (Printf.sprintf "-1 %d\n" (int_of_z s2.e_errcode)))
      | "A" ->
        let st = ref (init_state Z0) in   (* contents irrelevant before 'i': legal histories start with it *)
        let kit = ref kit0 in
        let toks = ref [] in
        for i = 1 to Array.length f - 1 do
          let t = f.(i) in
          let rest = String.sub t 1 (String.length t - 1) in
          let suffix s = Printf.sprintf ":%d:%d" (int_of_z s.e_errcode) (int_of_z s.e_live) in
          let idn0 = (fun _ -> IdnErr (Z0, false)) in
          (match t.[0] with
           | 'i' -> kit := kit_step !kit Init
           | 'r' -> kit := kit_step !kit (SetRfc (z_of_int (int_of_string rest)))
           | 's' -> kit := kit_step !kit Setup
           | 'f' -> kit := kit_step !kit Free
           | _ -> ());
          let tok = (match t.[0] with
            | 'i' -> let (s, _) = step idn0 g table !st Init in st := s; "-" ^ suffix s
            | 'r' -> let (s, _) = step idn0 g table !st (SetRfc (z_of_int (int_of_string rest))) in st := s; "-" ^ suffix s
            | 't' -> let (s, _) = step idn0 g table !st (SetTld (rest = "1")) in st := s; "-" ^ suffix s
            | 'm' -> let (s, _) = step idn0 g table !st (SetMask (z_of_int (int_of_string rest))) in st := s; "-" ^ suffix s
            | 's' -> let (s, o) = step idn0 g table !st Setup in st := s;
                     (match o with ORet z -> Printf.sprintf "R%d" (int_of_z z) | _ -> "?") ^ suffix s
            | 'f' -> let (s, _) = step idn0 g table !st Free in st := s; "-" ^ suffix s
            | 'x' -> let (s, o) = step idn0 g table !st ErrStr in st := s;
                     (match o with
                      | OMsg (MsgTable c) -> Printf.sprintf "T%d" (int_of_z c)
                      | OMsg (MsgIdn c) -> Printf.sprintf "I%d" (int_of_z c)
                      | OMsg MsgNull -> "N" | _ -> "?") ^ suffix s
            | 'n' ->     (* (NULL, 0): the length test comes first, so this is the empty address *)
              calls := 0; argok := true;
              let idn = mk_idn None 0 [] false in
              let (s, o) = step idn g table !st (IsEmail []) in st := s;
              (match o, s.e_result with
               | ORet z, Some r ->
                 let live = int_of_z s.e_live - 1 + live_of r in
                 Printf.sprintf "R%d:%d:%d:%d,%d,%s,%d,%s" (int_of_z z) (int_of_z s.e_errcode) live
                   (int_of_z r.rc) (int_of_z r.idn_rc) (flags r) !calls (b01 !argok)
               | OFault, _ -> "FAULT" | OAbort, _ -> "ABORT" | _ -> "?")
            | 'e' ->
              (match String.split_on_char '/' rest with
               | [a; orc; oa; ob] ->
                 let a = bytes_of_hex a in
                 calls := 0; argok := true;
                 let idn = mk_idn (dom_of a) (int_of_string orc) (bytes_of_hex oa) (ob = "1") in
                 let (s, o) = step idn g table !st (IsEmail a) in st := s;
                 (match o, s.e_result with
                  | ORet z, Some r ->
                    let live = int_of_z s.e_live - 1 + live_of r in
                    Printf.sprintf "R%d:%d:%d:%d,%d,%s,%d,%s" (int_of_z z) (int_of_z s.e_errcode) live
                      (int_of_z r.rc) (int_of_z r.idn_rc) (flags r) !calls (b01 !argok)
                  | OFault, _ -> "FAULT" | OAbort, _ -> "ABORT" | _ -> "?")
               | _ -> "BADOP")
            | _ -> "BADOP") in
          toks := tok :: !toks
        done;
        out (String.concat " " (List.rev !toks));
        if kitmode then out (Printf.sprintf " K%d,%d,%d,0" (int_of_z !kit.k_created) (int_of_z !kit.k_destroyed) (int_of_z !kit.k_bad));
        out "\n"
      | _ -> out "BADKIND\n");
      if Buffer.length buf > 60000 then (print_string (Buffer.contents buf); Buffer.clear buf)
    end
  done with End_of_file -> ());
  print_string (Buffer.contents buf)
