package Text::CSV;
# Minimal stand-in for Text::CSV (not installed in this sandbox and not installable): just enough for
# util/gentld.pl and util/gen_utf8_pass_test.pl to run unmodified.  RFC 4180 fields: quoted fields may
# contain commas, doubled quotes and line breaks.
use strict;
use warnings;

sub new {
    my ($class, $opts) = @_;
    my $self = { %{ $opts || {} } };
    return bless $self, $class;
}

sub error_diag { return "Text::CSV shim: parse error"; }

sub getline {
    my ($self, $io) = @_;
    my $line = <$io>;
    return undef unless defined $line;
    # a quoted field may span lines: keep reading while the number of quotes is odd
    while ((() = $line =~ /"/g) % 2 == 1) {
        my $more = <$io>;
        last unless defined $more;
        $line .= $more;
    }
    $line =~ s/\r?\n\z//;
    my @fields;
    my $pos = 0;
    my $len = length $line;
    while ($pos <= $len) {
        my $f = '';
        if ($pos < $len && substr($line, $pos, 1) eq '"') {
            $pos++;
            while ($pos < $len) {
                my $c = substr($line, $pos, 1);
                if ($c eq '"') {
                    if ($pos + 1 < $len && substr($line, $pos + 1, 1) eq '"') { $f .= '"'; $pos += 2; next; }
                    $pos++; last;
                }
                $f .= $c; $pos++;
            }
        } else {
            while ($pos < $len && substr($line, $pos, 1) ne ',') { $f .= substr($line, $pos, 1); $pos++; }
        }
        push @fields, $f;
        last if $pos >= $len;
        $pos++;    # the comma
        if ($pos == $len) { push @fields, ''; last; }
    }
    return \@fields;
}

1;
