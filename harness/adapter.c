/* adapter.c — maps the libidn and idnkit entry points used by partial/idn and partial/idnkit onto
   libidn2 (idn2_to_ascii_8z, which the driver interposes), so that all three back ends see the same
   converter; counts idnkit context creations / destructions and flags a destroy of a dead context. */
#include <stdlib.h>
#include <string.h>
#include <idn2.h>
#include "idna.h"
#include "idn/api.h"

int idna_to_ascii_lz (const char *input, char **output, int flags)
{
    (void) flags;
    return idn2_to_ascii_8z (input, output, IDN2_NONTRANSITIONAL);
}
const char *idna_strerror (int rc) { return idn2_strerror (rc); }

struct verif_idn_ctx { int live; unsigned magic; };
long verif_kit_created, verif_kit_destroyed, verif_kit_bad_destroy, verif_kit_use_after_destroy;

idn_result_t idn_resconf_initialize (void) { return idn_success; }
idn_result_t idn_resconf_create (idn_resconf_t *ctx)
{
    static struct verif_idn_ctx pool[1 << 16]; static unsigned next;   /* never reused early: a stale handle stays inspectable */
    struct verif_idn_ctx *c = &pool[next++ & 0xffff];
    c->live = 1; c->magic = 0x1d9c0de;
    *ctx = c; verif_kit_created++;
    return idn_success;
}
void idn_resconf_destroy (idn_resconf_t ctx)
{
    if (ctx == NULL || ctx->magic != 0x1d9c0de || !ctx->live) { verif_kit_bad_destroy++; return; }
    ctx->live = 0; verif_kit_destroyed++;
}
idn_result_t idn_res_encodename (idn_resconf_t ctx, idn_action_t actions, const char *from, char *to, size_t tolen)
{
    char *out = NULL;
    (void) actions;
    if (ctx == NULL || ctx->magic != 0x1d9c0de || !ctx->live) verif_kit_use_after_destroy++;
    int rc = idn2_to_ascii_8z (from, &out, IDN2_NONTRANSITIONAL);
    if (rc != 0) { if (out) free (out); return rc; }
    if (strlen (out) + 1 > tolen) { free (out); return IDN2_TOO_BIG_DOMAIN; }
    strcpy (to, out);
    free (out);
    return idn_success;
}
const char *idn_result_tostring (idn_result_t r) { return idn2_strerror (r); }
