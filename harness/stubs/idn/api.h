/* idn/api.h — thin stand-in for idnkit's <idn/api.h> (idnkit is not installed here): the names
   partial/idnkit uses, mapped onto libidn2 by harness/adapter.c, with create/destroy accounting. */
#ifndef VERIF_STUB_IDN_API_H
#define VERIF_STUB_IDN_API_H
#include <stddef.h>
typedef int idn_result_t;          /* idn_success = 0; any other value = the libidn2 code of the failure */
#define idn_success 0
typedef struct verif_idn_ctx *idn_resconf_t;
typedef int idn_action_t;
#define IDN_ENCODE_REGIST 1
extern idn_result_t idn_resconf_initialize (void);
extern idn_result_t idn_resconf_create (idn_resconf_t *ctx);
extern void idn_resconf_destroy (idn_resconf_t ctx);
extern idn_result_t idn_res_encodename (idn_resconf_t ctx, idn_action_t actions, const char *from, char *to, size_t tolen);
extern const char *idn_result_tostring (idn_result_t r);
/* accounting, read by the driver */
extern long verif_kit_created, verif_kit_destroyed, verif_kit_bad_destroy, verif_kit_use_after_destroy;
#endif
