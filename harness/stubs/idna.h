/* idna.h — thin stand-in for GNU libidn's <idna.h> (libidn is not installed here): just the three
   names partial/idn uses, mapped onto libidn2 by harness/adapter.c. */
#ifndef VERIF_STUB_IDNA_H
#define VERIF_STUB_IDNA_H
#define IDNA_SUCCESS 0
extern int idna_to_ascii_lz (const char *input, char **output, int flags);
extern const char *idna_strerror (int rc);
#endif
