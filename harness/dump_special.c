/* dump_special.c — the static tables of src/is_special_domain.c, read from the source itself: the file is #included, so
   its `reserved[]` and `example[]` (name, compare length) are visible here.  Compiled by tools/gen.py with -I<src>; if the
   source no longer has tables of that shape this program does not compile and gen.py records "not parsed". */
#include <stdio.h>
#include <string.h>
#define is_special_domain is_special_domain__included
#include "src/is_special_domain.c"
#undef is_special_domain
static void row (const char *tab, const char *name, size_t len)
{
    printf ("%s ", tab);
    for (const char *p = name; *p; p++) printf ("%02x", (unsigned char) *p);
    printf (" %zu\n", len);
}
int main (void)
{
    for (size_t i = 0; i < sizeof reserved / sizeof reserved[0]; i++) row ("reserved", reserved[i].domain, reserved[i].length);
    for (size_t i = 0; i < sizeof example / sizeof example[0]; i++) row ("example", example[i].domain, example[i].length);
#ifdef LABEL_SIZE
    printf ("label_size %d\n", (int) (LABEL_SIZE));
#endif
    return 0;
}
