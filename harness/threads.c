/* threads.c — runtime half of C14: N threads, each with its own eav_t (and the stateless per-part
 * validators on shared read-only strings), run the same validations; every thread's outcomes are
 * compared with the outcomes a single thread obtained beforehand.  Built with -fsanitize=thread, so any
 * unsynchronised access to shared memory inside the library is reported whatever the schedule.
 *
 * usage: threads <nthreads> <rounds> <seed> < addresses(hex, one per line)
 * THREADS_HAMMER=n: every thread validates the whole (small) address list n times in one mode (5321 and 6531 alternating by thread), with TLD
 *   checking on, comparing each outcome with the sequential one at once: for state hidden where a race detector does not look (inside libc).
 * THREADS_COLD=1: no library call is made before the threads start (they are released together by a barrier and
 *   their outcomes are compared with a sequential pass made afterwards), so that first-use initialisation inside
 *   the library — a lazily built table, a cached pointer — happens concurrently.
 * exit 0 = all outcomes equal and no race report (TSan makes the exit status 66 on a report). */
#define _GNU_SOURCE
#include <stdio.h>
#include <stdlib.h>
#include <string.h>
#include <pthread.h>
#include <sched.h>
#include <eav.h>

#define MAXA 4096
static char *addr[MAXA]; static size_t alen[MAXA]; static int na;
static int nthreads, rounds; static unsigned seed;

typedef struct { int ret, err, rc, flags; int l822, l5321, l5322, l6531, dom, spec; unsigned long msg; } outcome_t;
static outcome_t *ref;      /* [mode*2+tld][address] */

static unsigned long hash (const char *s) { unsigned long h = 5381; if (!s) return 0; while (*s) h = h * 33 + (unsigned char) *s++; return h; }
static int hexv (int c) { return c <= '9' ? c - '0' : (c | 32) - 'a' + 10; }

static void one (eav_t *e, int i, outcome_t *o)
{
    const char *s = addr[i]; size_t n = alen[i];
    o->ret = eav_is_email (e, s, n);
    o->err = e->errcode; o->rc = e->result->rc;
    o->flags = e->result->is_ipv4 * 4 + e->result->is_ipv6 * 2 + e->result->is_domain;
    o->msg = hash (eav_errstr (e));
    const char *at = strrchr (s, '@');
    const char *le = at ? at : s + n;
    o->l822 = is_822_local (s, le); o->l5321 = is_5321_local (s, le); o->l5322 = is_5322_local (s, le); o->l6531 = is_6531_local (s, le);
    o->dom = at ? is_ascii_domain (at + 1, s + n) : 1;
    o->spec = at && at[1] ? is_special_domain (at + 1, s + n) : -1;
}

static void run_config (int cfg, outcome_t *out, unsigned *rs, int perturb)
{
    eav_t e; eav_init (&e);
    e.rfc = (EAV_RFC) (cfg / 2); e.tld_check = cfg % 2;
    if (eav_setup (&e) != 0) abort ();
    for (int i = 0; i < na; i++) {
        one (&e, i, &out[i]);
        if (perturb && (rand_r (rs) & 7) == 0) sched_yield ();
    }
    eav_free (&e);
}

static long mismatches;
static pthread_mutex_t mu = PTHREAD_MUTEX_INITIALIZER;
static int cold; static pthread_barrier_t bar; static outcome_t **kept;

static void report (long t, int cfg, int i, const outcome_t *got)
{
    pthread_mutex_lock (&mu);
    if (mismatches < 5) {
        printf ("MISMATCH thread=%ld mode=%d tld=%d address=", t, cfg / 2, cfg % 2);
        for (size_t k = 0; k < alen[i]; k++) printf ("%02x", (unsigned char) addr[i][k]);
        printf (" got ret=%d err=%d rc=%d flags=%d expected ret=%d err=%d rc=%d flags=%d\n", got->ret, got->err, got->rc, got->flags,
                ref[cfg * na + i].ret, ref[cfg * na + i].err, ref[cfg * na + i].rc, ref[cfg * na + i].flags);
    }
    mismatches++;
    pthread_mutex_unlock (&mu);
}

static long hammer_n;
static void *hammer_worker (void *arg)
{
    long t = (long) arg; int cfg = (t % 2) ? 3 : 7;        /* mode 5321 / 6531, tld_check on */
    eav_t e; eav_init (&e); e.rfc = (EAV_RFC) (cfg / 2); e.tld_check = cfg % 2;
    if (eav_setup (&e) != 0) abort ();
    outcome_t o;
    for (long r = 0; r < hammer_n; r++)
        for (int i = 0; i < na; i++) {
            memset (&o, 0, sizeof o);
            one (&e, i, &o);
            if (memcmp (&o, &ref[cfg * na + i], sizeof o) != 0) report (t, cfg, i, &o);
        }
    eav_free (&e);
    return NULL;
}

static void *cold_worker (void *arg)
{
    long t = (long) arg; unsigned rs = seed * 7919u + (unsigned) t;
    kept[t] = calloc ((size_t) (8 * na), sizeof (outcome_t));
    pthread_barrier_wait (&bar);
    for (int c = 0; c < 8; c++) {
        int cfg = (c + (int) t) % 8;
        run_config (cfg, kept[t] + cfg * na, &rs, 0);
    }
    return NULL;
}

static void *worker (void *arg)
{
    long t = (long) arg; unsigned rs = seed * 7919u + (unsigned) t;
    outcome_t *mine = malloc (sizeof (outcome_t) * (size_t) na);
    for (int r = 0; r < rounds; r++) {
        for (int c = 0; c < 8; c++) {
            int cfg = (c + (int) t + r) % 8;
            memset (mine, 0, sizeof (outcome_t) * (size_t) na);
            run_config (cfg, mine, &rs, 1);
            for (int i = 0; i < na; i++)
                if (memcmp (&mine[i], &ref[cfg * na + i], sizeof (outcome_t)) != 0) {
                    pthread_mutex_lock (&mu);
                    if (mismatches < 5) {
                        printf ("MISMATCH thread=%ld mode=%d tld=%d address=", t, cfg / 2, cfg % 2);
                        for (size_t k = 0; k < alen[i]; k++) printf ("%02x", (unsigned char) addr[i][k]);
                        printf (" got ret=%d err=%d rc=%d flags=%d expected ret=%d err=%d rc=%d flags=%d\n", mine[i].ret, mine[i].err, mine[i].rc, mine[i].flags,
                                ref[cfg * na + i].ret, ref[cfg * na + i].err, ref[cfg * na + i].rc, ref[cfg * na + i].flags);
                    }
                    mismatches++;
                    pthread_mutex_unlock (&mu);
                }
        }
    }
    free (mine);
    return NULL;
}

int main (int argc, char **argv)
{
    static char line[1 << 16];
    nthreads = argc > 1 ? atoi (argv[1]) : 4; rounds = argc > 2 ? atoi (argv[2]) : 2; seed = argc > 3 ? (unsigned) atoi (argv[3]) : 1;
    while (na < MAXA && fgets (line, sizeof line, stdin)) {
        size_t n = 0; char *h = line; char *b = malloc (strlen (line) / 2 + 2);
        if (h[0] != '-') for (; h[0] > ' ' && h[1] > ' '; h += 2) b[n++] = (char) (hexv (h[0]) * 16 + hexv (h[1]));
        b[n] = 0; addr[na] = b; alen[na] = n; na++;
    }
    ref = calloc ((size_t) (8 * na), sizeof (outcome_t));
    unsigned rs = 1;
    pthread_t th[64];
    if (nthreads > 64) nthreads = 64;
    cold = getenv ("THREADS_COLD") != NULL;
    if (cold) {
        kept = calloc (64, sizeof *kept);
        pthread_barrier_init (&bar, NULL, (unsigned) nthreads);
        for (long t = 0; t < nthreads; t++) pthread_create (&th[t], NULL, cold_worker, (void *) t);
        for (long t = 0; t < nthreads; t++) pthread_join (th[t], NULL);
        for (int c = 0; c < 8; c++) run_config (c, ref + c * na, &rs, 0);  /* the sequential outcomes, afterwards */
        for (long t = 0; t < nthreads; t++)
            for (int c = 0; c < 8; c++)
                for (int i = 0; i < na; i++)
                    if (memcmp (&kept[t][c * na + i], &ref[c * na + i], sizeof (outcome_t)) != 0) report (t, c, i, &kept[t][c * na + i]);
        printf ("cold threads=%d addresses=%d validations=%ld mismatches=%ld\n", nthreads, na, (long) nthreads * 8 * na, mismatches);
        return mismatches ? 1 : 0;
    }
    for (int c = 0; c < 8; c++) run_config (c, ref + c * na, &rs, 0);      /* the sequential outcomes */
    if (getenv ("THREADS_HAMMER")) {
        hammer_n = atol (getenv ("THREADS_HAMMER"));
        for (long t = 0; t < nthreads; t++) pthread_create (&th[t], NULL, hammer_worker, (void *) t);
        for (long t = 0; t < nthreads; t++) pthread_join (th[t], NULL);
        printf ("hammer threads=%d iterations=%ld addresses=%d validations=%ld mismatches=%ld\n", nthreads, hammer_n, na, (long) nthreads * hammer_n * na, mismatches);
        return mismatches ? 1 : 0;
    }
    for (long t = 0; t < nthreads; t++) pthread_create (&th[t], NULL, worker, (void *) t);
    for (long t = 0; t < nthreads; t++) pthread_join (th[t], NULL);
    printf ("threads=%d rounds=%d addresses=%d validations=%ld mismatches=%ld\n", nthreads, rounds, na, (long) nthreads * rounds * 8 * na, mismatches);
    return mismatches ? 1 : 0;
}
