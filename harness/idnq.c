/* idnq.c — the IDN oracle: one hex-encoded domain per line -> "<rc> <hex of A-label | ->".
   Calls the real libidn2 exactly as partial/idn2/is_utf8_domain.c does. */
#include <stdio.h>
#include <string.h>
#include <stdlib.h>
#include <idn2.h>
static int hexv (int c) { return c <= '9' ? c - '0' : (c | 32) - 'a' + 10; }
int main (void)
{
    static char line[1 << 18], buf[1 << 17];
    while (fgets (line, sizeof line, stdin)) {
        size_t n = 0; char *h = line; char *out = NULL;
        if (!(h[0] == '-' )) for (; h[0] > ' ' && h[1] > ' '; h += 2) buf[n++] = (char) (hexv (h[0]) * 16 + hexv (h[1]));
        buf[n] = 0;
        int rc = idn2_to_ascii_8z (buf, &out, IDN2_NONTRANSITIONAL);
        printf ("%d ", rc);
        if (rc == 0 && out && *out) for (char *p = out; *p; p++) printf ("%02x", (unsigned char) *p);
        else fputs ("-", stdout);
        putchar ('\n');
        if (out) free (out);
    }
    return 0;
}
