/* drv.c — C side of the correspondence check.
 *
 * Reads one case per line on stdin, calls the library built from /repo's working tree and
 * prints one canonical result line per case on stdout.  Byte strings are hex, "-" = empty.
 * The IDN conversion (idn2_to_ascii_8z) is interposed with -Wl,--wrap: the case line carries the
 * answer the conversion is to give (the "oracle", computed beforehand by idnq from the real
 * libidn2, or a synthetic fault), so that the library and the Coq model see the same answer.
 * malloc/free/strndup are interposed as well, to count live allocations.
 *
 *   L s rest            -> rc822 rc5321 rc5322 rc6531        (is_*_local (s, s+len), rest follows in memory)
 *   D s rest            -> rc                                (is_ascii_domain)
 *   4|6|P s rest        -> 0/1                               (is_ipv4 / is_ipv6 / is_ipaddr)
 *   S s                 -> 0/1                               (is_special_domain)
 *   T s                 -> rc                                (is_tld)
 *   U tld s orc oa ob   -> rc idn_rc calls argok live        (is_utf8_domain)
 *   E m tld s orc oa ob -> rc idn_rc f4f6fd lpart domain calls argok live   (is_<m>_email)
 *   K m tld s orc oa ob -> rc idn_rc f4f6fd            (the same address through the PUBLIC per-part validators,
 *                                                      composed as property C01 describes)
 *   M s orc oa ob       -> ret hex(eav_errstr)             (default settings: eav_init; eav_setup; eav_is_email)
 *   J m mask tld rc     -> ret errcode                       (eav_is_email over a stub callback returning rc)
 *   A op op ...         -> one token per op                  (façade history, see run_history; op n = eav_is_email (e, NULL, 0))
 *   Z c secs            -> tried longest-length-completed [label=got/want ...]   (time-boxed sweep of is_tld over all labels starting with c)
 *   W s                 -> cp,cp,...,E|X at_byte at_character  (utf8_decode_init/next over s: every scalar value delivered, then E(nd) or X (error))
 */
#ifndef _GNU_SOURCE
#define _GNU_SOURCE
#endif
#include <stdio.h>
#include <string.h>
#include <stdlib.h>
#include <stdint.h>
#include <signal.h>
#include <unistd.h>
#include <idn2.h>
#include <eav.h>
#include <eav/auto_tld.h>
#include <time.h>
#ifndef inverse
#define inverse(x) (-(x))
#endif
#if defined __has_include && !defined NO_DECODER
# if __has_include(<src/utf8_decode.h>)
#  include <src/utf8_decode.h>
#  define HAVE_DECODER_H 1
extern int  utf8_decode_at_byte(utf8_decode_t *u) __attribute__((weak));
extern int  utf8_decode_at_character(utf8_decode_t *u) __attribute__((weak));
extern void utf8_decode_init(const char p[], int length, utf8_decode_t *u) __attribute__((weak));
extern int  utf8_decode_next(utf8_decode_t *u) __attribute__((weak));
# endif
#endif

/* the three back ends differ in the IDN entry points; everything else of this driver is common */
#if defined HAVE_IDNKIT
static idn_resconf_t g_ctx;
#define CALL_6531(s, n, t) is_6531_email (g_ctx, IDN_ENCODE_REGIST, (s), (n), (t))
#define CALL_U8DOM(ir, s, e, t) is_utf8_domain (g_ctx, IDN_ENCODE_REGIST, (ir), (s), (e), (t))
#define BACKEND_STRERROR(c) idn_result_tostring (c)
#elif defined HAVE_LIBIDN
#include <idna.h>
#define CALL_6531(s, n, t) is_6531_email ((s), (n), (t))
#define CALL_U8DOM(ir, s, e, t) is_utf8_domain ((ir), (s), (e), (t))
#define BACKEND_STRERROR(c) idna_strerror (c)
#else
#define CALL_6531(s, n, t) is_6531_email ((s), (n), (t))
#define CALL_U8DOM(ir, s, e, t) is_utf8_domain ((ir), (s), (e), (t))
#define BACKEND_STRERROR(c) idn2_strerror (c)
#endif

/* ---- interposers ---- */
static long n_alloc, n_free;
void *__real_malloc (size_t);
void __real_free (void *);
char *__real_strndup (const char *, size_t);
void *__wrap_malloc (size_t n) { void *p = __real_malloc (n); if (p) n_alloc++; return p; }
void __wrap_free (void *p) { if (p) n_free++; __real_free (p); }
char *__wrap_strndup (const char *s, size_t n) { char *p = __real_strndup (s, n); if (p) n_alloc++; return p; }

static int o_rc; static const char *o_out; static int o_buf;   /* the oracle's answer */
static const char *o_expect;                                  /* argument the model passes */
static int idn_calls, idn_argok;
int __real_idn2_to_ascii_8z (const char *input, char **output, int flags);
int __wrap_idn2_to_ascii_8z (const char *input, char **output, int flags)
{
    idn_calls++;
    if (o_expect == NULL || strcmp (input, o_expect) != 0 || flags != IDN2_NONTRANSITIONAL) {      /* (the flags the oracle answers were computed with) */
        /* the library hands the IDN library something else than the domain the answer in the case line was computed for:
           that answer says nothing about this argument; give the one the real library gives for it */
        idn_argok = 0;
        if (input != NULL) {
            char *real_out = NULL;
            int rc = __real_idn2_to_ascii_8z (input, &real_out, flags);
            if (rc == 0 && real_out) {
                size_t n = strlen (real_out);
                char *p = __wrap_malloc (n + 1);
                memcpy (p, real_out, n + 1);
                *output = p;
            }
            if (real_out) idn2_free (real_out);
            return rc;
        }
    }
    if (o_rc == 0) {
        size_t n = strlen (o_out);
        char *p = __wrap_malloc (n + 1);
        memcpy (p, o_out, n + 1);
        *output = p;
        return 0;
    }
    if (o_buf) { char *p = __wrap_malloc (4); memcpy (p, "xyz", 4); *output = p; }
    return o_rc;
}

/* ---- helpers ---- */
static int hexv (int c) { return c <= '9' ? c - '0' : (c | 32) - 'a' + 10; }
static size_t unhex (const char *h, char *out)
{
    size_t n = 0;
    if (h[0] == '-' && h[1] == 0) { out[0] = 0; return 0; }
    for (; h[0] && h[1]; h += 2) out[n++] = (char) (hexv (h[0]) * 16 + hexv (h[1]));
    out[n] = 0;
    return n;
}
static void puthex (const char *s)
{
    if (s == NULL) { fputs ("~", stdout); return; }
    if (*s == 0) { fputs ("-", stdout); return; }
    for (; *s; s++) printf ("%02x", (unsigned char) *s);
}

/* ---- input placement for the memory-safety runs (C06) ----
 *   DRV_PLACE=tight      every input lives in an exact-size heap block (ASan red zones on both sides)
 *   DRV_PLACE=guard_end  the terminator is the last byte before a PROT_NONE page
 *   DRV_PLACE=guard_start the first byte is the first byte after a PROT_NONE page
 * any read outside [first byte, terminator] then faults and is reported as CRASH for that case. */
#include <sys/mman.h>
static int place_mode;
static char *guard_base; static size_t guard_len;
static char *place (const char *src, size_t n)       /* n bytes + terminator */
{
    if (place_mode == 1) { char *p = __real_malloc (n + 1); memcpy (p, src, n); p[n] = 0; return p; }
    size_t pg = 4096, need = ((n + 1 + pg - 1) / pg) * pg;
    guard_len = need + 2 * pg;
    guard_base = mmap (NULL, guard_len, PROT_READ | PROT_WRITE, MAP_PRIVATE | MAP_ANONYMOUS, -1, 0);
    mprotect (guard_base, pg, PROT_NONE); mprotect (guard_base + pg + need, pg, PROT_NONE);
    char *p = place_mode == 2 ? guard_base + pg + need - (n + 1) : guard_base + pg;
    memcpy (p, src, n); p[n] = 0;
    return p;
}
static void unplace (char *p)
{
    if (place_mode == 1) __real_free (p); else if (guard_base) { munmap (guard_base, guard_len); guard_base = NULL; }
}

#define MAXF 12
#define BUFSZ (1 << 17)
static char a_buf[2 * BUFSZ + 8], b_buf[BUFSZ], c_buf[BUFSZ];

static eav_result_t *call_email (int m, const char *s, size_t n, int tld)
{
    switch (m) {
    case 0: return is_822_email (s, n, tld);
    case 1: return is_5321_email (s, n, tld);
    case 2: return is_5322_email (s, n, tld);
    default: return CALL_6531 (s, n, tld);
    }
}

static void print_result (const eav_result_t *r)
{
    printf ("%d %d %d%d%d ", r->rc, (int) r->idn_rc, r->is_ipv4, r->is_ipv6, r->is_domain);
#ifdef EAV_EXTRA
    puthex (r->lpart); putchar (' '); puthex (r->domain);
#else
    fputs ("~ ~", stdout);
#endif
}

/* K lines: the decision obtained by composing the library's public per-part validators */
static int compose (int m, const char *s, size_t n, int tld, int *f4, int *f6, int *fd, int *idn)
{
    const char *end = s + n, *at = NULL, *p;
    int rc;
    *f4 = *f6 = *fd = 0; *idn = 0;
    if (n == 0) return -EEAV_EMAIL_EMPTY;
    for (p = s; p < end; p++) if (*p == '@') at = p;            /* split at the LAST '@' */
    if (at == NULL || at + 1 == end) return -EEAV_DOMAIN_EMPTY;
    if (at - s > 64) return -EEAV_LPART_TOO_LONG;
    switch (m) {
    case 0: rc = is_822_local (s, at); break;
    case 1: rc = is_5321_local (s, at); break;
    case 2: rc = is_5322_local (s, at); break;
    default: rc = is_6531_local (s, at); break;
    }
    if (rc != 0) return rc;
    const char *d = at + 1;
    if (*d != '[') {
        if (m == 3) {
#ifdef HAVE_IDNKIT
            idn_result_t ir = 0; rc = CALL_U8DOM (&ir, d, end, tld); *idn = (int) ir;
#else
            rc = CALL_U8DOM (idn, d, end, tld);
#endif
            if (rc >= 0) *fd = 1; return rc; }
        rc = is_ascii_domain (d, end);
        if (rc != 0) return rc;
        *fd = 1;
        if (!tld) return 0;
        if (is_special_domain (d, end)) return 8;
        const char *dot = NULL;
        for (p = d; p < end; p++) if (*p == '.') dot = p;
        if (dot == NULL) return -EEAV_DOMAIN_NOT_FQDN;
        return is_tld (dot + 1, end);
    }
    if (end - d <= 8) return -EEAV_IPADDR_INVALID;
    const char *br = NULL;
    for (p = d; p < end; p++) if (*p == ']') br = p;
    if (br == NULL) return -EEAV_IPADDR_BRACKET_UNPAIR;
    if (br + 1 != end) return -EEAV_IPADDR_INVALID;
    if (strncmp (d + 1, "IPv6:", 5) == 0) { if (!is_ipv6 (d + 6, br)) return -EEAV_IPADDR_INVALID; *f6 = 1; return 0; }
    if (memchr (d + 1, ':', (size_t) (br - d - 1)) != NULL) { if (!is_ipv6 (d + 1, br)) return -EEAV_IPADDR_INVALID; *f6 = 1; return 0; }
    if (!is_ipv4 (d + 1, br)) return -EEAV_IPADDR_INVALID;
    *f4 = 1;
    return 0;
}

/* stub callback for J lines */
static int stub_rc;
static eav_result_t *stub_cb (const char *e, size_t l, bool t)
{
    (void) e; (void) l; (void) t;
    eav_result_t *r = malloc (sizeof *r);
    memset (r, 0, sizeof *r);
    r->rc = stub_rc;
    return r;
}

static const char *table_msg[EEAV_MAX];
static void load_messages (void)
{
    eav_t e; memset (&e, 0, sizeof e);
    for (int k = 0; k < EEAV_MAX; k++) {
        if (k == EEAV_IDN_ERROR) { table_msg[k] = NULL; continue; }
        e.errcode = k; table_msg[k] = eav_errstr (&e);
    }
}
static void print_msg (eav_t *e)
{
    const char *m = eav_errstr (e);
    if (m == NULL) { fputs ("N", stdout); return; }
    if (*m == 0) { fputs ("EMPTY", stdout); return; }
    if (e->errcode == EEAV_IDN_ERROR) {
        int code = e->result ? (int) e->result->idn_rc : 0;
        if (strcmp (m, BACKEND_STRERROR (code)) == 0) printf ("I%d", code);
        else { fputs ("?", stdout); puthex (m); }
        return;
    }
    for (int k = 0; k < EEAV_MAX; k++)
        if (table_msg[k] && strcmp (m, table_msg[k]) == 0) { printf ("T%d", k); return; }
    fputs ("?", stdout); puthex (m);
}

/* A line: ops separated by blanks.
 *   i          eav_init            r<z>  eav.rfc = z      t<0|1> tld_check    m<z> allow_tld = z
 *   s          eav_setup           x     eav_errstr       f      eav_free
 *   e<hex>/<orc>/<oa>/<ob>         eav_is_email with that oracle answer
 * token printed per op:  <out>:<errcode>:<live>   (+ :rc,idn_rc,flags,calls,argok after e) */
static void run_history (char **tok, int ntok)
{
    eav_t *e = __real_malloc (sizeof *e);
    if (!getenv ("DRV_NOPOISON")) memset (e, 0xA5, sizeof *e);
    long base = n_alloc - n_free;
#ifdef HAVE_IDNKIT
    long kit_base[4] = { verif_kit_created, verif_kit_destroyed, verif_kit_bad_destroy, verif_kit_use_after_destroy };
#endif
    for (int i = 0; i < ntok; i++) {
        const char *t = tok[i];
        if (i) putchar (' ');
        switch (t[0]) {
        case 'i': eav_init (e); fputs ("-", stdout); break;
        case 'r': e->rfc = (EAV_RFC) atoi (t + 1); fputs ("-", stdout); break;
        case 't': e->tld_check = t[1] == '1'; fputs ("-", stdout); break;
        case 'm': e->allow_tld = atoi (t + 1); fputs ("-", stdout); break;
        case 's': printf ("R%d", eav_setup (e)); break;
        case 'x': print_msg (e); break;
        case 'f': eav_free (e); fputs ("-", stdout); break;
        case 'e': {
            char *p1 = strchr (t, '/'), *p2, *p3;
            *p1 = 0; p2 = strchr (p1 + 1, '/'); *p2 = 0; p3 = strchr (p2 + 1, '/'); *p3 = 0;
            size_t n = unhex (t + 1, a_buf);
            o_rc = atoi (p1 + 1); unhex (p2 + 1, b_buf); o_out = b_buf; o_buf = p3[1] == '1';
            const char *at = strrchr (a_buf, '@');
            o_expect = at ? at + 1 : NULL; idn_calls = 0; idn_argok = 1;
            int ret = eav_is_email (e, a_buf, n);
            printf ("R%d:%d:%ld:%d,%d,%d%d%d,%d,%d", ret, e->errcode, n_alloc - n_free - base,
                    e->result->rc, (int) e->result->idn_rc, e->result->is_ipv4, e->result->is_ipv6,
                    e->result->is_domain, idn_calls, idn_argok);
            continue;
        }
        case 'n': {     /* the call the library itself answers for a missing address: (NULL, 0) */
            idn_calls = 0; idn_argok = 1; o_expect = NULL;
            int ret = eav_is_email (e, NULL, 0);
            if (e->result)
                printf ("R%d:%d:%ld:%d,%d,%d%d%d,%d,%d", ret, e->errcode, n_alloc - n_free - base,
                        e->result->rc, (int) e->result->idn_rc, e->result->is_ipv4, e->result->is_ipv6,
                        e->result->is_domain, idn_calls, idn_argok);
            else
                printf ("R%d:%d:%ld:NORESULT", ret, e->errcode, n_alloc - n_free - base);
            continue;
        }
        default: fputs ("BADOP", stdout); break;
        }
        printf (":%d:%ld", e->errcode, n_alloc - n_free - base);
    }
#ifdef HAVE_IDNKIT
    printf (" K%ld,%ld,%ld,%ld", verif_kit_created - kit_base[0], verif_kit_destroyed - kit_base[1], verif_kit_bad_destroy - kit_base[2], verif_kit_use_after_destroy - kit_base[3]);
#endif
    putchar ('\n');
    __real_free (e);
}

static const tld_t **z_rows; static size_t z_n;
static int z_cmp (const void *a, const void *b) { return strcmp ((*(const tld_t *const *) a)->domain, (*(const tld_t *const *) b)->domain); }

/* a crash inside the library: report it as the result of the current case and stop;
   the harness restarts the driver on the remaining cases */
#include <setjmp.h>
static sigjmp_buf h_jmp; static volatile int h_active;
static void on_crash (int sig)
{
    if (h_active && (sig == SIGSEGV || sig == SIGBUS)) siglongjmp (h_jmp, 1);
    printf ("CRASH:sig%d\n", sig);
    fflush (stdout);
    _exit (70);
}

/* ---- read extent of one scanner call (C06, layer A): the smallest k such that the call returns when only the first k
   bytes of the C string are mapped (byte k would fall on a PROT_NONE page), i.e. 1 + the highest index read; and whether
   anything before the first byte is read.  Execution is deterministic and sees the same bytes below k, so faulting is
   monotone in k and a bisection finds the bound. */
static int h_call (int fn, const char *s, const char *e)
{
    switch (fn) {
    case '8': return is_822_local (s, e);
    case '1': return is_5321_local (s, e);
    case '2': return is_5322_local (s, e);
    case '3': return is_6531_local (s, e);
    case '4': return is_ipv4 (s, e);
    case '6': return is_ipv6 (s, e);
    case 'P': return is_ipaddr (s, e);
    case 'S': return is_special_domain (s, e);
    case 'a': case 'b': case 'c': {
        eav_result_t *r = fn == 'a' ? is_822_email (s, (size_t) (e - s), true) : fn == 'b' ? is_5321_email (s, (size_t) (e - s), true) : is_5322_email (s, (size_t) (e - s), true);
        int rc = r->rc; eav_result_free (r); return rc;
    }
    default:  return is_ascii_domain (s, e);
    }
}
static volatile int h_rc;
static int h_try (int fn, const char *s, const char *e)   /* 1 = returned, 0 = faulted */
{
    h_active = 1;
    if (sigsetjmp (h_jmp, 1) == 0) { h_rc = h_call (fn, s, e); h_active = 0; return 1; }
    h_active = 0; return 0;
}
static void read_extent (int fn, const char *src, size_t n, size_t total)   /* total = bytes including the terminator */
{
    size_t pg = 4096, need = ((total + pg - 1) / pg) * pg;
    size_t len = need + 2 * pg;
    char *base = mmap (NULL, len, PROT_READ | PROT_WRITE, MAP_PRIVATE | MAP_ANONYMOUS, -1, 0);
    mprotect (base, pg, PROT_NONE); mprotect (base + pg + need, pg, PROT_NONE);
    char *fence = base + pg + need;
    /* highest index read */
    long lo = 0, hi = (long) total, kmin = -1; int rc = 0;
    memcpy (fence - total, src, total);
    if (!h_try (fn, fence - total, fence - total + n)) { printf ("BEYOND\n"); munmap (base, len); return; }
    rc = h_rc; kmin = hi;
    while (lo < hi) {           /* invariant: hi returns; everything below lo faults */
        long k = (lo + hi) / 2;
        memset (base + pg, 0x5a, need); memcpy (fence - k, src, (size_t) k);
        if (h_try (fn, fence - k, fence - k + n)) { hi = k; rc = h_rc; } else lo = k + 1;
    }
    kmin = hi;
    /* anything before the first byte */
    memset (base + pg, 0, need); memcpy (base + pg, src, total);
    int under = !h_try (fn, base + pg, base + pg + n);
    printf ("%ld %d %d\n", kmin, under, under ? 0 : rc);
    munmap (base, len);
}

int main (void)
{
    static char line[8 * BUFSZ];
    char *f[4096];
    signal (SIGSEGV, on_crash); signal (SIGABRT, on_crash); signal (SIGBUS, on_crash);
    signal (SIGFPE, on_crash); signal (SIGILL, on_crash);
    /* a case that does not return (termination is part of C06): SIGALRM ends it like a crash, CRASH:sig14 is its result */
    signal (SIGALRM, on_crash);
    unsigned case_timeout = getenv ("DRV_CASE_TIMEOUT") ? (unsigned) atoi (getenv ("DRV_CASE_TIMEOUT")) : 5;
    if (getenv ("DRV_LINEBUF")) setvbuf (stdout, NULL, _IOLBF, 0);
    { const char *pm = getenv ("DRV_PLACE"); place_mode = !pm ? 0 : !strcmp (pm, "tight") ? 1 : !strcmp (pm, "guard_end") ? 2 : !strcmp (pm, "guard_start") ? 3 : 0; }
#ifdef HAVE_IDNKIT
    idn_resconf_create (&g_ctx);
#endif
    load_messages ();
    while (fgets (line, sizeof line, stdin)) {
        int nf = 0;
        for (char *p = strtok (line, " \n"); p && nf < 4096; p = strtok (NULL, " \n")) f[nf++] = p;
        if (nf == 0) continue;
        char k = f[0][0];
        alarm (case_timeout);
        if (k == 'A') { run_history (f + 1, nf - 1); continue; }
        if (k == 'L' || k == 'D' || k == '4' || k == '6' || k == 'P') {
            size_t n = unhex (f[1], a_buf);
            size_t r = unhex (nf > 2 ? f[2] : "-", a_buf + n);
            a_buf[n + r] = 0;
            char *placed = place_mode ? place (a_buf, n + r) : NULL;
            const char *s = placed ? placed : a_buf, *e = s + n;
            if (k == 'L') printf ("%d %d %d %d\n", is_822_local (s, e), is_5321_local (s, e), is_5322_local (s, e), is_6531_local (s, e));
            else if (k == 'D') printf ("%d\n", is_ascii_domain (s, e));
            else if (k == '4') printf ("%d\n", is_ipv4 (s, e));
            else if (k == '6') printf ("%d\n", is_ipv6 (s, e));
            else printf ("%d\n", is_ipaddr (s, e));
            if (placed) unplace (placed);
        }
        else if (k == 'Z') {
            /* Z c secs : every label over [a-z0-9-] that starts with the character c, shortest first, through is_tld for about
               `secs` seconds; expected = the class of the row of tld_list[] with exactly that name, "invalid TLD" otherwise
               (tld_list[] itself is regenerated into the model on every run).  Output: labels tried, longest length completed,
               first labels judged otherwise. */
            static const char alpha[] = "abcdefghijklmnopqrstuvwxyz0123456789-";
            int secs = nf > 2 ? atoi (f[2]) : 2;
            alarm (secs + case_timeout);
            struct timespec t0, t1; clock_gettime (CLOCK_MONOTONIC, &t0);
            if (!z_rows) {
                for (const tld_t *t = tld_list; t->domain != NULL; t++) z_n++;
                z_rows = __real_malloc ((z_n + 1) * sizeof *z_rows);
                for (size_t i = 0; i < z_n; i++) z_rows[i] = &tld_list[i];
                qsort (z_rows, z_n, sizeof *z_rows, z_cmp);
            }
            char lab[16]; int idx[16]; long tried = 0; int done_len = 0, nbad = 0, stop = 0;
            char bad[3][40];
            for (int L = 1; L <= 10 && !stop; L++) {
                for (int i = 1; i < L; i++) idx[i] = 0;
                for (;;) {
                    lab[0] = f[1][0];
                    for (int i = 1; i < L; i++) lab[i] = alpha[idx[i]];
                    lab[L] = 0;
                    int want = inverse (EEAV_TLD_INVALID);
                    { size_t lo = 0, hi = z_n;          /* own sorted copy of the table's names */
                      while (lo < hi) { size_t mid = (lo + hi) / 2; int c = strcmp (z_rows[mid]->domain, lab);
                                        if (c == 0) { want = z_rows[mid]->type; break; } if (c < 0) lo = mid + 1; else hi = mid; } }
                    int got = is_tld (lab, lab + L);
                    tried++;
                    if (got != want && nbad < 3) { snprintf (bad[nbad], sizeof bad[nbad], "%s=%d/%d", lab, got, want); nbad++; }
                    if ((tried & 1023) == 0) {
                        clock_gettime (CLOCK_MONOTONIC, &t1);
                        if (t1.tv_sec - t0.tv_sec >= secs) { stop = 1; break; }
                    }
                    int i = L - 1;
                    while (i >= 1 && ++idx[i] == (int) sizeof alpha - 1) { idx[i] = 0; i--; }
                    if (i < 1) break;
                }
                if (!stop) done_len = L;
            }
            printf ("%ld %d", tried, done_len);
            for (int i = 0; i < nbad; i++) printf (" %s", bad[i]);
            putchar ('\n');
        }
        else if (k == 'W') {
#ifdef HAVE_DECODER_H
            if (utf8_decode_init && utf8_decode_next && utf8_decode_at_byte && utf8_decode_at_character) {
                size_t n = unhex (f[1], a_buf);
                a_buf[n] = 0;
                char *placed = place_mode ? place (a_buf, n) : NULL;
                utf8_decode_t u;
                utf8_decode_init (placed ? placed : a_buf, (int) n, &u);
                for (size_t guard = 0; guard <= n + 1; guard++) {
                    int c = utf8_decode_next (&u);
                    if (c == UTF8_END) { fputs ("E", stdout); break; }
                    if (c == UTF8_ERROR) { fputs ("X", stdout); break; }
                    printf ("%d,", c);
                }
                printf (" %d %d\n", utf8_decode_at_byte (&u), utf8_decode_at_character (&u));
                if (placed) unplace (placed);
            } else
#endif
            puts ("n/a");
        }
        else if (k == 'H') {
            size_t n = unhex (f[2], a_buf);
            size_t r = unhex (nf > 3 ? f[3] : "-", a_buf + n);
            a_buf[n + r] = 0;
            read_extent (f[1][0], a_buf, n, n + r + 1);
        }
        else if (k == 'S' || k == 'T') {
            size_t n = unhex (f[1], a_buf);
            char *placed = place_mode ? place (a_buf, n) : NULL;
            const char *s = placed ? placed : a_buf;
            printf ("%d\n", k == 'S' ? is_special_domain (s, s + n) : is_tld (s, s + n));
            if (placed) unplace (placed);
        }
        else if (k == 'U' || k == 'E' || k == 'K') {
            int off = k != 'U' ? 1 : 0;
            int m = k != 'U' ? atoi (f[1]) : 3;
            int tld = atoi (f[1 + off]);
            size_t n = unhex (f[2 + off], a_buf);
            o_rc = atoi (f[3 + off]); unhex (f[4 + off], b_buf); o_out = b_buf; o_buf = atoi (f[5 + off]);
            idn_calls = 0; idn_argok = 1;
            char *placed = place_mode ? place (a_buf, n) : NULL;
            if (placed) { memcpy (c_buf, a_buf, n + 1); }
            const char *in = placed ? placed : a_buf;
            long base = n_alloc - n_free;
            if (k == 'U') {
#ifdef HAVE_IDNKIT
                idn_result_t ir = 0;
#else
                int ir = 0;
#endif
                o_expect = in;
                int rc = CALL_U8DOM (&ir, in, in + n, tld);
                printf ("%d %d %d %d %ld\n", rc, (int) ir, idn_calls, idn_argok, n_alloc - n_free - base);
            } else if (k == 'K') {
                int f4, f6, fd, ir;
                const char *at = strrchr (in, '@');
                o_expect = at ? at + 1 : NULL;
                int rc = compose (m, in, n, tld, &f4, &f6, &fd, &ir);
                printf ("%d %d %d%d%d\n", rc, ir, f4, f6, fd);
            } else {
                const char *at = strrchr (in, '@');
                o_expect = at ? at + 1 : NULL;
                eav_result_t *r = call_email (m, in, n, tld);
                print_result (r);
                long live = n_alloc - n_free - base;
                eav_result_free (r);
                printf (" %d %d %ld %ld\n", idn_calls, idn_argok, live, n_alloc - n_free - base);
            }
            if (placed) unplace (placed);
        }
        else if (k == 'M') {
            eav_t e; eav_init (&e);
            size_t n = unhex (f[1], a_buf);
            o_rc = atoi (f[2]); unhex (f[3], b_buf); o_out = b_buf; o_buf = atoi (f[4]);
            const char *at = strrchr (a_buf, '@');
            o_expect = at ? at + 1 : NULL; idn_calls = 0; idn_argok = 1;
            int st = eav_setup (&e);
            int ret = st == 0 ? eav_is_email (&e, a_buf, n) : -1;
            printf ("%d ", ret); puthex (eav_errstr (&e)); printf ("\n");
            eav_free (&e);
        }
        else if (k == 'J') {
            eav_t e; eav_init (&e);
            int m = atoi (f[1]);
            e.rfc = (EAV_RFC) m; e.allow_tld = atoi (f[2]); e.tld_check = atoi (f[3]);
            int st = eav_setup (&e);
            e.ascii_cb = stub_cb; e.utf8_cb = (eav_utf8_f) stub_cb;
            stub_rc = atoi (f[4]);
            int ret = st == 0 ? eav_is_email (&e, "x", 1) : -1;
            printf ("%d %d\n", ret, e.errcode);
            eav_free (&e);
        }
        else printf ("BADKIND\n");
    }
    return 0;
}
